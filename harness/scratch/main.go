package main

import (
	"bytes"
	"fmt"

	icl "github.com/moov-io/imagecashletter"
)

func main() {
	b := icl.NewCheckDetailAddendumB()
	b.ImageReferenceKeyIndicator = 1
	b.MicrofilmArchiveSequenceNumber = "1A"
	b.LengthImageReferenceKey = "0010"
	b.ImageReferenceKey = "0123456789"
	b.Description = "desc"
	b.UserField = "uf"
	s := b.String()
	fmt.Printf("%d %q\n", len(s), s)
	var p icl.CheckDetailAddendumB
	p.Parse(s)
	fmt.Printf("%+v\n", p.Description)
	b.LengthImageReferenceKey = "0000"
	b.ImageReferenceKey = ""
	s = b.String()
	fmt.Printf("%d %q\n", len(s), s)
	var q icl.CheckDetailAddendumB
	q.Parse(s)
	fmt.Printf("desc=%q uf=%q\n", q.Description, q.UserField)
	_ = bytes.NewReader
}
