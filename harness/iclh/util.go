package main

import (
	"encoding/hex"
	"encoding/json"
	"fmt"
	"math/rand"
	"os"
	"path/filepath"
	"sort"
	"strings"
	"time"
)

func hx(b []byte) string {
	if len(b) == 0 {
		return "-"
	}
	return hex.EncodeToString(b)
}

func unhx(s string) []byte {
	if s == "-" || s == "" {
		return nil
	}
	b, err := hex.DecodeString(s)
	if err != nil {
		panic(err)
	}
	return b
}

// Violation is one property failure found on the implementation.
type Violation struct {
	Key     string `json:"key"`  // structural key (matched against known_findings.json)
	What    string `json:"what"` // human description
	Replay  any    `json:"replay"`
	NoInput bool   `json:"no_failing_input_found,omitempty"`
}

// Report is what a harness subcommand hands back to the check script.
type Report struct {
	Property     string         `json:"property"`
	Tier         string         `json:"tier"`
	Seed         int64          `json:"seed"`
	Evaluations  int            `json:"evaluations"`
	Distinct     int            `json:"distinct_nontrivial"`
	Rule         string         `json:"rule"`
	Samples      []any          `json:"samples"`
	Exhaustive   bool           `json:"exhaustive,omitempty"`
	Dist         map[string]int `json:"distribution"`
	CorrOps      int            `json:"correspondence_ops"`
	CorrDisagree int            `json:"correspondence_disagreements"`
	Violations   []Violation    `json:"violations"`
	Notes        []string       `json:"notes,omitempty"`
	WallS        float64        `json:"wall_s"`
	distinct     map[string]bool
	start        time.Time
}

func newReport(prop, tier string, seed int64) *Report {
	return &Report{Property: prop, Tier: tier, Seed: seed, Dist: map[string]int{}, distinct: map[string]bool{}, start: time.Now()}
}

func (r *Report) count(k string)          { r.Dist[k]++ }
func (r *Report) nontrivial(canon string) { r.distinct[canon] = true }
func (r *Report) sample(s any) {
	if len(r.Samples) < 6 {
		r.Samples = append(r.Samples, s)
	}
}
func (r *Report) violate(v Violation) {
	for _, o := range r.Violations {
		if o.Key == v.Key {
			return // one replay per structural key
		}
	}
	r.Violations = append(r.Violations, v)
}

func (r *Report) write(path string) {
	r.Distinct = len(r.distinct)
	r.WallS = time.Since(r.start).Seconds()
	if r.Violations == nil {
		r.Violations = []Violation{}
	}
	b, _ := json.MarshalIndent(r, "", " ")
	os.MkdirAll(filepath.Dir(path), 0o755)
	if err := os.WriteFile(path, b, 0o644); err != nil {
		panic(err)
	}
}

func sortedKeys[V any](m map[string]V) []string {
	ks := make([]string, 0, len(m))
	for k := range m {
		ks = append(ks, k)
	}
	sort.Strings(ks)
	return ks
}

type rng struct{ *rand.Rand }

func newRng(seed int64) rng { return rng{rand.New(rand.NewSource(seed))} }

func (r rng) pick(xs []string) string { return xs[r.Intn(len(xs))] }

func (r rng) asciiStr(n int, alphabet string) string {
	var sb strings.Builder
	for i := 0; i < n; i++ {
		sb.WriteByte(alphabet[r.Intn(len(alphabet))])
	}
	return sb.String()
}

func readFile(path string) ([]byte, error) { return os.ReadFile(path) }

func fatal(format string, a ...any) {
	fmt.Fprintf(os.Stderr, format+"\n", a...)
	os.Exit(2)
}
