package main

import (
	"bytes"
	"encoding/json"
	"fmt"
	"os"
	"path/filepath"
	"runtime"
	"sort"
	"strings"
	"time"

	icl "github.com/moov-io/imagecashletter"
)

// guarded runs fn under recover with a wall-clock bound; returns panic value / timeout flag.
func guarded(fn func()) (panicked any, timedOut bool) {
	done := make(chan any, 1)
	go func() {
		defer func() { done <- recover() }()
		fn()
	}()
	select {
	case p := <-done:
		return p, false
	case <-time.After(5 * time.Second):
		return nil, true
	}
}

// observe: everything a caller may do with a file it got back (even together with an error)
func observe(f *icl.File) (what string, p any) {
	steps := []struct {
		name string
		fn   func()
	}{
		{"Validate", func() { _ = f.Validate() }},
		{"json.Marshal", func() { _, _ = json.Marshal(f) }},
		{"Write nl+ascii", func() {
			_, _, pp := realWrite(f, encCfg{})
			if pp != nil {
				panic(pp)
			}
		}},
		{"Write lp+ebcdic", func() {
			_, _, pp := realWrite(f, encCfg{true, true})
			if pp != nil {
				panic(pp)
			}
		}},
		{"one Writer used again after its Write (Write, Flush, Write, Flush)", func() {
			// whatever the first Write answered, the Writer must stay usable: callers flush and write again
			for _, e := range allEnc {
				var buf bytes.Buffer
				var opts []icl.WriterOption
				if e.LP {
					opts = append(opts, icl.WriteVariableLineLengthOption())
				}
				if e.EBCDIC {
					opts = append(opts, icl.WriteEbcdicEncodingOption())
				}
				w := icl.NewWriter(&buf, opts...)
				_ = w.Write(f)
				w.Flush()
				_ = w.Write(f)
				w.Flush()
			}
		}},
		{"Create", func() { _ = f.Create() }},
		{"CashLetter.Create", func() {
			for i := range f.CashLetters {
				_ = f.CashLetters[i].Create()
			}
		}},
		{"Create again", func() { _ = f.Create() }},
		{"Write lp+ascii after Create", func() {
			_, _, pp := realWrite(f, encCfg{true, false})
			if pp != nil {
				panic(pp)
			}
		}},
		{"Write nl+ebcdic after Create", func() {
			_, _, pp := realWrite(f, encCfg{false, true})
			if pp != nil {
				panic(pp)
			}
		}},
	}
	for _, s := range steps {
		pp, to := guarded(s.fn)
		if pp != nil {
			return s.name, pp
		}
		if to {
			return s.name, "timeout (>5s)"
		}
	}
	return "", nil
}

func panicSite(p any) string {
	s := fmt.Sprint(p)
	if len(s) > 60 {
		s = s[:60]
	}
	// first frame inside the library
	buf := make([]byte, 1<<16)
	_ = buf
	return s
}

// array-valued member names seen in any document so far (forward and return files name different ones)
var knownArrayKeys = map[string]bool{"checks": true, "returns": true, "bundles": true}

// jsonMutations: every single-position mutation of a JSON document (null, absent, wrong type, [null]).
func jsonMutations(doc any) []struct {
	desc string
	doc  []byte
} {
	var out []struct {
		desc string
		doc  []byte
	}
	var paths [][]any
	var walk func(v any, path []any)
	walk = func(v any, path []any) {
		paths = append(paths, append([]any{}, path...))
		switch x := v.(type) {
		case map[string]any:
			ks := make([]string, 0, len(x))
			for k := range x {
				ks = append(ks, k)
			}
			sort.Strings(ks)
			for _, k := range ks {
				walk(x[k], append(path, k))
			}
		case []any:
			for i := range x {
				if i < 2 {
					walk(x[i], append(path, i))
				}
			}
		}
	}
	walk(doc, nil)
	clone := func() any {
		b, _ := json.Marshal(doc)
		var c any
		json.Unmarshal(b, &c)
		return c
	}
	set := func(root any, path []any, f func(cur any) (any, bool)) (any, bool) {
		if len(path) == 0 {
			nv, keep := f(root)
			_ = keep
			return nv, true
		}
		cur := root
		for _, p := range path[:len(path)-1] {
			switch k := p.(type) {
			case string:
				cur = cur.(map[string]any)[k]
			case int:
				cur = cur.([]any)[k]
			}
		}
		last := path[len(path)-1]
		switch k := last.(type) {
		case string:
			m := cur.(map[string]any)
			nv, keep := f(m[k])
			if keep {
				m[k] = nv
			} else {
				delete(m, k)
			}
		case int:
			a := cur.([]any)
			nv, _ := f(a[k])
			a[k] = nv
		}
		return root, true
	}
	pstr := func(path []any) string {
		var sb strings.Builder
		for _, p := range path {
			fmt.Fprintf(&sb, "/%v", p)
		}
		if sb.Len() == 0 {
			return "/"
		}
		return sb.String()
	}
	// members that are arrays somewhere in the document, set to [null] in every object that has an array member of its
	// own but not this one (the "returns" of a bundle of forward items, the "checks" of a bundle of returns, ...)
	arrayKeys := map[string]bool{}
	var collect func(v any)
	collect = func(v any) {
		switch x := v.(type) {
		case map[string]any:
			for k, c := range x {
				if _, ok := c.([]any); ok {
					arrayKeys[k] = true
				}
				collect(c)
			}
		case []any:
			for _, c := range x {
				collect(c)
			}
		}
	}
	collect(doc)
	for k := range arrayKeys {
		knownArrayKeys[k] = true
	}
	var aks []string
	for k := range knownArrayKeys {
		aks = append(aks, k)
	}
	sort.Strings(aks)
	for _, path := range paths {
		c := clone()
		cur := c
		okPath := true
		for _, pp := range path {
			switch k := pp.(type) {
			case string:
				m, ok := cur.(map[string]any)
				if !ok {
					okPath = false
				} else {
					cur = m[k]
				}
			case int:
				a, ok := cur.([]any)
				if !ok || k >= len(a) {
					okPath = false
				} else {
					cur = a[k]
				}
			}
			if !okPath {
				break
			}
		}
		obj, isObj := cur.(map[string]any)
		if !okPath || !isObj {
			continue
		}
		hasArray := false
		for _, v := range obj {
			if a, ok := v.([]any); ok && len(a) > 0 {
				hasArray = true
			}
		}
		if !hasArray {
			continue
		}
		for _, k := range aks {
			if v, present := obj[k]; present && v != nil {
				continue
			}
			c2 := clone()
			cur2 := c2
			for _, pp := range path {
				switch kk := pp.(type) {
				case string:
					cur2 = cur2.(map[string]any)[kk]
				case int:
					cur2 = cur2.([]any)[kk]
				}
			}
			cur2.(map[string]any)[k] = []any{nil}
			b, _ := json.Marshal(c2)
			out = append(out, struct {
				desc string
				doc  []byte
			}{"sibling-array-[null] " + k + " at " + pstr(path), b})
		}
	}
	// integers beyond every column width (1e16, the largest int64), written into the document text
	for _, path := range paths {
		for hi, huge := range []string{"10000000000000000", "9223372036854775807", "-9223372036854775808"} {
			c := clone()
			isNum := false
			c, _ = set(c, path, func(cur any) (any, bool) {
				if _, ok := cur.(float64); ok {
					isNum = true
					return 7777777.0 + float64(hi), true
				}
				return cur, true
			})
			if !isNum {
				break
			}
			b, _ := json.Marshal(c)
			b = bytes.Replace(b, []byte(fmt.Sprint(7777777+hi)), []byte(huge), 1)
			out = append(out, struct {
				desc string
				doc  []byte
			}{"huge-number " + huge + " at " + pstr(path), b})
		}
	}
	for _, path := range paths {
		muts := []struct {
			name string
			f    func(cur any) (any, bool)
		}{
			{"null", func(any) (any, bool) { return nil, true }},
			{"absent", func(any) (any, bool) { return nil, false }},
			{"wrong-type", func(cur any) (any, bool) {
				switch cur.(type) {
				case string:
					return 12345.0, true
				case float64:
					return "x", true
				case map[string]any:
					return []any{}, true
				case []any:
					return map[string]any{}, true
				case bool:
					return "true", true
				}
				return map[string]any{}, true
			}},
			{"[null]", func(cur any) (any, bool) {
				// an array - or a member that is null in this document and may be an array in another (the "returns" of a
				// bundle of forward items) - holding a single null
				if _, ok := cur.([]any); ok || cur == nil {
					return []any{nil}, true
				}
				return cur, true
			}},
			{"[{},null]", func(cur any) (any, bool) {
				if _, ok := cur.([]any); ok {
					return []any{map[string]any{}, nil}, true
				}
				return cur, true
			}},
			{"{}", func(cur any) (any, bool) {
				if _, ok := cur.(map[string]any); ok {
					return map[string]any{}, true
				}
				return cur, true
			}},
			// arrays whose lengths other arrays are expected to match (image views, addenda): one element
			// fewer / one more
			{"drop-first", func(cur any) (any, bool) {
				if a, ok := cur.([]any); ok && len(a) > 0 {
					return append([]any{}, a[1:]...), true
				}
				return cur, true
			}},
			{"drop-last", func(cur any) (any, bool) {
				if a, ok := cur.([]any); ok && len(a) > 0 {
					return append([]any{}, a[:len(a)-1]...), true
				}
				return cur, true
			}},
			{"repeat-last", func(cur any) (any, bool) {
				if a, ok := cur.([]any); ok && len(a) > 0 {
					return append(append([]any{}, a...), a[len(a)-1]), true
				}
				return cur, true
			}},
		}
		for _, m := range muts {
			c := clone()
			root, _ := set(c, path, m.f)
			b, _ := json.Marshal(root)
			out = append(out, struct {
				desc string
				doc  []byte
			}{m.name + " at " + pstr(path), b})
		}
	}
	return out
}

func runC05(cfg *config) *Report {
	rep := newReport("C05", cfg.tier, cfg.seed)
	r := newRng(cfg.seed + 5000)
	rep.Rule = "reader: every record of generated files cut or blank-padded to every length 0..len+3, with lying embedded length fields and lying length prefixes, multi-byte and invalid UTF-8 text, random bytes, the repository's crasher corpus, x the four reader option sets; JSON: a full generated document with every position (first two elements of each array) set to null / removed / given the wrong type / [null] / [{},null] / {} / one array element dropped or repeated; every returned file (also the partial one returned with an error) is validated, marshalled, written in the four encodings and built, all under recover and a 5 s bound; allocation per read bounded by 64*(input+buffer)+4 MiB; reader outcomes also compared with the Lean model; non-trivial = input is not a valid file; distinct by input bytes"
	now := today()
	type rcase struct {
		in   []byte
		e    encCfg
		desc string
	}
	var rcases []rcase
	// one forward and one return file at least: the two item kinds have their own records, JSON members and decoders
	nFiles := 2
	if cfg.tier == "thorough" {
		nFiles = 6
	}
	var docs []any
	for fi := 0; fi < nFiles; {
		f, err := genFile(r, genOpts{maxCL: 1, maxBundles: 1, maxItems: 2, mutateP: 30, kind: 1 + fi%2})
		if err != nil {
			continue
		}
		var kinds = map[string]bool{}
		for _, e := range allEnc {
			out, werr, _ := realWrite(f, e)
			if werr != nil {
				continue
			}
			// split into records
			var recs [][]byte
			if e.LP {
				recs, _ = stripPrefixes(out)
			} else {
				recs = bytes.Split(bytes.TrimRight(out, "\n"), []byte("\n"))
			}
			join := func(rs [][]byte) []byte {
				var b bytes.Buffer
				for _, x := range rs {
					if e.LP {
						b.Write([]byte{byte(len(x) >> 24), byte(len(x) >> 16), byte(len(x) >> 8), byte(len(x))})
						b.Write(x)
					} else {
						b.Write(x)
						b.WriteByte('\n')
					}
				}
				return b.Bytes()
			}
			for i, rec := range recs {
				k := string(rec[:2])
				if kinds[e.String()+k] && cfg.tier != "thorough" {
					continue
				}
				kinds[e.String()+k] = true
				lens := []int{}
				for n := 0; n <= len(rec)+3; n++ {
					if cfg.tier == "thorough" || n < 6 || n > len(rec)-12 || n%7 == 0 || (n >= 76 && n <= 84) || (n >= 100 && n <= 120) {
						lens = append(lens, n)
					}
				}
				for _, n := range lens {
					m := append([]byte{}, rec...)
					if n <= len(m) {
						m = m[:n]
					} else {
						pad := byte(' ')
						if e.EBCDIC {
							pad = 0x40
						}
						for len(m) < n {
							m = append(m, pad)
						}
					}
					rs := append(append(append([][]byte{}, recs[:i]...), m), recs[i+1:]...)
					rcases = append(rcases, rcase{join(rs), e, fmt.Sprintf("record %d (%s) resized to %d bytes", i+1, k, n)})
				}
				// multi-byte / invalid UTF-8 text at seeded columns
				for j := 0; j < 4 && len(rec) > 10; j++ {
					m := append([]byte{}, rec...)
					p := 2 + r.Intn(len(m)-4)
					copy(m[p:], [][]byte{{0xC3, 0xA9}, {0xFF, 0xFE}, {0xE2, 0x82}, {0xF0, 0x9F}}[j])
					rs := append(append(append([][]byte{}, recs[:i]...), m), recs[i+1:]...)
					rcases = append(rcases, rcase{join(rs), e, fmt.Sprintf("record %d (%s) with non-ASCII bytes at %d", i+1, k, p)})
				}
				// lying embedded length fields
				if k == "27" || k == "34" || k == "52" || k == "\xf2\xf7" || k == "\xf3\xf4" || k == "\xf5\xf2" {
					cols := [][2]int{{18, 22}}
					if k == "52" || k == "\xf5\xf2" {
						cols = [][2]int{{101, 105}, {105, 110}, {110, 117}}
					}
					for _, c := range cols {
						for _, v := range []string{"9999999", "0000000", "-000001", "       ", "00000x1", "0099999"} {
							m := append([]byte{}, rec...)
							if c[1] > len(m) {
								continue
							}
							w := c[1] - c[0]
							val := []byte(v[len(v)-w:])
							if e.EBCDIC {
								for q := range val {
									switch {
									case val[q] >= '0' && val[q] <= '9':
										val[q] += 0xC0
									case val[q] == ' ':
										val[q] = 0x40
									case val[q] == '-':
										val[q] = 0x60
									}
								}
							}
							copy(m[c[0]:c[1]], val)
							rs := append(append(append([][]byte{}, recs[:i]...), m), recs[i+1:]...)
							rcases = append(rcases, rcase{join(rs), e, fmt.Sprintf("record %d (%s) columns %d-%d = %q", i+1, k, c[0]+1, c[1], v)})
						}
					}
				}
			}
			if !e.EBCDIC {
				// structural faults: every record deleted / duplicated, every cut, a sample of moves, whole containers
				// repeated or removed - the reader's state machine on sequences it was not written for
				for _, fc := range singleFaults(recs, map[string][]byte{}, nil, cfg.tier == "thorough", r) {
					rcases = append(rcases, rcase{join(fc.lines), e, "structural fault: " + fc.desc})
				}
			}
			if e.LP {
				// lying prefixes
				for j := 0; j < 12; j++ {
					m := append([]byte{}, out...)
					bs := prefixBoundaries(m)
					p := bs[r.Intn(len(bs))]
					copy(m[p:p+4], [][]byte{{0, 0, 0, 0}, {0xff, 0xff, 0xff, 0xff}, {0x7f, 0xff, 0xff, 0xff}, {0, 0, 0, 1}, {0, 0, 1, 0}, {0x80, 0, 0, 0}}[j%6])
					rcases = append(rcases, rcase{m, e, fmt.Sprintf("length prefix at %d overwritten", p)})
				}
			}
		}
		fi++
		// the JSON document: its first item carries two complete image views, so that the arrays whose
		// lengths must agree (detail / data / analysis) have a length worth disagreeing about
		for _, cl := range f.CashLetters {
			for _, bd := range cl.Bundles {
				if len(bd.Checks) > 0 {
					cd := bd.Checks[0]
					for len(cd.ImageViewDetail) < 2 || len(cd.ImageViewData) < len(cd.ImageViewDetail) || len(cd.ImageViewAnalysis) < len(cd.ImageViewDetail) {
						if len(cd.ImageViewData) >= len(cd.ImageViewDetail) && len(cd.ImageViewAnalysis) >= len(cd.ImageViewDetail) {
							cd.AddImageViewDetail(baseImageViewDetail())
						}
						if len(cd.ImageViewData) < len(cd.ImageViewDetail) {
							cd.AddImageViewData(mkIVData(r, genOpts{}))
						}
						if len(cd.ImageViewAnalysis) < len(cd.ImageViewDetail) {
							cd.AddImageViewAnalysis(baseImageViewAnalysis())
						}
					}
				}
				if len(bd.Returns) > 0 {
					rd := bd.Returns[0]
					for len(rd.ImageViewDetail) < 2 {
						rd.AddImageViewDetail(baseImageViewDetail())
						rd.AddImageViewData(mkIVData(r, genOpts{}))
						rd.AddImageViewAnalysis(baseImageViewAnalysis())
					}
				}
			}
		}
		b, _ := json.Marshal(f)
		var doc any
		json.Unmarshal(b, &doc)
		docs = append(docs, doc)
	}
	for j := 0; j < 200; j++ {
		b := make([]byte, r.Intn(400))
		for i := range b {
			b[i] = byte(r.Intn(256))
		}
		rcases = append(rcases, rcase{b, allEnc[j%4], "random bytes"})
	}
	repoRoot := os.Getenv("VERIF_REPO")
	if repoRoot == "" {
		repoRoot = "/repo"
	}
	if ents, err := os.ReadDir(repoRoot + "/test/testdata/crashers"); err == nil {
		for _, ent := range ents {
			if b, err := os.ReadFile(filepath.Join(repoRoot+"/test/testdata/crashers", ent.Name())); err == nil && len(b) < 1<<20 {
				for _, e := range allEnc {
					rcases = append(rcases, rcase{b, e, "crasher corpus " + ent.Name()[:8]})
				}
			}
		}
	}
	// ---- reader ----
	var ops []string
	impl := make([]string, len(rcases))
	for i, c := range rcases {
		rep.Evaluations++
		rep.count("reader:" + strings.SplitN(c.desc, " ", 2)[0])
		rep.nontrivial(c.e.String() + string(c.in))
		var ms0, ms1 runtime.MemStats
		runtime.ReadMemStats(&ms0)
		var f icl.File
		var rerr error
		var pp any
		pnc, to := guarded(func() { f, rerr, pp = realRead(c.in, c.e, 1<<16) })
		runtime.ReadMemStats(&ms1)
		if pnc != nil || pp != nil {
			rep.violate(Violation{Key: "C05:reader-panic:" + strings.SplitN(c.desc, " (", 2)[0][:min(20, len(c.desc))], What: fmt.Sprint("Reader panicked (", c.desc, "): ", pnc, pp),
				Replay: map[string]any{"bytes": hx(c.in), "enc": c.e.String(), "desc": c.desc}})
			impl[i] = "panic"
			ops = append(ops, "rc\t-")
			continue
		}
		if to {
			rep.violate(Violation{Key: "C05:reader-hang", What: "Read did not return within 5 s (" + c.desc + ")", Replay: map[string]any{"bytes": hx(c.in), "enc": c.e.String()}})
			impl[i] = "hang"
			ops = append(ops, "rc\t-")
			continue
		}
		if alloc := ms1.TotalAlloc - ms0.TotalAlloc; alloc > uint64(64*(len(c.in)+(1<<16))+(4<<20)) {
			rep.violate(Violation{Key: "C05:reader-allocation", What: fmt.Sprintf("Read allocated %d bytes for %d input bytes (%s)", alloc, len(c.in), c.desc),
				Replay: map[string]any{"bytes": hx(c.in), "enc": c.e.String(), "allocated": alloc}})
		}
		impl[i] = canonErr(rerr) + " # " + dumpFile(&f)
		ops = append(ops, fmt.Sprintf("read\t%s\t%s\t0\t%s\t%s", b01(c.e.LP), b01(c.e.EBCDIC), now, hx(c.in)))
		if what, p := observe(&f); p != nil {
			rep.violate(Violation{Key: "C05:observe-after-read:" + what, What: fmt.Sprintf("%s on the file returned by Read panicked or hung: %v (%s)", what, p, c.desc),
				Replay: map[string]any{"bytes": hx(c.in), "enc": c.e.String(), "step": what}})
		}
		if i%997 == 0 {
			rep.sample(map[string]any{"kind": "reader", "enc": c.e.String(), "input": c.desc, "outcome": impl[i][:min(70, len(impl[i]))]})
		}
	}
	got, err := leanParallel(cfg.driver, ops, runtime.NumCPU())
	if err != nil {
		fatal("driver: %v", err)
	}
	for i, c := range rcases {
		if impl[i] == "panic" || impl[i] == "hang" {
			continue
		}
		rep.CorrOps++
		if got[i] != impl[i] {
			// bufio.Scanner's default 64 KiB token limit is not part of the whole-input model reader
			if strings.Contains(impl[i], "LineNumber") && strings.Contains(c.desc, "prefix") {
				rep.count("scanner-limit-not-modelled")
				continue
			}
			rep.CorrDisagree++
			rep.violate(Violation{Key: "C05:corr:read:" + c.e.String(), What: "model reader and Reader.Read disagree on a malformed input (" + c.desc + ")",
				Replay: map[string]any{"bytes": hx(c.in), "enc": c.e.String(), "implementation": impl[i][:min(300, len(impl[i]))], "model": got[i][:min(300, len(got[i]))]}, NoInput: true})
		}
	}
	// ---- JSON ----
	for _, doc := range docs {
		for _, m := range jsonMutations(doc) {
			rep.Evaluations++
			rep.count("json:" + strings.SplitN(m.desc, " ", 2)[0])
			rep.nontrivial(string(m.doc))
			var f *icl.File
			pnc, to := guarded(func() { f, _ = icl.FileFromJSON(m.doc) })
			site := strings.SplitN(m.desc, " at ", 2)[1]
			site = strings.Map(func(r rune) rune {
				if r >= '0' && r <= '9' {
					return -1
				}
				return r
			}, site)
			if pnc != nil || to {
				rep.violate(Violation{Key: "C05:json-panic:" + strings.SplitN(m.desc, " at ", 2)[0] + ":" + site, What: fmt.Sprintf("FileFromJSON panicked or hung: %v (%s)", pnc, m.desc),
					Replay: map[string]any{"json": string(m.doc), "mutation": m.desc}})
				continue
			}
			if f != nil {
				if what, p := observe(f); p != nil {
					rep.violate(Violation{Key: "C05:observe-after-json:" + what + ":" + strings.SplitN(m.desc, " at ", 2)[0] + ":" + site, What: fmt.Sprintf("%s on the file returned by FileFromJSON panicked or hung: %v (%s)", what, p, m.desc),
						Replay: map[string]any{"json": string(m.doc), "mutation": m.desc, "step": what}})
				}
			}
			if rep.Evaluations%1499 == 0 {
				rep.sample(map[string]any{"kind": "json", "mutation": m.desc})
			}
		}
	}
	return rep
}
