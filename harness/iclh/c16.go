package main

import (
	"bytes"
	"encoding/json"
	"fmt"
	"io"
	"net/http"
	"net/http/httptest"
	"reflect"
	"runtime"
	"sort"
	"strings"

	icl "github.com/moov-io/imagecashletter"
	"github.com/moov-io/imagecashletter/verifhooks"
)

// chunkReader delivers data according to a schedule of read sizes (0 = a zero-length read);
// withEOF makes the last data-carrying read return io.EOF together with the data.
type chunkReader struct {
	data    []byte
	sched   []int
	i       int
	withEOF bool
	zeros   int
}

func (c *chunkReader) Read(p []byte) (int, error) {
	if len(c.data) == 0 {
		return 0, io.EOF
	}
	n := len(c.data)
	if c.i < len(c.sched) {
		n = c.sched[c.i]
		c.i++
	}
	if n == 0 {
		c.zeros++
		if c.zeros > 50 { // bufio.Scanner gives up after 100 empty reads; stay well below
			n = 1
		} else {
			return 0, nil
		}
	}
	if n > len(c.data) {
		n = len(c.data)
	}
	if n > len(p) {
		n = len(p)
	}
	copy(p, c.data[:n])
	c.data = c.data[n:]
	if len(c.data) == 0 && c.withEOF {
		return n, io.EOF
	}
	return n, nil
}

func readChunked(in []byte, e encCfg, bufSize int, sched []int, withEOF bool) (string, any) {
	var f icl.File
	var err error
	var panicked any
	func() {
		defer func() {
			if r := recover(); r != nil {
				panicked = r
			}
		}()
		cr := &chunkReader{data: append([]byte{}, in...), sched: sched, withEOF: withEOF}
		f, err = icl.NewReader(cr, readerOpts(e, bufSize)...).Read()
	}()
	if panicked != nil {
		return "panic", panicked
	}
	return canonErr(err) + " # " + dumpFile(&f), nil
}

func prefixBoundaries(in []byte) []int {
	var out []int
	for p := 0; p+4 <= len(in); {
		n := int(in[p])<<24 | int(in[p+1])<<16 | int(in[p+2])<<8 | int(in[p+3])
		out = append(out, p)
		p += 4 + n
		if n < 0 || p > len(in) {
			break
		}
	}
	return out
}

func schedules(in []byte, e encCfg, r rng, many bool) map[string][]int {
	s := map[string][]int{"one-byte": nil}
	ones := make([]int, len(in))
	for i := range ones {
		ones[i] = 1
	}
	s["one-byte"] = ones
	s["all-at-once"] = []int{len(in)}
	mk := func(name string, max int, zeros bool) {
		var sc []int
		for left := len(in); left > 0; {
			if zeros && r.Intn(5) == 0 {
				sc = append(sc, 0)
				continue
			}
			n := 1 + r.Intn(max)
			sc = append(sc, n)
			left -= n
		}
		s[name] = sc
	}
	mk("random-small", 7, false)
	mk("random-large", 300, false)
	mk("random-with-empty-reads", 50, true)
	if many {
		mk("random-mid", 90, false)
		mk("random-small-with-empty-reads", 5, true)
	}
	if e.LP {
		// split just after each prefix, and just before each prefix
		var a, b []int
		prev := 0
		for _, p := range prefixBoundaries(in) {
			if p+4 > prev {
				a = append(a, p+4-prev)
				prev = p + 4
			}
		}
		prev = 0
		for _, p := range prefixBoundaries(in) {
			if p+2 > prev {
				b = append(b, p+2-prev) // inside the prefix
				prev = p + 2
			}
		}
		s["after-each-prefix"] = a
		s["inside-each-prefix"] = b
	}
	return s
}

func runC16(cfg *config) *Report {
	rep := newReport("C16", cfg.tier, cfg.seed)
	r := newRng(cfg.seed + 16000)
	rep.Rule = "generated files in the four encodings, each also truncated at EVERY byte offset (quick: files <= 1400 bytes) and with one byte corrupted at seeded offsets; each input read through io.Reader wrappers that deliver it all at once (reference), one byte at a time, in random small / large chunks, with interleaved zero-length reads, split inside and just after every length prefix, and with the last chunk returned together with io.EOF; scanner buffer sizes from the longest record + 8 upward; result (error, file) must equal the reference; a length-prefixed stream cut inside a record must be an error; non-trivial = input is not a whole valid file or schedule is not all-at-once; distinct by (input, schedule, buffer)"
	nFiles := 2
	if cfg.tier == "thorough" {
		nFiles = 10
	}
	type input struct {
		b    []byte
		e    encCfg
		desc string
		cut  bool // cut strictly inside a record of a length-prefixed stream
	}
	var inputs []input
	maxRec := 0
	for fi := 0; fi < nFiles; {
		f, err := genFile(r, genOpts{maxCL: 1, maxBundles: 2, maxItems: 2, mutateP: 30})
		if err != nil {
			continue
		}
		okSize := true
		var outs [][]byte
		for _, e := range allEnc {
			out, werr, _ := realWrite(f, e)
			if werr != nil || (cfg.tier != "thorough" && len(out) > 1400) {
				okSize = false
				break
			}
			outs = append(outs, out)
		}
		if !okSize {
			continue
		}
		fi++
		for ei, e := range allEnc {
			out := outs[ei]
			inputs = append(inputs, input{out, e, "whole file", false})
			bounds := map[int]bool{}
			if e.LP {
				for _, p := range prefixBoundaries(out) {
					bounds[p] = true
					n := int(out[p])<<24 | int(out[p+1])<<16 | int(out[p+2])<<8 | int(out[p+3])
					if n+4 > maxRec {
						maxRec = n + 4
					}
				}
			} else {
				for _, l := range bytes.Split(out, []byte("\n")) {
					if len(l)+2 > maxRec {
						maxRec = len(l) + 2
					}
				}
			}
			step := 1
			if cfg.tier == "thorough" && len(out) > 3000 {
				step = 7
			}
			for k := 0; k < len(out); k += step {
				inputs = append(inputs, input{out[:k], e, fmt.Sprintf("cut at byte %d", k), e.LP && !bounds[k]})
			}
			for j := 0; j < 6; j++ {
				m := append([]byte{}, out...)
				m[r.Intn(len(m))] ^= byte(1 + r.Intn(255))
				inputs = append(inputs, input{m, e, "one byte corrupted", false})
			}
			if e.LP {
				// a complete file followed by the beginning of a further record (block padding, the start of a second
				// file): the stream ends inside a record, which is an error whatever has been read before
				for _, tail := range [][]byte{{0}, {0, 0, 0}, {0, 0, 0, 80}, append([]byte{0, 0, 0, 80}, bytes.Repeat([]byte{0x40}, 37)...), {0x40, 0x40, 0x40, 0x40, 0x40}, {0x20, 0x20}} {
					inputs = append(inputs, input{append(append([]byte{}, out...), tail...), e, fmt.Sprintf("whole file followed by %d bytes of a further record", len(tail)), true})
				}
			}
			if !e.LP {
				// the same file with CR LF line ends (the carriage return is dropped by the line splitter)
				crlf := bytes.ReplaceAll(out, []byte("\n"), []byte("\r\n"))
				inputs = append(inputs, input{crlf, e, "whole file, CR LF line ends", false})
				for k := 0; k < len(crlf); k += 5 {
					inputs = append(inputs, input{crlf[:k], e, fmt.Sprintf("CR LF file cut at byte %d", k), false})
				}
				// doubled carriage returns (a file converted twice): the line splitter drops one, whoever delivers the bytes
				crcrlf := bytes.ReplaceAll(out, []byte("\n"), []byte("\r\r\n"))
				inputs = append(inputs, input{crcrlf, e, "whole file, CR CR LF line ends", false})
				inputs = append(inputs, input{append(bytes.TrimRight(append([]byte{}, out...), "\n"), '\r', '\r'), e, "whole file, last line ends in CR CR without LF", false})
			}
		}
	}
	bufSizes := []int{maxRec + 8, maxRec + 9, 2*maxRec + 1, 1 << 16, 1 << 20}
	evals := 0
	for ii, in := range inputs {
		ref, p := readChunked(in.b, in.e, 1<<22, []int{len(in.b) + 1}, false)
		if p != nil {
			rep.violate(Violation{Key: "C16:reader-panic", What: fmt.Sprint("Reader panicked: ", p), Replay: map[string]any{"bytes": hx(in.b), "enc": in.e.String()}})
			continue
		}
		// the same bytes handed over as an in-memory source (bytes.Reader), as most callers do: same result
		if df, derr, dp := realRead(in.b, in.e, 1<<22); dp != nil {
			rep.violate(Violation{Key: "C16:reader-panic", What: fmt.Sprint("Reader panicked on an in-memory source: ", dp), Replay: map[string]any{"bytes": hx(in.b), "enc": in.e.String()}})
		} else if d := canonErr(derr) + " # " + dumpFile(&df); d != ref {
			rep.violate(Violation{Key: "C16:in-memory-source-read-differently:" + in.e.String(), What: "the same bytes are read differently from a bytes.Reader and from a stream (" + in.desc + ")",
				Replay: map[string]any{"bytes": hx(in.b), "enc": in.e.String(), "from_stream": ref[:min(300, len(ref))], "from_memory": d[:min(300, len(d))]}})
		}
		evals++
		if in.cut && len(ref) >= 2 && ref[:2] == "ok" {
			rep.violate(Violation{Key: "C16:cut-accepted:" + in.e.String(), What: "a length-prefixed stream cut inside a record was read without error (" + in.desc + ")",
				Replay: map[string]any{"bytes": hx(in.b), "enc": in.e.String()}})
		}
		scheds := schedules(in.b, in.e, r, cfg.tier == "thorough")
		for _, name := range sortedKeys(scheds) {
			// whole files: every schedule x every buffer size; cuts: every schedule x two sizes (rotating)
			sizes := bufSizes
			if in.desc != "whole file" {
				sizes = []int{bufSizes[ii%len(bufSizes)], bufSizes[(ii+2)%len(bufSizes)]}
			}
			if in.desc == "one byte corrupted" {
				// a corrupted length prefix may declare a record longer than any record of the valid
				// file: "the buffer can hold the longest record" then means the whole input
				sizes = []int{len(in.b) + 8, 1 << 20}
			}
			for si, bs := range sizes {
				withEOF := (si+ii)%2 == 0
				got, p := readChunked(in.b, in.e, bs, scheds[name], withEOF)
				evals++
				rep.count("schedule:" + name)
				if in.desc != "whole file" || name != "all-at-once" {
					rep.nontrivial(fmt.Sprintf("%d/%s/%d/%v", ii, name, bs, withEOF))
				}
				if p != nil {
					rep.violate(Violation{Key: "C16:reader-panic", What: fmt.Sprint("Reader panicked: ", p), Replay: map[string]any{"bytes": hx(in.b), "enc": in.e.String(), "schedule": name}})
					continue
				}
				if got != ref {
					rep.violate(Violation{Key: "C16:depends-on-chunking:" + in.e.String() + ":" + name,
						What:   fmt.Sprintf("read result depends on how the stream is delivered (%s, schedule %s, buffer %d, eof-with-data %v)", in.desc, name, bs, withEOF),
						Replay: map[string]any{"bytes": hx(in.b), "enc": in.e.String(), "schedule": scheds[name], "buffer": bs, "eof_with_data": withEOF, "reference": ref[:min(200, len(ref))], "observed": got[:min(200, len(got))]}})
				}
			}
		}
		if ii%977 == 0 {
			rep.sample(map[string]any{"enc": in.e.String(), "input": in.desc, "bytes": len(in.b), "reference": ref[:min(80, len(ref))]})
		}
	}
	// a file with one long record (an image of several kilobytes): buffer sizes just above that record, none
	// of them a round number - any buffer that can hold the longest record must do
	// (the second such file carries a record beyond 64 KiB, bufio's default token limit: thresholds in record size)
	for tries, done := 0, 0; tries < 40 && done < 2+nFiles/4; tries++ {
		f, err := genFile(r, genOpts{maxCL: 1, maxBundles: 1, maxItems: 2, mutateP: 10, kind: 1})
		if err != nil {
			continue
		}
		var iv *icl.ImageViewData
		for _, b := range f.CashLetters[0].Bundles {
			for _, cd := range b.Checks {
				if len(cd.ImageViewData) > 0 && iv == nil {
					iv = &cd.ImageViewData[0]
				}
			}
		}
		if iv == nil {
			continue
		}
		img := make([]byte, 5000+r.Intn(9000)+(done%2)*(62000+r.Intn(9000)))
		for i := range img {
			img[i] = "ABCXYZ0189!$%*-_+/="[r.Intn(19)]
		}
		img[0] = '!'
		iv.ImageData = img
		iv.LengthImageData = fmt.Sprintf("%07d", len(img))
		done++
		for _, e := range allEnc {
			out, werr, _ := realWrite(f, e)
			if werr != nil {
				continue
			}
			longest := 0
			if e.LP {
				for _, p := range prefixBoundaries(out) {
					if n := int(out[p])<<24 | int(out[p+1])<<16 | int(out[p+2])<<8 | int(out[p+3]); n+4 > longest {
						longest = n + 4
					}
				}
			} else {
				for _, l := range bytes.Split(out, []byte("\n")) {
					if len(l)+2 > longest {
						longest = len(l) + 2
					}
				}
			}
			ref, p := readChunked(out, e, 1<<22, []int{len(out) + 1}, false)
			if p != nil || len(ref) < 2 || ref[:2] != "ok" {
				continue
			}
			for _, bs := range []int{longest + 8, longest + 1000, longest + 4097, 3*longest + 17} {
				for si, sched := range [][]int{{len(out) + 1}, {4096}, {1000, 3000, 777}} {
					full := sched
					if si > 0 {
						full = nil
						for n := 0; n < len(out); n += sched[len(full)%len(sched)] {
							full = append(full, sched[len(full)%len(sched)])
						}
					}
					got, p := readChunked(out, e, bs, full, si == 1)
					evals++
					rep.count("long-record-file")
					rep.nontrivial(fmt.Sprintf("long/%s/%d/%d", e.String(), bs, si))
					if p != nil {
						rep.violate(Violation{Key: "C16:reader-panic", What: fmt.Sprint("Reader panicked: ", p), Replay: map[string]any{"bytes": hx(out), "enc": e.String()}})
					} else if got != ref {
						rep.violate(Violation{Key: "C16:depends-on-buffer-size:" + e.String(),
							What:   fmt.Sprintf("read result depends on the configured scanner buffer although it can hold the longest record (%d bytes; buffer %d)", longest, bs),
							Replay: map[string]any{"bytes": hx(out), "enc": e.String(), "buffer": bs, "longest_record": longest, "schedule": full, "reference": ref[:min(200, len(ref))], "observed": got[:min(200, len(got))]}})
					}
				}
			}
		}
	}
	// scanner-model correspondence: the Lean scanner model (bufio.Scanner over the translated split
	// function, then the reader loop) against the real Reader, including buffers that are too small
	var ops []string
	var want []string
	var descs []string
	now := today()
	for ii, in := range inputs {
		if in.desc != "whole file" && ii%23 != 0 {
			continue
		}
		scheds := schedules(in.b, in.e, r, false)
		for _, name := range sortedKeys(scheds) {
			for _, bs := range []int{maxRec + 8, maxRec - 3, 90, 1 << 16} {
				if bs < 16 {
					continue
				}
				got, p := readChunked(in.b, in.e, bs, scheds[name], false)
				if p != nil {
					continue
				}
				sc := make([]string, len(scheds[name]))
				for i, k := range scheds[name] {
					sc[i] = fmt.Sprint(k)
				}
				sched := strings.Join(sc, ",")
				if sched == "" {
					sched = "-"
				}
				ops = append(ops, fmt.Sprintf("readScan\t%s\t%s\t%s\t%d\t%s\t%s", b01(in.e.LP), b01(in.e.EBCDIC), now, bs, sched, hx(in.b)))
				want = append(want, got)
				descs = append(descs, fmt.Sprintf("%s / %s / schedule %s / buffer %d", in.e.String(), in.desc, name, bs))
			}
		}
	}
	res, err := leanParallel(cfg.driver, ops, runtime.NumCPU())
	if err != nil {
		fatal("driver: %v", err)
	}
	for i := range ops {
		rep.CorrOps++
		if res[i] != want[i] {
			rep.CorrDisagree++
			rep.violate(Violation{Key: "C16:corr:scanner", What: "scanner model and bufio.Scanner (through Reader.Read) disagree: " + descs[i],
				Replay: map[string]any{"op": ops[i][:min(400, len(ops[i]))], "implementation": want[i][:min(200, len(want[i]))], "model": res[i][:min(200, len(res[i]))]}, NoInput: true})
		}
	}
	rep.Evaluations = evals
	evals += sharedOptions(rep, inputs2(inputs))
	evals += uploadFragmentation(cfg, rep, r)
	evals += afterCutUploads(rep, r, "C16")
	rep.Evaluations = evals
	return rep
}

// fragReader delivers a request body n bytes at a time (n == 0: as much as the caller asks for)
type fragReader struct {
	b []byte
	n int
}

func (f *fragReader) Read(p []byte) (int, error) {
	if len(f.b) == 0 {
		return 0, io.EOF
	}
	k := len(p)
	if f.n > 0 && f.n < k {
		k = f.n
	}
	if k > len(f.b) {
		k = len(f.b)
	}
	copy(p, f.b[:k])
	f.b = f.b[k:]
	return k, nil
}

func (f *fragReader) Close() error { return nil }

// cutReader delivers the first n bytes of a body and then fails the way a connection does when the client goes away
type cutReader struct {
	b []byte
	n int
}

func (c *cutReader) Read(p []byte) (int, error) {
	if c.n <= 0 {
		return 0, io.ErrUnexpectedEOF
	}
	k := len(p)
	if k > c.n {
		k = c.n
	}
	if k > len(c.b) {
		k = len(c.b)
	}
	copy(p, c.b[:k])
	c.b = c.b[k:]
	c.n -= k
	if k == 0 {
		return 0, io.ErrUnexpectedEOF
	}
	return k, nil
}

func (c *cutReader) Close() error { return nil }

// afterCutUploads: on ONE server, uploads whose body breaks off part-way (the client announced more than it sent) are
// followed by ordinary requests - valid uploads and malformed ones; every request behind a broken upload must be
// answered, and leave the store, exactly as on a server that never saw the broken upload
func afterCutUploads(rep *Report, r rng, prop string) int {
	n := 0
	f, err := genFile(r, genOpts{maxCL: 1, maxBundles: 1, maxItems: 2, mutateP: 30})
	if err != nil {
		return 0
	}
	js, _ := json.Marshal(f)
	lpE, _, _ := realWrite(f, encCfg{true, true})
	lpA, _, _ := realWrite(f, encCfg{true, false})
	serve := func(router http.Handler, q *apiReq, cut int) int {
		req, err := q.build("http://verif.local")
		if err != nil {
			return -1
		}
		body, _ := io.ReadAll(req.Body)
		if cut >= 0 {
			req.Body = &cutReader{b: body, n: cut}
		} else {
			req.Body = &fragReader{b: body}
		}
		req.ContentLength = int64(len(body))
		rec := httptest.NewRecorder()
		func() {
			defer func() {
				if p := recover(); p != nil {
					rec.Code = 599
				}
			}()
			router.ServeHTTP(rec, req)
		}()
		return rec.Code
	}
	dumpStore := func(repo verifhooks.Repo) string {
		out := ""
		if fs, err := repo.GetFiles(); err == nil {
			var ds []string
			for _, sf := range fs {
				g := *sf
				g.ID = ""
				ds = append(ds, exportedOnly(dumpFile(&g)))
			}
			sort.Strings(ds)
			out = strings.Join(ds, ";")
		}
		return out
	}
	uploads := []*apiReq{
		{Kind: "c2", CT: "application/json", Body: js},
		{Kind: "c1", CT: "application/json", Body: js},
		{Kind: "c1", CT: "application/octet-stream", Body: lpE},
		{Kind: "c2", CT: "multipart/form-data", Multipart: "file:application/octet-stream", Body: lpE},
		{Kind: "c2", CT: "multipart/form-data", Multipart: "file:text/plain", Body: lpA},
	}
	followers := append([]*apiReq{
		{Kind: "c2", CT: "application/json", Body: []byte("}{ not json")},
		{Kind: "c2", CT: "application/json", Body: []byte{}},
		{Kind: "c1", CT: "application/json", Body: []byte("[1,2")},
		{Kind: "c1", CT: "application/octet-stream", Body: []byte("garbage that is no X9 file")},
		{Kind: "c2", CT: "application/json", Body: js[len(js)/2:]},
		{Kind: "c1", CT: "application/octet-stream", Body: lpE[len(lpE)/2:]},
	}, uploads...)
	for ui, up := range uploads {
		// cut positions are positions of the body as sent (for a multipart form: the payload inside its framing, so that the
		// last cuts fall inside the closing delimiter, after the file part is complete)
		full := len(up.Body)
		if rq, err := up.build("http://verif.local"); err == nil {
			if b, err := io.ReadAll(rq.Body); err == nil {
				full = len(b)
			}
		}
		cuts := []int{1, full / 2, full - 1, full}
		if up.Multipart != "" {
			// (a form delivered in full is complete whatever the transport reports afterwards: no cut at its length)
			cuts = []int{1, full / 2, full - 5, full - 3, full - 1}
		}
		for _, cut := range cuts {
			for fi, fo := range followers {
				// reference: the follower alone on a fresh server
				repoRef := verifhooks.NewInMemoryRepo()
				wantCode := serve(verifhooks.NewRouter(repoRef), fo, -1)
				wantStore := dumpStore(repoRef)
				// the follower behind the broken upload (and behind a second broken upload of the same kind)
				repo := verifhooks.NewInMemoryRepo()
				router := verifhooks.NewRouter(repo)
				c1 := serve(router, up, cut)
				c1b := serve(router, up, cut)
				gotCode := serve(router, fo, -1)
				gotStore := dumpStore(repo)
				n++
				rep.count(fmt.Sprintf("after-cut-upload:%s:%d", up.Kind, gotCode))
				if c1 >= 200 && c1 < 300 && cut < full {
					rep.violate(Violation{Key: prop + ":cut-upload-accepted:" + up.Kind, What: fmt.Sprintf("an upload whose body broke off after %d of %d bytes was answered %d", cut, full, c1),
						Replay: map[string]any{"upload": ui, "kind": up.Kind, "content_type": up.CT, "multipart": up.Multipart, "cut": cut, "status": c1}})
					break
				}
				_ = c1b
				if gotCode != wantCode || gotStore != wantStore {
					rep.violate(Violation{Key: prop + ":request-behind-a-broken-upload:" + up.Kind + ":" + fo.Kind, What: fmt.Sprintf("a %s request is answered %d (alone: %d) / leaves a different store when it follows a %s upload whose body broke off after %d bytes", fo.Kind, gotCode, wantCode, up.Kind, cut),
						Replay: map[string]any{"upload_kind": up.Kind, "upload_content_type": up.CT, "upload_multipart": up.Multipart, "cut": cut, "follower": fi, "follower_kind": fo.Kind, "follower_content_type": fo.CT, "follower_body": hx(fo.Body[:min(200, len(fo.Body))]), "status_alone": wantCode, "status_behind": gotCode, "store_same": gotStore == wantStore, "upload_status": c1, "second_upload_status": c1b, "upload_body_bytes": full}})
					break
				}
			}
		}
	}
	return n
}

// uploadFragmentation: the same upload through the server's own reader front ends (POST /v2/files as a multipart form
// and as a raw body, POST /files/create as a raw body), with the request body arriving whole and in fragments of 1, 2, 3,
// 5 and 64 bytes: the answer and the stored file must not depend on how the body was cut up
func uploadFragmentation(cfg *config, rep *Report, r rng) int {
	n := 0
	f, err := genFile(r, genOpts{maxCL: 1, maxBundles: 1, maxItems: 2, mutateP: 30})
	if err != nil {
		return 0
	}
	for _, e := range []encCfg{{true, false}, {true, true}, {false, false}} {
		out, werr, _ := realWrite(f, e)
		if werr != nil {
			continue
		}
		for _, q := range []*apiReq{
			{Kind: "c2", CT: "multipart/form-data", Multipart: "file:text/plain", Body: out},
			{Kind: "c2", CT: "multipart/form-data", Multipart: "file:application/octet-stream", Body: out},
			{Kind: "c2", CT: "multipart/form-data", Multipart: "file:", Body: out},
			{Kind: "c1", CT: "application/octet-stream", Body: out},
			{Kind: "c1", CT: "text/plain", Body: out},
		} {
			ref := ""
			for _, frag := range []int{0, 1, 2, 3, 5, 64} {
				repo := verifhooks.NewInMemoryRepo()
				router := verifhooks.NewRouter(repo)
				req, err := q.build("http://verif.local")
				if err != nil {
					continue
				}
				body, _ := io.ReadAll(req.Body)
				req.Body = &fragReader{b: body, n: frag}
				req.ContentLength = int64(len(body))
				rec := httptest.NewRecorder()
				func() {
					defer func() {
						if p := recover(); p != nil {
							rec.Code = 599
						}
					}()
					router.ServeHTTP(rec, req)
				}()
				stored := ""
				if fs, err := repo.GetFiles(); err == nil {
					for _, sf := range fs {
						stored += exportedOnly(dumpFile(sf)) + ";"
					}
				}
				got := fmt.Sprintf("%d # %s", rec.Code, stored)
				n++
				rep.count(fmt.Sprintf("upload-fragmentation:%s:%s:%d", q.Kind, e, rec.Code))
				if frag == 0 {
					ref = got
				} else if got != ref {
					rep.violate(Violation{Key: "C16:upload-depends-on-fragmentation:" + q.Kind + ":" + e.String(), What: fmt.Sprintf("the same %s upload (%s, part %q) is answered / stored differently when its body arrives %d bytes at a time", q.Kind, e, q.Multipart, frag),
						Replay: map[string]any{"kind": q.Kind, "content_type": q.CT, "multipart": q.Multipart, "enc": e.String(), "fragment": frag, "body": hx(out), "whole": ref[:min(120, len(ref))], "fragmented": got[:min(120, len(got))]}})
					break
				}
			}
		}
	}
	return n
}

// inputs2: the whole-file inputs, as (bytes, options) pairs
func inputs2[T any](in []T) [][2]any {
	var out [][2]any
	for _, x := range in {
		v := reflect.ValueOf(x)
		if v.FieldByName("desc").String() == "whole file" {
			b := v.FieldByName("b").Bytes()
			e := encCfg{LP: v.FieldByName("e").FieldByName("LP").Bool(), EBCDIC: v.FieldByName("e").FieldByName("EBCDIC").Bool()}
			out = append(out, [2]any{append([]byte{}, b...), e})
		}
	}
	return out
}

// hookReader delivers its data in two parts and runs hook between them (once)
type hookReader struct {
	data []byte
	at   int
	hook func()
	done bool
}

func (h *hookReader) Read(p []byte) (int, error) {
	if len(h.data) == 0 {
		return 0, io.EOF
	}
	n := len(h.data)
	if !h.done {
		if h.at <= 0 {
			h.done = true
			h.hook()
		} else if n > h.at {
			n = h.at
		}
	}
	if n > len(p) {
		n = len(p)
	}
	copy(p, h.data[:n])
	h.data = h.data[n:]
	h.at -= n
	return n, nil
}

// sharedOptions: reader options are values: ONE option slice configures two Readers that are alive at the same time - the
// first is half way through its input (cut inside a record) when the second reads another input completely, then the first
// goes on.  Each must return what it returns alone.
func sharedOptions(rep *Report, files [][2]any) int {
	n := 0
	for i := 0; i+1 < len(files) && n < 24; i++ {
		a, ea := files[i][0].([]byte), files[i][1].(encCfg)
		var b []byte
		for j := i + 1; j < len(files); j++ {
			if files[j][1].(encCfg) == ea && !bytes.Equal(files[j][0].([]byte), a) {
				b = files[j][0].([]byte)
				break
			}
		}
		if b == nil {
			continue
		}
		for _, at := range []int{len(a) / 3, len(a)/2 + 7} {
			opts := readerOpts(ea, 1<<16)
			soloA, pa := readChunked(a, ea, 1<<16, []int{len(a) + 1}, false)
			soloB, pb := readChunked(b, ea, 1<<16, []int{len(b) + 1}, false)
			if pa != nil || pb != nil {
				continue
			}
			var gotB string
			var gotA string
			func() {
				defer func() {
					if p := recover(); p != nil {
						gotA = fmt.Sprint("panic: ", p)
					}
				}()
				hr := &hookReader{data: append([]byte{}, a...), at: at, hook: func() {
					fB, eB := icl.NewReader(&chunkReader{data: append([]byte{}, b...), sched: []int{len(b)/2 + 3}}, opts...).Read()
					gotB = canonErr(eB) + " # " + dumpFile(&fB)
				}}
				fA, eA := icl.NewReader(hr, opts...).Read()
				gotA = canonErr(eA) + " # " + dumpFile(&fA)
			}()
			n++
			rep.count("shared-options:" + ea.String())
			if gotA != soloA || gotB != soloB {
				which := "the reader that was interrupted"
				if gotA == soloA {
					which = "the reader that ran in between"
				}
				rep.violate(Violation{Key: "C16:readers-sharing-one-option-slice:" + ea.String(), What: "two Readers configured from one option slice and alive at the same time: " + which + " returns something else than alone",
					Replay: map[string]any{"enc": ea.String(), "first_input": hx(a), "second_input": hx(b), "first_interrupted_after": at, "first_alone": soloA[:min(200, len(soloA))], "first_got": gotA[:min(200, len(gotA))], "second_alone": soloB[:min(200, len(soloB))], "second_got": gotB[:min(200, len(gotB))]}})
			}
		}
	}
	return n
}
