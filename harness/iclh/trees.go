package main

import (
	"bytes"
	"errors"
	"fmt"
	"strings"
	"time"

	icl "github.com/moov-io/imagecashletter"
)

// ---- wire form of file trees (mirror of lean/IclModel/TreeWire.lean) ----

func dumpAny(tag, goName string, rec any, isNil bool) string {
	if isNil {
		return tag + "|^"
	}
	return tag + "|" + dumpRec(rec, layoutOf(goName))
}

func dumpFile(f *icl.File) string {
	var t []string
	t = append(t, dumpAny("FH", "FileHeader", &f.Header, false))
	for i := range f.CashLetters {
		cl := &f.CashLetters[i]
		t = append(t, dumpAny("CL+", "CashLetterHeader", cl.CashLetterHeader, cl.CashLetterHeader == nil))
		for _, ci := range cl.CreditItems {
			t = append(t, dumpAny("CI", "CreditItem", ci, ci == nil))
		}
		for _, cr := range cl.Credits {
			t = append(t, dumpAny("CR", "Credit", cr, cr == nil))
		}
		for _, b := range cl.Bundles {
			if b == nil {
				t = append(t, "B+|^", "BC|^")
				continue
			}
			t = append(t, dumpAny("B+", "BundleHeader", b.BundleHeader, b.BundleHeader == nil))
			for _, cd := range b.Checks {
				t = append(t, dumpAny("CK", "CheckDetail", cd, cd == nil))
				if cd == nil {
					continue
				}
				for j := range cd.CheckDetailAddendumA {
					t = append(t, dumpAny("AA", "CheckDetailAddendumA", &cd.CheckDetailAddendumA[j], false))
				}
				for j := range cd.CheckDetailAddendumB {
					t = append(t, dumpAny("AB", "CheckDetailAddendumB", &cd.CheckDetailAddendumB[j], false))
				}
				for j := range cd.CheckDetailAddendumC {
					t = append(t, dumpAny("AC", "CheckDetailAddendumC", &cd.CheckDetailAddendumC[j], false))
				}
				for j := range cd.ImageViewDetail {
					t = append(t, dumpAny("VD", "ImageViewDetail", &cd.ImageViewDetail[j], false))
				}
				for j := range cd.ImageViewData {
					t = append(t, dumpAny("VT", "ImageViewData", &cd.ImageViewData[j], false))
				}
				for j := range cd.ImageViewAnalysis {
					t = append(t, dumpAny("VA", "ImageViewAnalysis", &cd.ImageViewAnalysis[j], false))
				}
			}
			for _, rd := range b.Returns {
				t = append(t, dumpAny("RT", "ReturnDetail", rd, rd == nil))
				if rd == nil {
					continue
				}
				for j := range rd.ReturnDetailAddendumA {
					t = append(t, dumpAny("AA", "ReturnDetailAddendumA", &rd.ReturnDetailAddendumA[j], false))
				}
				for j := range rd.ReturnDetailAddendumB {
					t = append(t, dumpAny("AB", "ReturnDetailAddendumB", &rd.ReturnDetailAddendumB[j], false))
				}
				for j := range rd.ReturnDetailAddendumC {
					t = append(t, dumpAny("AC", "ReturnDetailAddendumC", &rd.ReturnDetailAddendumC[j], false))
				}
				for j := range rd.ReturnDetailAddendumD {
					t = append(t, dumpAny("AD", "ReturnDetailAddendumD", &rd.ReturnDetailAddendumD[j], false))
				}
				for j := range rd.ImageViewDetail {
					t = append(t, dumpAny("VD", "ImageViewDetail", &rd.ImageViewDetail[j], false))
				}
				for j := range rd.ImageViewData {
					t = append(t, dumpAny("VT", "ImageViewData", &rd.ImageViewData[j], false))
				}
				for j := range rd.ImageViewAnalysis {
					t = append(t, dumpAny("VA", "ImageViewAnalysis", &rd.ImageViewAnalysis[j], false))
				}
			}
			t = append(t, dumpAny("BC", "BundleControl", b.BundleControl, b.BundleControl == nil))
		}
		for _, rns := range cl.RoutingNumberSummary {
			t = append(t, dumpAny("RNS", "RoutingNumberSummary", rns, rns == nil))
		}
		t = append(t, dumpAny("CLC", "CashLetterControl", cl.CashLetterControl, cl.CashLetterControl == nil))
	}
	t = append(t, dumpAny("FC", "FileControl", &f.Control, false))
	return strings.Join(t, "~")
}

// census: tag sequence of a tree dump (structure without values)
func census(dump string) string {
	var out []string
	for _, tok := range strings.Split(dump, "~") {
		tag := strings.SplitN(tok, "|", 2)
		if len(tag) == 2 && tag[1] == "^" {
			out = append(out, tag[0]+"^")
		} else {
			out = append(out, tag[0])
		}
	}
	return strings.Join(out, " ")
}

// ---- real writer / reader under each of the four encodings ----

type encCfg struct{ LP, EBCDIC bool }

var allEnc = []encCfg{{false, false}, {true, false}, {false, true}, {true, true}}

func (e encCfg) String() string {
	s := "nl"
	if e.LP {
		s = "lp"
	}
	if e.EBCDIC {
		return s + "+ebcdic"
	}
	return s + "+ascii"
}
func b01(b bool) string {
	if b {
		return "1"
	}
	return "0"
}

func realWrite(f *icl.File, e encCfg) (out []byte, err error, panicked any) {
	defer func() {
		if r := recover(); r != nil {
			panicked = r
		}
	}()
	var buf bytes.Buffer
	var opts []icl.WriterOption
	if e.LP {
		opts = append(opts, icl.WriteVariableLineLengthOption())
	}
	if e.EBCDIC {
		opts = append(opts, icl.WriteEbcdicEncodingOption())
	}
	if len(opts) == 2 {
		if optRotation++; optRotation%2 == 1 {
			opts[0], opts[1] = opts[1], opts[0]
		}
	}
	err = icl.NewWriter(&buf, opts...).Write(f)
	return buf.Bytes(), err, nil
}

func readerOpts(e encCfg, bufSize int) []icl.ReaderOption {
	var opts []icl.ReaderOption
	if e.LP {
		opts = append(opts, icl.ReadVariableLineLengthOption())
	}
	if e.EBCDIC {
		opts = append(opts, icl.ReadEbcdicEncodingOption())
	}
	if bufSize > 0 {
		opts = append(opts, icl.BufferSizeOption(bufSize))
	}
	// the options are independent settings: the order they are listed in must not matter, so every call lists
	// them in the next rotation (deterministic: the n-th call of a run always uses the same order)
	if n := len(opts); n > 1 {
		optRotation++
		k := optRotation % n
		opts = append(append([]icl.ReaderOption{}, opts[k:]...), opts[:k]...)
	}
	return opts
}

var optRotation int

func realRead(in []byte, e encCfg, bufSize int) (f icl.File, err error, panicked any) {
	defer func() {
		if r := recover(); r != nil {
			panicked = r
		}
	}()
	f, err = icl.NewReader(bytes.NewReader(in), readerOpts(e, bufSize)...).Read()
	return f, err, nil
}

// canonErr mirrors lean dumpErr: ok | err|wrapped|line|record|class|field
func canonErr(err error) string {
	if err == nil {
		return "ok"
	}
	wrapped, line, record := 0, 0, ""
	var pe *icl.ParseError
	inner := err
	if errors.As(err, &pe) {
		wrapped, line, record, inner = 1, pe.Line, pe.Record, pe.Err
	}
	cls, field := "plain", ""
	var fe *icl.FieldError
	var fle *icl.FileError
	var be *icl.BundleError
	var ce *icl.CashLetterError
	switch {
	case errors.As(inner, &fe):
		cls, field = "field", fe.FieldName
	case errors.As(inner, &fle):
		cls, field = "file", fle.FieldName
	case errors.As(inner, &be):
		cls, field = "bundle", be.FieldName
	case errors.As(inner, &ce):
		cls, field = "cashLetter", ce.FieldName
	default:
		field = inner.Error()
	}
	return fmt.Sprintf("err|%d|%d|%s|%s|%s", wrapped, line, record, cls, field)
}

func today() string {
	t := time.Now()
	return fmt.Sprintf("%d-%d-%d", t.Year(), int(t.Month()), t.Day())
}

// exportedOnly drops the unexported members (recordType, reserved*) from a tree dump: files are
// compared through their exported fields.
func exportedOnly(dump string) string {
	toks := strings.Split(dump, "~")
	for i, tok := range toks {
		p := strings.SplitN(tok, "|", 2)
		if len(p) != 2 || p[1] == "^" {
			continue
		}
		var keep []string
		for _, fv := range strings.Split(p[1], ";") {
			if len(fv) > 0 && fv[0] >= 'a' && fv[0] <= 'z' {
				continue
			}
			keep = append(keep, fv)
		}
		toks[i] = p[0] + "|" + strings.Join(keep, ";")
	}
	return strings.Join(toks, "~")
}

// spoilDump returns a copy of a tree dump in which one string member (chosen by n) got a leading blank, or one
// numeric member became negative: a file that is NOT in canonical form ("" if the dump has no such member).
func spoilDump(dump string, n int) string {
	toks := strings.Split(dump, "~")
	for k := 0; k < len(toks); k++ {
		ti := (n*7 + k) % len(toks)
		p := strings.SplitN(toks[ti], "|", 2)
		if len(p) != 2 || p[1] == "^" {
			continue
		}
		fs := strings.Split(p[1], ";")
		for j := 0; j < len(fs); j++ {
			fi := (n + j) % len(fs)
			q := strings.SplitN(fs[fi], ":", 3)
			if len(q) != 3 || len(q[0]) == 0 || q[0][0] < 'A' || q[0][0] > 'Z' {
				continue
			}
			switch {
			case q[1] == "S" && len(q[2]) > 0:
				fs[fi] = q[0] + ":S:20" + q[2]
			case q[1] == "I" && n%3 == 0:
				fs[fi] = q[0] + ":I:-1"
			default:
				continue
			}
			toks[ti] = p[0] + "|" + strings.Join(fs, ";")
			return strings.Join(toks, "~")
		}
	}
	return ""
}

// writerOrder lists the records of a file in the order X9.100-187 nests them (and Writer.Write emits them): file
// header, per cash letter its header, credit items, credits, bundles (header, items each followed by its addenda
// and, per image view, detail / data / analysis), routing number summaries, control; file control.
func writerOrder(f *icl.File) []fmt.Stringer {
	var out []fmt.Stringer
	out = append(out, &f.Header)
	views := func(d []icl.ImageViewDetail, t []icl.ImageViewData, a []icl.ImageViewAnalysis) {
		for i := range d {
			out = append(out, &d[i])
			if i < len(t) {
				out = append(out, &t[i])
			}
			if i < len(a) {
				out = append(out, &a[i])
			}
		}
	}
	for ci := range f.CashLetters {
		cl := &f.CashLetters[ci]
		out = append(out, cl.CashLetterHeader)
		for _, x := range cl.CreditItems {
			out = append(out, x)
		}
		for _, x := range cl.Credits {
			out = append(out, x)
		}
		for _, b := range cl.Bundles {
			out = append(out, b.BundleHeader)
			for _, cd := range b.Checks {
				out = append(out, cd)
				for j := range cd.CheckDetailAddendumA {
					out = append(out, &cd.CheckDetailAddendumA[j])
				}
				for j := range cd.CheckDetailAddendumB {
					out = append(out, &cd.CheckDetailAddendumB[j])
				}
				for j := range cd.CheckDetailAddendumC {
					out = append(out, &cd.CheckDetailAddendumC[j])
				}
				views(cd.ImageViewDetail, cd.ImageViewData, cd.ImageViewAnalysis)
			}
			for _, rd := range b.Returns {
				out = append(out, rd)
				for j := range rd.ReturnDetailAddendumA {
					out = append(out, &rd.ReturnDetailAddendumA[j])
				}
				for j := range rd.ReturnDetailAddendumB {
					out = append(out, &rd.ReturnDetailAddendumB[j])
				}
				for j := range rd.ReturnDetailAddendumC {
					out = append(out, &rd.ReturnDetailAddendumC[j])
				}
				for j := range rd.ReturnDetailAddendumD {
					out = append(out, &rd.ReturnDetailAddendumD[j])
				}
				views(rd.ImageViewDetail, rd.ImageViewData, rd.ImageViewAnalysis)
			}
			out = append(out, b.BundleControl)
		}
		for _, x := range cl.RoutingNumberSummary {
			out = append(out, x)
		}
		out = append(out, cl.CashLetterControl)
	}
	out = append(out, &f.Control)
	return out
}
