package main

import (
	"bytes"
	"fmt"
	"runtime"
	"strings"
	"time"

	icl "github.com/moov-io/imagecashletter"
)

func runC03(cfg *config) *Report {
	rep := newReport("C03", cfg.tier, cfg.seed)
	r := newRng(cfg.seed + 1000)
	rep.Rule = "well-nested record streams rendered from the hand-written Spec layout by the Lean driver (never through the library's writer), 4 encodings; read by the real Reader and compared with the direct column decoding of the same bytes (Lean reader over Spec tables) and with the values the stream was assembled from; then 3 write/read cycles of the result compared byte for byte; non-trivial = stream differs from every earlier one; distinct by stream bytes"
	n := 40
	if cfg.tier == "thorough" {
		n = 1000
	}
	type kase struct {
		dump string
		enc  encCfg
	}
	var cases []kase
	var lines []string
	for i := 0; i < n; i++ {
		f, err := genFile(r, genOpts{maxCL: 3, maxBundles: 3, maxItems: 3, mutateP: 70, binary: i%4 == 3, unbuilt: i%4 == 1, emptyCL: true})
		if err != nil {
			continue
		}
		if i%3 == 1 {
			// conditional dates left blank (the build step always fills the settlement date in)
			for ci := range f.CashLetters {
				if c := f.CashLetters[ci].CashLetterControl; c != nil {
					c.SettlementDate = time.Time{}
				}
			}
		}
		if i%3 == 2 {
			// an item with more endorsements than any other addendum kind may have (ten to thirteen addenda C / D, the
			// standard allows 99), added AFTER the build so that the library's own verdict does not filter the input:
			// whether the stream is conformant is decided by the Spec reader below
			added := 0
		grow:
			for ci := range f.CashLetters {
				for _, b := range f.CashLetters[ci].Bundles {
					for _, rd := range b.Returns {
						for len(rd.ReturnDetailAddendumD) < 10+i%4 {
							d := baseReturnDetailAddendumD()
							d.RecordNumber = len(rd.ReturnDetailAddendumD) + 1
							d.EndorsingBankItemSequenceNumber = strings.TrimLeft(rd.EceInstitutionItemSequenceNumber, " ")
							rd.ReturnDetailAddendumD = append(rd.ReturnDetailAddendumD, d)
							rd.AddendumCount++
							added++
						}
						break grow
					}
					for _, cd := range b.Checks {
						for len(cd.CheckDetailAddendumC) < 10+i%4 {
							c := baseCheckDetailAddendumC()
							c.RecordNumber = len(cd.CheckDetailAddendumC) + 1
							c.EndorsingBankItemSequenceNumber = strings.TrimLeft(cd.EceInstitutionItemSequenceNumber, "0 ")
							cd.CheckDetailAddendumC = append(cd.CheckDetailAddendumC, c)
							cd.AddendumCount++
							added++
						}
						break grow
					}
				}
			}
			f.Control.TotalRecordCount += added
			if added > 0 {
				rep.count("item-with-ten-or-more-endorsements")
			}
		}
		if i%2 == 0 {
			// every printable character in the wide text classes (names, user fields, descriptions), chosen from the
			// printable range itself and NOT filtered through the library's validators: whether the stream is
			// conformant is decided by the Spec reader below
			for _, rec := range writerOrder(f) {
				goName := strings.TrimPrefix(fmt.Sprintf("%T", rec), "*imagecashletter.")
				L := layoutOf(goName)
				if L == nil {
					continue
				}
				infos := fieldInfos(L)
				for _, w := range L.Write {
					info := infos[w.Src]
					if kindOfConv(w.Conv) != 'S' || w.Conv != "alpha" || w.Width < 3 || fixedFields[w.Src] || info == nil || info.class == nil || r.Intn(4) != 0 {
						continue
					}
					members := 0
					for b := 0x21; b < 0x7f; b++ {
						if info.class[b] {
							members++
						}
					}
					old := getField(rec, w.Src, 'S')
					if members < 85 || len(old.S) < 3 {
						continue
					}
					nv := append([]byte{}, old.S...)
					nv[1+r.Intn(len(nv)-2)] = byte(0x21 + r.Intn(0x7f-0x21))
					setField(rec, w.Src, FV{K: 'S', S: nv})
					rep.count("printable-character-unfiltered")
				}
			}
		}
		d := dumpFile(f)
		encs := allEnc
		if i%4 == 3 {
			encs = []encCfg{{true, false}}
		}
		for _, e := range encs {
			cases = append(cases, kase{d, e})
			lines = append(lines, fmt.Sprintf("writeSpec\t%s\t%s\t%s", b01(e.LP), b01(e.EBCDIC), d))
		}
	}
	streams, err := leanParallel(cfg.driver, lines, runtime.NumCPU())
	if err != nil {
		fatal("driver: %v", err)
	}
	now := today()
	var lines2 []string
	type res struct {
		rerr, rd string
		bytes    []byte
		f        icl.File
	}
	results := make([]res, len(cases))
	for i, c := range cases {
		if streams[i] == "error" {
			rep.Notes = append(rep.Notes, "spec writer rejected a generated tree")
			lines2 = append(lines2, "rc\t-", "rc\t-")
			continue
		}
		b := unhx(streams[i])
		f, rerr, p := realRead(b, c.enc, 1<<22)
		if p != nil {
			rep.violate(Violation{Key: "C03:reader-panic", What: fmt.Sprint("Reader panicked: ", p), Replay: map[string]any{"bytes": streams[i], "enc": c.enc.String()}})
		}
		results[i] = res{canonErr(rerr), dumpFile(&f), b, f}
		lines2 = append(lines2, fmt.Sprintf("readSpec\t%s\t%s\t0\t%s\t%s", b01(c.enc.LP), b01(c.enc.EBCDIC), now, streams[i]),
			fmt.Sprintf("read\t%s\t%s\t0\t%s\t%s", b01(c.enc.LP), b01(c.enc.EBCDIC), now, streams[i]))
	}
	got, err := leanParallel(cfg.driver, lines2, runtime.NumCPU())
	if err != nil {
		fatal("driver: %v", err)
	}
	for i, c := range cases {
		if streams[i] == "error" {
			continue
		}
		rep.Evaluations++
		rep.CorrOps++
		rep.count("enc:" + c.enc.String())
		rep.nontrivial(streams[i])
		if i%53 == 0 {
			rep.sample(map[string]any{"enc": c.enc.String(), "census": census(c.dump), "stream_bytes": len(results[i].bytes)})
		}
		rs := results[i]
		impl := rs.rerr + " # " + rs.rd
		spec, gen := got[2*i], got[2*i+1]
		if impl != gen {
			rep.CorrDisagree++
			rep.violate(Violation{Key: "C03:corr:read:" + c.enc.String(), What: "model reader and Reader.Read disagree on a layout-generated stream",
				Replay: map[string]any{"bytes": streams[i], "enc": c.enc.String(), "implementation": impl, "model": gen}, NoInput: true})
		}
		sp := strings.SplitN(spec, " # ", 2)
		if sp[0] != "ok" && rs.rerr != "ok" {
			// not conformant by the Spec tables either (an unfiltered character outside the field's class)
			rep.count("not-conformant-by-spec")
			continue
		}
		if rs.rerr != "ok" {
			rep.violate(Violation{Key: "C03:rejected:" + c.enc.String() + ":" + rs.rerr, What: "Reader rejected a conformant, well-nested stream",
				Replay: map[string]any{"bytes": streams[i], "enc": c.enc.String(), "error": rs.rerr, "assembled_from": c.dump}})
			continue
		}
		if len(sp) == 2 && exportedOnly(rs.rd) != exportedOnly(sp[1]) {
			rep.violate(Violation{Key: "C03:decode:" + firstDiffTok(exportedOnly(sp[1]), exportedOnly(rs.rd)), What: "Reader's field values differ from the direct decoding of the X9.100-187 columns",
				Replay: map[string]any{"bytes": streams[i], "enc": c.enc.String(), "implementation": rs.rd, "direct_decoding": sp[1]}})
			continue
		}
		if exportedOnly(rs.rd) != exportedOnly(c.dump) {
			rep.violate(Violation{Key: "C03:decode-vs-source:" + firstDiffTok(exportedOnly(c.dump), exportedOnly(rs.rd)), What: "Reader's field values differ from the values the stream was assembled from",
				Replay: map[string]any{"bytes": streams[i], "enc": c.enc.String(), "implementation": rs.rd, "assembled_from": c.dump}})
			continue
		}
		// stability over cycles
		cur := rs.f
		var prev []byte
		for cyc := 0; cyc < 3; cyc++ {
			before := exportedOnly(dumpFile(&cur)) // writing is an observation: compared with the file as it was BEFORE the write
			w, werr, p := realWrite(&cur, c.enc)
			if p != nil || werr != nil {
				rep.violate(Violation{Key: "C03:cycle-write:" + c.enc.String(), What: fmt.Sprint("writing the file that was just read failed: ", werr, p),
					Replay: map[string]any{"bytes": streams[i], "enc": c.enc.String(), "cycle": cyc}})
				break
			}
			if cyc > 0 && !bytes.Equal(prev, w) {
				rep.violate(Violation{Key: "C03:drift:" + c.enc.String(), What: "a second write/read cycle changed the bytes",
					Replay: map[string]any{"bytes": streams[i], "enc": c.enc.String(), "cycle": cyc, "first_write": hx(prev), "next_write": hx(w)}})
				break
			}
			prev = w
			nf, rerr, p := realRead(w, c.enc, 1<<22)
			if p != nil || rerr != nil {
				rep.violate(Violation{Key: "C03:cycle-read:" + c.enc.String(), What: fmt.Sprint("re-reading the library's own output failed: ", rerr, p),
					Replay: map[string]any{"bytes": hx(w), "enc": c.enc.String(), "cycle": cyc}})
				break
			}
			if exportedOnly(dumpFile(&nf)) != before {
				rep.violate(Violation{Key: "C03:cycle-differs:" + c.enc.String(), What: "write then read gave a different file",
					Replay: map[string]any{"bytes": hx(w), "enc": c.enc.String(), "cycle": cyc}})
				break
			}
			cur = nf
		}
	}
	return rep
}
