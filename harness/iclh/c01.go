package main

import (
	"fmt"
	"runtime"
	"strings"

	icl "github.com/moov-io/imagecashletter"
)

type rtCase struct {
	f    *icl.File
	dump string
	enc  encCfg
	out  []byte
	werr error
	rerr string
	rd   string
	note string
}

// roundTrips: write each file under each encoding with the real Writer, read it back with the real
// Reader, and run the same operations through the Lean model.
func roundTrips(cfg *config, rep *Report, files []*icl.File, notes []string, encs []encCfg, propKey string) []rtCase {
	var cases []rtCase
	var lines []string
	now := today()
	for i, f := range files {
		d := dumpFile(f)
		for _, e := range encs {
			c := rtCase{f: f, dump: d, enc: e, note: notes[i]}
			out, werr, p := realWrite(f, e)
			if p != nil {
				rep.violate(Violation{Key: propKey + ":writer-panic", What: fmt.Sprint("Writer panicked: ", p), Replay: map[string]any{"tree": d, "enc": e.String()}})
				continue
			}
			c.out, c.werr = out, werr
			lines = append(lines, fmt.Sprintf("write\t%s\t%s\t%s", b01(e.LP), b01(e.EBCDIC), d))
			if werr == nil {
				rf, rerr, p := realRead(out, e, 1<<22)
				if p != nil {
					rep.violate(Violation{Key: propKey + ":reader-panic", What: fmt.Sprint("Reader panicked: ", p), Replay: map[string]any{"tree": d, "enc": e.String(), "bytes": hx(out)}})
					continue
				}
				c.rerr, c.rd = canonErr(rerr), dumpFile(&rf)
				lines = append(lines, fmt.Sprintf("read\t%s\t%s\t0\t%s\t%s", b01(e.LP), b01(e.EBCDIC), now, hx(out)))
			} else {
				lines = append(lines, "rc\t-")
			}
			cases = append(cases, c)
		}
	}
	got, err := leanParallel(cfg.driver, lines, runtime.NumCPU())
	if err != nil {
		fatal("driver: %v", err)
	}
	for i := range cases {
		c := &cases[i]
		mw, mr := got[2*i], got[2*i+1]
		rep.CorrOps += 2
		iw := "error"
		if c.werr == nil {
			iw = hx(c.out)
		}
		if mw != iw {
			rep.CorrDisagree++
			rep.violate(Violation{Key: propKey + ":corr:write:" + c.enc.String(), What: "model writer and Writer.Write disagree (correspondence L2-L4)",
				Replay: map[string]any{"tree": c.dump, "enc": c.enc.String(), "implementation": iw, "model": mw, "note": c.note}, NoInput: true})
		}
		if c.werr == nil {
			ir := c.rerr + " # " + c.rd
			if mr != ir {
				rep.CorrDisagree++
				rep.violate(Violation{Key: propKey + ":corr:read:" + c.enc.String(), What: "model reader and Reader.Read disagree (correspondence L1-L4)",
					Replay: map[string]any{"bytes": hx(c.out), "enc": c.enc.String(), "implementation": ir, "model": mr, "note": c.note}, NoInput: true})
			}
		}
	}
	return cases
}

func firstDiffTok(a, b string) string {
	x, y := strings.Split(a, "~"), strings.Split(b, "~")
	for i := 0; i < len(x) && i < len(y); i++ {
		if x[i] != y[i] {
			fa, fb := strings.Split(x[i], ";"), strings.Split(y[i], ";")
			for j := 0; j < len(fa) && j < len(fb); j++ {
				if fa[j] != fb[j] {
					return strings.SplitN(x[i], "|", 2)[0] + "." + strings.SplitN(strings.SplitN(fa[j], "|", 2)[len(strings.SplitN(fa[j], "|", 2))-1], ":", 2)[0]
				}
			}
			return strings.SplitN(x[i], "|", 2)[0]
		}
	}
	return fmt.Sprintf("length %d vs %d", len(x), len(y))
}

func runC01(cfg *config) *Report {
	rep := newReport("C01", cfg.tier, cfg.seed)
	r := newRng(cfg.seed)
	rep.Rule = "valid, canonical, built files of random shape (1-3 cash letters, 1-3 bundles, forward or return items, 0-9 addenda A, 0-1 B, 0-4 C/D, 0-2 image views with or without data/analysis, credits, credit items, routing number summaries; every free field varied over empty/short/half/full width in its class or over its code table) x the four encodings (binary signature/image bytes under length-prefix+ASCII); written with the real Writer and read back with the real Reader; non-trivial = the file differs in shape or values from every earlier one; distinct by tree dump x encoding"
	n := 60
	if cfg.tier == "thorough" {
		n = 1500
	}
	var files []*icl.File
	var notes []string
	for i := 0; i < n; i++ {
		o := genOpts{maxCL: 3, maxBundles: 3, maxItems: 3, mutateP: 60, emptyCL: true}
		if i%5 == 0 {
			o.mutateP = 100
		}
		if i%4 == 1 {
			// not every file the Writer is handed has been through Create
			o.unbuilt = true
			o.maxItems = 2
		}
		f, err := genFile(r, o)
		if err != nil {
			rep.count("gen-rejected")
			continue
		}
		files = append(files, f)
		notes = append(notes, "text")
	}
	cases := roundTrips(cfg, rep, files, notes, allEnc, "C01")
	// binary image / signature bytes: length-prefixed ASCII
	var bfiles []*icl.File
	var bnotes []string
	for i := 0; i < n/2; i++ {
		f, err := genFile(r, genOpts{maxCL: 2, maxBundles: 2, maxItems: 2, mutateP: 50, binary: true})
		if err == nil {
			bfiles = append(bfiles, f)
			bnotes = append(bnotes, "binary")
		}
	}
	cases = append(cases, roundTrips(cfg, rep, bfiles, bnotes, []encCfg{{true, false}}, "C01")...)
	// the premise of the reassembly theorems (Props/C01.lean, FileOK) evaluated by the driver on the
	// generated trees under the regenerated model: how many meet it (non-vacuity of C01_write_read_lp)
	{
		var ops []string
		var idx []int
		for i := range cases {
			// evaluated on the file as the reader returns it: a freshly built file differs from it in the
			// unexported `reserved` members (blank columns read back as blanks), which the theorem's exact
			// equality sees
			if cases[i].enc.LP && cases[i].werr == nil && cases[i].rerr == "ok" {
				ops = append(ops, fmt.Sprintf("fileokwhy\t1\t%s\t%s", b01(cases[i].enc.EBCDIC), cases[i].rd))
				idx = append(idx, i)
			}
		}
		got, err := leanParallel(cfg.driver, ops, runtime.NumCPU())
		if err == nil {
			for j, g := range got {
				c := cases[idx[j]]
				why := g
				if len(why) > 40 {
					why = why[:40]
				}
				if g != "ok" && len(rep.Notes) < 3 {
					rep.Notes = append(rep.Notes, "FileOK premise not met ("+c.enc.String()+"): "+g[:min(len(g), 4000)])
				}
				rep.count("theorem-premise-FileOK:" + why + ":" + c.enc.String())
				roundTripped := c.werr == nil && c.rerr == "ok" && exportedOnly(c.rd) == exportedOnly(c.dump)
				if g == "ok" && !roundTripped {
					// the theorem says the MODEL reads the file back; the implementation did not: the
					// correspondence stream reports where they part, this is only counted
					rep.count("theorem-premise-met-but-implementation-differs")
				}
			}
		} else {
			rep.Notes = append(rep.Notes, "fileok evaluation failed: "+err.Error())
		}
	}
	// the hypothesis of the end-to-end theorems (Props/C01Rec.lean, CanonFile) evaluated by the driver: on the
	// files as read back (all must meet it: non-vacuity of C01_canonical_*), and on spoiled copies of the same
	// files (leading blank, over-long value, negative number: none may meet it - the hypothesis is not trivial)
	{
		var ops []string
		var want []bool
		seen := map[string]bool{}
		for i := range cases {
			c := cases[i]
			if c.werr != nil || c.rerr != "ok" || seen[c.rd] {
				continue
			}
			seen[c.rd] = true
			ops = append(ops, "canonfile\t"+c.rd)
			want = append(want, true)
			if c.note == "text" {
				// a file of text (image bytes apart): the hypothesis of the EBCDIC theorems as well
				ops = append(ops, "canonfilee\t"+c.rd)
				want = append(want, true)
			}
			if sp := spoilDump(c.rd, len(ops)); sp != "" {
				ops = append(ops, "canonfile\t"+sp)
				want = append(want, false)
			}
		}
		got, err := leanParallel(cfg.driver, ops, runtime.NumCPU())
		if err == nil {
			for j, g := range got {
				why := g
				if len(why) > 48 {
					why = why[:48]
				}
				if want[j] {
					if strings.HasPrefix(ops[j], "canonfilee") {
						why = "E:" + why
					}
					rep.count("theorem-hypothesis-CanonFile:" + why)
					if g != "ok" && len(rep.Notes) < 6 {
						rep.Notes = append(rep.Notes, "CanonFile hypothesis not met by a file the implementation round-trips: "+g)
					}
				} else {
					if g == "ok" {
						rep.count("theorem-hypothesis-CanonFile:spoiled-file-accepted")
						if len(rep.Notes) < 6 {
							rep.Notes = append(rep.Notes, "CanonFile hypothesis met by a spoiled file: "+ops[j][:min(len(ops[j]), 600)])
						}
					} else {
						rep.count("theorem-hypothesis-CanonFile:spoiled-file-refused")
					}
				}
			}
		} else {
			rep.Notes = append(rep.Notes, "canonfile evaluation failed: "+err.Error())
		}
	}
	probeFindings(cfg, rep, r)
	for _, c := range cases {
		rep.Evaluations++
		rep.count("enc:" + c.enc.String())
		rep.count(fmt.Sprintf("records:%d0s", strings.Count(c.dump, "~")/10))
		rep.nontrivial(c.enc.String() + c.dump)
		if rep.Evaluations%97 == 1 {
			rep.sample(map[string]any{"enc": c.enc.String(), "census": census(c.dump), "bytes": len(c.out)})
		}
		if c.werr != nil {
			rep.violate(Violation{Key: "C01:write-rejected:" + c.enc.String(), What: "Writer rejected a valid canonical file: " + c.werr.Error(),
				Replay: map[string]any{"tree": c.dump, "enc": c.enc.String()}})
			continue
		}
		if c.rerr != "ok" {
			rep.violate(Violation{Key: "C01:read-rejected:" + c.enc.String() + ":" + c.rerr, What: "Reader rejected the Writer's output for a valid canonical file",
				Replay: map[string]any{"tree": c.dump, "enc": c.enc.String(), "bytes": hx(c.out), "error": c.rerr}})
			continue
		}
		if exportedOnly(c.rd) != exportedOnly(c.dump) {
			rep.violate(Violation{Key: "C01:roundtrip:" + c.enc.String() + ":" + firstDiffTok(exportedOnly(c.dump), exportedOnly(c.rd)), What: "file read back differs from the file written",
				Replay: map[string]any{"tree": c.dump, "enc": c.enc.String(), "read_back": c.rd, "bytes": hx(c.out)}})
		}
	}
	return rep
}

// probeFindings replays, on every run, the specific inputs of the recorded findings for C01 (and any
// probe whose finding has been fixed): canonical valid files that stress one corner each.
func probeFindings(cfg *config, rep *Report, r rng) {
	type probe struct {
		key  string
		encs []encCfg
		mod  func(f *icl.File)
	}
	firstCheck := func(f *icl.File) *icl.CheckDetail { return f.CashLetters[0].Bundles[0].Checks[0] }
	probes := []probe{
		{"credit-sequence-number-short", allEnc, func(f *icl.File) {
			cr := baseCredit()
			cr.ECEInstitutionItemSequenceNumber = "1"
			f.CashLetters[0].AddCredit(cr)
		}},
		{"ebcdic-binary-signature", []encCfg{{true, true}}, func(f *icl.File) {
			cd := firstCheck(f)
			d := baseImageViewDetail()
			cd.ImageViewDetail = []icl.ImageViewDetail{d}
			iv := mkIVData(r, genOpts{})
			iv.DigitalSignature = []byte{'S', 0x80, 0xfe, 0xc3, 'Z'}
			iv.LengthDigitalSignature = "00005"
			cd.ImageViewData = []icl.ImageViewData{iv}
			cd.ImageViewAnalysis = []icl.ImageViewAnalysis{baseImageViewAnalysis()}
		}},
		{"variable-record-shorter-than-80", allEnc, func(f *icl.File) {
			cd := firstCheck(f)
			b := baseCheckDetailAddendumB()
			b.MicrofilmArchiveSequenceNumber = "1A"
			b.ImageReferenceKey, b.LengthImageReferenceKey = "0123456789", "0010"
			cd.CheckDetailAddendumB = []icl.CheckDetailAddendumB{b}
			cd.AddendumCount = len(cd.CheckDetailAddendumA) + 1 + len(cd.CheckDetailAddendumC)
		}},
	}
	for _, p := range probes {
		f, err := genFile(newRng(7), genOpts{maxCL: 1, maxBundles: 1, maxItems: 1, mutateP: 0})
		if err != nil || len(f.CashLetters[0].Bundles[0].Checks) == 0 {
			f, err = genFile(newRng(11), genOpts{maxCL: 1, maxBundles: 1, maxItems: 1, mutateP: 0})
		}
		if err != nil || len(f.CashLetters[0].Bundles[0].Checks) == 0 {
			rep.Notes = append(rep.Notes, "probe base file unavailable: "+p.key)
			continue
		}
		p.mod(f)
		if err := f.CashLetters[0].Create(); err != nil {
			rep.Notes = append(rep.Notes, "probe "+p.key+": "+err.Error())
			continue
		}
		if err := f.Create(); err != nil {
			rep.Notes = append(rep.Notes, "probe "+p.key+": "+err.Error())
			continue
		}
		for _, c := range roundTrips(cfg, rep, []*icl.File{f}, []string{"probe " + p.key}, p.encs, "C01") {
			rep.Evaluations++
			rep.count("probe:" + p.key)
			bad := ""
			switch {
			case c.werr != nil:
				bad = "writer error: " + c.werr.Error()
			case c.rerr != "ok":
				bad = "reader error: " + c.rerr
			case exportedOnly(c.rd) != exportedOnly(c.dump):
				bad = "read back differs at " + firstDiffTok(exportedOnly(c.dump), exportedOnly(c.rd))
			}
			if bad != "" {
				rep.violate(Violation{Key: "C01:probe:" + p.key, What: "canonical valid file does not round-trip (" + bad + ")",
					Replay: map[string]any{"tree": c.dump, "enc": c.enc.String(), "bytes": hx(c.out), "observed": bad}})
			}
		}
	}
}
