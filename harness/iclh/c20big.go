package main

import (
	"bytes"
	"context"
	"fmt"
	"io"
	"net/http"
	"net/http/httptest"

	icl "github.com/moov-io/imagecashletter"
	client "github.com/moov-io/imagecashletter/client"
	"github.com/moov-io/imagecashletter/verifhooks"
)

// clientLargeAnswers: a stored file with several large image views (each within the seven-digit length column, together
// larger than any single view can be), read through the shipped client: every operation must hand the caller what
// the server answered, in full.  The oracle is the answer a plain HTTP request gets from the same server.
func clientLargeAnswers(rep *Report, r rng) {
	f := fullyPopulated(r, 0)
	views := 0
	big := func(d *icl.ImageViewData) {
		img := make([]byte, 6_300_000+views*1000)
		x := uint32(views + 7)
		for i := range img {
			x = x*1664525 + 1013904223
			img[i] = byte(x >> 24)
		}
		d.ImageData = img
		d.LengthImageData = fmt.Sprintf("%07d", len(img))
		views++
	}
	// at least three views: the first item that has one gets copies of it
	total := 0
	for ci := range f.CashLetters {
		for _, b := range f.CashLetters[ci].Bundles {
			for _, cd := range b.Checks {
				total += len(cd.ImageViewData)
			}
			for _, rd := range b.Returns {
				total += len(rd.ImageViewData)
			}
		}
	}
	for ci := range f.CashLetters {
		for _, b := range f.CashLetters[ci].Bundles {
			for _, cd := range b.Checks {
				for total < 3 && len(cd.ImageViewData) > 0 && len(cd.ImageViewDetail) > 0 && len(cd.ImageViewAnalysis) > 0 {
					cd.ImageViewDetail = append(cd.ImageViewDetail, cd.ImageViewDetail[0])
					cd.ImageViewData = append(cd.ImageViewData, cd.ImageViewData[0])
					cd.ImageViewAnalysis = append(cd.ImageViewAnalysis, cd.ImageViewAnalysis[0])
					total++
				}
				for i := range cd.ImageViewData {
					if views < 3 {
						big(&cd.ImageViewData[i])
					}
				}
			}
			for _, rd := range b.Returns {
				for i := range rd.ImageViewData {
					if views < 3 {
						big(&rd.ImageViewData[i])
					}
				}
			}
		}
	}
	if views < 3 {
		rep.count("client-op:large-answers:too-few-views")
		return
	}
	repo := verifhooks.NewInMemoryRepo()
	if err := repo.SaveFile(f); err != nil {
		rep.count("client-op:large-answers:not-stored")
		return
	}
	srv := httptest.NewServer(verifhooks.NewRouter(repo))
	defer srv.Close()
	direct := func(path string) ([]byte, int) {
		resp, err := http.Get(srv.URL + path)
		if err != nil {
			return nil, 0
		}
		defer resp.Body.Close()
		b, _ := io.ReadAll(resp.Body)
		return b, resp.StatusCode
	}
	cfg := client.NewConfiguration()
	cfg.BasePath = srv.URL
	api := client.NewAPIClient(cfg).ImageCashLetterFilesApi
	ctx := context.Background()
	rep.count("client-op:large-answers")
	if body, st := direct("/files/" + f.ID); st == 200 {
		rep.Evaluations++
		rep.nontrivial(fmt.Sprintf("large-answer:get:%dMiB", len(body)>>20))
		got, _, err := api.GetICLFileByID(ctx, f.ID, nil)
		if err != nil {
			rep.violate(Violation{Key: "C20:client-op:large-answer:get", What: fmt.Sprintf("GetICLFileByID fails on a %d-byte answer the server gave in full with status 200: %v", len(body), err),
				Replay: map[string]any{"answer_bytes": len(body), "image_views": views, "error": err.Error()}})
		} else if got.ID != f.ID {
			rep.violate(Violation{Key: "C20:client-op:large-answer:get-id", What: "GetICLFileByID decoded a large answer to another file ID", Replay: map[string]any{"want": f.ID, "got": got.ID}})
		}
	}
	if body, st := direct("/files"); st == 200 {
		rep.Evaluations++
		list, _, err := api.GetICLFiles(ctx, nil)
		if err != nil || len(list) != 1 {
			rep.violate(Violation{Key: "C20:client-op:large-answer:list", What: fmt.Sprintf("GetICLFiles fails on a %d-byte listing the server gave in full with status 200 (err %v, %d files decoded)", len(body), err, len(list)),
				Replay: map[string]any{"answer_bytes": len(body), "image_views": views}})
		}
	}
	if body, st := direct("/files/" + f.ID + "/contents"); st == 200 {
		rep.Evaluations++
		rep.nontrivial(fmt.Sprintf("large-answer:contents:%dMiB", len(body)>>20))
		got, _, err := api.GetICLFileContents(ctx, f.ID, nil)
		if err != nil || !bytes.Equal([]byte(got), body) {
			at := 0
			for at < len(got) && at < len(body) && got[at] == body[at] {
				at++
			}
			rep.violate(Violation{Key: "C20:client-op:large-answer:contents", What: fmt.Sprintf("GetICLFileContents returns %d bytes (err %v) where the server sent %d; they agree up to byte %d", len(got), err, len(body), at),
				Replay: map[string]any{"answer_bytes": len(body), "client_bytes": len(got), "first_difference": at, "image_views": views}})
		}
	} else {
		rep.count("client-op:large-answers:contents-not-rendered")
	}
}
