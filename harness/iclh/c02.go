package main

import (
	"bytes"
	_ "embed"
	"encoding/json"
	"fmt"
	"math"
	"strings"

	icl "github.com/moov-io/imagecashletter"
)

// ---------- converter correspondence (L0) ----------

func convOps(r rng, tier string) (ops []string, want []string) {
	add := func(op string, w string) { ops = append(ops, op); want = append(want, w) }
	syms := []string{"A", " ", "0", "\xc3", "é"}
	maxLen, maxW := 4, 6
	if tier == "thorough" {
		maxLen, maxW = 6, 9
	}
	var strs []string
	var gen func(cur string, n int)
	gen = func(cur string, n int) {
		strs = append(strs, cur)
		if n == 0 {
			return
		}
		for _, s := range syms {
			gen(cur+s, n-1)
		}
	}
	gen("", maxLen)
	for _, s := range strs {
		for w := 0; w <= maxW; w++ {
			add(fmt.Sprintf("alpha\t%s\t%d", hx([]byte(s)), w), hx([]byte(icl.VerifAlphaField(s, uint(w)))))
			add(fmt.Sprintf("nbsm\t%s\t%d", hx([]byte(s)), w), hx([]byte(icl.VerifNBSMField(s, uint(w)))))
			add(fmt.Sprintf("zstr\t%s\t%d", hx([]byte(s)), w), hx([]byte(icl.VerifStringField(s, uint(w)))))
		}
	}
	// fills far longer than any fixed column (the variable sections - image data, keys, signatures - are filled to the
	// length their length column announces, up to 9,999,999 for an image): the converters fill up to the documented
	// growth bound (1e8), not to some smaller one
	for _, w := range []int{1 << 16, 1 << 20, 1<<20 + 1, 1<<20 + 4097, 2500000} {
		add(fmt.Sprintf("alpha\t%s\t%d", hx([]byte("Ab")), w), hx([]byte(icl.VerifAlphaField("Ab", uint(w)))))
		add(fmt.Sprintf("nbsm\t%s\t%d", hx([]byte("Ab")), w), hx([]byte(icl.VerifNBSMField("Ab", uint(w)))))
		add(fmt.Sprintf("zstr\t%s\t%d", hx([]byte("12")), w), hx([]byte(icl.VerifStringField("12", uint(w)))))
		add(fmt.Sprintf("numeric\t%d\t%d", 7, w), hx([]byte(icl.VerifNumericField(7, uint(w)))))
	}
	ints := []int{0, 1, -1, 9, 10, 99, 100, -10, -99, 12345, math.MaxInt64, math.MinInt64, math.MaxInt32, 1e15, -1e15}
	for k := 0; k < 18; k++ {
		p := 1
		for i := 0; i < k; i++ {
			p *= 10
		}
		ints = append(ints, p, p-1, p+1, -p)
	}
	for i := 0; i < 200; i++ {
		ints = append(ints, int(r.Int63())>>uint(r.Intn(63)), -int(r.Int63()>>uint(r.Intn(63))))
	}
	for _, n := range ints {
		for _, w := range []int{0, 1, 2, 3, 4, 5, 6, 7, 8, 9, 10, 12, 14, 15, 16, 18, 19, 20, 25} {
			add(fmt.Sprintf("numeric\t%d\t%d", n, w), hx([]byte(icl.VerifNumericField(n, uint(w)))))
		}
	}
	// parse side: trim / atoi / rune count / dates / times
	trimSyms := []string{" ", "\t", "\n", "\r", "\v", "\f", "A", "0", "-", "+", "\u0085", " ", " ", "　", " ", "\xc2", "\x85", "\xe2\x80", "\xa0", "​", " ", " ", " ", "\xff"}
	n := 3000
	if tier == "thorough" {
		n = 40000
	}
	for i := 0; i < n; i++ {
		k := r.Intn(7)
		var sb strings.Builder
		for j := 0; j < k; j++ {
			sb.WriteString(trimSyms[r.Intn(len(trimSyms))])
		}
		s := sb.String()
		add("trim\t"+hx([]byte(s)), hx([]byte(icl.VerifParseStringField(s))))
		add("atoi\t"+hx([]byte(s)), fmt.Sprint(icl.VerifParseNumField(s)))
	}
	numSyms := []string{"0", "1", "9", " ", "-", "+", "_", "a", "5", "7"}
	for i := 0; i < n; i++ {
		k := r.Intn(22)
		var sb strings.Builder
		for j := 0; j < k; j++ {
			if r.Intn(4) == 0 {
				sb.WriteString(numSyms[r.Intn(len(numSyms))])
			} else {
				sb.WriteByte(byte('0' + r.Intn(10)))
			}
		}
		s := sb.String()
		add("atoi\t"+hx([]byte(s)), fmt.Sprint(icl.VerifParseNumField(s)))
	}
	// rune counts over arbitrary bytes
	for i := 0; i < n; i++ {
		k := r.Intn(9)
		b := make([]byte, k)
		for j := range b {
			switch r.Intn(4) {
			case 0:
				b[j] = byte(r.Intn(128))
			case 1:
				b[j] = byte(0x80 + r.Intn(64))
			default:
				b[j] = byte(0xC0 + r.Intn(64))
			}
		}
		add("rc\t"+hx(b), fmt.Sprint(runeCount(string(b))))
	}
	// dates and times
	dsyms := "0123456789 9a"
	for i := 0; i < n; i++ {
		var s string
		switch r.Intn(3) {
		case 0:
			s = fmt.Sprintf("%04d%02d%02d", r.Intn(10000), r.Intn(14), r.Intn(33))
		case 1:
			s = fmt.Sprintf("%04d%02d%02d", 1996+r.Intn(12), 1+r.Intn(12), 27+r.Intn(5))
		default:
			s = r.asciiStr(6+r.Intn(4), dsyms)
		}
		t := icl.VerifParseDate(s)
		add("pdate\t"+hx([]byte(s)), fmt.Sprintf("%d-%d-%d", t.Year(), int(t.Month()), t.Day()))
		var ts string
		if r.Intn(2) == 0 {
			ts = fmt.Sprintf("%02d%02d", r.Intn(26), r.Intn(62))
		} else {
			ts = r.asciiStr(3+r.Intn(3), dsyms)
		}
		tt := icl.VerifParseTime(ts)
		zz := 0
		if tt.IsZero() {
			zz = 1
		}
		add("ptime\t"+hx([]byte(ts)), fmt.Sprintf("%d-%d-%d", tt.Hour(), tt.Minute(), zz))
		y, m, d := r.Intn(10000), 1+r.Intn(12), 1+r.Intn(28)
		add(fmt.Sprintf("fdate\t%d\t%d\t%d", y, m, d), hx([]byte(icl.VerifFormatDate(mkDate(y, m, d)))))
		h, mi := r.Intn(24), r.Intn(60)
		add(fmt.Sprintf("ftime\t%d\t%d", h, mi), hx([]byte(icl.VerifFormatTime(mkHM(h, mi)))))
	}
	return
}

func runeCount(s string) int {
	n := 0
	for range s {
		n++
	}
	return n
}

// ---------- record rendering: real String() vs model render (Gen) vs layout render (Spec) ----------

var hostileStrs = []string{"", "A", " ", "0", "-", "AB", " A", "A ", "é", "\xff\xfe", "12", "Z9", "a_b", "  ", "00"}

func fullWidth(w int, seedCh byte) string {
	var sb strings.Builder
	for i := 0; i < w; i++ {
		sb.WriteByte('A' + (seedCh+byte(i))%26)
	}
	return sb.String()
}

func digitsOf(w int, seedCh byte) string {
	var sb strings.Builder
	for i := 0; i < w; i++ {
		sb.WriteByte('1' + (seedCh+byte(i))%9)
	}
	return sb.String()
}

// markerVals: every field a distinct, full-width, class-legal value; length fields consistent.
func markerVals(L *RecLayout, variant int) map[string]FV {
	vals := map[string]FV{}
	for i, w := range L.Write {
		if w.Conv == "lit" {
			continue
		}
		ch := byte(i*3 + variant)
		switch kindOfConv(w.Conv) {
		case 'I':
			n := 0
			for _, c := range digitsOf(min(w.Width, 15), ch) {
				n = n*10 + int(c-'0')
			}
			vals[w.Src] = FV{K: 'I', I: n}
		case 'D':
			vals[w.Src] = FV{K: 'D', Y: 2001 + i + variant, M: 1 + (i+variant)%12, D: 1 + (i*7+variant)%28}
		case 'T':
			vals[w.Src] = FV{K: 'T', Y: (i + variant) % 24, M: (i*11 + variant) % 60}
		default:
			switch w.Conv {
			case "alphaVar", "bytesVar", "image":
				n := 3 + (i+variant)%5
				body := fullWidth(n, ch)
				if w.Conv != "alphaVar" {
					body = string([]byte{0x00, 0xff, 0x80, 'x', 0x0a, 'y', 0xc3, 0x28}[:n])
				}
				vals[w.Src] = FV{K: 'S', S: []byte(body)}
			case "zstr":
				vals[w.Src] = FV{K: 'S', S: []byte(digitsOf(w.Width, ch))}
			default:
				vals[w.Src] = FV{K: 'S', S: []byte(fullWidth(w.Width, ch))}
			}
		}
	}
	// make the length fields agree with the sections they govern
	for _, w := range L.Write {
		if w.LenField != "" {
			lw := 4
			for _, x := range L.Write {
				if x.Src == w.LenField {
					lw = x.Width
				}
			}
			vals[w.LenField] = FV{K: 'S', S: []byte(fmt.Sprintf("%0*d", lw, len(vals[w.Src].S)))}
		}
	}
	return vals
}

func hostileFor(w WField, r rng) []FV {
	switch kindOfConv(w.Conv) {
	case 'I':
		out := []FV{{K: 'I', I: 0}, {K: 'I', I: -1}, {K: 'I', I: 7}, {K: 'I', I: math.MaxInt64}, {K: 'I', I: math.MinInt64}, {K: 'I', I: -12345}}
		p := 1
		for i := 0; i < w.Width && i < 17; i++ {
			p *= 10
		}
		return append(out, FV{K: 'I', I: p}, FV{K: 'I', I: p - 1}, FV{K: 'I', I: p + 5}, FV{K: 'I', I: int(r.Int63() >> uint(r.Intn(60)))})
	case 'D':
		return []FV{{K: 'D', Y: 1, M: 1, D: 1}, {K: 'D', Y: 0, M: 1, D: 1}, {K: 'D', Y: 9999, M: 12, D: 31}, {K: 'D', Y: 2024, M: 2, D: 29}, {K: 'D', Y: 1 + r.Intn(9998), M: 1 + r.Intn(12), D: 1 + r.Intn(28)}}
	case 'T':
		return []FV{{K: 'T', Y: 0, M: 0}, {K: 'T', Z: true}, {K: 'T', Y: 23, M: 59}, {K: 'T', Y: r.Intn(24), M: r.Intn(60)}}
	}
	var out []FV
	for _, s := range hostileStrs {
		out = append(out, FV{K: 'S', S: []byte(s)})
	}
	wd := w.Width
	if wd == 0 {
		wd = 6
	}
	out = append(out, FV{K: 'S', S: []byte(fullWidth(wd, 5))}, FV{K: 'S', S: []byte(fullWidth(wd+1, 9))}, FV{K: 'S', S: []byte(fullWidth(wd+3, 2))},
		FV{K: 'S', S: []byte(strings.Repeat("é", wd))}, FV{K: 'S', S: []byte(fullWidth(max(wd-1, 0), 1))})
	if wd >= 2 {
		out = append(out, FV{K: 'S', S: []byte(" " + fullWidth(wd-2, 3) + " ")})
	}
	return out
}

func lenFieldHostile() []FV {
	var out []FV
	for _, s := range []string{"0000", "0001", "0005", "0010", "", "5", "-001", "abcd", "9999", " 7", "00000012"} {
		out = append(out, FV{K: 'S', S: []byte(s)})
	}
	return out
}

type renderCase struct {
	Rec  string
	Vals map[string]FV
	Note string
	L    *RecLayout // the layout the case was generated from (the pinned one when the regenerated one is not recognised)
}

// the write layouts of the unchanged tree: used ONLY to generate render cases for a record whose String() the translator
// no longer recognises (its regenerated table is then a list of opaque statements and would yield no case at all); what
// the cases are judged by is the Spec rendering of the Lean driver, as always
//
//go:embed pinned_write.json
var pinnedWriteJSON []byte

func pinnedLayout(L *RecLayout) *RecLayout {
	var pinned map[string][]WField
	if json.Unmarshal(pinnedWriteJSON, &pinned) != nil {
		return L
	}
	p, ok := pinned[L.Go]
	if !ok {
		return L
	}
	opaque := func(ws []WField) int {
		n := 0
		for _, w := range ws {
			if w.Conv == "opaque" {
				n++
			}
		}
		return n
	}
	if opaque(L.Write) <= opaque(p) {
		return L
	}
	c := *L
	c.Write = p
	return &c
}

func renderCases(r rng, tier string) []renderCase {
	var cases []renderCase
	for li := range tables.Records {
		L := pinnedLayout(&tables.Records[li])
		lenFields := map[string]bool{}
		for _, w := range L.Write {
			if w.LenField != "" {
				lenFields[w.LenField] = true
			}
		}
		variants := 2
		if tier == "thorough" {
			variants = 6
		}
		for v := 0; v < variants; v++ {
			base := markerVals(L, v)
			cases = append(cases, renderCase{L.Go, base, "marker", L})
			for _, w := range L.Write {
				if w.Conv == "lit" || w.Conv == "opaque" {
					continue
				}
				hs := hostileFor(w, r)
				if lenFields[w.Src] {
					hs = append(hs, lenFieldHostile()...)
				}
				if w.Src == "LengthImageData" {
					// an image announced more than a mebibyte longer than the data present: the section is filled to the
					// announced length (the growth bound of the converters is 1e8)
					hs = append(hs, FV{K: 'S', S: []byte("1048700")}, FV{K: 'S', S: []byte("2100000")})
				}
				for _, h := range hs {
					vals := map[string]FV{}
					for k, x := range base {
						vals[k] = x
					}
					vals[w.Src] = h
					cases = append(cases, renderCase{L.Go, vals, "field " + w.Src, L})
				}
			}
		}
		// all fields empty / zero
		zero := map[string]FV{}
		for _, w := range L.Write {
			if w.Conv == "lit" {
				continue
			}
			switch kindOfConv(w.Conv) {
			case 'I':
				zero[w.Src] = FV{K: 'I'}
			case 'D':
				zero[w.Src] = FV{K: 'D', Y: 1, M: 1, D: 1}
			case 'T':
				zero[w.Src] = FV{K: 'T', Z: true}
			default:
				zero[w.Src] = FV{K: 'S'}
			}
		}
		cases = append(cases, renderCase{L.Go, zero, "zero", L})
	}
	return cases
}

func applyVals(rec any, L *RecLayout, vals map[string]FV) {
	for k, v := range vals {
		setField(rec, k, v)
	}
}

func runC02(cfg *config) *Report {
	rep := newReport("C02", cfg.tier, cfg.seed)
	r := newRng(cfg.seed)
	rep.Rule = "converters: every string of length<=4(6) over {A,space,0,0xC3,é} x widths 0..6(9), boundary and random ints x 19 widths, random trim/atoi/runecount/date/time inputs; records: for each of the 23 record types marker-valued records with each field in turn set to each hostile value (empty, short, full, over-long, multi-byte, invalid UTF-8, negative/huge ints, zero dates, lying length fields); non-trivial = the rendered record differs from the marker baseline of its type; distinct by rendered bytes"
	// A. converter correspondence
	ops, want := convOps(r, cfg.tier)
	got, err := leanBatch(cfg.driver, ops)
	if err != nil {
		fatal("driver: %v", err)
	}
	for i := range ops {
		rep.CorrOps++
		rep.count("conv:" + strings.SplitN(ops[i], "\t", 2)[0])
		if got[i] != want[i] {
			rep.CorrDisagree++
			rep.violate(Violation{Key: "C02:corr:conv:" + strings.SplitN(ops[i], "\t", 2)[0],
				What:    "model converter and implementation disagree (correspondence L0)",
				Replay:  map[string]any{"op": ops[i], "model": got[i], "implementation": want[i]},
				NoInput: true})
		}
	}
	rep.Evaluations += len(ops)
	// B. records
	cases := renderCases(r, cfg.tier)
	var lines []string
	var impl []string
	baseline := map[string]string{}
	for _, c := range cases {
		L := c.L
		rec := newRec(c.Rec)
		applyVals(rec, L, c.Vals)
		s, p := recString(rec)
		if p != nil {
			s = fmt.Sprintf("PANIC %v", p)
		}
		impl = append(impl, hx([]byte(s)))
		vals := map[string]FV{"recordType": {K: 'S', S: []byte(L.Tag)}}
		for k, v := range c.Vals {
			vals[k] = v
		}
		wv := wireVals(vals)
		lines = append(lines, "render\t"+c.Rec+"\t1\t"+wv, "renderSpec\t"+c.Rec+"\t1\t"+wv)
		if c.Note == "marker" {
			if _, ok := baseline[c.Rec]; !ok {
				baseline[c.Rec] = impl[len(impl)-1]
			}
		}
	}
	got, err = leanBatch(cfg.driver, lines)
	if err != nil {
		fatal("driver: %v", err)
	}
	for i, c := range cases {
		rep.Evaluations++
		rep.CorrOps++
		rep.count("render:" + c.Rec)
		gen, spec := got[2*i], got[2*i+1]
		if impl[i] != baseline[c.Rec] {
			rep.nontrivial(c.Rec + "|" + impl[i])
		}
		if i%997 == 0 {
			rep.sample(map[string]any{"record": c.Rec, "note": c.Note, "vals": wireVals(c.Vals), "rendered_hex": impl[i]})
		}
		if impl[i] != spec {
			rep.violate(Violation{Key: "C02:layout:" + c.Rec + ":" + firstDiffField(c.Rec, impl[i], spec),
				What:   fmt.Sprintf("%s.String() differs from the X9.100-187 layout rendering (%s)", c.Rec, c.Note),
				Replay: map[string]any{"record": c.Rec, "vals": wireVals(c.Vals), "implementation_hex": impl[i], "layout_hex": spec}})
		}
		if impl[i] != gen {
			rep.CorrDisagree++
			if impl[i] == spec {
				rep.violate(Violation{Key: "C02:corr:render:" + c.Rec, What: "regenerated write table does not reproduce String() (translator/model stale)",
					Replay: map[string]any{"record": c.Rec, "vals": wireVals(c.Vals), "implementation_hex": impl[i], "model_hex": gen}, NoInput: true})
			}
		}
	}
	// C. the Writer: what it emits for a record is that record's String(), framed and nothing else - also when
	// field values hold line breaks, tabs or multi-byte text (the Writer validates the file's shape, not its fields)
	hostile := []string{"A\r\nB", "X\nY", "Q\rZ", "T\tU", "é", "  pad  ", "\r\n"}
	for fi := 0; fi < 6; fi++ {
		f, err := genFile(r, genOpts{maxCL: 1, maxBundles: 2, maxItems: 2, mutateP: 20})
		if err != nil {
			continue
		}
		recs := writerOrder(f)
		// one string member of every third record takes a hostile value
		for ri, rec := range recs {
			if ri%3 != fi%3 {
				continue
			}
			goName := strings.TrimPrefix(fmt.Sprintf("%T", rec), "*imagecashletter.")
			L := layoutOf(goName)
			if L == nil {
				continue
			}
			for _, w := range L.Write {
				if kindOfConv(w.Conv) == 'S' && w.Conv != "lit" && w.Width >= 6 && !strings.HasPrefix(w.Src, "reserved") && w.Src[0] >= 'A' && w.Src[0] <= 'Z' && !strings.HasPrefix(w.Src, "Length") {
					setField(rec, w.Src, FV{K: 'S', S: []byte(hostile[(fi+ri)%len(hostile)])})
					break
				}
			}
		}
		for _, e := range []encCfg{{false, false}, {true, false}} {
			out, werr, pn := realWrite(f, e)
			rep.Evaluations++
			rep.count("writer-framing:" + e.String())
			if pn != nil || werr != nil {
				rep.count("writer-framing:refused")
				continue
			}
			var want bytes.Buffer
			for _, rec := range recs {
				s, p := recString(rec)
				if p != nil {
					continue
				}
				if e.LP {
					n := len(s)
					want.Write([]byte{byte(n >> 24), byte(n >> 16), byte(n >> 8), byte(n)})
					want.WriteString(s)
				} else {
					want.WriteString(s)
					want.WriteByte('\n')
				}
			}
			rep.nontrivial("writer|" + e.String() + "|" + hx(out)[:min(len(out)*2, 4000)])
			if !bytes.Equal(out, want.Bytes()) {
				at := 0
				for at < len(out) && at < want.Len() && out[at] == want.Bytes()[at] {
					at++
				}
				rep.violate(Violation{Key: "C02:writer-alters-record:" + e.String(), What: fmt.Sprintf("the Writer's output is not the framed String() of the file's records (first difference at byte %d of %d / %d)", at, len(out), want.Len()),
					Replay: map[string]any{"tree": dumpFile(f), "enc": e.String(), "written_hex": hx(out), "expected_hex": hx(want.Bytes())}})
			}
		}
	}
	return rep
}

// firstDiffField names the Spec field containing the first differing byte (for the structural key).
func firstDiffField(rec, a, b string) string {
	x, y := unhx(a), unhx(b)
	i := 0
	for i < len(x) && i < len(y) && x[i] == y[i] {
		i++
	}
	L := layoutOf(rec)
	pos := 0
	for _, w := range L.Write {
		if w.Width == 0 {
			break
		}
		if i < pos+w.Width {
			return w.Src
		}
		pos += w.Width
	}
	return fmt.Sprintf("byte%d", i)
}
