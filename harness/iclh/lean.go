package main

import (
	"bufio"
	"fmt"
	"io"
	"os"
	"os/exec"
	"strings"
)

// leanBatch sends the lines to the compiled Lean driver and returns one output line per input line.
func leanBatch(driver string, lines []string) ([]string, error) {
	if len(lines) == 0 {
		return nil, nil
	}
	cmd := exec.Command(driver)
	stdin, err := cmd.StdinPipe()
	if err != nil {
		return nil, err
	}
	stdout, err := cmd.StdoutPipe()
	if err != nil {
		return nil, err
	}
	cmd.Stderr = os.Stderr
	if err := cmd.Start(); err != nil {
		return nil, err
	}
	go func() {
		w := bufio.NewWriterSize(stdin, 1<<20)
		for _, l := range lines {
			if strings.ContainsAny(l, "\n") {
				panic("newline in protocol line")
			}
			w.WriteString(l)
			w.WriteByte('\n')
		}
		w.Flush()
		stdin.Close()
	}()
	out := make([]string, 0, len(lines))
	rd := bufio.NewReaderSize(stdout, 1<<20)
	for {
		l, err := rd.ReadString('\n')
		if len(l) > 0 {
			out = append(out, strings.TrimRight(l, "\n"))
		}
		if err == io.EOF {
			break
		}
		if err != nil {
			return nil, err
		}
	}
	if err := cmd.Wait(); err != nil {
		return out, fmt.Errorf("driver: %v (got %d of %d lines)", err, len(out), len(lines))
	}
	if len(out) != len(lines) {
		return out, fmt.Errorf("driver returned %d lines for %d operations", len(out), len(lines))
	}
	return out, nil
}

// leanParallel splits the lines over n driver processes (order preserved).
func leanParallel(driver string, lines []string, n int) ([]string, error) {
	if len(lines) < 2000 || n <= 1 {
		return leanBatch(driver, lines)
	}
	chunk := (len(lines) + n - 1) / n
	outs := make([][]string, n)
	errs := make([]error, n)
	done := make(chan int, n)
	k := 0
	for i := 0; i < n; i++ {
		lo, hi := i*chunk, (i+1)*chunk
		if lo >= len(lines) {
			break
		}
		if hi > len(lines) {
			hi = len(lines)
		}
		k++
		go func(i, lo, hi int) {
			outs[i], errs[i] = leanBatch(driver, lines[lo:hi])
			done <- i
		}(i, lo, hi)
	}
	for j := 0; j < k; j++ {
		<-done
	}
	var out []string
	for i := 0; i < n; i++ {
		if errs[i] != nil {
			return nil, errs[i]
		}
		out = append(out, outs[i]...)
	}
	return out, nil
}
