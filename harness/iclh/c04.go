package main

import (
	"bytes"
	"fmt"
	"runtime"
	"sort"
	"strings"

	icl "github.com/moov-io/imagecashletter"
)

// ---- the X9 nesting automaton (specification side): which parent does each input record follow ----

type place struct {
	kind      string
	cl, b, it int // 1-based index of the enclosing cash letter / bundle / item; 0 = none
}

func (p place) String() string { return fmt.Sprintf("%s@%d.%d.%d", p.kind, p.cl, p.b, p.it) }

// attribute assigns every record of the input its parent path by the records it FOLLOWS:
// cash letter = number of 10s so far, bundle = number of 20s since the last 10, item = number of
// 25/31s since the last 20.  The second result is false when the sequence is out of hierarchy in one of
// the ways the property names: an item outside a bundle, a bundle outside a cash letter, a missing or
// duplicated header or control record (the POSITION of the file header / file control and of the
// cash-letter level records 61/62/85 inside their cash letter is not constrained by the property).
func attribute(kinds []string) ([]place, bool) {
	var out []place
	cl, b, it := 0, 0, 0
	inCL, inB := false, false
	seenFH, seenFC := 0, 0
	ok := true
	for _, k := range kinds {
		switch k {
		case "01":
			seenFH++
			out = append(out, place{k, 0, 0, 0})
		case "99":
			seenFC++
			if inCL {
				ok = false // a cash letter without its control record
			}
			out = append(out, place{k, 0, 0, 0})
		case "10":
			if inCL {
				ok = false
			}
			cl++
			b, it = 0, 0
			inCL, inB = true, false
			out = append(out, place{k, cl, 0, 0})
		case "90":
			if !inCL || inB {
				ok = false
			}
			out = append(out, place{k, cl, 0, 0})
			inCL, inB = false, false
		case "61", "62", "85":
			// cash-letter level records: the property only asks that they stay under the cash letter
			// they follow
			if !inCL {
				ok = false
			}
			out = append(out, place{k, cl, 0, 0})
		case "20":
			if !inCL || inB {
				ok = false
			}
			b++
			it = 0
			inB = true
			out = append(out, place{k, cl, b, 0})
		case "70":
			if !inB {
				ok = false
			}
			out = append(out, place{k, cl, b, 0})
			inB = false
		case "25", "31":
			if !inB {
				ok = false
			}
			it++
			out = append(out, place{k, cl, b, it})
		default: // addenda and image views follow an item
			if !inB || it == 0 {
				ok = false
			}
			out = append(out, place{k, cl, b, it})
		}
	}
	if seenFH != 1 || seenFC != 1 || inCL || inB {
		ok = false
	}
	return out, ok
}

var tagKind = map[string]string{"FH": "01", "FC": "99", "CL+": "10", "CLC": "90", "CI": "62", "CR": "61", "RNS": "85", "B+": "20", "BC": "70",
	"CK": "25", "RT": "31", "VD": "50", "VT": "52", "VA": "54"}

// censusOfDump: (kind, path) of every record held by a tree (nil pointers are not records).
func censusOfDump(dump string) []place {
	var out []place
	cl, b, it := 0, 0, 0
	isCheck := true
	for _, tok := range strings.Split(dump, "~") {
		p := strings.SplitN(tok, "|", 2)
		isNil := len(p) == 2 && p[1] == "^"
		tag := p[0]
		k := tagKind[tag]
		switch tag {
		case "CL+":
			cl++
			b, it = 0, 0
		case "B+":
			b++
			it = 0
		case "CK":
			it++
			isCheck = true
		case "RT":
			it++
			isCheck = false
		case "AA", "AB", "AC", "AD":
			n := map[string]int{"AA": 0, "AB": 1, "AC": 2, "AD": 3}[tag]
			if isCheck {
				k = []string{"26", "27", "28", "??"}[n]
			} else {
				k = []string{"32", "33", "34", "35"}[n]
			}
		}
		if isNil {
			continue
		}
		switch tag {
		case "FH", "FC":
			out = append(out, place{k, 0, 0, 0})
		case "CL+", "CLC", "CI", "CR", "RNS":
			out = append(out, place{k, cl, 0, 0})
		case "B+", "BC":
			out = append(out, place{k, cl, b, 0})
		default:
			out = append(out, place{k, cl, b, it})
		}
	}
	return out
}

func sortedPlaces(ps []place) string {
	ss := make([]string, len(ps))
	for i, p := range ps {
		ss[i] = p.String()
	}
	sort.Strings(ss)
	return strings.Join(ss, " ")
}

func kindsOfLines(lines [][]byte) []string {
	ks := make([]string, len(lines))
	for i, l := range lines {
		if len(l) >= 2 {
			ks[i] = string(l[:2])
		}
	}
	return ks
}

type faultCase struct {
	lines [][]byte
	desc  string
	shape string // structural class of the fault, for the key
}

// singleFaults: every single structural fault of a well-nested line sequence.
func singleFaults(lines [][]byte, pool map[string][]byte, kinds []string, full bool, r rng) []faultCase {
	var out []faultCase
	cp := func(ls [][]byte) [][]byte { return append([][]byte{}, ls...) }
	n := len(lines)
	ks := kindsOfLines(lines)
	for i := 0; i < n; i++ {
		d := cp(lines)
		d = append(d[:i], d[i+1:]...)
		out = append(out, faultCase{d, fmt.Sprintf("delete #%d (%s)", i+1, ks[i]), "delete:" + ks[i]})
		u := cp(lines[:i+1])
		u = append(u, lines[i])
		u = append(u, lines[i+1:]...)
		out = append(out, faultCase{u, fmt.Sprintf("duplicate #%d (%s)", i+1, ks[i]), "duplicate:" + ks[i]})
	}
	for i := 0; i <= n; i++ {
		out = append(out, faultCase{cp(lines[:i]), fmt.Sprintf("cut after %d records", i), "cut"})
	}
	for i := 0; i < n; i++ {
		for j := 0; j <= n; j++ {
			if j == i || j == i+1 {
				continue
			}
			if !full && r.Intn(6) != 0 {
				continue
			}
			rest := append(cp(lines[:i]), lines[i+1:]...)
			pos := j
			if j > i {
				pos--
			}
			m := append(cp(rest[:pos]), lines[i])
			m = append(m, rest[pos:]...)
			after := "start"
			if pos > 0 {
				after = string(rest[pos-1][:2])
			}
			out = append(out, faultCase{m, fmt.Sprintf("move #%d (%s) to position %d", i+1, ks[i], j+1), "move:" + ks[i] + ">after:" + after})
		}
	}
	// container-level faults: a whole cash letter (10..90) or bundle (20..70) repeated - directly after
	// itself and at the end of the enclosing container - or removed.  The sequence stays well nested (the
	// repeated container carries the same identifiers as the original), so every record must come back.
	for _, c := range [][2]string{{"10", "90"}, {"20", "70"}} {
		for i := 0; i < n; i++ {
			if ks[i] != c[0] {
				continue
			}
			j := i
			for j < n && ks[j] != c[1] {
				j++
			}
			if j >= n {
				continue
			}
			blk := lines[i : j+1]
			adj := append(append(cp(lines[:j+1]), blk...), lines[j+1:]...)
			out = append(out, faultCase{adj, fmt.Sprintf("repeat the container #%d..#%d (%s) after itself", i+1, j+1, c[0]), "repeat-container:" + c[0]})
			// end of the enclosing container: before the next 90 (for a bundle) / the 99 (for a cash letter)
			end := c[1]
			if c[0] == "20" {
				end = "90"
			} else {
				end = "99"
			}
			e := j + 1
			for e < n && ks[e] != end {
				e++
			}
			if e < n && e > j+1 {
				far := append(append(cp(lines[:e]), blk...), lines[e:]...)
				out = append(out, faultCase{far, fmt.Sprintf("repeat the container #%d..#%d (%s) at the end of its parent", i+1, j+1, c[0]), "repeat-container-far:" + c[0]})
			}
			del := append(cp(lines[:i]), lines[j+1:]...)
			out = append(out, faultCase{del, fmt.Sprintf("delete the container #%d..#%d (%s)", i+1, j+1, c[0]), "delete-container:" + c[0]})
		}
	}
	for p := 0; p <= n; p++ {
		for _, k := range kinds {
			l, ok := pool[k]
			if !ok {
				continue
			}
			if !full && r.Intn(3) != 0 {
				continue
			}
			m := append(cp(lines[:p]), l)
			m = append(m, lines[p:]...)
			after := "start"
			if p > 0 {
				after = ks[p-1]
			}
			out = append(out, faultCase{m, fmt.Sprintf("insert %s at position %d", k, p+1), "insert:" + k + ">after:" + after})
		}
	}
	return out
}

func joinLines(lines [][]byte) []byte {
	var b bytes.Buffer
	for _, l := range lines {
		b.Write(l)
		b.WriteByte('\n')
	}
	return b.Bytes()
}

func runC04(cfg *config) *Report {
	rep := newReport("C04", cfg.tier, cfg.seed)
	r := newRng(cfg.seed + 4000)
	rep.Rule = "valid generated files (ASCII, one record per line, framed by newlines and - the same faulted sequences - by length prefixes) x EVERY single structural fault: delete each record, duplicate each, cut at each boundary, insert a valid record of each of the 21 kinds (and a well-formed User Record, type 68) at each position, move each record to each other position (quick tier: all deletes/duplicates/cuts, 1/3 of inserts, 1/6 of moves); real Reader verdict and census of the returned File compared with the X9 nesting automaton's attribution of the input records and with the Lean reader model; non-trivial = the fault changes the record sequence; distinct by line sequence"
	nFiles := 3
	if cfg.tier == "thorough" {
		nFiles = 25
	}
	pool := map[string][]byte{}
	var kinds []string
	var files [][][]byte
	for len(files) < nFiles+6 {
		f, err := genFile(r, genOpts{maxCL: 2, maxBundles: 2, maxItems: 2, mutateP: 30})
		if err != nil {
			continue
		}
		out, werr, _ := realWrite(f, encCfg{})
		if werr != nil {
			continue
		}
		var lines [][]byte
		for _, l := range bytes.Split(bytes.TrimRight(out, "\n"), []byte("\n")) {
			lines = append(lines, l)
			k := string(l[:2])
			if _, ok := pool[k]; !ok {
				pool[k] = l
				kinds = append(kinds, k)
			}
		}
		if len(lines) <= 45 || cfg.tier == "thorough" {
			files = append(files, lines)
		}
	}
	// a record type of the standard that the file model has no member for: a well-formed User Record (68). The only
	// answers that lose nothing are a refusal or a file that holds it.
	{
		userData := "clearing arrangement reference 0042"
		pool["68"] = []byte("68" + "3" + "230918276" + fmt.Sprintf("%-20s", "ZZ1") + "002" + "001" + fmt.Sprintf("%07d", len(userData)) + userData)
		kinds = append(kinds, "68")
	}
	sort.Strings(kinds)
	files = files[:nFiles]
	now := today()
	var cases []faultCase
	for _, lines := range files {
		cases = append(cases, faultCase{lines, "no fault", "none"})
		cases = append(cases, singleFaults(lines, pool, kinds, cfg.tier == "thorough", r)...)
	}
	for _, enc := range []encCfg{{}, {LP: true}} {
		frame := func(lines [][]byte) []byte {
			if !enc.LP {
				return joinLines(lines)
			}
			var b bytes.Buffer
			for _, x := range lines {
				b.Write([]byte{byte(len(x) >> 24), byte(len(x) >> 16), byte(len(x) >> 8), byte(len(x))})
				b.Write(x)
			}
			return b.Bytes()
		}
		var ops []string
		impl := make([]string, len(cases))
		for i, c := range cases {
			in := frame(c.lines)
			f, rerr, p := realRead(in, enc, 1<<22)
			if p != nil {
				rep.violate(Violation{Key: "C04:reader-panic:" + c.shape, What: fmt.Sprint("Reader panicked: ", p), Replay: map[string]any{"fault": c.desc, "enc": enc.String(), "bytes": hx(in)}})
				impl[i] = "panic"
			} else {
				impl[i] = canonErr(rerr) + " # " + dumpFile(&f)
			}
			ops = append(ops, fmt.Sprintf("read\t%s\t0\t0\t%s\t%s", b01(enc.LP), now, hx(in)))
		}
		got, err := leanParallel(cfg.driver, ops, runtime.NumCPU())
		if err != nil {
			fatal("driver: %v", err)
		}
		for i, c := range cases {
			rep.Evaluations++
			rep.CorrOps++
			rep.count("fault:" + strings.SplitN(c.shape, ":", 2)[0])
			rep.count("framing:" + enc.String())
			ks := kindsOfLines(c.lines)
			rep.nontrivial(enc.String() + strings.Join(ks, "") + fmt.Sprint(len(c.lines)))
			if impl[i] == "panic" {
				continue
			}
			if impl[i] != got[i] {
				rep.CorrDisagree++
				rep.violate(Violation{Key: "C04:corr:read", What: "model reader and Reader.Read disagree on a faulted record sequence",
					Replay: map[string]any{"fault": c.desc, "kinds": strings.Join(ks, " "), "enc": enc.String(), "bytes": hx(frame(c.lines)), "implementation": impl[i][:min(len(impl[i]), 300)], "model": got[i][:min(len(got[i]), 300)]}, NoInput: true})
			}
			parts := strings.SplitN(impl[i], " # ", 2)
			verdict := parts[0]
			want, wellNested := attribute(ks)
			if verdict == "ok" {
				rep.count("accepted")
				have := censusOfDump(parts[1])
				if sortedPlaces(have) != sortedPlaces(want) {
					key := "C04:silent-loss:" + c.shape
					if lost := lostPlaces(want, have); len(lost) > 0 && allKind(lost, "01") && len(have)+len(lost) == len(want) {
						// the only records not represented are file headers beyond the first
						key = "C04:silent-loss:duplicate-file-header"
					}
					rep.violate(Violation{Key: key,
						What:   "Read returned no error but the returned File does not hold the input's records under the parents they followed (" + c.desc + ")",
						Replay: map[string]any{"fault": c.desc, "input_kinds": strings.Join(ks, " "), "enc": enc.String(), "bytes": hx(frame(c.lines)), "input_census": sortedPlaces(want), "returned_census": sortedPlaces(have)}})
				} else if !wellNested {
					rep.violate(Violation{Key: "C04:accepted-out-of-hierarchy:" + c.shape,
						What:   "Read accepted a record sequence that is out of hierarchy (" + c.desc + ")",
						Replay: map[string]any{"fault": c.desc, "input_kinds": strings.Join(ks, " "), "enc": enc.String(), "bytes": hx(frame(c.lines))}})
				}
			} else {
				rep.count("rejected")
			}
			if i%701 == 0 {
				rep.sample(map[string]any{"fault": c.desc, "kinds": strings.Join(ks, " "), "verdict": verdict})
			}
		}
	}
	_ = icl.NewFile
	return rep
}

func lostPlaces(want, have []place) []place {
	cnt := map[string]int{}
	for _, p := range have {
		cnt[p.String()]++
	}
	var lost []place
	for _, p := range want {
		if cnt[p.String()] > 0 {
			cnt[p.String()]--
		} else {
			lost = append(lost, p)
		}
	}
	return lost
}

func allKind(ps []place, k string) bool {
	for _, p := range ps {
		if p.kind != k {
			return false
		}
	}
	return true
}
