package main

import (
	"encoding/json"
	"errors"
	"fmt"
	"os"
	"runtime"
	"strings"

	icl "github.com/moov-io/imagecashletter"
)

type validator interface{ Validate() error }

// realValidate returns "ok" or "reject <FieldName>" ("reject ?" for a non-FieldError, "panic" on panic).
func realValidate(rec any) (out string) {
	defer func() {
		if r := recover(); r != nil {
			out = "panic"
		}
	}()
	err := rec.(validator).Validate()
	if err == nil {
		return "ok"
	}
	var fe *icl.FieldError
	if errors.As(err, &fe) {
		return "reject " + fe.FieldName
	}
	return "reject ?"
}

func setFRB(on bool) {
	if on {
		os.Setenv("FRB_COMPATIBILITY_MODE", "true")
	} else {
		os.Unsetenv("FRB_COMPATIBILITY_MODE")
	}
}

// recVals: the wire form of all fields the write table reads, from the real record.
func recVals(rec any, L *RecLayout) map[string]FV {
	vals := map[string]FV{}
	for _, fk := range fieldKinds(L) {
		vals[fk[0]] = getField(rec, fk[0], fk[1][0])
	}
	return vals
}

func firstWord(s string) string { return strings.SplitN(s, " ", 2)[0] }

func runC10(cfg *config) *Report {
	rep := newReport("C10", cfg.tier, cfg.seed)
	rep.Rule = "for every record type and every string/int field that its write table reads: the valid baseline record with that field set to every 0-, 1- and 2-character printable ASCII string (9121 values; ints: -1..100), FRB mode off and on; real Validate() verdict vs the Lean evaluation of the hand-written Spec sites+tables (property predicate) and vs the Lean evaluation of the regenerated rule tree (translation validation); non-trivial = value differs from the baseline value; distinct by (record, field, value, frb)"
	rep.Exhaustive = true
	rnd := newRng(cfg.seed)
	type kase struct {
		rec, field, val string
		frb             bool
		real            string
	}
	var cases []kase
	var lines []string
	// all printable strings of length <= 2
	var strs []string
	strs = append(strs, "")
	for a := 0x20; a < 0x7f; a++ {
		strs = append(strs, string([]byte{byte(a)}))
	}
	for a := 0x20; a < 0x7f; a++ {
		for b := 0x20; b < 0x7f; b++ {
			strs = append(strs, string([]byte{byte(a), byte(b)}))
		}
	}
	for li := range tables.Records {
		L := &tables.Records[li]
		mk, ok := baselines[L.Go]
		if !ok {
			rep.Notes = append(rep.Notes, "no baseline for "+L.Go)
			continue
		}
		if v := realValidate(mk()); v != "ok" {
			rep.Notes = append(rep.Notes, fmt.Sprintf("baseline %s is not valid: %s", L.Go, v))
			continue
		}
		ruled := ruledFields(L)
		for _, frb := range []bool{false, true} {
			setFRB(frb)
			frbS := "0"
			if frb {
				frbS = "1"
			}
			for _, w := range L.Write {
				if w.Conv == "lit" || w.Conv == "opaque" {
					continue
				}
				k := kindOfConv(w.Conv)
				if k == 'D' || k == 'T' {
					continue
				}
				var fvs []FV
				if k == 'I' {
					for n := -1; n <= 100; n++ {
						fvs = append(fvs, FV{K: 'I', I: n})
					}
				} else {
					if cfg.tier == "quick" && (frb || !ruled[w.Src]) {
						// quick tier, FRB on or field with at most a character-class rule: all 0- and
						// 1-character values and a seeded sample of the 2-character ones
						rep.Exhaustive = false
						for _, s := range strs[:96] {
							fvs = append(fvs, FV{K: 'S', S: []byte(s)})
						}
						for j := 0; j < 300; j++ {
							fvs = append(fvs, FV{K: 'S', S: []byte(strs[96+rnd.Intn(len(strs)-96)])})
						}
					} else {
						for _, s := range strs {
							fvs = append(fvs, FV{K: 'S', S: []byte(s)})
						}
					}
				}
				for _, fv := range fvs {
					rec := mk()
					setField(rec, w.Src, fv)
					vals := recVals(rec, L) // before Validate (FRB mode may normalise in place)
					real := realValidate(rec)
					wv := wireVals(vals)
					lines = append(lines, "validateSpec\t"+L.Go+"\t"+frbS+"\t"+wv, "validate\t"+L.Go+"\t"+frbS+"\t"+wv)
					cases = append(cases, kase{L.Go, w.Src, string(fv.wire("")), frb, real})
					rep.count("field:" + L.Go + "." + w.Src)
				}
			}
		}
	}
	setFRB(false)
	got, err := leanParallel(cfg.driver, lines, runtime.NumCPU())
	if err != nil {
		fatal("driver: %v", err)
	}
	for i, c := range cases {
		rep.Evaluations++
		rep.CorrOps++
		spec, gen := got[2*i], firstWord(got[2*i+1])
		if gen == "reject" {
			gen = got[2*i+1]
		}
		rep.nontrivial(fmt.Sprintf("%s.%s=%s/%v", c.rec, c.field, c.val, c.frb))
		if i%200003 == 0 {
			rep.sample(map[string]any{"record": c.rec, "field": c.field, "value": c.val, "frb": c.frb, "verdict": c.real})
		}
		if c.real != spec {
			rep.violate(Violation{Key: "C10:verdict:" + c.rec + "." + c.field,
				What:   fmt.Sprintf("%s.Validate() and the documented rule table disagree for field %s", c.rec, c.field),
				Replay: map[string]any{"record": c.rec, "field": c.field, "value": c.val, "frb": c.frb, "implementation": c.real, "spec": spec, "op": lines[2*i]}})
		}
		if c.real != gen {
			rep.CorrDisagree++
			if c.real == spec {
				rep.violate(Violation{Key: "C10:corr:rules:" + c.rec, What: "regenerated rule tree does not reproduce Validate() (translator/model stale)",
					Replay: map[string]any{"record": c.rec, "field": c.field, "value": c.val, "frb": c.frb, "implementation": c.real, "model": gen, "op": lines[2*i+1]}, NoInput: true})
			}
		}
	}
	return rep
}

// ruledFields: fields named by some rule of the record's Validate() other than a pure character-class
// check (i.e. the coded or mandatory fields).
func ruledFields(L *RecLayout) map[string]bool {
	classFns := map[string]bool{}
	var codes []struct{ Name, Kind string }
	json.Unmarshal(tables.Raw["codes"], &codes)
	for _, c := range codes {
		if c.Kind == "class" {
			classFns[c.Name] = true
		}
	}
	out := map[string]bool{}
	var walk func(v any)
	walk = func(v any) {
		switch x := v.(type) {
		case map[string]any:
			if op, _ := x["op"].(string); op == "invalid" {
				if fn, _ := x["name"].(string); classFns[fn] {
					return
				}
			}
			if n, ok := x["name"].(string); ok {
				out[n] = true
				out[strings.TrimSuffix(n, "Field")] = true
			}
			for _, c := range x {
				walk(c)
			}
		case []any:
			for _, c := range x {
				walk(c)
			}
		}
	}
	for _, r := range L.Rules {
		var v any
		json.Unmarshal(r, &v)
		walk(v)
	}
	return out
}
