package main

// C12: concurrent requests under controlled schedules.  Every client request is served by its own
// router over a thread-tagged wrapper of ONE shared repository (handlers, updateMu and the store are
// the real ones); the wrapper parks the request's goroutine before each repository method until the
// scheduler grants it, so the harness decides the interleaving of the atomic actions.  The same
// schedule, translated into events of the Lean thread model (IclModel/Conc.lean), is run by the
// driver; responses, final store and completion are compared.  Independently the real outcome is
// checked for linearizability against the sequential model over all orders consistent with real time.
// A second binary built with -race serves random concurrent load (search aid for data races).

import (
	"net"
	"bufio"
	"bytes"
	"context"
	"encoding/json"
	"fmt"
	"net/http"
	"net/http/httptest"
	"os"
	"os/exec"
	"path/filepath"
	"runtime"
	"runtime/pprof"
	"sort"
	"strings"
	"sync"
	"time"

	icl "github.com/moov-io/imagecashletter"
	"github.com/moov-io/imagecashletter/verifhooks"
)

type schedEvent struct {
	tid  int
	what string // arrive:<op> | finish
}

type sched struct {
	events chan schedEvent
	grant  []chan struct{}
}

// threadRepo wraps the one repository behind the ONE router all client requests of a case go through
// (so that anything the routes share - caches, package state - is shared as in the server).  The
// goroutine serving a scheduled request registers its id; calls from other goroutines (setup and
// follow-up requests) pass straight through.
type threadRepo struct {
	inner verifhooks.Repo
	sc    *sched
	tids  sync.Map // goroutine id -> thread index
}

func goid() uint64 {
	var buf [64]byte
	n := runtime.Stack(buf[:], false)
	// "goroutine 123 [running]:"
	f := strings.Fields(string(buf[:n]))
	if len(f) < 2 {
		return 0
	}
	var id uint64
	fmt.Sscan(f[1], &id)
	return id
}

func (t *threadRepo) pause(op string) {
	v, ok := t.tids.Load(goid())
	if !ok {
		return
	}
	tid := v.(int)
	t.sc.events <- schedEvent{tid, "arrive:" + op}
	<-t.sc.grant[tid]
}

// every repository call is bracketed by two pause points: before it (the access is the atomic action
// of the model) and after it (the handler holds what it read while other requests run)
func (t *threadRepo) GetFiles() ([]*icl.File, error) {
	t.pause("GetFiles")
	fs, err := t.inner.GetFiles()
	t.pause("after:GetFiles")
	return fs, err
}
func (t *threadRepo) GetFile(id string) (*icl.File, error) {
	t.pause("GetFile")
	f, err := t.inner.GetFile(id)
	t.pause("after:GetFile")
	return f, err
}
func (t *threadRepo) SaveFile(f *icl.File) error {
	t.pause("SaveFile")
	err := t.inner.SaveFile(f)
	t.pause("after:SaveFile")
	return err
}
func (t *threadRepo) DeleteFile(id string) error {
	t.pause("DeleteFile")
	err := t.inner.DeleteFile(id)
	t.pause("after:DeleteFile")
	return err
}

type concRun struct {
	router   http.Handler
	trepo    *threadRepo
	env      *apiEnv
	reqs     []*apiReq
	sc       *sched
	status   []string // "", "running", "blocked", "arrived", "finished"
	at       []string // the pause point an arrived thread is parked at
	recs     []*httptest.ResponseRecorder
	launched []int // real-time: index of the action at which the thread was launched
	finished []int // ... and finished (-1: not yet)
	events   []string
	actions  []string
	step     int
}

func newConcRun(env *apiEnv, reqs []*apiReq) *concRun {
	n := len(reqs)
	c := &concRun{env: env, reqs: reqs, status: make([]string, n), at: make([]string, n), recs: make([]*httptest.ResponseRecorder, n),
		launched: make([]int, n), finished: make([]int, n)}
	c.sc = &sched{events: make(chan schedEvent, 64), grant: make([]chan struct{}, n)}
	for i := range c.sc.grant {
		c.sc.grant[i] = make(chan struct{})
		c.launched[i], c.finished[i] = -1, -1
	}
	c.trepo = &threadRepo{inner: env.repo, sc: c.sc}
	c.router = verifhooks.NewRouter(c.trepo)
	return c
}

func lockedKind(q *apiReq) bool {
	switch q.Kind {
	case "c1", "upd", "add", "del", "rem":
		return true
	}
	return false
}

// settled state of every launched thread is determined without timing assumptions: a thread is
// parked in the repository wrapper (arrive event), has returned (finish event), or is found blocked in
// sync.(*Mutex).Lock by the goroutine profile (the threads carry a pprof label).  drain polls until
// every launched thread is in one of these states and - when nobody holds updateMu although threads
// wait for it - until one of the waiters has moved on.
func (c *concRun) drain(expect int) (arrived, finished []int) {
	start := time.Now()
	for {
		for more := true; more; {
			select {
			case ev := <-c.sc.events:
				if ev.what == "finish" {
					c.status[ev.tid] = "finished"
					c.finished[ev.tid] = c.step
					finished = append(finished, ev.tid)
				} else {
					c.status[ev.tid] = "arrived"
					c.at[ev.tid] = strings.TrimPrefix(ev.what, "arrive:")
					arrived = append(arrived, ev.tid)
				}
			default:
				more = false
			}
		}
		var running []int
		holder := false
		for i, st := range c.status {
			switch st {
			case "running", "blocked":
				running = append(running, i)
			case "arrived":
				if lockedKind(c.reqs[i]) {
					holder = true
				}
			}
		}
		if len(running) == 0 {
			return
		}
		blocked := blockedThreads()
		allBlocked := true
		for _, i := range running {
			if blocked[i] {
				c.status[i] = "blocked"
			} else {
				c.status[i] = "running"
				allBlocked = false
			}
		}
		if allBlocked && holder {
			return // they wait for the thread parked inside its critical section
		}
		if time.Since(start) > 3*time.Second {
			return // a thread neither parks, returns nor blocks: reported as stuck by the caller
		}
		time.Sleep(50 * time.Microsecond)
	}
}

// blockedThreads: labelled goroutines currently inside sync.(*Mutex).Lock
func blockedThreads() map[int]bool {
	var buf bytes.Buffer
	pprof.Lookup("goroutine").WriteTo(&buf, 1)
	out := map[int]bool{}
	for _, blk := range strings.Split(buf.String(), "\n\n") {
		i := strings.Index(blk, `"verif-tid":"`)
		if i < 0 {
			continue
		}
		var tid int
		fmt.Sscanf(blk[i+len(`"verif-tid":"`):], "%d", &tid)
		if strings.Contains(blk, "sync.(*Mutex).Lock") || strings.Contains(blk, "sync.(*Mutex).lockSlow") {
			out[tid] = true
		}
	}
	return out
}

func (c *concRun) launch(i int) {
	c.actions = append(c.actions, fmt.Sprintf("L%d", i))
	c.step++
	c.status[i] = "running"
	c.launched[i] = c.step
	h := c.router
	req, _ := c.reqs[i].build("http://verif.local")
	rec := httptest.NewRecorder()
	c.recs[i] = rec
	go pprof.Do(context.Background(), pprof.Labels("verif-tid", fmt.Sprint(i)), func(context.Context) {
		c.trepo.tids.Store(goid(), i)
		defer func() {
			if p := recover(); p != nil {
				rec.Code = 599
				rec.Body.WriteString(fmt.Sprint("panic: ", p))
			}
			c.sc.events <- schedEvent{i, "finish"}
		}()
		h.ServeHTTP(rec, req)
	})
	arrived, finished := c.drain(i)
	c.events = append(c.events, fmt.Sprintf("s%d", i))
	switch {
	case c.status[i] == "finished":
		c.events = append(c.events, fmt.Sprintf("t%d", i))
	case lockedKind(c.reqs[i]):
		c.events = append(c.events, fmt.Sprintf("t%d", i)) // lock attempt (no-op in the model when busy)
	}
	c.others(i, arrived, finished)
}

func (c *concRun) grantNext(i int) {
	c.actions = append(c.actions, fmt.Sprintf("G%d", i))
	c.step++
	after := strings.HasPrefix(c.at[i], "after:")
	c.status[i] = "running"
	c.sc.grant[i] <- struct{}{}
	arrived, finished := c.drain(i)
	if !after {
		c.events = append(c.events, fmt.Sprintf("t%d", i)) // the repository access itself
	}
	if c.status[i] == "finished" {
		c.events = append(c.events, fmt.Sprintf("t%d", i), fmt.Sprintf("t%d", i))
	}
	c.others(i, arrived, finished)
}

// finish grants thread i until it has returned
func (c *concRun) finish(i int) {
	for k := 0; k < 8 && c.status[i] == "arrived"; k++ {
		c.grantNext(i)
	}
}

// others: threads other than i that moved (a blocked thread acquired the lock after a release)
func (c *concRun) others(i int, arrived, finished []int) {
	for _, j := range arrived {
		if j != i {
			c.events = append(c.events, fmt.Sprintf("t%d", j))
		}
	}
	for _, j := range finished {
		if j != i {
			c.events = append(c.events, fmt.Sprintf("t%d", j), fmt.Sprintf("t%d", j), fmt.Sprintf("t%d", j))
		}
	}
}

func (c *concRun) enabled() []string {
	var out []string
	for i := range c.reqs {
		switch c.status[i] {
		case "":
			out = append(out, fmt.Sprintf("L%d", i))
		case "arrived":
			out = append(out, fmt.Sprintf("G%d", i))
		}
	}
	return out
}

func (c *concRun) allFinished() bool {
	for _, s := range c.status {
		if s != "finished" {
			return false
		}
	}
	return true
}

// runSchedule executes the choice sequence (indices into enabled()); after it is exhausted the first
// enabled action is taken until everything has finished.  Returns the choices actually available at
// each point (for enumeration).
func (c *concRun) runSchedule(choices []int, actions []string) (branching []int, stuck bool) {
	for _, a := range actions {
		var i int
		fmt.Sscan(a[1:], &i)
		switch {
		case a[0] == 'L' && c.status[i] == "":
			c.launch(i)
		case a[0] == 'G' && c.status[i] == "arrived":
			c.grantNext(i)
		case a[0] == 'F':
			if c.status[i] == "" {
				c.launch(i)
			}
			c.finish(i)
		}
	}
	for k := 0; !c.allFinished(); k++ {
		en := c.enabled()
		if len(en) == 0 {
			// nothing launched is runnable: a deadlock or a thread that never reaches a pause point
			return branching, true
		}
		ch := 0
		if k < len(choices) {
			ch = choices[k] % len(en)
		}
		branching = append(branching, len(en))
		var i int
		fmt.Sscan(en[ch][1:], &i)
		if en[ch][0] == 'L' {
			c.launch(i)
		} else {
			c.grantNext(i)
		}
		if k > 96 {
			return branching, true
		}
	}
	return branching, false
}

func recToResp(rec *httptest.ResponseRecorder) apiResp {
	if rec == nil {
		return apiResp{Dropped: "never launched"}
	}
	if rec.Code == 599 {
		return apiResp{Dropped: rec.Body.String()}
	}
	return apiResp{Status: rec.Code, Body: rec.Body.Bytes(), Loc: rec.Header().Get("Location")}
}

func perms(n int) [][]int {
	if n == 0 {
		return [][]int{{}}
	}
	var out [][]int
	for _, p := range perms(n - 1) {
		for i := 0; i <= len(p); i++ {
			q := append(append(append([]int{}, p[:i]...), n-1), p[i:]...)
			out = append(out, q)
		}
	}
	return out
}

type concCase struct {
	Setup   []*apiReq `json:"setup"`
	Reqs    []*apiReq `json:"requests"`
	Choices []int     `json:"choices"`
	Actions []string  `json:"actions,omitempty"` // explicit prefix: L<i> launch, G<i> grant once, F<i> run to completion
	Enum    int       `json:"-"`                 // >0: enumerate up to this many distinct schedules of the group (DFS over the choices)
}

func runC12(cfg *config) *Report {
	if os.Getenv("VERIF_RACE_LOAD") != "" {
		return runC12RaceLoad(cfg)
	}
	rep := newReport("C12", cfg.tier, cfg.seed)
	r := newRng(cfg.seed + 12000)
	rep.Rule = "groups of 2-3 concurrent requests (every pair of endpoint kinds on one file, plus seeded groups on shared and distinct files) served by the real handlers over one repository; the interleaving of their repository calls is chosen by the harness (every schedule of each pair, seeded schedules of triples); responses / final store compared with the Lean thread model run on the translated schedule, and the real outcome searched for a sequential order consistent with real time; non-trivial = schedule in which two threads are in flight at once; distinct by (requests, schedule)"
	pools := buildPools(r, 4)
	reg := newRegistry()
	var cases []concCase
	if cfg.replay != "" {
		cases = loadConcReplay(cfg.replay)
	} else {
		cases = genConcCases(r, pools, cfg.tier)
	}
	type pending struct {
		cc         concCase
		run        *concRun
		init       string
		final      string
		lines      []string
		stuck      bool
		modelIdx   int
		follow     []*apiReq
		followResp []apiResp
		followIdx  int
	}
	var ps []*pending
	var lines []string
	execOne := func(cc concCase) (branching []int) {
		env := &apiEnv{repo: verifhooks.NewInMemoryRepo(), reg: reg}
		p := &pending{cc: cc}
		p.run = newConcRun(env, cc.Reqs)
		// sequential setup through the same router (calls from unregistered goroutines are not scheduled)
		for _, q := range cc.Setup {
			req, _ := q.build("http://verif.local")
			p.run.router.ServeHTTP(httptest.NewRecorder(), req)
		}
		p.init = env.storeDump()
		branching, p.stuck = p.run.runSchedule(cc.Choices, cc.Actions)
		p.final = env.storeDump()
		// follow-up reads after everybody has answered: what later clients see must be the final store
		if !p.stuck {
			for _, q := range followUps(cc) {
				req, _ := q.build("http://verif.local")
				rec := httptest.NewRecorder()
				p.run.router.ServeHTTP(rec, req)
				p.follow = append(p.follow, q)
				p.followResp = append(p.followResp, recToResp(rec))
			}
		}
		for i, q := range cc.Reqs {
			p.lines = append(p.lines, env.modelLine(q, recToResp(p.run.recs[i])))
		}
		p.modelIdx = len(lines)
		initArg := p.init
		if initArg == "" {
			initArg = "-"
		}
		lines = append(lines, fmt.Sprintf("apiconc\t%s\t%s\t%s", initArg, strings.Join(p.lines, "|"), strings.Join(p.run.events, ",")))
		// sequential candidates for the linearizability search
		for _, pm := range perms(len(cc.Reqs)) {
			var ls []string
			for _, k := range pm {
				ls = append(ls, p.lines[k])
			}
			lines = append(lines, fmt.Sprintf("apifrom\t%s\t%s", initArg, strings.Join(ls, "|")))
		}
		if len(p.follow) > 0 {
			var fl []string
			for i, q := range p.follow {
				fl = append(fl, env.modelLine(q, p.followResp[i]))
			}
			fin := p.final
			if fin == "" {
				fin = "-"
			}
			p.followIdx = len(lines)
			lines = append(lines, fmt.Sprintf("apifrom\t%s\t%s", fin, strings.Join(fl, "|")))
		}
		ps = append(ps, p)
		return branching
	}
	for _, cc := range cases {
		if cc.Enum <= 0 {
			execOne(cc)
			continue
		}
		// depth-first enumeration of the schedules of this group
		var choices []int
		for n := 0; n < cc.Enum; n++ {
			c2 := cc
			c2.Choices = append([]int{}, choices...)
			br := execOne(c2)
			for len(choices) < len(br) {
				choices = append(choices, 0)
			}
			k := len(br) - 1
			for k >= 0 && choices[k]+1 >= br[k] {
				k--
			}
			if k < 0 {
				break
			}
			choices = append(choices[:k], choices[k]+1)
		}
	}
	outs, err := leanParallel(cfg.driver, lines, 8)
	if err != nil {
		rep.violate(Violation{Key: "C12:driver", What: "Lean driver failed: " + err.Error(), NoInput: true})
		return rep
	}
	for _, p := range ps {
		rep.Evaluations++
		rep.CorrOps++
		n := len(p.cc.Reqs)
		kinds := make([]string, n)
		for i, q := range p.cc.Reqs {
			kinds[i] = q.Kind
		}
		sort.Strings(kinds)
		tag := strings.Join(kinds, "+")
		rep.count("group:" + tag)
		overlap := false
		for i := 0; i < n; i++ {
			for j := 0; j < n; j++ {
				if i != j && p.run.launched[j] > p.run.launched[i] && (p.run.finished[i] < 0 || p.run.launched[j] < p.run.finished[i]) {
					overlap = true
				}
			}
		}
		if overlap {
			rep.nontrivial(strings.Join(p.lines, "|") + "@" + strings.Join(p.run.actions, ","))
		}
		replay := map[string]any{"setup": p.cc.Setup, "requests": p.cc.Reqs, "choices": p.cc.Choices, "actions": p.cc.Actions, "real_actions": p.run.actions,
			"model_events": p.run.events, "initial_store": p.init, "final_store": p.final}
		if p.stuck {
			rep.violate(Violation{Key: "C12:stuck:" + tag, What: "the requests did not all finish under this schedule (deadlock or a handler that never returns)", Replay: replay})
			continue
		}
		// 1. correspondence with the thread model
		m := strings.Split(outs[p.modelIdx], "\t")
		if len(m) < 3 {
			rep.violate(Violation{Key: "C12:driver-shape", What: "driver answered " + outs[p.modelIdx], Replay: replay, NoInput: true})
			continue
		}
		ths := strings.Split(m[0], "|")
		disagree := ""
		for i := range p.cc.Reqs {
			if i >= len(ths) || !strings.HasPrefix(ths[i], "done ") {
				disagree = fmt.Sprintf("request %d (%s) finished in reality but is '%s' in the model under the same schedule (it ran where the model holds it back, or the reverse)", i, p.cc.Reqs[i].Kind, safeIdx(ths, i))
				break
			}
			e := &apiEnv{reg: reg}
			if d := e.compareResp(strings.TrimPrefix(ths[i], "done "), p.cc.Reqs[i], recToResp(p.run.recs[i])); d != "" {
				disagree = fmt.Sprintf("request %d (%s): %s", i, p.cc.Reqs[i].Kind, d)
				break
			}
		}
		if disagree == "" && sortStoreDump(m[1]) != p.final {
			disagree = "final store " + p.final + " but the model's is " + sortStoreDump(m[1])
		}
		// 2. the property on the real outcome: some sequential order, consistent with real time, explains it
		lin := false
		pms := perms(n)
		for k, pm := range pms {
			okRT := true
			pos := make([]int, n)
			for a, b := range pm {
				pos[b] = a
			}
			for i := 0; i < n; i++ {
				for j := 0; j < n; j++ {
					if i != j && p.run.finished[i] >= 0 && p.run.finished[i] < p.run.launched[j] && pos[i] > pos[j] {
						okRT = false
					}
				}
			}
			if !okRT {
				continue
			}
			out := outs[p.modelIdx+1+k]
			ents := strings.Split(out, "|")
			if len(ents) != n {
				continue
			}
			good := true
			for a, b := range pm {
				mm := strings.SplitN(ents[a], "#", 2)
				e := &apiEnv{reg: reg}
				if e.compareResp(mm[0], p.cc.Reqs[b], recToResp(p.run.recs[b])) != "" {
					good = false
					break
				}
				if a == n-1 {
					st := ""
					if len(mm) == 2 {
						st = sortStoreDump(mm[1])
					}
					if st != p.final {
						good = false
					}
				}
			}
			if good {
				lin = true
				break
			}
		}
		if !lin {
			rep.violate(Violation{Key: "C12:not-linearizable:" + tag, What: "no sequential order of the requests consistent with their real-time order produces these responses and this final store (" + disagree + ")", Replay: replay})
		} else if disagree != "" {
			rep.CorrDisagree++
			rep.violate(Violation{Key: "C12:corr:" + tag, What: "thread model and real handlers disagree under the same schedule, although the real outcome is linearizable: " + disagree, Replay: replay, NoInput: true})
		}
		if len(p.follow) > 0 {
			ents := strings.Split(outs[p.followIdx], "|")
			for i, q := range p.follow {
				if i >= len(ents) {
					break
				}
				mm := strings.SplitN(ents[i], "#", 2)
				e := &apiEnv{reg: reg}
				if d := e.compareResp(mm[0], q, p.followResp[i]); d != "" {
					rp2 := map[string]any{}
					for k, v := range replay {
						rp2[k] = v
					}
					rp2["follow_up"] = q
					rep.violate(Violation{Key: "C12:later-read-stale:" + q.Kind + ":" + tag, What: "after all concurrent requests had been answered, a later " + q.Kind + " does not return what the store holds (" + d + ")", Replay: rp2})
					break
				}
			}
		}
		if rep.Evaluations%53 == 0 {
			rep.sample(map[string]any{"requests": p.lines, "real_actions": p.run.actions, "model_events": p.run.events})
		}
	}
	// race detector load (separate -race binary), as a search aid
	if cfg.replay == "" {
		raceLoad(cfg, rep)
	}
	return rep
}

func safeIdx(xs []string, i int) string {
	if i < len(xs) {
		return xs[i]
	}
	return "?"
}

// genConcCases: every unordered pair of request kinds on one file with its schedules enumerated
// depth-first (capped), long-lived readers (a reader parked after its repository call while one to three
// writers run to completion), and seeded triples.
func genConcCases(r rng, pools *apiPools, tier string) []concCase {
	doc := pools.jsonDocs[0] // client ID cf0
	id := pools.jsonIDs[0]
	doc2 := pools.jsonDocs[1]
	id2 := pools.jsonIDs[1]
	// a different document under the first file's ID (re-upload)
	var m map[string]any
	json.Unmarshal(doc2, &m)
	m["id"] = id
	reup, _ := json.Marshal(m)
	setup := []*apiReq{{Kind: "c1", CT: "application/json", Body: doc}, {Kind: "c1", CT: "application/json", Body: doc2}}
	hdr := pools.headers[0].b
	hdr2 := pools.headers[1].b
	cl := pools.cashLts[0].b
	cl2 := pools.cashLts[1].b
	var f0 icl.File
	json.Unmarshal(doc, &f0)
	firstCL, lastCL := f0.CashLetters[0].ID, f0.CashLetters[len(f0.CashLetters)-1].ID
	var c0, c1v icl.CashLetter
	json.Unmarshal(cl, &c0)
	json.Unmarshal(cl2, &c1v)
	mk := map[string]func() *apiReq{
		"get":    func() *apiReq { return &apiReq{Kind: "get", ID: id} },
		"list":   func() *apiReq { return &apiReq{Kind: "list"} },
		"cont":   func() *apiReq { return &apiReq{Kind: "cont", ID: id} },
		"val":    func() *apiReq { return &apiReq{Kind: "val", ID: id} },
		"upd":    func() *apiReq { return &apiReq{Kind: "upd", ID: id, Body: hdr} },
		"upd2":   func() *apiReq { return &apiReq{Kind: "upd", ID: id, Body: hdr2} },
		"add":    func() *apiReq { return &apiReq{Kind: "add", ID: id, Body: cl} },
		"add2":   func() *apiReq { return &apiReq{Kind: "add", ID: id, Body: cl2} },
		"rem":    func() *apiReq { return &apiReq{Kind: "rem", ID: id, CID: firstCL} },
		"remL":   func() *apiReq { return &apiReq{Kind: "rem", ID: id, CID: lastCL} },
		"remA":   func() *apiReq { return &apiReq{Kind: "rem", ID: id, CID: c0.ID} },  // the cash letter "add" appends
		"remA2":  func() *apiReq { return &apiReq{Kind: "rem", ID: id, CID: c1v.ID} }, // the one "add2" appends
		"del":    func() *apiReq { return &apiReq{Kind: "del", ID: id} },
		"c1":     func() *apiReq { return &apiReq{Kind: "c1", CT: "application/json", Body: reup} }, // re-upload, other content
		"c2":     func() *apiReq { return &apiReq{Kind: "c2", CT: "application/json", Body: doc} },
		"updO":   func() *apiReq { return &apiReq{Kind: "upd", ID: id2, Body: hdr} }, // another file
		"bad":    func() *apiReq { return &apiReq{Kind: "upd", ID: id, Body: []byte("{")} },
		"getReq": func() *apiReq { return &apiReq{Kind: "get", ID: id, ReqID: "rq-1"} },
	}
	names := []string{"get", "list", "cont", "val", "upd", "upd2", "add", "add2", "rem", "remL", "del", "c1", "c2", "updO", "bad", "getReq"}
	var cases []concCase
	capPair := 14
	if tier == "thorough" {
		capPair = 400
	}
	for a := 0; a < len(names); a++ {
		for b := a; b < len(names); b++ {
			if !(isWriter(names[a]) || isWriter(names[b])) {
				continue
			}
			cases = append(cases, concCase{Setup: setup, Reqs: []*apiReq{mk[names[a]](), mk[names[b]]()}, Enum: capPair})
		}
	}
	// long-lived readers
	readers := []string{"get", "list", "cont"}
	writers := []string{"add", "add2", "remL", "rem", "remA", "remA2", "upd", "upd2", "c1", "del"}
	nLong := 120
	if tier == "thorough" {
		nLong = 2500
	}
	for k := 0; k < nLong; k++ {
		nw := 1 + r.Intn(4)
		rq := []*apiReq{mk[readers[r.Intn(len(readers))]]()}
		acts := []string{"L0", "G0"}
		pre := r.Intn(3) // writers completed before the reader arrives (they shape the stored slice)
		var preActs []string
		for j := 1; j <= nw; j++ {
			rq = append(rq, mk[writers[r.Intn(len(writers))]]())
			if j <= pre {
				preActs = append(preActs, fmt.Sprintf("F%d", j))
			} else {
				acts = append(acts, fmt.Sprintf("F%d", j))
			}
		}
		acts = append(append(preActs, acts...), "F0")
		cases = append(cases, concCase{Setup: setup, Reqs: rq, Actions: acts})
	}
	nTri := 100
	if tier == "thorough" {
		nTri = 3000
	}
	for k := 0; k < nTri; k++ {
		var rq []*apiReq
		for j := 0; j < 3; j++ {
			rq = append(rq, mk[names[r.Intn(len(names))]]())
		}
		ch := make([]int, 14)
		for j := range ch {
			ch[j] = r.Intn(3)
		}
		cases = append(cases, concCase{Setup: setup, Reqs: rq, Choices: ch})
	}
	return cases
}

// followUps: reads of the files the case touched, issued once after the concurrent phase
func followUps(cc concCase) []*apiReq {
	ids := map[string]bool{}
	var out []*apiReq
	for _, q := range cc.Reqs {
		if q.ID != "" && !ids[q.ID] {
			ids[q.ID] = true
			out = append(out, &apiReq{Kind: "cont", ID: q.ID}, &apiReq{Kind: "get", ID: q.ID}, &apiReq{Kind: "cont", ID: q.ID})
		}
	}
	return append(out, &apiReq{Kind: "list"})
}

func isWriter(n string) bool {
	switch n {
	case "upd", "upd2", "add", "add2", "rem", "remL", "del", "c1", "c2", "updO":
		return true
	}
	return false
}

func loadConcReplay(path string) []concCase {
	var rf struct {
		Replay concCase `json:"replay"`
	}
	b, err := readFile(path)
	if err != nil || json.Unmarshal(b, &rf) != nil || len(rf.Replay.Reqs) == 0 {
		return nil
	}
	return []concCase{rf.Replay}
}

// ---------- race detector load ----------

// raceLoad runs the -race build of this harness (if the check script built it) in load mode and turns
// every data race report into a violation.
func raceLoad(cfg *config, rep *Report) {
	bin := filepath.Join(filepath.Dir(os.Args[0]), "iclh-race")
	if _, err := os.Stat(bin); err != nil {
		rep.Notes = append(rep.Notes, "race-detector load skipped: "+bin+" not built")
		return
	}
	logBase := filepath.Join(cfg.verif, "work", "race", "log")
	os.RemoveAll(filepath.Dir(logBase))
	os.MkdirAll(filepath.Dir(logBase), 0o755)
	cmd := exec.Command(bin, "-prop", "C12", "-tier", cfg.tier, "-seed", fmt.Sprint(cfg.seed), "-driver", cfg.driver, "-tables", cfg.tables,
		"-out", filepath.Join(cfg.verif, "work", "C12race.report.json"), "-verif", cfg.verif)
	cmd.Env = append(os.Environ(), "VERIF_RACE_LOAD=1", "GORACE=log_path="+logBase+" halt_on_error=0 exitcode=0")
	out, err := cmd.CombinedOutput()
	if err != nil {
		rep.Notes = append(rep.Notes, "race-detector load run failed: "+err.Error()+" "+headStr(out, 300))
	}
	files, _ := filepath.Glob(logBase + ".*")
	nRaces := 0
	for _, f := range files {
		b, _ := os.ReadFile(f)
		for _, blk := range strings.Split(string(b), "==================") {
			if !strings.Contains(blk, "DATA RACE") {
				continue
			}
			nRaces++
			site := raceSite(blk)
			rep.violate(Violation{Key: "C12:race:" + site, What: "the race detector reports a data race under concurrent load at " + site,
				Replay: map[string]any{"race_report": headStr([]byte(strings.TrimSpace(blk)), 3000), "how": "VERIF_RACE_LOAD=1 iclh-race -prop C12 (random concurrent requests against the real server for a few seconds)"}})
		}
	}
	rep.Dist["race_reports"] = nRaces
	var lr Report
	if b, err := os.ReadFile(filepath.Join(cfg.verif, "work", "C12race.report.json")); err == nil && json.Unmarshal(b, &lr) == nil {
		rep.Dist["race_load_requests"] = lr.Evaluations
		for _, v := range lr.Violations {
			rep.violate(v)
		}
	}
}

// raceSite: first repository-relative source position of the report
func raceSite(blk string) string {
	sc := bufio.NewScanner(strings.NewReader(blk))
	var sites []string
	for sc.Scan() {
		l := strings.TrimSpace(sc.Text())
		if i := strings.Index(l, "/repo/"); i >= 0 {
			s := l[i+len("/repo/"):]
			if j := strings.Index(s, " "); j > 0 {
				s = s[:j]
			}
			if k := strings.LastIndex(s, ":"); k > 0 {
				s = s[:k] // drop the line number: keys stay stable under edits
			}
			dup := false
			for _, o := range sites {
				if o == s {
					dup = true
				}
			}
			if !dup {
				sites = append(sites, s)
			}
			if len(sites) == 2 {
				break
			}
		}
	}
	if len(sites) == 0 {
		return "unknown"
	}
	return strings.Join(sites, "+")
}

// runC12RaceLoad: (in the -race binary) concurrent random requests against the real server over TCP.
func runC12RaceLoad(cfg *config) *Report {
	var mu2 sync.Mutex
	rep := newReport("C12", cfg.tier, cfg.seed)
	r := newRng(cfg.seed + 12500)
	pools := buildPools(r, 3)
	reg := newRegistry()
	env := newAPIEnv(reg)
	defer env.close()
	for k := range pools.jsonDocs {
		env.do(&apiReq{Kind: "c1", CT: "application/json", Body: pools.jsonDocs[k]})
	}
	// clients that go away in the middle of an upload: the announced body never arrives in full (the handlers see a
	// read error part-way), before the load and now and then during it
	broken := func() {
		for _, path := range []string{"/v2/files", "/files/create"} {
			for k := range pools.jsonDocs {
				body := pools.jsonDocs[k]
				conn, err := net.Dial("tcp", strings.TrimPrefix(env.srv.URL, "http://"))
				if err != nil {
					continue
				}
				fmt.Fprintf(conn, "POST %s HTTP/1.1\r\nHost: verif.local\r\nContent-Type: application/json\r\nContent-Length: %d\r\n\r\n", path, len(body))
				conn.Write(body[:len(body)/2])
				time.Sleep(5 * time.Millisecond)
				conn.Close()
			}
		}
	}
	broken()
	time.Sleep(50 * time.Millisecond)
	// uploads of DIFFERENT documents that overlap: each client must get its own file back (started together, eight
	// clients, repeated; whatever the earlier broken uploads left behind in the server must not mix them up)
	headerOf := func(b []byte) string {
		var m map[string]json.RawMessage
		if json.Unmarshal(b, &m) != nil {
			return "?"
		}
		var h map[string]any
		if json.Unmarshal(m["fileHeader"], &h) != nil {
			return "?"
		}
		delete(h, "id")
		out, _ := json.Marshal(h)
		return string(out)
	}
	for round := 0; round < 6; round++ {
		var wg sync.WaitGroup
		start := make(chan struct{})
		for w := 0; w < 8; w++ {
			wg.Add(1)
			go func(w int) {
				defer wg.Done()
				<-start
				for k := 0; k < 4; k++ {
					doc := pools.jsonDocs[(w+k)%len(pools.jsonDocs)]
					resp := env.do(&apiReq{Kind: "c2", CT: "application/json", Body: doc})
					want := headerOf(doc)
					if resp.Dropped != "" {
						continue
					}
					if resp.Status != 201 || headerOf(resp.Body) != want {
						mu2.Lock()
						rep.violate(Violation{Key: "C12:overlapping-uploads-mixed-up", What: fmt.Sprintf("of several clients uploading different documents to POST /v2/files at the same time, one was answered %d with a file whose header is not the one it submitted", resp.Status),
							Replay: map[string]any{"status": resp.Status, "submitted_header": want, "answered": string(resp.Body[:min(300, len(resp.Body))]), "how": "VERIF_RACE_LOAD=1 iclh-race -prop C12: broken uploads (client disconnects mid-body), then eight clients uploading at once"}})
						mu2.Unlock()
					}
				}
			}(w)
		}
		close(start)
		wg.Wait()
		if round%2 == 1 {
			broken()
		}
	}
	dur := 4 * time.Second
	if cfg.tier == "thorough" {
		dur = 45 * time.Second
	}
	var wg sync.WaitGroup
	var mu sync.Mutex
	total := 0
	stop := time.Now().Add(dur)
	for w := 0; w < 12; w++ {
		wg.Add(1)
		go func(w int) {
			defer wg.Done()
			g := &apiGen{r: newRng(cfg.seed + int64(w)*7919), p: pools, wBad: 5, wRead: 45}
			for _, id := range pools.jsonIDs {
				if id != "" {
					g.ids = append(g.ids, id)
				}
			}
			n := 0
			for time.Now().Before(stop) {
				q := g.next()
				if q.ReqID == "" && n%3 == 0 {
					q.ReqID = fmt.Sprintf("w%d-%d", w, n)
				}
				env.do(q)
				n++
				if w == 0 && n%200 == 100 {
					broken()
				}
			}
			mu.Lock()
			total += n
			mu.Unlock()
		}(w)
	}
	wg.Wait()
	rep.Evaluations = total
	return rep
}

var _ = bytes.Equal
var _ = http.StatusOK
