package main

import (
	"encoding/json"
	"fmt"
	"os"
	"reflect"
	"sort"
	"strings"
	"time"
	"unsafe"

	icl "github.com/moov-io/imagecashletter"
)

// ---- regenerated tables (work/tables.json, written by harness/extract on this run) ----

type Off struct {
	C    int      `json:"c"`
	Vars []string `json:"vars"`
}
type WField struct {
	Getter, Src, Conv string
	Width             int
	LenField          string
	ImageOnly         bool
}
type PStmt struct {
	Kind   string
	Dst    string
	Lo, Hi Off
	PK     string
}
type FieldDecl struct {
	Name, Type, JSON string
	Omit             bool
}
type RecLayout struct {
	Lean, Go, Tag string
	Fields        []FieldDecl
	Write         []WField
	Parse         []PStmt
	Rules         []json.RawMessage
}
type Tables struct {
	Records []RecLayout
	Raw     map[string]json.RawMessage `json:"-"`
}

var tables Tables

func loadTables(path string) {
	b, err := os.ReadFile(path)
	if err != nil {
		fatal("tables: %v", err)
	}
	if err := json.Unmarshal(b, &tables); err != nil {
		fatal("tables: %v", err)
	}
	json.Unmarshal(b, &tables.Raw)
}

func layoutOf(goName string) *RecLayout {
	for i := range tables.Records {
		if tables.Records[i].Go == goName {
			return &tables.Records[i]
		}
	}
	return nil
}

// ---- real record instances ----

var constructors = map[string]func() any{
	"FileHeader":            func() any { x := icl.NewFileHeader(); return &x },
	"CashLetterHeader":      func() any { return icl.NewCashLetterHeader() },
	"BundleHeader":          func() any { return icl.NewBundleHeader() },
	"CheckDetail":           func() any { return icl.NewCheckDetail() },
	"CheckDetailAddendumA":  func() any { x := icl.NewCheckDetailAddendumA(); return &x },
	"CheckDetailAddendumB":  func() any { x := icl.NewCheckDetailAddendumB(); return &x },
	"CheckDetailAddendumC":  func() any { x := icl.NewCheckDetailAddendumC(); return &x },
	"ReturnDetail":          func() any { return icl.NewReturnDetail() },
	"ReturnDetailAddendumA": func() any { x := icl.NewReturnDetailAddendumA(); return &x },
	"ReturnDetailAddendumB": func() any { x := icl.NewReturnDetailAddendumB(); return &x },
	"ReturnDetailAddendumC": func() any { x := icl.NewReturnDetailAddendumC(); return &x },
	"ReturnDetailAddendumD": func() any { x := icl.NewReturnDetailAddendumD(); return &x },
	"ImageViewDetail":       func() any { x := icl.NewImageViewDetail(); return &x },
	"ImageViewData":         func() any { x := icl.NewImageViewData(); return &x },
	"ImageViewAnalysis":     func() any { x := icl.NewImageViewAnalysis(); return &x },
	"Credit":                func() any { return icl.NewCredit() },
	"CreditItem":            func() any { return icl.NewCreditItem() },
	"UserGeneral":           func() any { return icl.NewUserGeneral() },
	"UserPayeeEndorsement":  func() any { return icl.NewUserPayeeEndorsement() },
	"BundleControl":         func() any { return icl.NewBundleControl() },
	"RoutingNumberSummary":  func() any { return icl.NewRoutingNumberSummary() },
	"CashLetterControl":     func() any { return icl.NewCashLetterControl() },
	"FileControl":           func() any { x := icl.NewFileControl(); return &x },
}

func newRec(goName string) any {
	c := constructors[goName]
	if c == nil {
		fatal("no constructor for %s", goName)
	}
	r := c()
	icl.VerifSetRecordType(r.(icl.FileRecord))
	return r
}

func fieldOf(rec any, name string) reflect.Value {
	v := reflect.ValueOf(rec).Elem()
	f := v.FieldByName(name)
	if !f.IsValid() {
		panic("no field " + name + " in " + v.Type().Name())
	}
	if !f.CanSet() {
		f = reflect.NewAt(f.Type(), unsafe.Pointer(f.UnsafeAddr())).Elem()
	}
	return f
}

var timeType = reflect.TypeOf(time.Time{})

func mkDate(y, m, d int) time.Time { return time.Date(y, time.Month(m), d, 0, 0, 0, 0, time.UTC) }
func mkHM(h, m int) time.Time      { return time.Date(0, 1, 1, h, m, 0, 0, time.UTC) }

// FV is a field value in the wire form shared with the Lean driver.
type FV struct {
	K    byte // 'S' 'I' 'D' 'T'
	S    []byte
	I    int
	Y, M int
	D    int
	Z    bool // T: Go's zero time.Time
}

func (v FV) wire(name string) string {
	switch v.K {
	case 'I':
		return fmt.Sprintf("%s:I:%d", name, v.I)
	case 'D':
		return fmt.Sprintf("%s:D:%d-%d-%d", name, v.Y, v.M, v.D)
	case 'T':
		z := 0
		if v.Z {
			z = 1
		}
		return fmt.Sprintf("%s:T:%d-%d-%d", name, v.Y, v.M, z)
	}
	return fmt.Sprintf("%s:S:%s", name, hx(v.S))
}

func kindOfConv(conv string) byte {
	switch conv {
	case "numeric", "numericBlankNonPos":
		return 'I'
	case "date", "dateBlankZero":
		return 'D'
	case "time":
		return 'T'
	}
	return 'S'
}

func setField(rec any, name string, v FV) {
	f := fieldOf(rec, name)
	switch v.K {
	case 'I':
		f.SetInt(int64(v.I))
	case 'D':
		f.Set(reflect.ValueOf(mkDate(v.Y, v.M, v.D)))
	case 'T':
		if v.Z {
			f.Set(reflect.ValueOf(time.Time{}))
		} else {
			f.Set(reflect.ValueOf(mkHM(v.Y, v.M)))
		}
	default:
		if f.Kind() == reflect.Slice {
			f.SetBytes(append([]byte{}, v.S...))
		} else {
			f.SetString(string(v.S))
		}
	}
}

func getField(rec any, name string, kind byte) FV {
	f := fieldOf(rec, name)
	switch kind {
	case 'I':
		return FV{K: 'I', I: int(f.Int())}
	case 'D':
		t := f.Interface().(time.Time)
		return FV{K: 'D', Y: t.Year(), M: int(t.Month()), D: t.Day()}
	case 'T':
		t := f.Interface().(time.Time)
		return FV{K: 'T', Y: t.Hour(), M: t.Minute(), Z: t.IsZero()}
	}
	if f.Kind() == reflect.Slice {
		return FV{K: 'S', S: f.Bytes()}
	}
	return FV{K: 'S', S: []byte(f.String())}
}

// fieldKinds: ordered (name, kind) of the fields the write table reads.
func fieldKinds(L *RecLayout) [][2]string {
	var out [][2]string
	for _, w := range L.Write {
		out = append(out, [2]string{w.Src, string(kindOfConv(w.Conv))})
	}
	return out
}

// dumpRec renders the record's fields in the driver's `dumpVals` format.
func dumpRec(rec any, L *RecLayout) string {
	var parts []string
	for _, fk := range fieldKinds(L) {
		parts = append(parts, getField(rec, fk[0], fk[1][0]).wire(fk[0]))
	}
	return strings.Join(parts, ";")
}

func wireVals(vals map[string]FV) string {
	if len(vals) == 0 {
		return "-"
	}
	ks := make([]string, 0, len(vals))
	for k := range vals {
		ks = append(ks, k)
	}
	sort.Strings(ks)
	parts := make([]string, len(ks))
	for i, k := range ks {
		parts[i] = vals[k].wire(k)
	}
	return strings.Join(parts, ";")
}

func recString(rec any) (s string, panicked any) {
	defer func() {
		if r := recover(); r != nil {
			panicked = r
		}
	}()
	return rec.(fmt.Stringer).String(), nil
}
