package main

import (
	"encoding/base64"
	"encoding/json"
	"fmt"
	"reflect"
	"strings"
	"time"

	icl "github.com/moov-io/imagecashletter"
)

// ---- what the regenerated rule trees say about each field (used only to steer generation) ----

type fieldInfo struct {
	strTable []string // values of a string code table applied to the field
	intTable []int
	class    []bool // accepted bytes of a character class applied to the field
}

var codeByName map[string]struct {
	Kind  string
	Strs  []string
	Ints  []int
	Class []bool
}

func loadCodes() {
	if codeByName != nil {
		return
	}
	var codes []struct {
		Name, Kind string
		Strs       []string
		Ints       []int
		Class      []bool
	}
	json.Unmarshal(tables.Raw["codes"], &codes)
	codeByName = map[string]struct {
		Kind  string
		Strs  []string
		Ints  []int
		Class []bool
	}{}
	for _, c := range codes {
		codeByName[c.Name] = struct {
			Kind  string
			Strs  []string
			Ints  []int
			Class []bool
		}{c.Kind, c.Strs, c.Ints, c.Class}
	}
}

var fieldInfoCache = map[string]map[string]*fieldInfo{}

func fieldInfos(L *RecLayout) map[string]*fieldInfo {
	if m, ok := fieldInfoCache[L.Go]; ok {
		return m
	}
	loadCodes()
	out := map[string]*fieldInfo{}
	get := func(f string) *fieldInfo {
		if out[f] == nil {
			out[f] = &fieldInfo{}
		}
		return out[f]
	}
	var walk func(v any)
	walk = func(v any) {
		switch x := v.(type) {
		case map[string]any:
			if op, _ := x["op"].(string); op == "invalid" || op == "dictHas" {
				fn, _ := x["name"].(string)
				if a, ok := x["a"].(map[string]any); ok {
					f, _ := a["name"].(string)
					f = strings.TrimSuffix(f, "Field")
					c := codeByName[fn]
					switch c.Kind {
					case "str":
						get(f).strTable = append(get(f).strTable, c.Strs...)
					case "int":
						get(f).intTable = c.Ints
					case "class":
						get(f).class = c.Class
					}
				}
			}
			for _, c := range x {
				walk(c)
			}
		case []any:
			for _, c := range x {
				walk(c)
			}
		}
	}
	for _, r := range L.Rules {
		var v any
		json.Unmarshal(r, &v)
		walk(v)
	}
	fieldInfoCache[L.Go] = out
	return out
}

const alnumChars = "ABCDEFGHIJKLMNOPQRSTUVWXYZabcdefghijklmnopqrstuvwxyz0123456789"

func classChars(cls []bool) string {
	if cls == nil {
		return alnumChars
	}
	var sb strings.Builder
	for b := 0x21; b < 0x7f; b++ { // no blanks: canonical values carry none at the ends; inner blanks added separately
		if cls[b] {
			sb.WriteByte(byte(b))
		}
	}
	if sb.Len() == 0 {
		return "0"
	}
	return sb.String()
}

// never varied by the generator: structural / computed / length-governed fields
var fixedFields = map[string]bool{"recordType": true, "reserved": true, "reservedTwo": true, "reservedThree": true,
	"AddendumCount": true, "ItemAmount": true, "CashLetterID": true, "CollectionTypeIndicator": true,
	"RecordTypeIndicator": true, "LengthImageReferenceKey": true, "ImageReferenceKey": true,
	"LengthDigitalSignature": true, "DigitalSignature": true, "LengthImageData": true, "ImageData": true,
	"EceInstitutionItemSequenceNumber": true, "ECEInstitutionItemSequenceNumber": true, "BundleSequenceNumber": true,
	"RecordNumber": true, "BOFDItemSequenceNumber": true, "EndorsingBankItemSequenceNumber": true,
	"CountryCode": true, "DocumentationTypeIndicator": true, "SettlementDate": true}

type genOpts struct {
	maxCL, maxBundles, maxItems int
	binary                      bool // arbitrary bytes in signatures / images (length-prefix framing only)
	b64plain                    bool // base64 images decode to letters and digits only
	b64                         int  // percent of images given as base64 text (standard or URL-safe alphabet) with LengthImageData = decoded size
	kind                        int  // 0: forward or return cash letters at random, 1: forward only, 2: return only
	emptyCL                     bool // now and then a cash letter of record type "N": no bundles, credit items only
	zones                       bool // date members carry a non-UTC zone and a time of day that crosses midnight in UTC
	mutateP                     int  // percent of fields varied
	sig7                        bool // digital signatures of arbitrary 7-bit bytes (NUL and control characters included, no line breaks): binary content that every encoding and framing can carry
	alphaSeq                    bool // some items carry a caller-supplied item sequence number that is not a number (institution keys such as "A0012X7")
	fileBundles                 bool // the file's own Bundles member (JSON "bundle", outside any cash letter, never written) holds bundles too
	unbuilt                     bool // after building, members the build step derives are set to other valid values (record numbers out of order, control records swapped between bundles): a file as a caller may assemble it without building
}

// mutateRecord varies the free fields of a valid record, keeping it valid (the real Validate() is
// the filter) and canonical (fits, no blanks at either end, field's character class).
func mutateRecord(r rng, goName string, rec any, p int) {
	L := layoutOf(goName)
	infos := fieldInfos(L)
	// the mock baselines carry padded values here and there: canonical form has no outer blanks
	for _, w := range L.Write {
		if kindOfConv(w.Conv) == 'S' && w.Conv != "lit" && w.Width > 0 && !strings.HasPrefix(w.Src, "reserved") {
			old := getField(rec, w.Src, 'S')
			if t := strings.TrimSpace(string(old.S)); t != string(old.S) {
				setField(rec, w.Src, FV{K: 'S', S: []byte(t)})
				if realValidate(rec) != "ok" {
					setField(rec, w.Src, old)
				}
			}
		}
	}
	for _, w := range L.Write {
		if fixedFields[w.Src] || w.Conv == "lit" || w.Width == 0 || r.Intn(100) >= p {
			continue
		}
		old := getField(rec, w.Src, kindOfConv(w.Conv))
		info := infos[w.Src]
		var cand FV
		switch kindOfConv(w.Conv) {
		case 'I':
			if info != nil && info.intTable != nil {
				cand = FV{K: 'I', I: info.intTable[r.Intn(len(info.intTable))]}
			} else {
				lim := 1
				for i := 0; i < w.Width && i < 15; i++ {
					lim *= 10
				}
				switch r.Intn(4) {
				case 0:
					cand = FV{K: 'I', I: lim - 1}
				case 1:
					cand = FV{K: 'I', I: r.Intn(10)}
				default:
					cand = FV{K: 'I', I: r.Intn(lim)}
				}
			}
		case 'D':
			cand = FV{K: 'D', Y: 1993 + r.Intn(100), M: 1 + r.Intn(12), D: 1 + r.Intn(28)}
			if r.Intn(4) == 0 {
				// the days a hand-written calendar gets wrong: leap days (of a century year too), month ends
				sp := [][3]int{{2000, 2, 29}, {2024, 2, 29}, {2400, 2, 29}, {1996, 2, 29}, {2016, 12, 31}, {1999, 1, 31}, {2023, 4, 30}, {2100, 2, 28}, {2019, 10, 31}, {2001, 3, 1}}[r.Intn(10)]
				cand = FV{K: 'D', Y: sp[0], M: sp[1], D: sp[2]}
			}
		case 'T':
			cand = FV{K: 'T', Y: r.Intn(24), M: r.Intn(60)}
		default:
			if info != nil && info.strTable != nil {
				cand = FV{K: 'S', S: []byte(info.strTable[r.Intn(len(info.strTable))])}
			} else {
				var cls []bool
				if info != nil {
					cls = info.class
				}
				chars := classChars(cls)
				n := []int{0, 1, w.Width / 2, w.Width, w.Width}[r.Intn(5)]
				if w.Conv == "zstr" {
					// zero-filled string fields are canonical only at full width
					n, chars = w.Width, "0123456789"
				}
				if w.Conv == "nbsm" {
					chars = "0123456789"
				}
				s := []byte(r.asciiStr(n, chars))
				if n >= 3 && r.Intn(3) == 0 && (cls == nil || cls[' ']) && w.Conv == "alpha" {
					s[1+r.Intn(n-2)] = ' '
				}
				cand = FV{K: 'S', S: s}
			}
		}
		setField(rec, w.Src, cand)
		if realValidate(rec) != "ok" {
			setField(rec, w.Src, old)
		}
	}
}

func mkIVData(r rng, o genOpts) icl.ImageViewData {
	d := baseImageViewData()
	mutateRecord(r, "ImageViewData", &d, o.mutateP)
	key := r.asciiStr(r.Intn(3)*r.Intn(8), alnumChars)
	d.ImageReferenceKey = key
	d.LengthImageReferenceKey = fmt.Sprintf("%04d", len(key))
	mk := func(n int) []byte {
		b := make([]byte, n)
		for i := range b {
			if o.binary {
				b[i] = byte(r.Intn(256))
			} else {
				b[i] = "ABCXYZ0189!$%*-_+/="[r.Intn(19)]
			}
		}
		if n > 0 {
			b[0] = '!' // never valid base64: the documented decode-on-write case is generated separately
		}
		return b
	}
	sig := mk(r.Intn(3) * r.Intn(12))
	if len(sig) > 0 {
		sig[0] = 'S'
		if o.binary {
			sig[len(sig)-1] = byte(0x80 + r.Intn(0x7f))
		} else {
			sig[len(sig)-1] = 'Z'
		}
	}
	if o.sig7 && !o.binary {
		sig = make([]byte, 2+r.Intn(20))
		for i := range sig {
			b := byte(r.Intn(128))
			for b == '\n' || b == '\r' {
				b = byte(r.Intn(128))
			}
			sig[i] = b
		}
		sig[0], sig[len(sig)-1] = 'S', 'Z'
		sig[1+r.Intn(len(sig)-1)-0] = sig[1+r.Intn(len(sig)-1)-0] // keep length
		if len(sig) > 2 {
			sig[1] = 0x00
		}
	}
	d.DigitalSignature = sig
	d.LengthDigitalSignature = fmt.Sprintf("%05d", len(sig))
	if len(sig) == 0 {
		d.LengthDigitalSignature = "0"
	}
	img := mk(1 + r.Intn(40))
	if !o.binary {
		img[len(img)-1] = 'E'
	} else if img[len(img)-1] == ' ' || img[len(img)-1] == '\n' {
		img[len(img)-1] = 0xfe
	}
	d.ImageData = img
	d.LengthImageData = fmt.Sprintf("%07d", len(img))
	if o.b64 > 0 && r.Intn(100) < o.b64 {
		// the documented alternative form: ImageData holds base64 text, LengthImageData the decoded size
		raw := make([]byte, 3+r.Intn(60))
		for i := range raw {
			raw[i] = byte(r.Intn(256))
		}
		raw[0], raw[1], raw[2] = 0xfb, 0xef, 0xbe // encodes to "++++" / "----": both alphabets differ visibly
		if o.b64plain {
			// a decoded image of letters and digits only: it can be written newline-framed in either character set
			for i := range raw {
				raw[i] = "ABCDEFGHJKLMNPQRSTUVWXYZ0123456789"[r.Intn(34)]
			}
		}
		enc := base64.StdEncoding
		if r.Intn(2) == 0 {
			enc = base64.URLEncoding
		}
		txt := enc.EncodeToString(raw)
		if r.Intn(3) == 0 {
			// base64 text wrapped in lines, as `base64` or a MIME encoder emits it (line breaks are not part of the data)
			w := 4 * (1 + r.Intn(5))
			nl := []string{"\n", "\r\n"}[r.Intn(2)]
			var sb strings.Builder
			for i := 0; i < len(txt); i += w {
				sb.WriteString(txt[i:min(i+w, len(txt))])
				sb.WriteString(nl)
			}
			txt = sb.String()
		}
		d.ImageData = []byte(txt)
		d.LengthImageData = fmt.Sprintf("%07d", len(raw))
	}
	return d
}

func genCheck(r rng, o genOpts) *icl.CheckDetail {
	cd := baseCheckDetail()
	mutateRecord(r, "CheckDetail", cd, o.mutateP)
	cd.ItemAmount = 1 + r.Intn(999999)
	cd.EceInstitutionItemSequenceNumber = ""
	if o.alphaSeq && r.Intn(3) == 0 {
		cd.EceInstitutionItemSequenceNumber = []string{"A0012X7", "RT-77/B", "K9", "00X1"}[r.Intn(4)]
	}
	nA, nB, nC := r.Intn(3), r.Intn(2), r.Intn(3)
	if r.Intn(12) == 0 {
		// at the maximum of addenda A; addenda C beyond the maximum of any other addendum kind
		nA, nC = 9, 4+r.Intn(10)
	}
	for i := 0; i < nA; i++ {
		a := baseCheckDetailAddendumA()
		mutateRecord(r, "CheckDetailAddendumA", &a, o.mutateP)
		cd.AddCheckDetailAddendumA(a)
	}
	for i := 0; i < nB; i++ {
		b := baseCheckDetailAddendumB()
		mutateRecord(r, "CheckDetailAddendumB", &b, o.mutateP)
		key := r.asciiStr(r.Intn(46), alnumChars) // 46 + K bytes: shorter than 80 for K < 34
		b.ImageReferenceKey, b.LengthImageReferenceKey = key, fmt.Sprintf("%04d", len(key))
		cd.AddCheckDetailAddendumB(b)
	}
	for i := 0; i < nC; i++ {
		c := baseCheckDetailAddendumC()
		mutateRecord(r, "CheckDetailAddendumC", &c, o.mutateP)
		cd.AddCheckDetailAddendumC(c)
	}
	cd.AddendumCount = nA + nB + nC
	nV := r.Intn(3)
	full := r.Intn(3) > 0
	withData, withAnalysis := full, full
	if r.Intn(4) == 0 {
		// views with only one of the two optional records
		withData, withAnalysis = r.Intn(2) == 0, true
		if !withData && r.Intn(2) == 0 {
			withData, withAnalysis = true, false
		}
	}
	for i := 0; i < nV; i++ {
		d := baseImageViewDetail()
		mutateRecord(r, "ImageViewDetail", &d, o.mutateP)
		cd.AddImageViewDetail(d)
		if withData {
			cd.AddImageViewData(mkIVData(r, o))
		}
		if withAnalysis {
			a := baseImageViewAnalysis()
			mutateRecord(r, "ImageViewAnalysis", &a, o.mutateP)
			cd.AddImageViewAnalysis(a)
		}
	}
	return cd
}

func genReturn(r rng, o genOpts) *icl.ReturnDetail {
	rd := baseReturnDetail()
	mutateRecord(r, "ReturnDetail", rd, o.mutateP)
	rd.ItemAmount = 1 + r.Intn(999999)
	rd.EceInstitutionItemSequenceNumber = ""
	if o.alphaSeq && r.Intn(3) == 0 {
		rd.EceInstitutionItemSequenceNumber = []string{"A0012X7", "RT-77/B", "K9", "00X1"}[r.Intn(4)]
	}
	nA, nB, nC, nD := r.Intn(3), r.Intn(2), r.Intn(2), r.Intn(3)
	if r.Intn(12) == 0 {
		// at the maximum of addenda A; addenda D beyond the maximum of any other addendum kind
		nA, nD = 9, 4+r.Intn(10)
	}
	for i := 0; i < nA; i++ {
		a := baseReturnDetailAddendumA()
		mutateRecord(r, "ReturnDetailAddendumA", &a, o.mutateP)
		rd.AddReturnDetailAddendumA(a)
	}
	for i := 0; i < nB; i++ {
		b := baseReturnDetailAddendumB()
		mutateRecord(r, "ReturnDetailAddendumB", &b, o.mutateP)
		rd.AddReturnDetailAddendumB(b)
	}
	for i := 0; i < nC; i++ {
		c := baseReturnDetailAddendumC()
		mutateRecord(r, "ReturnDetailAddendumC", &c, o.mutateP)
		key := r.asciiStr(r.Intn(46), alnumChars)
		c.ImageReferenceKey, c.LengthImageReferenceKey = key, fmt.Sprintf("%04d", len(key))
		rd.AddReturnDetailAddendumC(c)
	}
	for i := 0; i < nD; i++ {
		d := baseReturnDetailAddendumD()
		mutateRecord(r, "ReturnDetailAddendumD", &d, o.mutateP)
		rd.AddReturnDetailAddendumD(d)
	}
	rd.AddendumCount = nA + nB + nC + nD
	nV := r.Intn(2)
	for i := 0; i < nV; i++ {
		d := baseImageViewDetail()
		mutateRecord(r, "ImageViewDetail", &d, o.mutateP)
		rd.AddImageViewDetail(d)
		rd.AddImageViewData(mkIVData(r, o))
		a := baseImageViewAnalysis()
		mutateRecord(r, "ImageViewAnalysis", &a, o.mutateP)
		rd.AddImageViewAnalysis(a)
	}
	return rd
}

// genFile builds a valid, canonical, built file of random shape.
var genSeq int

func genFile(r rng, o genOpts) (*icl.File, error) {
	f := icl.NewFile()
	fh := baseFileHeader()
	mutateRecord(r, "FileHeader", &fh, o.mutateP)
	f.SetHeader(fh)
	nCL := 1 + r.Intn(o.maxCL)
	for c := 0; c < nCL; c++ {
		clh := baseCashLetterHeader()
		mutateRecord(r, "CashLetterHeader", clh, o.mutateP)
		forward := r.Intn(3) > 0
		if c == 0 && o.kind == 0 {
			// the first cash letter of consecutive files alternates between forward and return items, so that a
			// harness that generates only a few files still meets every record type
			forward = genSeq%2 == 0
			genSeq++
		}
		if o.kind == 1 {
			forward = true
		} else if o.kind == 2 {
			forward = false
		}
		if forward {
			clh.CollectionTypeIndicator = []string{"00", "01", "02"}[r.Intn(3)]
		} else {
			clh.CollectionTypeIndicator = "03"
		}
		clh.CashLetterID = fmt.Sprintf("CL%d%s", c, r.asciiStr(r.Intn(4), alnumChars))
		cl := icl.NewCashLetter(clh)
		nB := 1 + r.Intn(o.maxBundles)
		empty := o.emptyCL && c > 0 && r.Intn(2) == 0
		if empty {
			// no electronic check records, no image records: the cash letter carries credit items only
			clh.RecordTypeIndicator = "N"
			nB = 0
			ci := baseCreditItem()
			mutateRecord(r, "CreditItem", ci, o.mutateP)
			cl.AddCreditItem(ci)
		}
		for b := 0; b < nB; b++ {
			bh := baseBundleHeader()
			mutateRecord(r, "BundleHeader", bh, o.mutateP)
			bh.CollectionTypeIndicator = clh.CollectionTypeIndicator
			bh.BundleSequenceNumber = ""
			bundle := icl.NewBundle(bh)
			n := 1 + r.Intn(o.maxItems)
			for i := 0; i < n; i++ {
				if forward {
					bundle.AddCheckDetail(genCheck(r, o))
				} else {
					bundle.AddReturnDetail(genReturn(r, o))
				}
			}
			cl.AddBundle(bundle)
		}
		for i := []int{0, 0, 1, 2, 3}[r.Intn(5)]; i > 0; i-- {
			cr := baseCredit()
			mutateRecord(r, "Credit", cr, o.mutateP)
			cr.ECEInstitutionItemSequenceNumber = fmt.Sprintf("%015d", 1+r.Intn(99999)) // kept raw by the reader: full width only
			cl.AddCredit(cr)
		}
		for i := []int{0, 0, 1, 2, 3}[r.Intn(5)]; i > 0; i-- {
			ci := baseCreditItem()
			mutateRecord(r, "CreditItem", ci, o.mutateP)
			cl.AddCreditItem(ci)
		}
		if forward {
			for i := []int{0, 0, 1, 2, 3}[r.Intn(5)]; i > 0; i-- {
				rns := baseRoutingNumberSummary()
				mutateRecord(r, "RoutingNumberSummary", rns, o.mutateP)
				cl.AddRoutingNumberSummary(rns)
			}
		}
		if empty {
			// CashLetter.Create would total the (absent) items to zero, which the control record's own validation
			// refuses: such a cash letter carries the control its sender prepared
			// assembled as a literal, the way a sender without the library's constructors would
			cl = icl.CashLetter{CashLetterHeader: clh, CreditItems: cl.CreditItems}
			clc := icl.NewCashLetterControl()
			clc.CashLetterBundleCount = 0
			clc.CashLetterItemsCount = len(cl.CreditItems)
			for _, ci := range cl.CreditItems {
				clc.CashLetterTotalAmount += ci.ItemAmount
			}
			if clc.CashLetterTotalAmount == 0 {
				cl.CreditItems[0].ItemAmount = 250000
				clc.CashLetterTotalAmount = 250000
			}
			clc.ECEInstitutionName = "Wells Fargo"
			clc.SettlementDate = clh.CashLetterBusinessDate
			clc.CreditTotalIndicator = 1
			cl.CashLetterControl = clc
		} else if err := cl.Create(); err != nil {
			return nil, fmt.Errorf("cash letter create: %w", err)
		}
		f.AddCashLetter(cl)
	}
	if o.fileBundles {
		for _, cl := range f.CashLetters {
			for _, b := range cl.Bundles {
				if r.Intn(2) == 0 || len(f.Bundles) == 0 {
					var cp icl.Bundle
					if bs, err := json.Marshal(b); err == nil && json.Unmarshal(bs, &cp) == nil {
						f.Bundles = append(f.Bundles, cp)
					}
				}
			}
		}
	}
	if err := f.Create(); err != nil {
		return nil, fmt.Errorf("file create: %w", err)
	}
	if o.zones {
		zoneDates(reflect.ValueOf(f), time.FixedZone("UTC-5", -5*3600))
	}
	if o.unbuilt {
		unbuild(r, f)
	}
	return f, nil
}

// unbuild gives members that the build step derives other VALID values: addendum record numbers in
// descending or shuffled order, control records exchanged between the bundles of a cash letter. Every record
// stays valid and canonical; the file is one a caller can hand to the Writer without building it.
func unbuild(r rng, f *icl.File) {
	perm := func(n int) []int {
		p := make([]int, n)
		for i := range p {
			p[i] = n - 1 - i
		}
		if n > 2 && r.Intn(2) == 0 {
			p[0], p[1] = p[1], p[0]
		}
		return p
	}
	for ci := range f.CashLetters {
		cl := &f.CashLetters[ci]
		for _, b := range cl.Bundles {
			for _, cd := range b.Checks {
				nums := make([]int, len(cd.CheckDetailAddendumA))
				for i := range nums {
					nums[i] = cd.CheckDetailAddendumA[i].RecordNumber
				}
				for i, j := range perm(len(nums)) {
					cd.CheckDetailAddendumA[i].RecordNumber = nums[j]
				}
				nums = make([]int, len(cd.CheckDetailAddendumC))
				for i := range nums {
					nums[i] = cd.CheckDetailAddendumC[i].RecordNumber
				}
				for i, j := range perm(len(nums)) {
					cd.CheckDetailAddendumC[i].RecordNumber = nums[j]
				}
			}
			for _, rd := range b.Returns {
				nums := make([]int, len(rd.ReturnDetailAddendumA))
				for i := range nums {
					nums[i] = rd.ReturnDetailAddendumA[i].RecordNumber
				}
				for i, j := range perm(len(nums)) {
					rd.ReturnDetailAddendumA[i].RecordNumber = nums[j]
				}
				nums = make([]int, len(rd.ReturnDetailAddendumD))
				for i := range nums {
					nums[i] = rd.ReturnDetailAddendumD[i].RecordNumber
				}
				for i, j := range perm(len(nums)) {
					rd.ReturnDetailAddendumD[i].RecordNumber = nums[j]
				}
			}
		}
		if n := len(cl.Bundles); n > 1 {
			first := cl.Bundles[0].BundleControl
			for i := 0; i+1 < n; i++ {
				cl.Bundles[i].BundleControl = cl.Bundles[i+1].BundleControl
			}
			cl.Bundles[n-1].BundleControl = first
		}
	}
}

// zoneDates rewrites every non-zero date member to 21:30 of the same calendar day in loc (a later day
// in UTC): the X9 rendering (the time's own calendar day) is unchanged, the JSON instant is not.
func zoneDates(v reflect.Value, loc *time.Location) {
	switch v.Kind() {
	case reflect.Ptr:
		if !v.IsNil() {
			zoneDates(v.Elem(), loc)
		}
	case reflect.Struct:
		if v.Type() == reflect.TypeOf(time.Time{}) {
			t := v.Interface().(time.Time)
			if !t.IsZero() && v.CanSet() && t.Year() > 1900 && t.Hour() == 0 && t.Minute() == 0 {
				v.Set(reflect.ValueOf(time.Date(t.Year(), t.Month(), t.Day(), 21, 30, 0, 0, loc)))
			}
			return
		}
		for i := 0; i < v.NumField(); i++ {
			if v.Type().Field(i).PkgPath == "" {
				zoneDates(v.Field(i), loc)
			}
		}
	case reflect.Slice:
		if v.Type().Elem().Kind() != reflect.Uint8 {
			for i := 0; i < v.Len(); i++ {
				zoneDates(v.Index(i), loc)
			}
		}
	}
}
