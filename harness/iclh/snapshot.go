package main

import (
	"fmt"
	"reflect"
	"sort"
	"strings"
	"time"
)

// snapshot renders every field (exported or not) of a value graph deterministically; pointers are
// followed, never printed.  exportedOnly restricts it to exported fields.
func snapshot(v any, exportedOnly bool) string {
	var sb strings.Builder
	snap(&sb, reflect.ValueOf(v), exportedOnly, 0)
	return sb.String()
}

func snap(sb *strings.Builder, v reflect.Value, exp bool, depth int) {
	if depth > 40 {
		sb.WriteString("<deep>")
		return
	}
	switch v.Kind() {
	case reflect.Invalid:
		sb.WriteString("<invalid>")
	case reflect.Ptr, reflect.Interface:
		if v.IsNil() {
			sb.WriteString("nil")
			return
		}
		sb.WriteString("&")
		snap(sb, v.Elem(), exp, depth+1)
	case reflect.Struct:
		if v.Type() == reflect.TypeOf(time.Time{}) {
			if v.CanInterface() {
				t := v.Interface().(time.Time)
				_, off := t.Zone()
				fmt.Fprintf(sb, "time(%d,%+d)", t.UnixNano(), off)
			} else {
				// unexported time fields do not occur in the library's records
				sb.WriteString("time(?)")
			}
			return
		}
		sb.WriteString(v.Type().Name() + "{")
		for i := 0; i < v.NumField(); i++ {
			f := v.Type().Field(i)
			if exp && f.PkgPath != "" {
				continue
			}
			if f.Anonymous && v.Field(i).NumField() == 0 {
				continue // embedded validator / converters
			}
			sb.WriteString(f.Name + ":")
			snap(sb, v.Field(i), exp, depth+1)
			sb.WriteString(";")
		}
		sb.WriteString("}")
	case reflect.Slice:
		if v.IsNil() {
			sb.WriteString("nil[]")
			return
		}
		if v.Type().Elem().Kind() == reflect.Uint8 {
			fmt.Fprintf(sb, "bytes(%x)", v.Bytes())
			return
		}
		sb.WriteString("[")
		for i := 0; i < v.Len(); i++ {
			snap(sb, v.Index(i), exp, depth+1)
			sb.WriteString(",")
		}
		sb.WriteString("]")
	case reflect.Map:
		keys := v.MapKeys()
		sort.Slice(keys, func(i, j int) bool { return fmt.Sprint(keys[i]) < fmt.Sprint(keys[j]) })
		sb.WriteString("map[")
		for _, k := range keys {
			fmt.Fprintf(sb, "%v:", k)
			snap(sb, v.MapIndex(k), exp, depth+1)
			sb.WriteString(",")
		}
		sb.WriteString("]")
	case reflect.String:
		fmt.Fprintf(sb, "%q", v.String())
	case reflect.Int, reflect.Int8, reflect.Int16, reflect.Int32, reflect.Int64:
		fmt.Fprintf(sb, "%d", v.Int())
	case reflect.Uint, reflect.Uint8, reflect.Uint16, reflect.Uint32, reflect.Uint64:
		fmt.Fprintf(sb, "%d", v.Uint())
	case reflect.Bool:
		fmt.Fprintf(sb, "%v", v.Bool())
	default:
		fmt.Fprintf(sb, "<%s>", v.Kind())
	}
}

// firstSnapDiff: a short window around the first difference of two snapshots
func firstSnapDiff(a, b string) string {
	i := 0
	for i < len(a) && i < len(b) && a[i] == b[i] {
		i++
	}
	lo := i - 80
	if lo < 0 {
		lo = 0
	}
	hiA, hiB := i+60, i+60
	if hiA > len(a) {
		hiA = len(a)
	}
	if hiB > len(b) {
		hiB = len(b)
	}
	return fmt.Sprintf("...%s  <<vs>>  ...%s", a[lo:hiA], b[lo:hiB])
}

// fieldAt: name of the struct field enclosing position i of a snapshot
func fieldAt(s string, i int) string {
	if i > len(s) {
		i = len(s)
	}
	j := strings.LastIndex(s[:i], ":")
	if j < 0 {
		return "?"
	}
	k := j
	for k > 0 && (s[k-1] == '_' || s[k-1] >= 'A' && s[k-1] <= 'Z' || s[k-1] >= 'a' && s[k-1] <= 'z' || s[k-1] >= '0' && s[k-1] <= '9') {
		k--
	}
	// enclosing type
	t := strings.LastIndex(s[:k], "{")
	tn := ""
	if t > 0 {
		u := t
		for u > 0 && (s[u-1] >= 'A' && s[u-1] <= 'Z' || s[u-1] >= 'a' && s[u-1] <= 'z') {
			u--
		}
		tn = s[u:t] + "."
	}
	return tn + s[k:j]
}

func diffField(a, b string) string {
	i := 0
	for i < len(a) && i < len(b) && a[i] == b[i] {
		i++
	}
	return fieldAt(a, i)
}
