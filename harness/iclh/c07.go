package main

import (
	"fmt"
	"strconv"
	"strings"
	"sync"

	icl "github.com/moov-io/imagecashletter"
)

func atoiTrim(s string) (int, bool) {
	n, err := strconv.Atoi(strings.TrimSpace(s))
	return n, err == nil
}

func runC07(cfg *config) *Report {
	rep := newReport("C07", cfg.tier, cfg.seed)
	r := newRng(cfg.seed + 7000)
	rep.Rule = "generated cash letters (1-4 bundles, forward or return items, 0-9 addenda A, 0-1 B, 0-12 C/D) whose item sequence numbers are a seeded mix of blank and caller-supplied values (increasing, scattered, colliding with the values the builder would fill in, 13-15 digits, or renumbered by the caller between two builds in FRB mode), built with the real CashLetter.Create(); checked: bundle numbers 1..n, record numbers 1,2,3.. per addendum kind, addenda carry their item's number, supplied numbers keep their value, filled numbers are unique within the bundle; the Lean build model runs on the same trees; non-trivial = some item has >= 2 addenda of one kind or a supplied number; distinct by tree dump"
	n := 200
	if cfg.tier == "thorough" {
		n = 5000
	}
	var lines, dumps, built []string
	// unbuilt copies of the generated cash letters, built a second time CONCURRENTLY below: building one cash
	// letter must not depend on another, unrelated one being built at the same time
	var concTwins []*icl.File
	var concWant []string
	for i := 0; i < n; i++ {
		mode := i % 8
		maxItems := 4
		if mode >= 4 {
			maxItems = 11
		}
		f, err := genFile(r, genOpts{maxCL: 1, maxBundles: 4, maxItems: maxItems, mutateP: 10})
		if err != nil {
			continue
		}
		cl := &f.CashLetters[0]
		supplied := map[*icl.Bundle][]string{}
		nontrivial := false
		for _, b := range cl.Bundles {
			b.BundleHeader.BundleSequenceNumber = ""
			next := 1 + r.Intn(50)
			seqFor := func(j int) string {
				switch mode {
				case 0: // all blank
					return ""
				case 1: // some supplied, increasing
					if r.Intn(2) == 0 {
						next += 1 + r.Intn(30)
						return strconv.Itoa(next)
					}
					return ""
				case 2: // blank first, then the value the builder would have used for the first
					if j == 0 {
						return ""
					}
					return strconv.Itoa(j)
				case 3: // a small number supplied for the first item, the others blank (the builder goes on from it)
					if j == 0 {
						return strconv.Itoa(2 + r.Intn(3))
					}
					return ""
				case 4: // supplied zero-filled, eight and above (a leading zero must not change the base)
					if r.Intn(4) == 0 {
						return ""
					}
					next += 1 + r.Intn(9)
					if r.Intn(2) == 0 {
						return fmt.Sprintf("%015d", 7+next)
					}
					return fmt.Sprintf("%03d", 7+next)
				case 5: // all supplied, unpadded, widths differ (9, 10, 11, ...): numeric and lexical order disagree
					return strconv.Itoa(9 + j)
				case 6: // supplied, 13 to 15 digits (beyond 32 bits), increasing
					if r.Intn(5) == 0 {
						return ""
					}
					next += 1 + r.Intn(9)
					return strconv.FormatInt([]int64{2026092900000, 20260929000000, 202609290000000}[r.Intn(3)]+int64(next), 10)
				case 7: // all blank now; built once, renumbered by the caller, built again (below), in FRB mode
					return ""
				default: // scattered
					if r.Intn(3) == 0 {
						return ""
					}
					return strconv.Itoa(1 + r.Intn(999))
				}
			}
			for j, cd := range b.Checks {
				s := seqFor(j)
				cd.EceInstitutionItemSequenceNumber = s
				supplied[b] = append(supplied[b], s)
				if s != "" {
					nontrivial = true
				}
				extra := r.Intn(4) * r.Intn(4)
				for k := 0; k < extra; k++ {
					c := baseCheckDetailAddendumC()
					cd.AddCheckDetailAddendumC(c)
				}
				for len(cd.CheckDetailAddendumA) < r.Intn(10) {
					cd.AddCheckDetailAddendumA(baseCheckDetailAddendumA())
				}
				cd.AddendumCount = len(cd.CheckDetailAddendumA) + len(cd.CheckDetailAddendumB) + len(cd.CheckDetailAddendumC)
				for x := range cd.CheckDetailAddendumA {
					cd.CheckDetailAddendumA[x].RecordNumber = 7
					cd.CheckDetailAddendumA[x].BOFDItemSequenceNumber = "999"
				}
				for x := range cd.CheckDetailAddendumC {
					cd.CheckDetailAddendumC[x].RecordNumber = 7
				}
				if len(cd.CheckDetailAddendumA) > 1 || len(cd.CheckDetailAddendumC) > 1 {
					nontrivial = true
				}
			}
			for j, rd := range b.Returns {
				s := seqFor(j)
				rd.EceInstitutionItemSequenceNumber = s
				supplied[b] = append(supplied[b], s)
				if s != "" {
					nontrivial = true
				}
				extra := r.Intn(4) * r.Intn(4)
				for k := 0; k < extra; k++ {
					rd.AddReturnDetailAddendumD(baseReturnDetailAddendumD())
				}
				for len(rd.ReturnDetailAddendumA) < r.Intn(10) {
					rd.AddReturnDetailAddendumA(baseReturnDetailAddendumA())
				}
				rd.AddendumCount = len(rd.ReturnDetailAddendumA) + len(rd.ReturnDetailAddendumB) + len(rd.ReturnDetailAddendumC) + len(rd.ReturnDetailAddendumD)
				if len(rd.ReturnDetailAddendumA) > 1 || len(rd.ReturnDetailAddendumD) > 1 {
					nontrivial = true
				}
			}
		}
		intent := ""
		if (i/8)%2 == 1 && mode != 7 {
			// the bundles assembled the way a caller does it: every item handed to the bundle's Add method with the number
			// (or the blank) it carries at that moment.  What the model builds is the caller's intent, dumped before.
			intent = dumpFile(f)
			for _, b := range cl.Bundles {
				cds, rds := b.Checks, b.Returns
				b.Checks, b.Returns = nil, nil
				for _, cd := range cds {
					b.AddCheckDetail(cd)
				}
				for _, rd := range rds {
					b.AddReturnDetail(rd)
				}
			}
		}
		if mode == 7 {
			// second build after the caller renumbered the items of a built cash letter: the addenda follow
			setFRB(true)
			if cl.Create() == nil {
				for _, b := range cl.Bundles {
					supplied[b] = nil
					for j, cd := range b.Checks {
						cd.EceInstitutionItemSequenceNumber = strconv.Itoa(101 + 3*j)
						supplied[b] = append(supplied[b], cd.EceInstitutionItemSequenceNumber)
					}
					for j, rd := range b.Returns {
						rd.EceInstitutionItemSequenceNumber = strconv.Itoa(101 + 3*j)
						supplied[b] = append(supplied[b], rd.EceInstitutionItemSequenceNumber)
					}
				}
				nontrivial = true
			}
		}
		before := dumpFile(f)
		if intent != "" {
			before = intent
		}
		var twin *icl.File
		if mode != 7 && len(concTwins) < 96 {
			twin = deepCopyFile(f)
		}
		err = cl.Create()
		setFRB(false)
		if twin != nil && err == nil {
			concTwins = append(concTwins, twin)
			concWant = append(concWant, dumpFile(f))
		}
		rep.Evaluations++
		rep.count(fmt.Sprintf("mode:%d", mode))
		if nontrivial {
			rep.nontrivial(before)
		}
		// mode 7 runs in FRB mode (whose normalisations the mode-off build model does not apply): predicates only
		if mode != 7 {
			lines = append(lines, "buildcl\t"+today()+"\t"+before)
			dumps = append(dumps, before)
		}
		if err != nil {
			if mode != 7 {
				built = append(built, "error")
			}
			rep.count("create-rejected")
			continue
		}
		if mode != 7 {
			built = append(built, "ok # "+dumpFile(f))
		}
		rp := map[string]any{"tree_before_build": before}
		for bi, b := range cl.Bundles {
			if n, ok := atoiTrim(b.BundleHeader.BundleSequenceNumber); !ok || n != bi+1 {
				rep.violate(Violation{Key: "C07:bundle-sequence", What: fmt.Sprintf("bundle %d is numbered %q", bi+1, b.BundleHeader.BundleSequenceNumber), Replay: rp})
			}
			seen := map[int]int{}
			check := func(j int, itemSeq string, kind string, recNums []int, refSeqs []string, refKind string) {
				sup := supplied[b][j]
				got, ok := atoiTrim(itemSeq)
				if !ok {
					rep.violate(Violation{Key: "C07:item-sequence-not-numeric", What: fmt.Sprintf("item %d has sequence number %q", j+1, itemSeq), Replay: rp})
					return
				}
				if sup != "" {
					if want, _ := atoiTrim(sup); want != got {
						rep.violate(Violation{Key: "C07:supplied-sequence-changed:" + kind, What: fmt.Sprintf("caller supplied item sequence number %q, built value is %q", sup, itemSeq), Replay: rp})
					}
				}
				seen[got]++
				for x, rn := range recNums {
					if rn != x+1 {
						rep.violate(Violation{Key: "C07:record-number:" + refKind, What: fmt.Sprintf("%s record numbers of item %d are %v, expected 1,2,3,...", refKind, j+1, recNums), Replay: rp})
						break
					}
				}
				for _, rs := range refSeqs {
					if v, ok := atoiTrim(rs); !ok || v != got {
						rep.violate(Violation{Key: "C07:addendum-item-sequence:" + refKind, What: fmt.Sprintf("addendum of item %d carries item sequence number %q, its item has %q", j+1, rs, itemSeq), Replay: rp})
						break
					}
				}
			}
			for j, cd := range b.Checks {
				var ra, rc []int
				var sa, sc []string
				for _, a := range cd.CheckDetailAddendumA {
					ra = append(ra, a.RecordNumber)
					sa = append(sa, a.BOFDItemSequenceNumber)
				}
				for _, c := range cd.CheckDetailAddendumC {
					rc = append(rc, c.RecordNumber)
					sc = append(sc, c.EndorsingBankItemSequenceNumber)
				}
				check(j, cd.EceInstitutionItemSequenceNumber, "check", ra, sa, "CheckDetailAddendumA")
				seen[mustAtoi(cd.EceInstitutionItemSequenceNumber)]--
				check(j, cd.EceInstitutionItemSequenceNumber, "check", rc, sc, "CheckDetailAddendumC")
			}
			for j, rd := range b.Returns {
				var ra, rdn []int
				var sa, sd []string
				for _, a := range rd.ReturnDetailAddendumA {
					ra = append(ra, a.RecordNumber)
					sa = append(sa, a.BOFDItemSequenceNumber)
				}
				for _, d := range rd.ReturnDetailAddendumD {
					rdn = append(rdn, d.RecordNumber)
					sd = append(sd, d.EndorsingBankItemSequenceNumber)
				}
				check(j, rd.EceInstitutionItemSequenceNumber, "return", ra, sa, "ReturnDetailAddendumA")
				seen[mustAtoi(rd.EceInstitutionItemSequenceNumber)]--
				check(j, rd.EceInstitutionItemSequenceNumber, "return", rdn, sd, "ReturnDetailAddendumD")
			}
			// filled-in numbers unique within the bundle
			items := len(b.Checks) + len(b.Returns)
			for j := 0; j < items; j++ {
				if supplied[b][j] != "" {
					continue
				}
				var seq string
				if j < len(b.Checks) {
					seq = b.Checks[j].EceInstitutionItemSequenceNumber
				} else {
					seq = b.Returns[j-len(b.Checks)].EceInstitutionItemSequenceNumber
				}
				if v, ok := atoiTrim(seq); ok && seen[v] > 1 {
					rep.violate(Violation{Key: "C07:filled-sequence-not-unique", What: fmt.Sprintf("item %d of bundle %d had no sequence number and was given %d, which another item of the bundle also carries (supplied: %v)", j+1, bi+1, v, supplied[b]), Replay: rp})
				}
			}
		}
		// building the already built cash letter again keeps every number (the first build stores them
		// zero-filled)
		firstSeqs := itemSeqs(cl)
		if err2 := cl.Create(); err2 != nil {
			rep.violate(Violation{Key: "C07:second-build-fails", What: "building a built cash letter again fails: " + err2.Error(), Replay: rp})
		} else if again := itemSeqs(cl); again != firstSeqs {
			rep.violate(Violation{Key: "C07:second-build-renumbers", What: "building a built cash letter again changes item sequence numbers: " + firstSeqs + " -> " + again, Replay: rp})
		}
		if i%97 == 0 {
			rep.sample(map[string]any{"mode": mode, "census": census(before), "supplied": fmt.Sprint(supplied[cl.Bundles[0]])})
		}
	}
	// the concurrent stage
	{
		type res struct {
			dump string
			err  error
		}
		out := make([]res, len(concTwins))
		var wg sync.WaitGroup
		sem := make(chan struct{}, 8)
		for round := 0; round < 1; round++ {
			for i := range concTwins {
				wg.Add(1)
				sem <- struct{}{}
				go func(i int) {
					defer wg.Done()
					defer func() { <-sem }()
					defer func() {
						if p := recover(); p != nil {
							out[i].err = fmt.Errorf("panic: %v", p)
						}
					}()
					out[i].err = concTwins[i].CashLetters[0].Create()
					out[i].dump = dumpFile(concTwins[i])
				}(i)
			}
		}
		wg.Wait()
		for i := range concTwins {
			rep.Evaluations++
			rep.count("concurrent-build")
			if out[i].err != nil || out[i].dump != concWant[i] {
				what := "a cash letter built while other, unrelated cash letters are being built differs from the same cash letter built alone"
				if out[i].err != nil {
					what += ": " + out[i].err.Error()
				} else {
					what += " (first difference: " + firstDiffTok(concWant[i], out[i].dump) + ")"
				}
				rep.violate(Violation{Key: "C07:concurrent-build-differs", What: what, Replay: map[string]any{"built_alone": concWant[i], "built_concurrently": out[i].dump, "concurrent_builds": len(concTwins)}})
				break
			}
		}
	}
	got, err := leanParallel(cfg.driver, lines, 16)
	if err != nil {
		fatal("driver: %v", err)
	}
	for i := range lines {
		rep.CorrOps++
		if got[i] != built[i] {
			rep.CorrDisagree++
			rep.violate(Violation{Key: "C07:corr:build", What: "model build and CashLetter.Create disagree",
				Replay: map[string]any{"tree": dumps[i], "implementation": diffTok(built[i], got[i]), "model": diffTok(got[i], built[i])}, NoInput: true})
		}
	}
	return rep
}

// itemSeqs lists the item sequence numbers of a cash letter in order
func itemSeqs(cl *icl.CashLetter) string {
	var out []string
	for _, b := range cl.Bundles {
		for _, cd := range b.Checks {
			out = append(out, cd.EceInstitutionItemSequenceNumber)
		}
		for _, rd := range b.Returns {
			out = append(out, rd.EceInstitutionItemSequenceNumber)
		}
		out = append(out, "|")
	}
	return strings.Join(out, ",")
}

func mustAtoi(s string) int { n, _ := atoiTrim(s); return n }
