package main

import (
	"bytes"
	"encoding/base64"
	"fmt"

	"github.com/gdamore/encoding"
	icl "github.com/moov-io/imagecashletter"
)

// stripPrefixes splits a length-prefixed rendering; ok=false when a prefix does not match the bytes
// that follow it.
func stripPrefixes(b []byte) (recs [][]byte, ok bool) {
	for p := 0; p < len(b); {
		if p+4 > len(b) {
			return recs, false
		}
		n := int(b[p])<<24 | int(b[p+1])<<16 | int(b[p+2])<<8 | int(b[p+3])
		if p+4+n > len(b) {
			return recs, false
		}
		recs = append(recs, b[p+4:p+4+n])
		p += 4 + n
	}
	return recs, true
}

// imageSpan: offset and length of the image bytes inside a rendered record 52 (ASCII form)
func imageSpan(rec []byte) (int, int) {
	if len(rec) < 117 || string(rec[:2]) != "52" {
		return 0, 0
	}
	atoi := func(b []byte) int {
		n := 0
		for _, c := range bytes.TrimSpace(b) {
			if c < '0' || c > '9' {
				return 0
			}
			n = n*10 + int(c-'0')
		}
		return n
	}
	k := atoi(rec[101:105])
	if 110+k > len(rec) {
		return 0, 0
	}
	s := atoi(rec[105+k : 110+k])
	if 117+k+s > len(rec) {
		return 0, 0
	}
	return 117 + k + s, len(rec) - (117 + k + s)
}

// firstViews: the image view data records of the first item of a bundle (shared backing array: edits land in the file)
func firstViews(b *icl.Bundle) []icl.ImageViewData {
	if len(b.Checks) > 0 {
		return b.Checks[0].ImageViewData
	}
	if len(b.Returns) > 0 {
		return b.Returns[0].ImageViewData
	}
	return nil
}

func runC08(cfg *config) *Report {
	rep := newReport("C08", cfg.tier, cfg.seed)
	r := newRng(cfg.seed + 8000)
	rep.Rule = "generated valid files (text values; plus files whose image data is base64 text, whose image length field disagrees with the data, and whose signature holds bytes >= 0x80) rendered by the real Writer in the four option combinations; relations checked on the bytes: prefixes exact, prefix-stripped records = newline records, EBCDIC = CP037 transliteration of ASCII except image bytes, all four read back to the same file; model writer compared on the same trees; non-trivial = file differs from earlier ones; distinct by ASCII rendering"
	n := 40
	if cfg.tier == "thorough" {
		n = 800
	}
	var files []*icl.File
	var notes []string
	for i := 0; i < n; i++ {
		o8 := genOpts{maxCL: 2, maxBundles: 2, maxItems: 3, mutateP: 60, sig7: i%4 == 2}
		if i%8 == 3 {
			o8.kind = 1 // forward items: the binary-signature case below needs one with an image view
		}
		f, err := genFile(r, o8)
		if err != nil {
			continue
		}
		if i%8 == 3 {
			for _, cl := range f.CashLetters {
				for _, b := range cl.Bundles {
					for _, cd := range b.Checks {
						if len(cd.ImageViewData) == 0 {
							cd.AddImageViewDetail(baseImageViewDetail())
							cd.AddImageViewData(mkIVData(r, genOpts{}))
							cd.AddImageViewAnalysis(baseImageViewAnalysis())
						}
					}
				}
			}
			rebuilt := true
			for ci := range f.CashLetters {
				if f.CashLetters[ci].Create() != nil {
					rebuilt = false
				}
			}
			if !rebuilt || f.Create() != nil {
				continue
			}
		}
		note := "text"
		if i%4 == 2 {
			note = "seven-bit-signature"
		}
		if i%8 == 4 {
			// records 27 / 34 shorter than 80 bytes (image reference key shorter than 34 characters)
			for _, cl := range f.CashLetters {
				for _, b := range cl.Bundles {
					for _, cd := range b.Checks {
						if len(cd.CheckDetailAddendumB) == 0 {
							ab := baseCheckDetailAddendumB()
							cd.AddCheckDetailAddendumB(ab)
							cd.AddendumCount++
						}
						for j := range cd.CheckDetailAddendumB {
							key := r.asciiStr(r.Intn(30), alnumChars)
							cd.CheckDetailAddendumB[j].ImageReferenceKey = key
							cd.CheckDetailAddendumB[j].LengthImageReferenceKey = fmt.Sprintf("%04d", len(key))
							note = "short-record"
						}
					}
					for _, rd := range b.Returns {
						for j := range rd.ReturnDetailAddendumC {
							key := r.asciiStr(r.Intn(30), alnumChars)
							rd.ReturnDetailAddendumC[j].ImageReferenceKey = key
							rd.ReturnDetailAddendumC[j].LengthImageReferenceKey = fmt.Sprintf("%04d", len(key))
							note = "short-record"
						}
					}
				}
			}
		}
		switch i % 4 {
		case 0: // image bytes that are punctuation in ASCII and special in the EBCDIC code pages (underscore, brackets, caret)
			for _, cl := range f.CashLetters {
				for _, b := range cl.Bundles {
					for _, its := range [][]icl.ImageViewData{firstViews(b)} {
						for j := range its {
							its[j].ImageData = append(append([]byte{}, its[j].ImageData...), []byte("_[^]_")...)
							its[j].LengthImageData = fmt.Sprintf("%07d", len(its[j].ImageData))
							note = "punctuation-image"
						}
					}
				}
			}
		case 1: // image supplied as base64 text
			for _, cl := range f.CashLetters {
				for _, b := range cl.Bundles {
					for _, cd := range b.Checks {
						for j := range cd.ImageViewData {
							raw := []byte(r.asciiStr(1+r.Intn(30), alnumChars))
							enc := base64.StdEncoding.EncodeToString(raw)
							cd.ImageViewData[j].ImageData = []byte(enc)
							cd.ImageViewData[j].LengthImageData = fmt.Sprintf("%07d", len(raw))
							note = "base64-image"
						}
					}
				}
			}
		case 2: // image data shorter / longer than its length field
			for _, cl := range f.CashLetters {
				for _, b := range cl.Bundles {
					for _, cd := range b.Checks {
						for j := range cd.ImageViewData {
							cd.ImageViewData[j].LengthImageData = fmt.Sprintf("%07d", len(cd.ImageViewData[j].ImageData)+r.Intn(5)-2)
							note = "image-length-differs"
						}
					}
				}
			}
		case 3: // signature with bytes >= 0x80 (recorded finding under EBCDIC)
			if i%8 == 3 {
				for _, cl := range f.CashLetters {
					for _, b := range cl.Bundles {
						for _, cd := range b.Checks {
							for j := range cd.ImageViewData {
								cd.ImageViewData[j].DigitalSignature = []byte{'S', 0x80, 0xfe, 0xc3, 'Z'}
								cd.ImageViewData[j].LengthDigitalSignature = "00005"
								note = "binary-signature"
							}
						}
					}
				}
			}
		}
		files = append(files, f)
		notes = append(notes, note)
	}
	cases := roundTrips(cfg, rep, files, notes, allEnc, "C08")
	byFile := map[*icl.File]map[encCfg]*rtCase{}
	for i := range cases {
		c := &cases[i]
		if byFile[c.f] == nil {
			byFile[c.f] = map[encCfg]*rtCase{}
		}
		byFile[c.f][c.enc] = c
	}
	for _, f := range files {
		m := byFile[f]
		if len(m) != 4 {
			continue
		}
		nlA, lpA, nlE, lpE := m[encCfg{false, false}], m[encCfg{true, false}], m[encCfg{false, true}], m[encCfg{true, true}]
		// a long-lived Writer: it writes the file, ANOTHER Writer (other options, other destination) is created, the first
		// writes the file again - each destination receives exactly the renderings of its own Writer
		wopts := func(e encCfg) []icl.WriterOption {
			var o []icl.WriterOption
			if e.LP {
				o = append(o, icl.WriteVariableLineLengthOption())
			}
			if e.EBCDIC {
				o = append(o, icl.WriteEbcdicEncodingOption())
			}
			return o
		}
		for _, pair := range [][2]encCfg{{{false, false}, {true, true}}, {{true, false}, {false, true}}} {
			a, b := m[pair[0]], m[pair[1]]
			if len(a.out) == 0 || len(b.out) == 0 {
				continue
			}
			var d1, d2 bytes.Buffer
			w1 := icl.NewWriter(&d1, wopts(pair[0])...)
			if w1.Write(f) != nil {
				continue
			}
			w2 := icl.NewWriter(&d2, wopts(pair[1])...)
			e1 := w1.Write(f)
			w1.Flush()
			rep.count("long-lived-writer")
			if e1 == nil && (!bytes.Equal(d1.Bytes(), append(append([]byte{}, a.out...), a.out...)) || d2.Len() != 0) {
				rep.violate(Violation{Key: "C08:long-lived-writer:" + pair[0].String(), What: fmt.Sprintf("a Writer used for a second Write after another Writer was created: its destination holds %d bytes (two renderings are %d), the other Writer's destination holds %d bytes before that Writer wrote anything", d1.Len(), 2*len(a.out), d2.Len()),
					Replay: map[string]any{"tree": dumpFile(f), "first_writer": pair[0].String(), "second_writer": pair[1].String()}})
				continue
			}
			if w2.Write(f) == nil && !bytes.Equal(d2.Bytes(), b.out) {
				rep.violate(Violation{Key: "C08:long-lived-writer:" + pair[1].String(), What: "a Writer created while another one was in use does not emit the rendering of its own options",
					Replay: map[string]any{"tree": dumpFile(f), "first_writer": pair[0].String(), "second_writer": pair[1].String()}})
			}
		}
		rep.Evaluations++
		rep.count("note:" + nlA.note)
		rep.nontrivial(string(nlA.out))
		if rep.Evaluations%17 == 1 {
			rep.sample(map[string]any{"note": nlA.note, "census": census(nlA.dump), "bytes_nl_ascii": len(nlA.out), "bytes_lp_ebcdic": len(lpE.out)})
		}
		if nlA.werr != nil || lpA.werr != nil || nlE.werr != nil || lpE.werr != nil {
			rep.count("writer-error")
			continue
		}
		rp := map[string]any{"tree": nlA.dump, "note": nlA.note}
		// (b) prefixes exact
		recsA, okA := stripPrefixes(lpA.out)
		recsE, okE := stripPrefixes(lpE.out)
		if !okA {
			rep.violate(Violation{Key: "C08:prefix-mismatch:lp+ascii:" + nlA.note, What: "a length prefix does not equal the number of bytes written for its record (ASCII)", Replay: rp})
		}
		if !okE {
			rep.violate(Violation{Key: "C08:prefix-mismatch:lp+ebcdic:" + nlA.note, What: "a length prefix does not equal the number of bytes written for its record (EBCDIC)", Replay: rp})
		}
		// (a) stripping prefixes gives the newline records (skipped when a record contains a line feed)
		if okA && !bytes.Contains(bytes.Join(recsA, nil), []byte("\n")) {
			nl := bytes.Split(bytes.TrimSuffix(nlA.out, []byte("\n")), []byte("\n"))
			if len(nl) != len(recsA) {
				rep.violate(Violation{Key: "C08:framing-changes-content:ascii:" + nlA.note, What: "prefix-stripped records differ from the newline-delimited records", Replay: rp})
			} else {
				for i := range nl {
					if !bytes.Equal(nl[i], recsA[i]) {
						rep.violate(Violation{Key: "C08:framing-changes-content:ascii:" + nlA.note, What: fmt.Sprintf("record %d differs between length-prefixed and newline rendering", i+1), Replay: rp})
						break
					}
				}
			}
		}
		// (c) EBCDIC = transliteration of ASCII except image bytes
		if okA && okE {
			if len(recsA) != len(recsE) {
				rep.violate(Violation{Key: "C08:translit:record-count:" + nlA.note, What: "EBCDIC rendering has a different number of records", Replay: rp})
			} else {
				for i := range recsA {
					off, ln := imageSpan(recsA[i])
					text := recsA[i]
					var img []byte
					if ln > 0 {
						text, img = recsA[i][:off], recsA[i][off:]
					}
					want, err := encoding.EBCDIC.NewEncoder().Bytes(text)
					if err != nil {
						continue
					}
					want = append(want, img...)
					if !bytes.Equal(want, recsE[i]) {
						rep.violate(Violation{Key: "C08:translit:" + string(recsA[i][:2]) + ":" + nlA.note,
							What:   fmt.Sprintf("EBCDIC record %d is not the CP037 transliteration of the ASCII record with the image bytes passed through", i+1),
							Replay: map[string]any{"tree": nlA.dump, "note": nlA.note, "ascii_record": hx(recsA[i]), "ebcdic_record": hx(recsE[i]), "expected": hx(want)}})
						break
					}
				}
			}
		}
		// (d) all four decode to the same file
		ref := ""
		lfInside := !okA || bytes.Contains(bytes.Join(recsA, nil), []byte("\n")) || (okE && bytes.Contains(bytes.Join(recsE, nil), []byte("\n")))
		for _, c := range []*rtCase{nlA, lpA, nlE, lpE} {
			if lfInside && !c.enc.LP {
				continue // newline framing cannot carry records containing a line feed
			}
			d := c.rerr + " # " + exportedOnly(c.rd)
			if ref == "" {
				ref = d
			} else if d != ref {
				rep.violate(Violation{Key: "C08:decode-differs:" + c.enc.String() + ":" + nlA.note, What: "the four renderings do not decode to the same file",
					Replay: map[string]any{"tree": nlA.dump, "note": nlA.note, "enc": c.enc.String(), "reference": ref[:min(200, len(ref))], "this": d[:min(200, len(d))]}})
			}
		}
		// (e) the same with the FRB compatibility mode switched on in the reading process (text files and files whose
		// images hold punctuation bytes): the four renderings still decode to one file
		if nlA.note == "text" || nlA.note == "punctuation-image" {
			refOn := ""
			for _, c := range []*rtCase{nlA, lpA, nlE, lpE} {
				if lfInside && !c.enc.LP {
					continue
				}
				setFRB(true)
				g, rerr, _ := realRead(c.out, c.enc, 1<<22)
				setFRB(false)
				d := canonErr(rerr) + " # " + exportedOnly(dumpFile(&g))
				if refOn == "" {
					refOn = d
				} else if d != refOn {
					rep.violate(Violation{Key: "C08:decode-differs-frb-mode:" + c.enc.String() + ":" + nlA.note, What: "with FRB_COMPATIBILITY_MODE=true the four renderings do not decode to the same file",
						Replay: map[string]any{"tree": nlA.dump, "note": nlA.note, "enc": c.enc.String(), "reference": refOn[:min(200, len(refOn))], "this": d[:min(200, len(d))]}})
				}
			}
		}
	}
	return rep
}
