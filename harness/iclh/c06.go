package main

import (
	"encoding/binary"
	"bytes"
	"fmt"

	icl "github.com/moov-io/imagecashletter"
)

// independent recount, written from the field documentation of the three control records
type recount struct {
	items, amount, images, micrValid int
}

func recountBundle(b *icl.Bundle) recount {
	var r recount
	for _, cd := range b.Checks {
		r.items++
		r.amount += cd.ItemAmount
		r.images += len(cd.ImageViewDetail)
		if cd.MICRValidIndicator == 1 {
			r.micrValid += cd.ItemAmount
		}
	}
	for _, rd := range b.Returns {
		r.items++
		r.amount += rd.ItemAmount
		r.images += len(rd.ImageViewDetail)
	}
	return r
}

// verifyControls compares every control record of a built file with an independent recount and the
// file control's record count with what the real Writer emits.
func verifyControls(f *icl.File, rep *Report, rp map[string]any, phase string) {
	total := 2
	fItems, fAmount := 0, 0
	hasCI := false
	for ci := range f.CashLetters {
		cl := &f.CashLetters[ci]
		total += 2 + len(cl.CreditItems) + len(cl.Credits) + len(cl.RoutingNumberSummary)
		clItems, clAmount, clImages := 0, 0, 0
		if len(cl.CreditItems) > 0 {
			hasCI = true
			rep.count(phase + "with-credit-items")
		}
		if len(cl.Credits) > 0 {
			rep.count(phase + "with-credits")
		}
		if len(cl.RoutingNumberSummary) > 0 {
			rep.count(phase + "with-rns")
		}
		for bi, b := range cl.Bundles {
			total += 2
			rc := recountBundle(b)
			for _, cd := range b.Checks {
				total += 1 + len(cd.CheckDetailAddendumA) + len(cd.CheckDetailAddendumB) + len(cd.CheckDetailAddendumC) + len(cd.ImageViewDetail) + len(cd.ImageViewData) + len(cd.ImageViewAnalysis)
			}
			for _, rd := range b.Returns {
				total += 1 + len(rd.ReturnDetailAddendumA) + len(rd.ReturnDetailAddendumB) + len(rd.ReturnDetailAddendumC) + len(rd.ReturnDetailAddendumD) + len(rd.ImageViewDetail) + len(rd.ImageViewData) + len(rd.ImageViewAnalysis)
			}
			bc := b.BundleControl
			if bc.BundleItemsCount != rc.items || bc.BundleTotalAmount != rc.amount || bc.BundleImagesCount != rc.images || bc.MICRValidTotalAmount != rc.micrValid {
				rep.violate(Violation{Key: "C06:bundle-control" + phase, What: fmt.Sprintf("bundle control %d/%d disagrees with a recount: have items=%d amount=%d images=%d micr=%d, recount %+v", ci+1, bi+1, bc.BundleItemsCount, bc.BundleTotalAmount, bc.BundleImagesCount, bc.MICRValidTotalAmount, rc), Replay: rp})
			}
			clItems += rc.items
			clAmount += rc.amount
			clImages += rc.images
		}
		cc := cl.CashLetterControl
		wantItems := clItems
		if cc.CreditTotalIndicator == 1 {
			wantItems += len(cl.CreditItems)
		}
		if cc.CashLetterBundleCount != len(cl.Bundles) || cc.CashLetterItemsCount != wantItems || cc.CashLetterTotalAmount != clAmount || cc.CashLetterImagesCount != clImages {
			rep.violate(Violation{Key: "C06:cash-letter-control" + phase, What: fmt.Sprintf("cash letter control %d disagrees with a recount: have bundles=%d items=%d amount=%d images=%d; recount bundles=%d items=%d amount=%d images=%d (credit indicator %d)", ci+1, cc.CashLetterBundleCount, cc.CashLetterItemsCount, cc.CashLetterTotalAmount, cc.CashLetterImagesCount, len(cl.Bundles), wantItems, clAmount, clImages, cc.CreditTotalIndicator), Replay: rp})
		}
		fItems += clItems
		fAmount += clAmount
	}
	fc := f.Control
	_ = hasCI
	if fc.CashLetterCount != len(f.CashLetters) || fc.TotalItemCount != fItems || fc.FileTotalAmount != fAmount {
		rep.violate(Violation{Key: "C06:file-control" + phase, What: fmt.Sprintf("file control disagrees with a recount: have cashLetters=%d items=%d amount=%d; recount %d %d %d", fc.CashLetterCount, fc.TotalItemCount, fc.FileTotalAmount, len(f.CashLetters), fItems, fAmount), Replay: rp})
	}
	// the count the writer emits: newline framing (count the newlines) and length-prefixed framing (walk the prefixes),
	// in the default mode and with the FRB compatibility mode switched on in the process
	for _, frb := range []bool{false, true} {
		for _, e := range []encCfg{{}, {LP: true}} {
			setFRB(frb)
			out, werr, _ := realWrite(f, e)
			setFRB(false)
			if werr != nil {
				continue
			}
			written := 0
			if e.LP {
				for pos := 0; pos+4 <= len(out); written++ {
					pos += 4 + int(binary.BigEndian.Uint32(out[pos : pos+4]))
				}
			} else {
				written = bytes.Count(out, []byte("\n"))
			}
			if fc.TotalRecordCount != written {
				kinds := ""
				if fc.TotalRecordCount != total {
					kinds = fmt.Sprintf(" (independent count %d)", total)
				}
				mode := ""
				if frb {
					mode = " with FRB_COMPATIBILITY_MODE=true"
				}
				rep.violate(Violation{Key: "C06:total-record-count" + phase, What: fmt.Sprintf("FileControl.TotalRecordCount = %d but the writer (%s%s) emits %d records%s", fc.TotalRecordCount, e, mode, written, kinds), Replay: rp})
				return
			}
		}
	}
}

func runC06(cfg *config) *Report {
	rep := newReport("C06", cfg.tier, cfg.seed)
	r := newRng(cfg.seed + 6000)
	rep.Rule = "generated files of random shape (forward and return cash letters, 1-3 bundles, items with any addenda / image views, with and without credits (61), credit items (62) and routing number summaries (85), random amounts and MICR-valid indicators), every cash letter and then the file built with the real Create(); every control field compared with an independent recount and TotalRecordCount with the number of records the real Writer emits; the Lean build model is run on the same trees; non-trivial = file differs from earlier ones; distinct by tree dump"
	n := 150
	if cfg.tier == "thorough" {
		n = 4000
	}
	var lines []string
	var dumps []string
	var built []string
	for i := 0; i < n; i++ {
		// every fifth file also carries bundles in the file's own Bundles member (JSON "bundle"): no cash letter holds
		// them and the Writer never emits them, so no control record may count them
		f, err := genFile(r, genOpts{maxCL: 3, maxBundles: 3, maxItems: 4, mutateP: 20, fileBundles: i%5 == 2, alphaSeq: i%4 == 3})
		if err != nil {
			rep.count("gen-rejected")
			continue
		}
		if len(f.Bundles) > 0 {
			rep.count("with-file-level-bundles")
		}
		if i%4 == 1 && len(f.CashLetters) >= 2 {
			// ONE cash letter variable reused for every cash letter of a new file, the way a loop over deposits does: give it
			// the next header and bundles, Create it, hand a copy to AddCashLetter - the copies already in the file must keep
			// the totals they were built with
			g := icl.NewFile()
			g.SetHeader(f.Header)
			var cl icl.CashLetter
			reused := true
			for ci := range f.CashLetters {
				src := f.CashLetters[ci]
				cl.CashLetterHeader = src.CashLetterHeader
				cl.Bundles = src.Bundles
				cl.Credits, cl.CreditItems, cl.RoutingNumberSummary = src.Credits, src.CreditItems, src.RoutingNumberSummary
				if cl.Create() != nil {
					reused = false
					break
				}
				g.AddCashLetter(cl)
			}
			if reused && g.Create() == nil {
				rep.Evaluations++
				rep.count("one-cash-letter-variable-reused")
				verifyControls(g, rep, map[string]any{"tree": dumpFile(g), "how": "one CashLetter variable given each cash letter's content in turn, Create, AddCashLetter(copy)"}, ":reused-variable")
			}
		}
		if i%7 == 3 {
			// every record type indicator a cash letter with items may carry (E: electronic data only, I: with images, F:
			// with image views to follow): the totals are counted from the items whatever the header says about them
			code := []string{"E", "I", "F"}[(i/7)%3]
			rebuilt := true
			for ci := range f.CashLetters {
				if h := f.CashLetters[ci].CashLetterHeader; h != nil && len(f.CashLetters[ci].Bundles) > 0 {
					h.RecordTypeIndicator = code
				}
				if f.CashLetters[ci].Create() != nil {
					rebuilt = false
				}
			}
			if !rebuilt || f.Create() != nil {
				rep.count("record-type-indicator-refused:" + code)
				continue
			}
			rep.count("record-type-indicator:" + code)
		}
		rep.Evaluations++
		d := dumpFile(f)
		rep.nontrivial(d)
		rp := map[string]any{"tree": d}
		verifyControls(f, rep, rp, "")
		fc := f.Control
		if i%131 == 0 {
			rep.sample(map[string]any{"census": census(d), "fileControl": fmt.Sprintf("%+v", fc.String())})
		}
		lines = append(lines, "build\t"+today()+"\t"+d)
		dumps = append(dumps, d)
		// rebuild from the same content: the controls must come out the same
		ok := true
		for ci := range f.CashLetters {
			if err := f.CashLetters[ci].Create(); err != nil {
				ok = false
			}
		}
		if err := f.Create(); err != nil {
			ok = false
		}
		if ok {
			built = append(built, "ok # "+dumpFile(f))
		} else {
			built = append(built, "error")
		}
		// perturb the built file - content changes that keep, and that change, counts and amounts; stale
		// values planted in the control records; a bundle given both kinds of items - and build again
		g := deepCopyFile(f)
		what := perturbBuilt(r, g)
		rep.count("perturb:" + what)
		perr := error(nil)
		for ci := range g.CashLetters {
			if err := g.CashLetters[ci].Create(); err != nil {
				perr = err
			}
		}
		if perr == nil {
			perr = g.Create()
		}
		if perr == nil {
			rep.Evaluations++
			rep.nontrivial(dumpFile(g))
			verifyControls(g, rep, map[string]any{"tree_before": d, "perturbation": what, "tree": dumpFile(g)}, ":after-rebuild")
		} else {
			rep.count("perturbed-rejected")
		}
	}
	got, err := leanParallel(cfg.driver, lines, 16)
	if err != nil {
		fatal("driver: %v", err)
	}
	for i := range lines {
		rep.CorrOps++
		if got[i] != built[i] {
			rep.CorrDisagree++
			rep.violate(Violation{Key: "C06:corr:build", What: "model build and CashLetter.Create/File.Create disagree",
				Replay: map[string]any{"tree": dumps[i], "implementation": diffTok(built[i], got[i]), "model": diffTok(got[i], built[i])}, NoInput: true})
		}
	}
	return rep
}

// perturbBuilt edits a built file in place and says what it did.
func perturbBuilt(r rng, g *icl.File) string {
	cl := &g.CashLetters[r.Intn(len(g.CashLetters))]
	b := cl.Bundles[r.Intn(len(cl.Bundles))]
	switch r.Intn(7) {
	case 0: // MICR-valid indicator flipped: count and amount unchanged
		if len(b.Checks) > 0 {
			cd := b.Checks[r.Intn(len(b.Checks))]
			if cd.MICRValidIndicator == 1 {
				cd.MICRValidIndicator = 2
			} else {
				cd.MICRValidIndicator = 1
			}
			return "micr-valid-indicator-flipped"
		}
		fallthrough
	case 1: // one more image view on an item: count and amount unchanged
		if len(b.Checks) > 0 {
			cd := b.Checks[r.Intn(len(b.Checks))]
			cd.AddImageViewDetail(baseImageViewDetail())
			cd.AddImageViewData(mkIVData(r, genOpts{}))
			cd.AddImageViewAnalysis(baseImageViewAnalysis())
			return "image-view-added"
		}
		rd := b.Returns[r.Intn(len(b.Returns))]
		rd.AddImageViewDetail(baseImageViewDetail())
		rd.AddImageViewData(mkIVData(r, genOpts{}))
		rd.AddImageViewAnalysis(baseImageViewAnalysis())
		return "image-view-added"
	case 2: // amounts moved between two items: total unchanged
		if len(b.Checks) > 1 {
			b.Checks[0].ItemAmount += 7
			b.Checks[1].ItemAmount -= 7
			if b.Checks[1].ItemAmount < 1 {
				b.Checks[1].ItemAmount = 1
			}
			return "amount-moved"
		}
		fallthrough
	case 3: // stale values planted in the control records
		if b.BundleControl != nil {
			b.BundleControl.MICRValidTotalAmount += 13
			b.BundleControl.BundleImagesCount += 2
		}
		if cl.CashLetterControl != nil {
			cl.CashLetterControl.CashLetterImagesCount += 5
			cl.CashLetterControl.CashLetterItemsCount += 1
		}
		g.Control.TotalRecordCount += 3
		g.Control.FileTotalAmount += 1
		return "stale-controls"
	case 4: // an item removed (keeps at least one)
		if len(b.Checks) > 1 {
			b.Checks = b.Checks[:len(b.Checks)-1]
			return "item-removed"
		}
		if len(b.Returns) > 1 {
			b.Returns = b.Returns[:len(b.Returns)-1]
			return "item-removed"
		}
		fallthrough
	case 5: // both kinds of items in one bundle
		if len(b.Checks) > 0 {
			b.AddReturnDetail(genReturn(r, genOpts{}))
		} else {
			b.AddCheckDetail(genCheck(r, genOpts{}))
		}
		return "mixed-bundle"
	default: // an amount changed
		if len(b.Checks) > 0 {
			b.Checks[0].ItemAmount += 1000
		} else {
			b.Returns[0].ItemAmount += 1000
		}
		return "amount-changed"
	}
}

// diffTok: first token of a that differs from b (for readable replays)
func diffTok(a, b string) string {
	x, y := splitToks(a), splitToks(b)
	for i := 0; i < len(x); i++ {
		if i >= len(y) || x[i] != y[i] {
			return fmt.Sprintf("token %d: %s", i, x[i])
		}
	}
	return "(prefix)"
}

func splitToks(s string) []string {
	var out []string
	cur := ""
	for _, c := range s {
		if c == '~' {
			out = append(out, cur)
			cur = ""
		} else {
			cur += string(c)
		}
	}
	return append(out, cur)
}

var _ = icl.NewFile
