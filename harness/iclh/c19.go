package main

import (
	"strings"
	"bytes"
	"fmt"
	"runtime"

	icl "github.com/moov-io/imagecashletter"
)

func runC19(cfg *config) *Report {
	rep := newReport("C19", cfg.tier, cfg.seed)
	r := newRng(cfg.seed + 19000)
	rep.Rule = "generated valid files in the four encodings, and for each of them every text column of every record overwritten in turn with each printable ASCII character (ASCII files) / each byte 0x40-0xFF (EBCDIC files) (quick tier: a seeded 1/40 sample of the columns, 1/4 for addendum A records), and every fixed field of the first record of each type made all blank / all zero; each input read by the real Reader with FRB_COMPATIBILITY_MODE unset and =true; judged when the mode-off read succeeds: the mode-on read must succeed with an equal file; non-trivial = mode-off read succeeded; distinct by input bytes"
	nFiles := 2
	if cfg.tier == "thorough" {
		nFiles = 5
	}
	type kase struct {
		in   []byte
		enc  encCfg
		desc string
	}
	var cases []kase
	now := today()
	total := 0
	flush := func() {
		var ops []string
		type res struct{ off, on string }
		results := make([]res, len(cases))
		for i, c := range cases {
			setFRB(false)
			f0, e0, p0 := realRead(c.in, c.enc, 1<<22)
			setFRB(true)
			f1, e1, p1 := realRead(c.in, c.enc, 1<<22)
			setFRB(false)
			if p0 != nil || p1 != nil {
				rep.violate(Violation{Key: "C19:reader-panic", What: fmt.Sprint("Reader panicked: ", p0, p1), Replay: map[string]any{"bytes": hx(c.in), "enc": c.enc.String()}})
			}
			results[i] = res{canonErr(e0) + " # " + dumpFile(&f0), canonErr(e1) + " # " + dumpFile(&f1)}
			ops = append(ops, fmt.Sprintf("read\t%s\t%s\t0\t%s\t%s", b01(c.enc.LP), b01(c.enc.EBCDIC), now, hx(c.in)),
				fmt.Sprintf("read\t%s\t%s\t1\t%s\t%s", b01(c.enc.LP), b01(c.enc.EBCDIC), now, hx(c.in)))
		}
		// whole-field fills are also read by the reader over the hand-written Spec tables with the mode off: what only
		// the relaxations of the mode admit must be refused when it is off
		specAt := map[int]int{}
		for i, c := range cases {
			if strings.Contains(c.desc, "filled with") {
				specAt[i] = len(ops)
				ops = append(ops, fmt.Sprintf("readSpec\t%s\t%s\t0\t%s\t%s", b01(c.enc.LP), b01(c.enc.EBCDIC), now, hx(c.in)))
			}
		}
		got, err := leanParallel(cfg.driver, ops, runtime.NumCPU())
		if err != nil {
			fatal("driver: %v", err)
		}
		for i, c := range cases {
			rep.Evaluations++
			rep.CorrOps += 2
			rep.count("enc:" + c.enc.String())
			rs := results[i]
			if rs.off != got[2*i] || rs.on != got[2*i+1] {
				rep.CorrDisagree++
				which, impl, model := "off", rs.off, got[2*i]
				if rs.off == got[2*i] {
					which, impl, model = "on", rs.on, got[2*i+1]
				}
				rep.violate(Violation{Key: "C19:corr:read:frb-" + which + ":" + c.enc.String(), What: "model reader and Reader.Read disagree",
					Replay: map[string]any{"bytes": hx(c.in), "enc": c.enc.String(), "desc": c.desc, "implementation": impl[:min(300, len(impl))], "model": model[:min(300, len(model))]}, NoInput: true})
			}
			if k, ok := specAt[i]; ok && len(rs.off) >= 2 && rs.off[:2] == "ok" && !strings.HasPrefix(got[k], "ok") {
				rep.violate(Violation{Key: "C19:lenient-with-mode-off:" + c.enc.String(), What: "with FRB compatibility mode off the reader accepts an input that the layout rules refuse (" + c.desc + ")",
					Replay: map[string]any{"bytes": hx(c.in), "enc": c.enc.String(), "desc": c.desc, "mode_off": rs.off[:min(200, len(rs.off))], "spec": got[k][:min(200, len(got[k]))]}})
			}
			if len(rs.off) >= 2 && rs.off[:2] == "ok" {
				rep.nontrivial(string(c.in))
				rep.count("accepted-with-mode-off")
				if rs.on != rs.off {
					kind := "rejected"
					if rs.on[:2] == "ok" {
						kind = "decoded-differently"
					}
					rep.violate(Violation{Key: "C19:mode-on-" + kind + ":" + c.enc.String(), What: "an input accepted with FRB compatibility mode off is " + kind + " with the mode on (" + c.desc + ")",
						Replay: map[string]any{"bytes": hx(c.in), "enc": c.enc.String(), "desc": c.desc, "mode_off": rs.off[:min(200, len(rs.off))], "mode_on": rs.on[:min(200, len(rs.on))]}})
				}
			}
			total++
			if total%4001 == 1 {
				rep.sample(map[string]any{"enc": c.enc.String(), "desc": c.desc, "mode_off": rs.off[:min(60, len(rs.off))], "mode_on": rs.on[:min(60, len(rs.on))]})
			}
		}
		cases = cases[:0]
	}
	for fi := 0; fi < nFiles; {
		f, err := genFile(r, genOpts{maxCL: 1, maxBundles: 2, maxItems: 2, mutateP: 40})
		if err != nil {
			continue
		}
		fi++
		for _, e := range allEnc {
			out, werr, _ := realWrite(f, e)
			if werr != nil {
				continue
			}
			cases = append(cases, kase{out, e, "unmodified"})
			// per-record column sweep
			var recs [][2]int // offsets of record bodies
			if e.LP {
				for p := 0; p+4 <= len(out); {
					n := int(out[p])<<24 | int(out[p+1])<<16 | int(out[p+2])<<8 | int(out[p+3])
					recs = append(recs, [2]int{p + 4, p + 4 + n})
					p += 4 + n
				}
			} else {
				p := 0
				for _, l := range bytes.Split(bytes.TrimRight(out, "\n"), []byte("\n")) {
					recs = append(recs, [2]int{p, p + len(l)})
					p += len(l) + 1
				}
			}
			seenTag := map[string]bool{}
			for _, rc := range recs {
				tag := out[rc[0] : rc[0]+2]
				if e.EBCDIC {
					tag = []byte{tag[0] - 0xC0, tag[1] - 0xC0}
				}
				L := layoutOf(tagToGo[string(tag)])
				if L == nil {
					continue
				}
				// whole-field sweep (first record of each type): every fixed field in turn all blank / all zero - the
				// values conditional members legitimately take, and the ones a lenient path may want to fill in
				if !seenTag[string(tag)] || cfg.tier == "thorough" {
					seenTag[string(tag)] = true
					// the record repeated right after itself (a credit reconciliation record sent twice, an addendum twice):
					// where both settings accept the stream, they hold the same records
					{
						lo, hi := rc[0], rc[1]
						if e.LP {
							lo -= 4
						} else if hi < len(out) {
							hi++
						}
						dup := append(append(append([]byte{}, out[:hi]...), out[lo:hi]...), out[hi:]...)
						cases = append(cases, kase{dup, e, fmt.Sprintf("record %s repeated", tag)})
					}
					fpos := 0
					for _, w := range L.Write {
						if w.Width == 0 {
							break
						}
						lo := fpos
						fpos += w.Width
						if w.Conv == "lit" || rc[0]+fpos > rc[1] {
							continue
						}
						fills := []string{" ", "0", "9"}
						if w.Width == 8 {
							// date-shaped columns: a month-first date, an impossible date
							fills = append(fills, "12312018", "20181332")
						}
						if w.Width == 9 {
							// routing-number-shaped columns: head offices of Federal Reserve Banks (the institutions the mode is named after)
							fills = append(fills, "011000015", "021001208", "061000146", "091000080", "121000374")
						}
						for _, fill := range fills {
							m := append([]byte{}, out...)
							same := true
							for q := rc[0] + lo; q < rc[0]+fpos; q++ {
								b := fill[(q-rc[0]-lo)%len(fill)]
								if e.EBCDIC {
									if b == ' ' {
										b = 0x40
									} else {
										b += 0xC0
									}
								}
								if m[q] != b {
									same = false
								}
								m[q] = b
							}
							if !same {
								cases = append(cases, kase{m, e, fmt.Sprintf("record %s field %s filled with %q", string(tag), w.Src, fill)})
							}
						}
					}
				}
				pos := 0
				for _, w := range L.Write {
					if w.Width == 0 {
						break
					}
					lo := pos
					pos += w.Width
					if w.Conv == "lit" || kindOfConv(w.Conv) != 'S' {
						continue
					}
					if cfg.tier != "thorough" && r.Intn(40) != 0 && !(string(tag) == "26" && r.Intn(4) == 0) {
						continue
					}
					var vals []byte
					if e.EBCDIC {
						for b := 0x40; b <= 0xFF; b++ {
							vals = append(vals, byte(b))
						}
					} else {
						for b := 0x20; b <= 0x7E; b++ {
							vals = append(vals, byte(b))
						}
					}
					for _, b := range vals {
						m := append([]byte{}, out...)
						if m[rc[0]+lo] == b {
							continue
						}
						m[rc[0]+lo] = b
						cases = append(cases, kase{m, e, fmt.Sprintf("record %s field %s first column = 0x%02X", string(tag), w.Src, b)})
					}
				}
				if len(cases) >= 4000 {
					flush()
				}
			}
		}
	}
	flush()
	// one record larger than any default the mode might apply to the scanner (an image of 1.2 MiB), read with a buffer
	// the caller made large enough: accepted with the mode off, it must be accepted with it on (judged on the two real
	// reads alone)
	if big, err := genFile(r, genOpts{maxCL: 1, maxBundles: 1, maxItems: 1, mutateP: 0, kind: 1}); err == nil {
		grown := false
		for _, b := range big.CashLetters[0].Bundles {
			for _, cd := range b.Checks {
				if len(cd.ImageViewData) == 0 {
					cd.AddImageViewDetail(baseImageViewDetail())
					cd.AddImageViewData(mkIVData(r, genOpts{}))
					cd.AddImageViewAnalysis(baseImageViewAnalysis())
				}
				if !grown {
					cd.ImageViewData[0].ImageData = bytes.Repeat([]byte("IMAGE-"), 200*1024)
					cd.ImageViewData[0].LengthImageData = fmt.Sprintf("%07d", len(cd.ImageViewData[0].ImageData))
					grown = true
				}
			}
		}
		if grown && big.Create() == nil {
			for _, e := range []encCfg{{true, false}, {true, true}} {
				out, werr, _ := realWrite(big, e)
				if werr != nil {
					continue
				}
				setFRB(false)
				f0, e0, _ := realRead(out, e, 1<<22)
				setFRB(true)
				f1, e1, _ := realRead(out, e, 1<<22)
				setFRB(false)
				rep.Evaluations++
				rep.count("large-record:" + e.String())
				off, on := canonErr(e0)+" # "+exportedOnly(dumpFile(&f0)), canonErr(e1)+" # "+exportedOnly(dumpFile(&f1))
				if strings.HasPrefix(off, "ok") && on != off {
					rep.violate(Violation{Key: "C19:mode-on-rejected:large-record:" + e.String(), What: "a file holding a record of 1.2 MiB, read with a 4 MiB scanner buffer, is accepted with FRB compatibility mode off and not with it on: " + on[:min(120, len(on))],
						Replay: map[string]any{"enc": e.String(), "record_bytes": 200 * 1024 * 6, "buffer": 1 << 22, "mode_on": on[:min(200, len(on))]}})
				}
			}
		}
	}
	_ = icl.NewFile
	return rep
}
