package main

import (
	"sync"
	"bytes"
	"context"
	"encoding/json"
	"fmt"
	"net/http/httptest"
	"reflect"
	"sort"
	"strings"
	"time"

	icl "github.com/moov-io/imagecashletter"
	client "github.com/moov-io/imagecashletter/client"
	"github.com/moov-io/imagecashletter/verifhooks"
)

// clientOps drives the shipped client against the real handlers: what the client submits through each of its
// mutating operations must be what the server stores, member for member of the client's own model (members the
// client model does not have or spells differently are the recorded wire findings, not judged here) - in
// particular when a later submission leaves blank a member an earlier one had set.
func clientOps(rep *Report, f *icl.File, variant int) {
	repo := verifhooks.NewInMemoryRepo()
	srv := httptest.NewServer(verifhooks.NewRouter(repo))
	defer srv.Close()
	cfg := client.NewConfiguration()
	cfg.BasePath = srv.URL
	if variant%2 == 1 {
		// a caller that tags every request of one job with the same trace ID
		cfg.AddDefaultHeader("X-Request-ID", fmt.Sprintf("job-%d", variant))
		rep.count("client-op:one-request-id-for-all-calls")
	}
	api := client.NewAPIClient(cfg).ImageCashLetterFilesApi
	ctx := context.Background()
	js, _ := json.Marshal(f)
	var create client.CreateIclFile
	if err := json.Unmarshal(js, &create); err != nil {
		rep.count("client-op:create:client-cannot-hold-document")
		return
	}
	create.ID = fmt.Sprintf("cli%d", variant)
	if variant%3 == 1 {
		// optional header members left blank by the submitter: what is stored must be blank too, not a default
		create.FileHeader.CountryCode, create.FileHeader.UserField, create.FileHeader.CompanionDocumentIndicator = "", "", ""
		create.FileHeader.ImmediateDestinationName, create.FileHeader.ImmediateOriginName, create.FileHeader.FileIDModifier = "", "", ""
		rep.count("client-op:create:blank-optional-header-members")
	}
	rep.Evaluations++
	if _, _, err := api.CreateICLFile(ctx, create, nil); err != nil {
		// the known wire findings (member names / types) can make the server refuse the client's document
		rep.count("client-op:create:refused")
		f.ID = create.ID
		if err := repo.SaveFile(f); err != nil {
			return
		}
	} else {
		rep.count("client-op:create:ok")
		// the file must be stored under the ID the client chose, and retrievable by it through the client
		if g, _ := repo.GetFile(create.ID); g == nil {
			rep.violate(Violation{Key: "C20:client-op:create:id-not-kept", What: "CreateICLFile succeeded but no file is stored under the ID the client submitted (" + create.ID + ")",
				Replay: map[string]any{"id": create.ID}})
			return
		}
		if _, _, err := api.GetICLFileByID(ctx, create.ID, nil); err != nil {
			rep.violate(Violation{Key: "C20:client-op:get:by-submitted-id", What: "GetICLFileByID with the ID submitted at creation fails: " + err.Error(), Replay: map[string]any{"id": create.ID}})
		}
		// the header the server stored is the header the client submitted, member by member
		if g, err := repo.GetFile(create.ID); err == nil && g != nil {
			var got client.IclFileHeader
			if b, err := json.Marshal(&g.Header); err == nil && json.Unmarshal(b, &got) == nil {
				want := create.FileHeader
				got.ID, want.ID = "", ""
				if !reflect.DeepEqual(got, want) {
					m := firstFieldDiff(reflect.ValueOf(want), reflect.ValueOf(got))
					rep.violate(Violation{Key: "C20:client-op:create:header:" + m, What: fmt.Sprintf("CreateICLFile: the stored file header differs from the one the client submitted in %s (submitted %+v, stored %+v)", m, want, got),
						Replay: map[string]any{"submitted": want, "stored": got}})
				}
			}
		}
	}
	// several clients creating DIFFERENT files through the v2 operation at the same time: each gets its own file back
	if variant%2 == 0 {
		var wg sync.WaitGroup
		var vmu sync.Mutex
		start := make(chan struct{})
		for w := 0; w < 16; w++ {
			wg.Add(1)
			go func(w int) {
				defer wg.Done()
				mine := create
				mine.ID = ""
				mine.FileHeader.ImmediateOriginName = fmt.Sprintf("CLIENT %d", w)
				mine.FileHeader.UserField = strings.Repeat(string(rune('A'+w)), 1+w%4) // answers of different lengths
				<-start
				for k := 0; k < 30; k++ {
					got, resp, err := api.CreateICLFileV2(ctx, mine)
					vmu.Lock()
					rep.Evaluations++
					switch {
					case resp != nil && resp.StatusCode < 300 && err != nil:
						rep.violate(Violation{Key: "C20:client-op:create-v2:concurrent:response-not-decoded", What: fmt.Sprintf("of several clients calling CreateICLFileV2 at once, one was answered %d with a body the client cannot decode: %v", resp.StatusCode, err),
							Replay: map[string]any{"client": w, "status": resp.StatusCode, "error": err.Error()}})
					case err == nil && got.FileHeader.ImmediateOriginName != mine.FileHeader.ImmediateOriginName:
						rep.violate(Violation{Key: "C20:client-op:create-v2:concurrent:someone-elses-file", What: fmt.Sprintf("of several clients calling CreateICLFileV2 at once, client %d got back a file whose origin name is %q, it submitted %q", w, got.FileHeader.ImmediateOriginName, mine.FileHeader.ImmediateOriginName),
							Replay: map[string]any{"client": w, "submitted": mine.FileHeader.ImmediateOriginName, "answered": got.FileHeader.ImmediateOriginName}})
					}
					vmu.Unlock()
				}
			}(w)
		}
		close(start)
		wg.Wait()
		rep.count("client-op:create-v2:concurrent")
	}
	// the v2 create operation: whatever the server answers with a 2xx status the client must be able to decode
	{
		c2 := create
		c2.ID = ""
		rep.Evaluations++
		got, resp, err := api.CreateICLFileV2(ctx, c2)
		switch {
		case resp != nil && resp.StatusCode < 300 && err != nil:
			rep.violate(Violation{Key: "C20:client-op:create-v2:response-not-decoded", What: fmt.Sprintf("CreateICLFileV2: the server answered %d but the client returns an error: %v", resp.StatusCode, err),
				Replay: map[string]any{"status": resp.StatusCode, "content_type": resp.Header.Get("Content-Type"), "error": err.Error()}})
		case err != nil:
			rep.count("client-op:create-v2:refused")
		default:
			rep.count("client-op:create-v2:ok")
			if got.ID == "" {
				rep.violate(Violation{Key: "C20:client-op:create-v2:no-id", What: "CreateICLFileV2 succeeded but the decoded file has no ID", Replay: map[string]any{}})
			}
		}
	}
	stored := func() *icl.File {
		g, err := repo.GetFile(create.ID)
		if err != nil || g == nil {
			return nil
		}
		return g
	}
	viaClient := func(v any, out any) bool {
		b, err := json.Marshal(v)
		return err == nil && json.Unmarshal(b, out) == nil
	}
	// GetICLFiles must list the file as GetICLFileByID returns it, at every point of the history (the list is fetched
	// before the first change too, so that a listing kept from an earlier call would show)
	listAgrees := func(step string) {
		list, _, lerr := api.GetICLFiles(ctx, nil)
		one, _, oerr := api.GetICLFileByID(ctx, create.ID, nil)
		if lerr != nil || oerr != nil {
			rep.count("client-op:list:client-cannot-decode")
			return
		}
		rep.Evaluations++
		for _, e := range list {
			if e.ID != create.ID {
				continue
			}
			a, _ := json.Marshal(e)
			b, _ := json.Marshal(one)
			if !bytes.Equal(a, b) {
				m := firstFieldDiff(reflect.ValueOf(one), reflect.ValueOf(e))
				rep.violate(Violation{Key: "C20:client-op:list-differs-from-get:" + m, What: "GetICLFiles lists the file differently from what GetICLFileByID returns (" + step + "): " + m,
					Replay: map[string]any{"step": step, "listed": string(a)[:min(600, len(a))], "by_id": string(b)[:min(600, len(b))]}})
			}
			return
		}
		rep.violate(Violation{Key: "C20:client-op:list-misses-file", What: "GetICLFiles does not list the file GetICLFileByID returns (" + step + ")", Replay: map[string]any{"step": step, "id": create.ID}})
	}
	listAgrees("after create")
	// header updates: fully populated, then with the optional members blank, then populated again
	var h1 client.IclFileHeader
	if !viaClient(&f.Header, &h1) {
		return
	}
	h1.ID = ""
	h1.ImmediateDestinationName, h1.ImmediateOriginName, h1.FileIDModifier = "DESTNAME", "ORIGNAME", "A"
	h1.CountryCode, h1.UserField, h1.CompanionDocumentIndicator = "US", "USER", "1"
	h2 := h1
	h2.ImmediateDestinationName, h2.ImmediateOriginName, h2.FileIDModifier = "", "", ""
	h2.CountryCode, h2.UserField, h2.CompanionDocumentIndicator = "", "", ""
	h3 := h1
	h3.UserField, h3.ImmediateOriginName = "", "OTHER"
	for i, h := range []client.IclFileHeader{h1, h2, h3, h2, h1} {
		rep.Evaluations++
		if _, _, err := api.UpdateICLFile(ctx, create.ID, h, nil); err != nil {
			rep.count("client-op:update-header:refused")
			continue
		}
		rep.count("client-op:update-header:ok")
		listAgrees(fmt.Sprintf("after header update #%d", i+1))
		g := stored()
		var got client.IclFileHeader
		if g == nil || !viaClient(&g.Header, &got) {
			continue
		}
		got.ID = ""
		if !reflect.DeepEqual(got, h) {
			m := firstFieldDiff(reflect.ValueOf(h), reflect.ValueOf(got))
			rep.violate(Violation{Key: "C20:client-op:update-header:" + m, What: fmt.Sprintf("UpdateICLFile #%d: the stored header differs from the one the client submitted in %s (submitted %+v, stored %+v)", i+1, m, h, got),
				Replay: map[string]any{"step": i + 1, "submitted": h, "stored": got}})
		}
	}
	// add a cash letter, twice with a member changed to blank in between
	if len(f.CashLetters) > 0 {
		var c1 client.CashLetter
		if viaClient(&f.CashLetters[0], &c1) {
			for i := 0; i < 4; i++ {
				c := c1
				if i >= 2 {
					// dates submitted with a zone offset: local midnight east of UTC, an evening west of UTC (the calendar
					// day in the value's own zone is the business day)
					loc := []*time.Location{time.FixedZone("", 2*3600), time.FixedZone("", -4*3600)}[i-2]
					var cc client.CashLetter
					if !viaClient(&c1, &cc) {
						continue
					}
					n := 0
					for bi := range cc.Bundles {
						for ri := range cc.Bundles[bi].Returns {
							for ai := range cc.Bundles[bi].Returns[ri].ReturnDetailAddendumB {
								d := cc.Bundles[bi].Returns[ri].ReturnDetailAddendumB[ai].PayorBankBusinessDate
								if d.IsZero() {
									d = time.Date(2018, 10, 3, 0, 0, 0, 0, time.UTC)
								}
								hh := []int{0, 21}[i-2]
								cc.Bundles[bi].Returns[ri].ReturnDetailAddendumB[ai].PayorBankBusinessDate = time.Date(d.Year(), d.Month(), d.Day(), hh, 30*(i-2), 0, 0, loc)
								n++
							}
						}
					}
					if n == 0 {
						continue
					}
					rep.count("client-op:add-cash-letter:zoned-dates")
					c = cc
				}
				if i == 1 && c.CashLetterHeader.OriginatorContactName != "" {
					h := c.CashLetterHeader
					h.OriginatorContactName = ""
					c.CashLetterHeader = h
				}
				if i == 1 {
					// a control record that does not match its items (stored as submitted): a later validation must not
					// rewrite it
					for bi := range c.Bundles {
						bc := c.Bundles[bi].BundleControl
						bc.MicrValidTotalAmount = 0
						bc.CreditTotalIndicator = 1 - bc.CreditTotalIndicator
						c.Bundles[bi].BundleControl = bc
					}
				}
				rep.Evaluations++
				if _, err := api.AddICLToFile(ctx, create.ID, c, nil); err != nil {
					rep.count("client-op:add-cash-letter:refused")
					continue
				}
				rep.count("client-op:add-cash-letter:ok")
				g := stored()
				if g == nil || len(g.CashLetters) == 0 {
					continue
				}
				var got client.CashLetter
				if !viaClient(&g.CashLetters[len(g.CashLetters)-1], &got) {
					continue
				}
				if !reflect.DeepEqual(got, c) {
					m := firstFieldDiff(reflect.ValueOf(c), reflect.ValueOf(got))
					rep.violate(Violation{Key: "C20:client-op:add-cash-letter:" + m, What: "AddICLToFile: the stored cash letter differs from the one the client submitted in " + m,
						Replay: map[string]any{"step": i + 1, "member": m}})
				}
			}
		}
	}
	// validation through the client is a read: the stored file is what it was
	if g := stored(); g != nil {
		before, _ := json.Marshal(g)
		rep.Evaluations++
		_, _, verr := api.ValidateICLFile(ctx, create.ID, nil)
		if verr != nil {
			rep.count("client-op:validate:refused")
		} else {
			rep.count("client-op:validate:ok")
		}
		if h := stored(); h != nil {
			after, _ := json.Marshal(h)
			if string(before) != string(after) {
				rep.violate(Violation{Key: "C20:client-op:validate:stored-file-changed", What: "ValidateICLFile changed the file the server stores",
					Replay: map[string]any{"before": string(before)[:min(len(before), 3000)], "after": string(after)[:min(len(after), 3000)]}})
			}
		}
	}
}

// firstFieldDiff names the first exported member (path) in which two values of one type differ
func firstFieldDiff(a, b reflect.Value) string {
	switch a.Kind() {
	case reflect.Struct:
		if a.Type().String() == "time.Time" {
			// the same instant and the same calendar day in the value's own zone (the day is what the X9 record carries)
			ta, tb := a.Interface().(time.Time), b.Interface().(time.Time)
			if !ta.Equal(tb) || ta.Format("20060102") != tb.Format("20060102") {
				return "(time)"
			}
			return ""
		}
		for i := 0; i < a.NumField(); i++ {
			if a.Type().Field(i).PkgPath != "" {
				continue
			}
			if d := firstFieldDiff(a.Field(i), b.Field(i)); d != "" {
				return strings.TrimSuffix(a.Type().Field(i).Name+"."+d, ".(value)")
			}
		}
		return ""
	case reflect.Slice:
		if a.Len() != b.Len() {
			return "(length)"
		}
		for i := 0; i < a.Len(); i++ {
			if d := firstFieldDiff(a.Index(i), b.Index(i)); d != "" {
				return d
			}
		}
		return ""
	case reflect.Ptr:
		if a.IsNil() != b.IsNil() {
			return "(nil)"
		}
		if a.IsNil() {
			return ""
		}
		return firstFieldDiff(a.Elem(), b.Elem())
	default:
		if !reflect.DeepEqual(a.Interface(), b.Interface()) {
			return "(value)"
		}
		return ""
	}
}

// jsonPaths flattens a JSON document into path -> canonical scalar (array indexes dropped from the
// path used as key, kept in the full path), keys lower-cased (Go matches member names case-insensitively).
func jsonLeaves(v any, path string, out map[string]string) {
	switch x := v.(type) {
	case map[string]any:
		for k, c := range x {
			jsonLeaves(c, path+"/"+strings.ToLower(k), out)
		}
	case []any:
		for i, c := range x {
			jsonLeaves(c, fmt.Sprintf("%s[%d]", path, i), out)
		}
	case nil:
		out[path] = "null"
	default:
		b, _ := json.Marshal(x)
		out[path] = string(b)
	}
}

func stripIdx(p string) string {
	var sb strings.Builder
	skip := false
	for _, c := range p {
		if c == '[' {
			skip = true
			continue
		}
		if c == ']' {
			skip = false
			continue
		}
		if !skip {
			sb.WriteRune(c)
		}
	}
	return sb.String()
}

// throughClient: server JSON -> client model -> JSON
func throughClient(js []byte) ([]byte, error) {
	var cf client.IclFile
	if err := json.Unmarshal(js, &cf); err != nil {
		return nil, err
	}
	return json.Marshal(cf)
}

// zero-valued members are legitimately dropped by omitempty on both sides: populate everything
func fullyPopulated(r rng, variant int) *icl.File {
	for {
		f, err := genFile(r, genOpts{maxCL: 1, maxBundles: 2, maxItems: 2, mutateP: 100})
		if err != nil {
			continue
		}
		cl := &f.CashLetters[0]
		okShape := false
		for _, b := range cl.Bundles {
			for _, cd := range b.Checks {
				if len(cd.CheckDetailAddendumA) > 0 && len(cd.CheckDetailAddendumB) > 0 && len(cd.CheckDetailAddendumC) > 0 && len(cd.ImageViewData) > 0 {
					okShape = true
				}
			}
			for _, rd := range b.Returns {
				if len(rd.ReturnDetailAddendumA) > 0 && len(rd.ReturnDetailAddendumB) > 0 && len(rd.ReturnDetailAddendumC) > 0 && len(rd.ReturnDetailAddendumD) > 0 && len(rd.ImageViewData) > 0 {
					okShape = true
				}
			}
		}
		if !okShape || len(cl.Credits) == 0 || len(cl.CreditItems) == 0 || (variant == 0 && len(cl.RoutingNumberSummary) == 0) {
			continue
		}
		if (variant == 0) != (len(cl.Bundles[0].Checks) > 0) {
			continue
		}
		populateIDs(f, r)
		// every remaining zero string / int member gets a value
		var fill func(v reflect.Value)
		fill = func(v reflect.Value) {
			switch v.Kind() {
			case reflect.Ptr:
				if !v.IsNil() {
					fill(v.Elem())
				}
			case reflect.Struct:
				if v.Type().String() == "time.Time" {
					return
				}
				for i := 0; i < v.NumField(); i++ {
					if v.Type().Field(i).PkgPath != "" {
						continue
					}
					fv := v.Field(i)
					switch fv.Kind() {
					case reflect.String:
						if fv.String() == "" {
							fv.SetString("7")
						}
					case reflect.Int:
						if fv.Int() == 0 {
							fv.SetInt(1)
						}
						if fv.Int() > 2000000000 {
							// magnitudes are probed separately, one member at a time
							fv.SetInt(fv.Int() % 1000000)
						}
					default:
						fill(fv)
					}
				}
			case reflect.Slice:
				if v.Type().Elem().Kind() != reflect.Uint8 {
					for i := 0; i < v.Len(); i++ {
						fill(v.Index(i))
					}
				} else if v.Len() == 0 && v.CanSet() {
					v.SetBytes([]byte("x"))
				}
			}
		}
		fill(reflect.ValueOf(f))
		return f
	}
}

func runC20(cfg *config) *Report {
	rep := newReport("C20", cfg.tier, cfg.seed)
	r := newRng(cfg.seed + 20000)
	rep.Rule = "library files with EVERY exported member of every record populated (forward and return variants) encoded by json.Marshal (what the server sends), decoded into the shipped client's IclFile, re-encoded and compared leaf by leaf with the server's document (member names matched case-insensitively as encoding/json does) and loaded back with FileFromJSON; then each integer member in turn raised to the largest value its X9 column holds; non-trivial = leaf comparison of a distinct member; distinct by member path"
	clientLargeAnswers(rep, r)
	members := map[string]bool{}
	for variant := 0; variant < 2; variant++ {
		f := fullyPopulated(r, variant)
		js, _ := json.Marshal(f)
		var docA any
		json.Unmarshal(js, &docA)
		leavesA := map[string]string{}
		jsonLeaves(docA, "", leavesA)
		back, err := throughClient(js)
		rep.Evaluations++
		if err != nil {
			rep.violate(Violation{Key: "C20:client-decode-error", What: "the client cannot decode a document the server returns: " + err.Error(), Replay: map[string]any{"json": string(js)}})
			continue
		}
		var docB any
		json.Unmarshal(back, &docB)
		leavesB := map[string]string{}
		jsonLeaves(docB, "", leavesB)
		var paths []string
		for p := range leavesA {
			paths = append(paths, p)
		}
		sort.Strings(paths)
		for _, p := range paths {
			if leavesA[p] == "null" {
				continue // a nil slice: absent and null decode to the same thing
			}
			key := stripIdx(p)
			if !members[key] {
				members[key] = true
				rep.nontrivial(key)
			}
			rep.Evaluations++
			if vb, ok := leavesB[p]; !ok {
				rep.violate(Violation{Key: "C20:member-dropped:" + key, What: "member " + key + " of the server's document is lost when decoded and re-encoded by the client (server value " + leavesA[p] + ")",
					Replay: map[string]any{"member": p, "server_value": leavesA[p], "server_json": string(js)}})
			} else if vb != leavesA[p] {
				rep.violate(Violation{Key: "C20:member-changed:" + key, What: fmt.Sprintf("member %s changes through the client: %s -> %s", key, leavesA[p], vb),
					Replay: map[string]any{"member": p, "server_value": leavesA[p], "client_value": vb, "server_json": string(js)}})
			}
		}
		if g, err := icl.FileFromJSON(back); err != nil {
			rep.violate(Violation{Key: "C20:server-rejects-client-document", What: "the server rejects the document after a trip through the client: " + err.Error(), Replay: map[string]any{"client_json": string(back)}})
		} else {
			_ = g
		}
		rep.sample(map[string]any{"variant": variant, "members": len(paths), "json_bytes": len(js)})
		clientOps(rep, f, variant)
		// magnitudes: each integer member at the full width of its column
		for li := range tables.Records {
			L := &tables.Records[li]
			for _, w := range L.Write {
				if kindOfConv(w.Conv) != 'I' || w.Width < 10 {
					continue
				}
				big := 1
				for i := 0; i < w.Width && i < 18; i++ {
					big *= 10
				}
				big--
				var jsonName string
				for _, fd := range L.Fields {
					if fd.Name == w.Src {
						jsonName = fd.JSON
					}
				}
				if jsonName == "" {
					continue
				}
				// rewrite the first occurrence of that member under a record of this type
				doc := string(js)
				needle := `"` + jsonName + `":`
				idx := strings.Index(doc, needle)
				if idx < 0 {
					continue
				}
				end := idx + len(needle)
				e2 := end
				for e2 < len(doc) && (doc[e2] == '-' || doc[e2] >= '0' && doc[e2] <= '9') {
					e2++
				}
				if e2 == end {
					continue
				}
				mod := doc[:end] + fmt.Sprint(big) + doc[e2:]
				rep.Evaluations++
				rep.count("magnitude:" + jsonName)
				if _, err := throughClient([]byte(mod)); err != nil {
					rep.violate(Violation{Key: "C20:magnitude:" + jsonName, What: fmt.Sprintf("the client cannot decode %s = %d (a value its %d-digit column holds): %v", jsonName, big, w.Width, err),
						Replay: map[string]any{"member": jsonName, "value": big, "error": err.Error()}})
				}
			}
		}
	}
	return rep
}
