package main

import (
	"bytes"
	"encoding/json"
	"fmt"
	"reflect"
	"strings"

	icl "github.com/moov-io/imagecashletter"
)

// populateIDs sets every caller-settable identification / user member that generation leaves empty:
// the ID of every record and container, and the user fields of the control records.
func populateIDs(f *icl.File, r rng) {
	n := 0
	next := func() string { n++; return fmt.Sprintf("id-%d-%s", n, r.asciiStr(3, alnumChars)) }
	f.ID = next()
	var setIDs func(v reflect.Value)
	setIDs = func(v reflect.Value) {
		switch v.Kind() {
		case reflect.Ptr:
			if !v.IsNil() {
				setIDs(v.Elem())
			}
		case reflect.Struct:
			if fld := v.FieldByName("ID"); fld.IsValid() && fld.Kind() == reflect.String && fld.CanSet() {
				fld.SetString(next())
			}
			for i := 0; i < v.NumField(); i++ {
				if v.Type().Field(i).PkgPath == "" {
					setIDs(v.Field(i))
				}
			}
		case reflect.Slice:
			if v.Type().Elem().Kind() != reflect.Uint8 {
				for i := 0; i < v.Len(); i++ {
					setIDs(v.Index(i))
				}
			}
		}
	}
	setIDs(reflect.ValueOf(f))
	for i := range f.CashLetters {
		for _, b := range f.CashLetters[i].Bundles {
			b.BundleControl.UserField = r.asciiStr(1+r.Intn(20), alnumChars)
		}
	}
	f.Control.ImmediateOriginContactName = r.asciiStr(1+r.Intn(14), alnumChars)
	f.Control.ImmediateOriginContactPhoneNumber = r.asciiStr(10, "0123456789")
}

func runC15(cfg *config) *Report {
	rep := newReport("C15", cfg.tier, cfg.seed)
	r := newRng(cfg.seed + 15000)
	rep.Rule = "generated valid built files with every member populated (IDs of every record and container, user fields of header and control records, binary image and signature bytes, zero and non-zero optional dates) encoded with json.Marshal and loaded with FileFromJSON; the reloaded file is compared member by member (exported fields) with the original and written in the four encodings, bytes compared with the original's; non-trivial = document differs from earlier ones; distinct by JSON text"
	n := 60
	if cfg.tier == "thorough" {
		n = 1500
	}
	for i := 0; i < n; i++ {
		o := genOpts{maxCL: 2, maxBundles: 2, maxItems: 3, mutateP: 60, binary: i%3 == 0, b64: 30, zones: i%2 == 1, emptyCL: i%2 == 0}
		if i%5 == 2 {
			o.kind = 1 + (i/5)%2 // forward and return files in turn: records 27 and 34 both occur
		}
		f, err := genFile(r, o)
		if err != nil {
			continue
		}
		populateIDs(f, r)
		if i%4 == 3 {
			exoticIDs(f)
		}
		if i%3 == 1 {
			// a caller who prepares ONE control record (its ID and user field) and hands it to every bundle of a cash
			// letter, then builds: each built bundle must come out with its own totals
			shared := false
			for ci := range f.CashLetters {
				bs := f.CashLetters[ci].Bundles
				if len(bs) < 2 || bs[0].BundleControl == nil {
					continue
				}
				tmpl := *bs[0].BundleControl
				for _, b := range bs {
					b.SetControl(&tmpl)
				}
				shared = true
			}
			if shared {
				ok := true
				for ci := range f.CashLetters {
					if f.CashLetters[ci].Create() != nil {
						ok = false
					}
				}
				if !ok || f.Create() != nil {
					continue
				}
				rep.count("one-control-record-handed-to-every-bundle")
			}
		}
		if i%4 == 1 {
			// optional date left zero
			for ci := range f.CashLetters {
				for _, b := range f.CashLetters[ci].Bundles {
					for _, rd := range b.Returns {
						for j := range rd.ReturnDetailAddendumB {
							rd.ReturnDetailAddendumB[j].PayorBankBusinessDate = mkDate(1, 1, 1)
						}
					}
				}
			}
		}
		if i%5 == 2 {
			// records 27 / 34 whose image reference key is longer than the length they declare (the writer cuts the key
			// to that length; the member itself must survive the JSON trip as it is), or present with length 0
			for ci := range f.CashLetters {
				for _, b := range f.CashLetters[ci].Bundles {
					for _, cd := range b.Checks {
						for j := range cd.CheckDetailAddendumB {
							ab := &cd.CheckDetailAddendumB[j]
							old := *ab
							ab.LengthImageReferenceKey = []string{"0008", "0000", "0003"}[r.Intn(3)]
							ab.ImageReferenceKey = "IMG" + r.asciiStr(9+r.Intn(9), alnumChars)
							if ab.Validate() != nil {
								*ab = old
							} else {
								rep.count("key-longer-than-declared:27")
							}
						}
					}
					for _, rd := range b.Returns {
						for j := range rd.ReturnDetailAddendumC {
							ac := &rd.ReturnDetailAddendumC[j]
							old := *ac
							ac.LengthImageReferenceKey = []string{"0008", "0000", "0003"}[r.Intn(3)]
							ac.ImageReferenceKey = "IMG" + r.asciiStr(9+r.Intn(9), alnumChars)
							if ac.Validate() != nil {
								*ac = old
							} else {
								rep.count("key-longer-than-declared:34")
							}
						}
					}
				}
			}
		}
		if i%5 == 4 || i%5 == 0 {
			// bundles whose sequence numbers are not ascending (the caller numbers them; nothing reorders a file)
			for ci := range f.CashLetters {
				bs := f.CashLetters[ci].Bundles
				for bi := range bs {
					if bs[bi].BundleHeader != nil && len(bs) > 1 {
						bs[bi].BundleHeader.BundleSequenceNumber = fmt.Sprintf("%04d", 3*(len(bs)-bi)+1)
						rep.count("bundle-numbers-descending")
					}
				}
			}
		}
		if i%5 == 3 {
			// values with a blank at either end, wherever the record's own validation admits one (blank is a legal
			// character of most text classes): the JSON trip must carry them as they are
			for ri, rec := range writerOrder(f) {
				goName := strings.TrimPrefix(fmt.Sprintf("%T", rec), "*imagecashletter.")
				L := layoutOf(goName)
				if L == nil {
					continue
				}
				for wi, w := range L.Write {
					if kindOfConv(w.Conv) != 'S' || w.Conv == "lit" || w.Width < 3 || strings.HasPrefix(w.Src, "reserved") || strings.HasPrefix(w.Src, "Length") || w.Src[0] < 'A' || w.Src[0] > 'Z' || (ri+wi)%3 != 0 {
						continue
					}
					old := getField(rec, w.Src, 'S')
					if len(old.S) == 0 || len(old.S)+1 > w.Width {
						continue
					}
					nv := append(append([]byte{}, old.S...), ' ')
					if (ri+wi)%2 == 0 {
						nv = append([]byte{' '}, old.S...)
					}
					setField(rec, w.Src, FV{K: 'S', S: nv})
					if realValidate(rec) != "ok" {
						setField(rec, w.Src, old)
					} else {
						rep.count("edge-blank-value")
					}
				}
			}
		}
		if i%5 == 1 {
			// conditional members left blank / zero wherever the record's own validation admits it (an image view declared
			// "not present" with no format or compression code, optional names and user fields empty): they must come back
			// blank, not defaulted
			for ri, rec := range writerOrder(f) {
				goName := strings.TrimPrefix(fmt.Sprintf("%T", rec), "*imagecashletter.")
				L := layoutOf(goName)
				if L == nil || strings.HasSuffix(goName, "Control") {
					continue // the members of control records are derived by the build, not set by the caller
				}
				for wi, w := range L.Write {
					k := kindOfConv(w.Conv)
					if w.Conv == "lit" || w.Width == 0 || fixedFields[w.Src] || strings.HasPrefix(w.Src, "reserved") || w.Src[0] < 'A' || w.Src[0] > 'Z' || (k != 'S' && k != 'I') || (ri+wi)%2 != 0 {
						continue
					}
					old := getField(rec, w.Src, k)
					nv := FV{K: k}
					if k == 'S' && len(old.S) == 0 || k == 'I' && old.I == 0 {
						continue
					}
					setField(rec, w.Src, nv)
					if realValidate(rec) != "ok" {
						setField(rec, w.Src, old)
					} else {
						rep.count("conditional-member-left-blank")
					}
				}
			}
			// the totals the build derives from the items (MICR-valid amount, ...) follow the change: build again
			rebuilt := true
			for ci := range f.CashLetters {
				if f.CashLetters[ci].CashLetterHeader != nil && f.CashLetters[ci].CashLetterHeader.RecordTypeIndicator == "N" {
					continue
				}
				if f.CashLetters[ci].Create() != nil {
					rebuilt = false
				}
			}
			if !rebuilt || f.Create() != nil {
				rep.count("blanked-file-not-buildable")
				continue
			}
		}
		rep.Evaluations++
		js, err := json.Marshal(f)
		if err != nil {
			rep.violate(Violation{Key: "C15:marshal-error", What: "json.Marshal failed: " + err.Error(), Replay: map[string]any{"tree": dumpFile(f)}})
			continue
		}
		rep.nontrivial(string(js))
		g, err := icl.FileFromJSON(js)
		if err != nil {
			rep.violate(Violation{Key: "C15:reload-rejected", What: "FileFromJSON rejected the JSON encoding of a valid built file: " + err.Error(), Replay: map[string]any{"json": string(js)}})
			continue
		}
		a, b := snapshot(f, true), snapshot(g, true)
		if a != b {
			rep.violate(Violation{Key: "C15:member-lost:" + diffField(a, b), What: "JSON round trip changed a member: " + firstSnapDiff(a, b), Replay: map[string]any{"json": string(js)}})
		}
		for _, e := range allEnc {
			if !e.LP && i%3 == 0 {
				continue // binary bytes need length-prefix framing
			}
			w1, e1, _ := realWrite(f, e)
			w2, e2, _ := realWrite(g, e)
			if (e1 == nil) != (e2 == nil) || !bytes.Equal(w1, w2) {
				rep.violate(Violation{Key: "C15:x9-differs:" + e.String(), What: "X9 output of the reloaded file differs from the original's", Replay: map[string]any{"json": string(js), "enc": e.String()}})
			}
		}
		if i%23 == 0 {
			rep.sample(map[string]any{"json_bytes": len(js), "census": census(dumpFile(f))})
		}
	}
	return rep
}

// exoticIDs: the client-chosen ID of every record and container set to text a JSON encoder has to escape or carry as
// multi-byte UTF-8 (IDs never reach the X9 bytes; the JSON round trip must keep them character for character)
func exoticIDs(f *icl.File) {
	vals := []string{"vue-é-01", "q\"uote\\back", "tab\there", "<&>", "sep\u2028line", "日本-7", "nul\x01ctl", "emoji-😀"}
	n := 0
	var walk func(v reflect.Value)
	walk = func(v reflect.Value) {
		switch v.Kind() {
		case reflect.Ptr:
			if !v.IsNil() {
				walk(v.Elem())
			}
		case reflect.Struct:
			if fld := v.FieldByName("ID"); fld.IsValid() && fld.Kind() == reflect.String && fld.CanSet() {
				fld.SetString(fmt.Sprintf("%s-%d", vals[n%len(vals)], n))
				n++
			}
			for i := 0; i < v.NumField(); i++ {
				if v.Type().Field(i).PkgPath == "" {
					walk(v.Field(i))
				}
			}
		case reflect.Slice:
			if v.Type().Elem().Kind() != reflect.Uint8 {
				for i := 0; i < v.Len(); i++ {
					walk(v.Index(i))
				}
			}
		}
	}
	walk(reflect.ValueOf(f))
}
