package main

// C11 / C13 / C14: generated request histories against the real handlers, compared request by request
// with the Lean handler model (responses and the store after every request), plus the property
// predicates evaluated directly on the implementation (deep snapshots of the repository around
// read-only and bad requests).

import (
	"crypto/sha1"
	"encoding/base64"
	"bytes"
	"encoding/json"
	"fmt"
	"regexp"
	"sort"
	"strconv"
	"strings"

	icl "github.com/moov-io/imagecashletter"
)

type apiPools struct {
	zonedReturnDoc []byte   // a return file whose dates (addendum B's payor bank business date among them) carry a zone offset
	jsonDocs       [][]byte // valid file documents (some with a client ID, some without)
	jsonIDs        []string
	x9E, x9A       [][]byte // valid uploads, variable length, EBCDIC / ASCII
	badBodies      []namedBytes
	headers        []namedBytes // bodies for update-header (valid and not)
	cashLts        []namedBytes // bodies for add-cash-letter
	clIDs          []string
	bigX9          [][]byte // one valid file of more than 64 KiB: EBCDIC and ASCII, length-prefixed
	mistypeDocs    [][]byte // one forward and one return document, sources of the mistyped-member bodies
	twinDocs       [3][]byte // two files that are equal but for the CONTENT of their images (base64 text of equal length), IDs "twin-p" / "twin-q"
}

type namedBytes struct {
	name string
	b    []byte
	bad  bool
}

func buildPools(r rng, n int) *apiPools {
	p := &apiPools{}
	for i := 0; len(p.jsonDocs) < n && i < 10*n; i++ {
		// every third document carries its dates with a zone offset and a time of day (a later day in UTC)
		f, err := genFile(r, genOpts{maxCL: 2, maxBundles: 2, maxItems: 2, mutateP: 40, zones: len(p.jsonDocs)%3 == 2})
		if err != nil {
			continue
		}
		k := len(p.jsonDocs)
		if k%2 == 1 {
			// these documents get their bundles out of sequence order below: at least two bundles in a cash letter
			two := false
			for ci := range f.CashLetters {
				two = two || len(f.CashLetters[ci].Bundles) >= 2
			}
			if !two {
				continue
			}
		}
		populateIDs(f, r)
		id := fmt.Sprintf("cf%d", k)
		if k%3 == 2 {
			id = "" // the server picks the ID
		}
		f.ID = id
		for ci := range f.CashLetters {
			f.CashLetters[ci].ID = fmt.Sprintf("c%d-%d", k, ci)
			p.clIDs = append(p.clIDs, f.CashLetters[ci].ID)
		}
		js, _ := json.Marshal(f)
		if k%2 == 1 {
			// bundles stored out of sequence order (a JSON upload is stored as it is)
			js = editJSON(js, func(path string, m map[string]any) {
				if strings.HasSuffix(path, ".bundleHeader") {
					for _, key := range []string{"BundleSequenceNumber", "bundleSequenceNumber"} {
						if sn, ok := m[key].(string); ok && sn != "" {
							if n, err := strconv.Atoi(strings.TrimSpace(sn)); err == nil {
								m[key] = fmt.Sprintf("%04d", 9-n)
							}
						}
					}
				}
			})
		}
		p.jsonDocs = append(p.jsonDocs, js)
		p.jsonIDs = append(p.jsonIDs, id)
		if e, err, pn := realWrite(f, encCfg{LP: true, EBCDIC: true}); err == nil && pn == nil {
			p.x9E = append(p.x9E, e)
		}
		if a, err, pn := realWrite(f, encCfg{LP: true, EBCDIC: false}); err == nil && pn == nil {
			p.x9A = append(p.x9A, a)
		}
		if k == 0 {
			// the same file with two image views of 40,000 bytes: an upload of more than 64 KiB (a multipart form of that size
			// is spooled to disk by net/http), every record of it still far below the reader's line limit
			bigF := deepCopyFile(f)
			grown := 0
			grow := func(d *icl.ImageViewData) {
				if grown < 2 {
					d.ImageData = bytes.Repeat([]byte{'#'}, 40000+grown) // ('#' is not a base64 character: the image stays as it is)
					d.LengthImageData = fmt.Sprintf("%07d", len(d.ImageData))
					grown++
				}
			}
			for ci := range bigF.CashLetters {
				for _, b := range bigF.CashLetters[ci].Bundles {
					for _, cd := range b.Checks {
						for j := range cd.ImageViewData {
							grow(&cd.ImageViewData[j])
						}
					}
					for _, rd := range b.Returns {
						for j := range rd.ImageViewData {
							grow(&rd.ImageViewData[j])
						}
					}
				}
			}
			if grown == 2 {
				e, err1, pn1 := realWrite(bigF, encCfg{LP: true, EBCDIC: true})
				a, err2, pn2 := realWrite(bigF, encCfg{LP: true, EBCDIC: false})
				if err1 == nil && err2 == nil && pn1 == nil && pn2 == nil {
					p.bigX9 = [][]byte{e, a}
				}
			}
		}
		// the same file with control records that do not match its content (an upload is stored as read:
		// nothing recomputes them until somebody builds the file)
		st := deepCopyFile(f)
		for ci := range st.CashLetters {
			for _, b := range st.CashLetters[ci].Bundles {
				if b.BundleControl != nil {
					// which members are stale varies: all of them, or only the ones a rebuild could skip when the
					// item count, amount and image count already agree
					switch r.Intn(4) {
					case 0:
						b.BundleControl.MICRValidTotalAmount += 2
					case 1:
						b.BundleControl.MICRValidTotalAmount = 0
						b.BundleControl.CreditTotalIndicator = 1 - b.BundleControl.CreditTotalIndicator
					default:
						b.BundleControl.BundleTotalAmount += 1
						b.BundleControl.MICRValidTotalAmount += 2
						b.BundleControl.BundleImagesCount += 1
						b.BundleControl.UserField = "STALE"
					}
				}
			}
			if c := st.CashLetters[ci].CashLetterControl; c != nil {
				c.CashLetterItemsCount += 1
				c.CashLetterImagesCount += 1
			}
		}
		st.Control.TotalRecordCount += 1
		st.Control.FileTotalAmount += 1
		if e, err, pn := realWrite(st, encCfg{LP: true, EBCDIC: true}); err == nil && pn == nil {
			p.x9E = append(p.x9E, e)
		}
		if a, err, pn := realWrite(st, encCfg{LP: true, EBCDIC: false}); err == nil && pn == nil {
			p.x9A = append(p.x9A, a)
		}
		// header bodies
		h := f.Header
		h.ImmediateOriginName = fmt.Sprintf("ORIGIN%d", k)
		hb, _ := json.Marshal(h)
		p.headers = append(p.headers, namedBytes{"valid-header", hb, false})
		// cash letter bodies
		for ci := range f.CashLetters {
			c := f.CashLetters[ci]
			c.ID = fmt.Sprintf("n%d-%d", k, ci)
			cb, _ := json.Marshal(c)
			p.cashLts = append(p.cashLts, namedBytes{"valid-cashletter", cb, false})
			p.clIDs = append(p.clIDs, c.ID)
			// the same cash letter as a client would post it before any build: derived members blank, stale
			// or absent (added as it is - the handler does not rebuild)
			var ml any
			json.Unmarshal(cb, &ml)
			blankLengths(ml)
			if mm, ok := ml.(map[string]any); ok {
				mm["id"] = fmt.Sprintf("l%d-%d", k, ci)
				p.clIDs = append(p.clIDs, mm["id"].(string))
			}
			lb, _ := json.Marshal(ml)
			p.cashLts = append(p.cashLts, namedBytes{"cashletter-without-lengths", lb, false})
			var m any
			json.Unmarshal(cb, &m)
			blankDerived(m)
			if mm, ok := m.(map[string]any); ok {
				mm["id"] = fmt.Sprintf("r%d-%d", k, ci)
				p.clIDs = append(p.clIDs, mm["id"].(string))
			}
			rb, _ := json.Marshal(m)
			p.cashLts = append(p.cashLts, namedBytes{"raw-cashletter", rb, false})
			// a cash letter posted without any control record (bundle controls and cash letter control absent): stored as
			// posted, so the stored bundles hold nil control pointers
			nb := editJSON(cb, func(path string, m map[string]any) {
				delete(m, "bundleControl")
				delete(m, "cashLetterControl")
				if path == "" {
					m["id"] = fmt.Sprintf("q%d-%d", k, ci)
				}
			})
			p.clIDs = append(p.clIDs, fmt.Sprintf("q%d-%d", k, ci))
			p.cashLts = append(p.cashLts, namedBytes{"cashletter-without-controls", nb, false})
			// a long cash letter whose LAST item has two image view details and one image view data record: stored as
			// posted; the Writer refuses it, but only after it has rendered (and flushed) several kilobytes
			if len(c.Bundles) > 0 && len(c.Bundles[len(c.Bundles)-1].Checks) > 0 {
				vc := deepCopyFile(&icl.File{CashLetters: []icl.CashLetter{c}}).CashLetters[0]
				vc.ID = fmt.Sprintf("v%d-%d", k, ci)
				bs := vc.Bundles
				for len(vc.Bundles) < 12 {
					vc.Bundles = append(vc.Bundles, bs...)
				}
				lastB := deepCopyFile(&icl.File{CashLetters: []icl.CashLetter{{Bundles: []*icl.Bundle{bs[len(bs)-1]}}}}).CashLetters[0].Bundles[0]
				cd := lastB.Checks[len(lastB.Checks)-1]
				cd.ImageViewDetail = []icl.ImageViewDetail{baseImageViewDetail(), baseImageViewDetail()}
				cd.ImageViewData = []icl.ImageViewData{mkIVData(r, genOpts{})}
				cd.ImageViewAnalysis = nil
				vc.Bundles = append(vc.Bundles, lastB)
				if vb, err := json.Marshal(vc); err == nil {
					p.clIDs = append(p.clIDs, vc.ID)
					p.cashLts = append(p.cashLts, namedBytes{"cashletter-view-count-mismatch", vb, false})
				}
			}
			// a cash letter whose addenda A leave the truncation indicator out (stored as posted)
			tb := editJSON(cb, func(path string, m map[string]any) {
				if _, ok := m["truncationIndicator"]; ok {
					m["truncationIndicator"] = ""
				}
				if strings.HasSuffix(path, "") && path == "" {
					m["id"] = fmt.Sprintf("t%d-%d", k, ci)
				}
			})
			p.clIDs = append(p.clIDs, fmt.Sprintf("t%d-%d", k, ci))
			p.cashLts = append(p.cashLts, namedBytes{"cashletter-blank-truncation", tb, false})
		}
	}
	for kind := 1; kind <= 2; kind++ {
		for tries := 0; tries < 20; tries++ {
			f, err := genFile(r, genOpts{maxCL: 1, maxBundles: 1, maxItems: 2, mutateP: 20, kind: kind})
			if err != nil {
				continue
			}
			f.ID = fmt.Sprintf("mt%d", kind)
			js, _ := json.Marshal(f)
			p.mistypeDocs = append(p.mistypeDocs, js)
			break
		}
	}
	for tries := 0; tries < 40 && p.zonedReturnDoc == nil; tries++ {
		f, err := genFile(r, genOpts{maxCL: 1, maxBundles: 1, maxItems: 2, mutateP: 20, kind: 2, zones: true})
		if err != nil {
			continue
		}
		has := false
		for _, b := range f.CashLetters[0].Bundles {
			for _, rd := range b.Returns {
				if len(rd.ReturnDetailAddendumB) > 0 {
					has = true
				}
			}
		}
		if has {
			f.ID = ""
			js, _ := json.Marshal(f)
			// the zone offsets are written into the document text (not left to the library's own encoder)
			js = regexp.MustCompile(`("payorBankBusinessDate":")(\d{4}-\d\d-\d\d)T[^"]*"`).ReplaceAll(js, []byte(`${1}${2}T22:30:00-05:00"`))
			p.zonedReturnDoc = js
		}
	}
	// a file and its corrected resubmission: same items, same image lengths, different image content (carried as
	// base64 text, the form whose decoding the renderer does on every read)
	for tries := 0; tries < 40 && p.twinDocs[0] == nil; tries++ {
		f, err := genFile(r, genOpts{maxCL: 1, maxBundles: 1, maxItems: 1, mutateP: 20, kind: 1})
		if err != nil {
			continue
		}
		// exactly one image in the file: the image rendered last for one twin is the one rendered first for the other
		views := 0
		mk := func(salt byte) []byte {
			g := deepCopyFile(f)
			for ci := range g.CashLetters {
				for _, b := range g.CashLetters[ci].Bundles {
					for _, cd := range b.Checks {
						for j := range cd.ImageViewData {
							raw := bytes.Repeat([]byte{'A' + salt, 'b', '0' + salt, 'z'}, 6)
							if salt == 2 {
								raw = append(raw, "-third-"...) // the third file's image has another length
							}
							cd.ImageViewData[j].ImageData = []byte(base64.StdEncoding.EncodeToString(raw))
							cd.ImageViewData[j].LengthImageData = fmt.Sprintf("%07d", len(raw))
							views++
						}
					}
				}
			}
			g.ID = map[byte]string{0: "twin-p", 1: "twin-q", 2: "twin-r"}[salt]
			js, _ := json.Marshal(g)
			return js
		}
		a, b, c := mk(0), mk(1), mk(2)
		if views == 3 {
			p.twinDocs = [3][]byte{a, b, c}
		}
	}
	doc := p.jsonDocs[0]
	x := p.x9E[0]
	// a valid document in which one array of record pointers holds null (in place of its elements / after them):
	// every such document must be refused with a 400, whichever array it is
	var nullDocs []namedBytes
	for _, arr := range []string{"bundles", "checks", "returns", "creditItems", "credit", "routingNumberSummary"} {
		for _, d := range p.jsonDocs {
			done := false
			nb := editJSON(d, func(path string, m map[string]any) {
				if a, ok := m[arr].([]any); ok && len(a) > 0 && !done {
					done = true
					if len(nullDocs)%2 == 0 {
						m[arr] = []any{nil}
					} else {
						m[arr] = append(append([]any{}, a...), nil)
					}
				}
			})
			if done {
				nullDocs = append(nullDocs, namedBytes{"json-null-in-" + arr, nb, true})
				break
			}
		}
	}
	defer func() { p.badBodies = append(p.badBodies, nullDocs...) }()
	p.badBodies = []namedBytes{
		{"empty", nil, true},
		{"random-bytes", []byte(r.asciiStr(200, "\x00\x01\xff\xfeabc{}[]\":,0123456789\n")), true},
		{"json-truncated", doc[:len(doc)/2], true},
		{"json-not-object", []byte(`[1,2,3]`), true},
		{"json-null", []byte(`null`), true},
		{"json-checks-null", []byte(`{"fileHeader":{},"cashLetters":[{"bundles":[{"checks":[null]}]}]}`), true},
		{"json-bundles-null", []byte(`{"fileHeader":{},"cashLetters":[{"bundles":[null]}]}`), true},
		{"json-mistyped", []byte(`{"id":5,"cashLetters":"x"}`), true},
		{"json-no-cashletters", []byte(`{"id":"zz1","fileHeader":{"standardLevel":"35"}}`), true},
		{"x9-cut-mid-record", x[:len(x)/2+3], true},
		{"x9-cut-at-prefix", x[:4], true},
		{"x9-huge-prefix", append([]byte{0x7f, 0xff, 0xff, 0xff}, x[4:60]...), true},
		{"x9-ascii-as-ebcdic", p.x9A[0], true},
		// rejections whose error message quotes bytes of the upload: not UTF-8, control characters
		{"x9-binary-record-type", append([]byte{0, 0, 0, 80, 0xff, 0xfe}, bytes.Repeat([]byte{' '}, 78)...), true},
		{"json-control-char-in-member", controlCharDoc(doc), true},
	}
	// a length prefix at the top of the 32-bit range, after one good record (the sum offset+length wraps in
	// 32-bit arithmetic) and as the very first prefix
	if n0 := int(x[0])<<24 | int(x[1])<<16 | int(x[2])<<8 | int(x[3]); 4+n0 < len(x) {
		for _, pre := range [][]byte{{0xff, 0xff, 0xff, 0xff}, {0xff, 0xff, 0xff, 0xfc}, {0x80, 0x00, 0x00, 0x00}} {
			b := append(append([]byte{}, x[:4+n0]...), pre...)
			b = append(b, x[4+n0+4:min(len(x), 4+n0+200)]...)
			p.badBodies = append(p.badBodies, namedBytes{fmt.Sprintf("x9-prefix-%02x%02x%02x%02x-after-record", pre[0], pre[1], pre[2], pre[3]), b, true})
			p.badBodies = append(p.badBodies, namedBytes{fmt.Sprintf("x9-prefix-%02x%02x%02x%02x-first", pre[0], pre[1], pre[2], pre[3]), append(append([]byte{}, pre...), x[4:120]...), true})
		}
	}
	// one member of a valid document given a value of the wrong JSON type (seeded choice of members, every
	// record type of a forward and of a return document)
	for _, d := range p.mistypeDocs {
		p.badBodies = append(p.badBodies, mistypedDocs(r, d, 40)...)
	}
	// the last control record dropped (cut exactly at a record boundary)
	if off := lastRecordOffset(x); off > 0 {
		p.badBodies = append(p.badBodies, namedBytes{"x9-missing-file-control", x[:off], true})
	}
	p.headers = append(p.headers,
		namedBytes{"header-null", []byte(`null`), false}, // decodes: the zero header
		namedBytes{"header-empty-object", []byte(`{}`), false},
		namedBytes{"header-empty-body", nil, true},
		namedBytes{"header-garbage", []byte(`{"immediateDestination": `), true},
		namedBytes{"header-mistyped", []byte(`{"immediateDestination": 5}`), true},
		namedBytes{"header-array", []byte(`[]`), true},
	)
	p.cashLts = append(p.cashLts,
		namedBytes{"cashletter-empty-object", []byte(`{}`), false},
		namedBytes{"cashletter-null", []byte(`null`), false},
		namedBytes{"cashletter-null-header", []byte(`{"id":"nh1","cashLetterHeader":null}`), false},
		namedBytes{"cashletter-null-bundle", []byte(`{"id":"nb1","bundles":[null]}`), false},
		namedBytes{"cashletter-empty-body", nil, true},
		namedBytes{"cashletter-garbage", []byte(`{"id": "x", `), true},
		namedBytes{"cashletter-mistyped", []byte(`{"id": 7}`), true},
	)
	p.clIDs = append(p.clIDs, "nh1", "nb1")
	return p
}

// editJSON applies fn to every object of a document (path = dotted member names from the root)
func editJSON(doc []byte, fn func(path string, m map[string]any)) []byte {
	var root any
	if json.Unmarshal(doc, &root) != nil {
		return doc
	}
	var walk func(v any, path string)
	walk = func(v any, path string) {
		switch x := v.(type) {
		case map[string]any:
			fn(path, x)
			for k, c := range x {
				walk(c, path+"."+k)
			}
		case []any:
			for _, c := range x {
				walk(c, path)
			}
		}
	}
	walk(root, "")
	b, _ := json.Marshal(root)
	return b
}

// mistypedDocs: copies of a valid document in which one leaf member (seeded choice, n of them) holds a value
// of another JSON type: an object, an array or a boolean for a string or a number; a non-numeric string
// for a number
func mistypedDocs(r rng, doc []byte, n int) []namedBytes {
	var root any
	if json.Unmarshal(doc, &root) != nil {
		return nil
	}
	type leaf struct {
		parent map[string]any
		key    string
		path   string
	}
	var leaves []leaf
	var walk func(v any, path string)
	walk = func(v any, path string) {
		switch x := v.(type) {
		case map[string]any:
			keys := make([]string, 0, len(x))
			for k := range x {
				keys = append(keys, k)
			}
			sort.Strings(keys)
			for _, k := range keys {
				switch x[k].(type) {
				case map[string]any, []any:
					walk(x[k], path+"."+k)
				case nil:
				default:
					leaves = append(leaves, leaf{x, k, path + "." + k})
				}
			}
		case []any:
			if len(x) > 0 {
				walk(x[0], path+"[0]")
			}
		}
	}
	walk(root, "")
	var out []namedBytes
	for i := 0; i < n && len(leaves) > 0; i++ {
		l := leaves[r.Intn(len(leaves))]
		old := l.parent[l.key]
		var bad any
		switch r.Intn(4) {
		case 0:
			bad = map[string]any{"x": 1}
		case 1:
			bad = []any{1}
		case 2:
			bad = true
		default:
			if _, isNum := old.(float64); isNum {
				bad = "12x"
			} else {
				bad = 7.5
			}
		}
		l.parent[l.key] = bad
		b, _ := json.Marshal(root)
		l.parent[l.key] = old
		kind := "object"
		switch bad.(type) {
		case []any:
			kind = "array"
		case bool:
			kind = "bool"
		case string:
			kind = "text-for-number"
		case float64:
			kind = "number-for-text"
		}
		name := l.path
		if j := strings.LastIndex(name, "."); j >= 0 {
			if k := strings.LastIndex(name[:j], "."); k >= 0 {
				name = name[k+1:]
			}
		}
		out = append(out, namedBytes{"json-mistyped-member:" + strings.Trim(name, ".") + ":" + kind, b, true})
	}
	return out
}

// blankDerived removes / zeroes the members a build would compute: embedded lengths, control totals,
// sequence and record numbers.
func blankDerived(v any) {
	switch x := v.(type) {
	case map[string]any:
		for k, c := range x {
			switch k {
			case "lengthImageData", "lengthImageReferenceKey", "lengthDigitalSignature":
				delete(x, k)
			case "bundleItemsCount", "bundleTotalAmount", "micrValidTotalAmount", "bundleImagesCount", "cashLetterItemsCount",
				"cashLetterTotalAmount", "cashLetterImagesCount", "cashLetterBundleCount":
				x[k] = 0
			case "bundleSequenceNumber", "BundleSequenceNumber", "eceInstitutionItemSequenceNumber":
				x[k] = ""
			default:
				blankDerived(c)
			}
		}
	case []any:
		for _, c := range x {
			blankDerived(c)
		}
	}
}

// blankLengths removes only the embedded length members of the image view data records.
func blankLengths(v any) {
	switch x := v.(type) {
	case map[string]any:
		for k, c := range x {
			switch k {
			case "lengthImageData":
				delete(x, k)
			default:
				blankLengths(c)
			}
		}
	case []any:
		for _, c := range x {
			blankLengths(c)
		}
	}
}

// controlCharDoc: a valid document whose file header carries a bell character in a validated member
func controlCharDoc(doc []byte) []byte {
	var m map[string]any
	if json.Unmarshal(doc, &m) != nil {
		return doc
	}
	if h, ok := m["fileHeader"].(map[string]any); ok {
		h["immediateDestinationName"] = "Citadel\u0007\u00e9"
	}
	b, _ := json.Marshal(m)
	return b
}

func lastRecordOffset(lp []byte) int {
	off, last := 0, -1
	for off+4 <= len(lp) {
		n := int(lp[off])<<24 | int(lp[off+1])<<16 | int(lp[off+2])<<8 | int(lp[off+3])
		if off+4+n > len(lp) {
			break
		}
		last = off
		off += 4 + n
	}
	return last
}

type apiGen struct {
	r     rng
	p     *apiPools
	ids   []string // IDs seen so far (client-chosen and server-generated)
	wBad  int      // percent of requests built to be bad
	wRead int      // percent of read-only requests
}

var contentTypes = []string{"application/json", "application/json; charset=utf-8", "text/plain", "application/octet-stream", "", "application/xml", "APPLICATION/JSON"}
var acceptVals = []string{"", "application/json", "application/octet-stream", "text/plain", "*/*", "text/plain; charset=utf-8", "application/xml"}

func (g *apiGen) anyID() string {
	switch k := g.r.Intn(10); {
	case k == 0:
		return "nope-" + g.r.asciiStr(3, "abc")
	case k == 1 && g.wBad > 0:
		return ""
	}
	if len(g.ids) == 0 {
		return "nope-0"
	}
	return g.ids[g.r.Intn(len(g.ids))]
}

func (g *apiGen) knownID() string {
	if len(g.ids) == 0 {
		return "nope-0"
	}
	return g.ids[g.r.Intn(len(g.ids))]
}

func (g *apiGen) create(bad bool) *apiReq {
	r := g.r
	q := &apiReq{}
	if r.Intn(2) == 0 {
		q.Kind = "c1"
		if bad {
			b := g.p.badBodies[r.Intn(len(g.p.badBodies))]
			q.Body, q.Note = b.b, "bad:"+b.name
			q.CT = contentTypes[r.Intn(len(contentTypes))]
			if strings.HasPrefix(b.name, "json") {
				q.CT = "application/json"
			}
			if b.name == "x9-ascii-as-ebcdic" && strings.Contains(q.CT, "application/json") {
				q.CT = "text/plain"
			}
			return q
		}
		if r.Intn(2) == 0 {
			k := r.Intn(len(g.p.jsonDocs))
			q.Body, q.CT = g.p.jsonDocs[k], []string{"application/json", "application/json; charset=utf-8"}[r.Intn(2)]
			q.Src = "clean"
		} else {
			k := r.Intn(len(g.p.x9E))
			q.Body, q.CT = g.p.x9E[k], []string{"text/plain", "application/octet-stream", ""}[r.Intn(3)]
			if k%2 == 0 { // odd entries carry stale control records
				q.Src = "clean"
			}
		}
		return q
	}
	q.Kind = "c2"
	q.Accept = acceptVals[r.Intn(len(acceptVals))]
	if bad {
		switch r.Intn(4) {
		case 0: // unsupported content type with a perfectly good body
			q.Body, q.CT, q.Note = g.p.jsonDocs[0], []string{"text/plain", "", "application/xml"}[r.Intn(3)], "bad:unsupported-content-type"
		case 1:
			q.Multipart, q.Note = "nofile", "bad:multipart-without-file-part"
		default:
			b := g.p.badBodies[r.Intn(len(g.p.badBodies))]
			q.Body, q.Note = b.b, "bad:"+b.name
			if strings.HasPrefix(b.name, "json") || r.Intn(3) == 0 {
				q.CT = "application/json"
				if !strings.HasPrefix(b.name, "json") && b.name != "empty" && b.name != "random-bytes" {
					q.CT = ""
					q.Multipart = "file:application/octet-stream"
				}
			} else if b.name == "x9-ascii-as-ebcdic" {
				q.Multipart = "file:application/octet-stream"
			} else {
				q.Multipart = []string{"file:text/plain", "file:application/octet-stream", "file:"}[r.Intn(3)]
			}
		}
		return q
	}
	switch r.Intn(3) {
	case 0:
		q.Body, q.CT = g.p.jsonDocs[r.Intn(len(g.p.jsonDocs))], "application/json"
		q.Src = "clean"
	case 1:
		k := r.Intn(len(g.p.x9A))
		q.Body, q.Multipart = g.p.x9A[k], "file:text/plain"
		if k%2 == 0 {
			q.Src = "clean"
		}
	default:
		k := r.Intn(len(g.p.x9E))
		q.Body, q.Multipart = g.p.x9E[k], []string{"file:application/octet-stream", "file:"}[r.Intn(2)]
		if k%2 == 0 {
			q.Src = "clean"
		}
	}
	return q
}

func (g *apiGen) next() *apiReq {
	r := g.r
	if r.Intn(100) < g.wBad {
		// a request that is bad in exactly one way (or addresses an unknown / empty file)
		switch r.Intn(6) {
		case 0, 1:
			return g.create(true)
		case 2:
			b := g.p.headers[r.Intn(len(g.p.headers))]
			for !b.bad {
				b = g.p.headers[r.Intn(len(g.p.headers))]
			}
			return &apiReq{Kind: "upd", ID: g.knownID(), Body: b.b, Note: "bad:" + b.name}
		case 3:
			b := g.p.cashLts[r.Intn(len(g.p.cashLts))]
			for !b.bad {
				b = g.p.cashLts[r.Intn(len(g.p.cashLts))]
			}
			return &apiReq{Kind: "add", ID: g.knownID(), Body: b.b, Note: "bad:" + b.name}
		default:
			id := "nope-" + r.asciiStr(3, "xyz")
			note := "bad:unknown-file"
			switch r.Intn(8) {
			case 0, 1:
				id, note = "", "bad:empty-id"
			case 2, 3:
				// an ID that is NOT stored but is close to one that is: other letter case, one character more or less
				if k := g.knownID(); k != "nope-0" {
					switch r.Intn(3) {
					case 0:
						if sw := swapCase(k); sw != k {
							id, note = sw, "bad:unknown-file-other-case"
						}
					case 1:
						id, note = k+"x", "bad:unknown-file-longer"
					default:
						if len(k) > 1 {
							id, note = k[:len(k)-1], "bad:unknown-file-shorter"
						}
					}
					for _, have := range g.ids {
						if have == id {
							id, note = "nope-"+r.asciiStr(3, "xyz"), "bad:unknown-file"
						}
					}
				}
			case 4:
				// percent-escapes that decode to bytes which are not UTF-8, to a blank, to an encoded slash
				id, note = []string{"%ff", "ok%c3%28x", "%20", "a%2Fb", "%e2%82"}[r.Intn(5)], "bad:unknown-file-escaped-id"
			}
			k := []string{"get", "del", "cont", "val", "upd", "add", "rem"}[r.Intn(7)]
			q := &apiReq{Kind: k, ID: id, Note: note}
			switch k {
			case "upd":
				q.Body = g.p.headers[0].b
			case "add":
				q.Body = g.p.cashLts[0].b
			case "rem":
				q.CID = g.p.clIDs[r.Intn(len(g.p.clIDs))]
			}
			return q
		}
	}
	if r.Intn(100) < g.wRead {
		k := []string{"list", "get", "cont", "val"}[r.Intn(4)]
		q := &apiReq{Kind: k, ID: g.anyID()}
		if k == "list" {
			q.ID = ""
		}
		if r.Intn(5) == 0 {
			q.ReqID = "rq-" + r.asciiStr(4, "0123456789")
		}
		return q
	}
	switch r.Intn(10) {
	case 0, 1, 2:
		return g.create(false)
	case 3, 4:
		b := g.p.headers[r.Intn(len(g.p.headers))]
		for b.bad {
			b = g.p.headers[r.Intn(len(g.p.headers))]
		}
		q := &apiReq{Kind: "upd", ID: g.anyID(), Body: b.b}
		if b.name == "valid-header" {
			q.Src = "clean"
		}
		return q
	case 5, 6:
		b := g.p.cashLts[r.Intn(len(g.p.cashLts))]
		for b.bad {
			b = g.p.cashLts[r.Intn(len(g.p.cashLts))]
		}
		q := &apiReq{Kind: "add", ID: g.anyID(), Body: b.b}
		if b.name == "valid-cashletter" {
			q.Src = "clean"
		}
		return q
	case 7, 8:
		return &apiReq{Kind: "rem", ID: g.anyID(), CID: g.p.clIDs[r.Intn(len(g.p.clIDs))]}
	default:
		return &apiReq{Kind: "del", ID: g.anyID()}
	}
}

func swapCase(s string) string {
	b := []byte(s)
	for i, c := range b {
		switch {
		case c >= 'a' && c <= 'z':
			b[i] = c - 32
		case c >= 'A' && c <= 'Z':
			b[i] = c + 32
		}
	}
	return string(b)
}

func isReadKind(k string) bool { return k == "list" || k == "get" || k == "cont" || k == "val" }

type apiStep struct {
	q      *apiReq
	r      apiResp
	line   string
	store  string // abstraction of the repository after the request
	before string // deep snapshot before
	after  string // deep snapshot after
	reused string // server-generated ID that was already taken (or the uploaded document's own)
	undec  string // rendered contents (200) that the reader does not decode back to the stored records
}

// runHistoryReal executes a generated history against a fresh server.
func runHistoryReal(g *apiGen, reg *registry, n int, fixed []*apiReq) []apiStep {
	env := newAPIEnv(reg)
	defer env.close()
	var steps []apiStep
	// files whose whole history consists of payloads that are valid on their own: for those the rendered
	// contents must decode back to the stored records
	clean := map[string]bool{}
	lastID := "nope-0"
	for i := 0; i < n || i < len(fixed); i++ {
		var q *apiReq
		if i < len(fixed) {
			q = fixed[i]
		} else {
			q = g.next()
		}
		if q.ID == "@last" {
			// directed histories address the file the server created last (v2 draws the ID)
			cp := *q
			cp.ID = lastID
			q = &cp
		}
		st := apiStep{q: q, before: env.storeSnap()}
		taken := map[string]bool{}
		if fs, err := env.repo.GetFiles(); err == nil {
			for _, f := range fs {
				taken[f.ID] = true
			}
		}
		st.r = env.do(q)
		if st.r.Status == 201 && (q.Kind == "c2" || q.Kind == "c1") {
			var up struct {
				ID string `json:"id"`
			}
			isJSON := strings.Contains(q.CT, "application/json") && json.Unmarshal(q.Body, &up) == nil
			id := createdID(st.r)
			// v2 always draws a new ID; v1 keeps the ID of a JSON upload and draws one otherwise
			mustBeFresh := q.Kind == "c2" || !isJSON || up.ID == ""
			if mustBeFresh && (taken[id] || (isJSON && up.ID != "" && id == up.ID)) {
				st.reused = id
			}
		}
		switch {
		case (q.Kind == "c1" || q.Kind == "c2") && st.r.Status == 201:
			clean[createdID(st.r)] = q.Src == "clean"
		case (q.Kind == "upd" || q.Kind == "add") && st.r.Status/100 == 2 && q.Src != "clean":
			clean[q.ID] = false
		}
		if q.Kind == "cont" && st.r.Status == 200 && clean[q.ID] {
			if stored, err := env.repo.GetFile(q.ID); err == nil && stored != nil {
				back, rerr, pn := realRead(st.r.Body, encCfg{LP: true, EBCDIC: true}, 1<<24)
				switch {
				case pn != nil:
					st.undec = fmt.Sprint("reader panics: ", pn)
				case rerr != nil:
					st.undec = "reader refuses them: " + rerr.Error()
				case census(dumpFile(&back)) != census(dumpFile(stored)):
					st.undec = "records read back " + census(dumpFile(&back)) + ", records stored " + census(dumpFile(stored))
				}
			}
		}
		st.after = env.storeSnap()
		st.line = env.modelLine(q, st.r)
		st.store = env.storeDump()
		if (q.Kind == "c1" || q.Kind == "c2") && st.r.Status == 201 {
			if id := createdID(st.r); id != "zz-none" && idSafe(id) {
				lastID = id
				if g != nil {
					g.ids = append(g.ids, id)
				}
			}
		}
		steps = append(steps, st)
	}
	return steps
}

func reqsOf(steps []apiStep) []*apiReq {
	var out []*apiReq
	for _, s := range steps {
		out = append(out, s.q)
	}
	return out
}

func runAPI(cfg *config, prop string) *Report {
	rep := newReport(prop, cfg.tier, cfg.seed)
	seedOff := map[string]int64{"C11": 11000, "C13": 13000, "C14": 14000}[prop]
	r := newRng(cfg.seed + seedOff)
	nHist, hLen := 40, 24
	if cfg.tier == "thorough" {
		nHist, hLen = 1200, 32
	}
	wBad, wRead := 12, 30
	switch prop {
	case "C13":
		wBad, wRead = 55, 15
	case "C14":
		wBad, wRead = 5, 60
	}
	rep.Rule = "request histories (all ten endpoints, v1 and v2 create in every content-type / Accept variant, valid and invalid payloads, known / unknown / empty IDs) run against the real handlers behind a TCP listener; every response and the repository content after every request are compared with the Lean handler model fed with the library's own verdict on each payload; deep snapshots of the repository are compared around read-only and bad requests; non-trivial = request whose response is not 404; distinct by (model request, model response)"
	pools := buildPools(r, 6)
	var replayFixed [][]*apiReq
	if cfg.replay != "" {
		replayFixed = loadAPIReplay(cfg.replay)
		nHist = len(replayFixed)
	}
	type hist struct {
		steps []apiStep
	}
	var hs []hist
	var lines []string
	reg := newRegistry()
	regFRB := newRegistry()
	// directed histories first: every JSON document created under its own ID, every kind of cash letter body
	// added to it, every read-only request before and after - with FRB compatibility mode off and on
	type directedHist struct {
		frb  bool
		reqs []*apiReq
	}
	var directed []directedHist
	if replayFixed == nil {
		pick := func(name string, want func(b []byte) bool) *namedBytes {
			for i := range pools.cashLts {
				if pools.cashLts[i].name == name && (want == nil || want(pools.cashLts[i].b)) {
					return &pools.cashLts[i]
				}
			}
			return nil
		}
		hasRNS := func(b []byte) bool { return bytes.Contains(b, []byte(`"routingNumberSummary":[{`)) }
		for k, doc := range pools.jsonDocs {
			id := pools.jsonIDs[k]
			if id == "" {
				continue
			}
			for _, frb := range []bool{false, true} {
				reads := func() []*apiReq {
					return []*apiReq{{Kind: "get", ID: id}, {Kind: "val", ID: id}, {Kind: "get", ID: id}, {Kind: "cont", ID: id}, {Kind: "get", ID: id}, {Kind: "list"}}
				}
				reqs := []*apiReq{{Kind: "c1", Body: doc, CT: "application/json", Src: "clean"}}
				reqs = append(reqs, reads()...)
				for _, cb := range []*namedBytes{pick("valid-cashletter", hasRNS), pick("valid-cashletter", nil), pick("cashletter-blank-truncation", nil), pick("raw-cashletter", nil), pick("cashletter-without-controls", nil)} {
					if cb == nil {
						continue
					}
					q := &apiReq{Kind: "add", ID: id, Body: cb.b}
					if cb.name == "valid-cashletter" {
						q.Src = "clean"
					}
					reqs = append(reqs, q)
					reqs = append(reqs, reads()...)
				}
				// the same cash letter document added a second time (two cash letters under one ID), then removed by
				// that ID (the reference model keeps none of them), reads, and a second removal of the now unknown ID
				if cb := pick("valid-cashletter", nil); cb != nil && !frb {
					var probe struct {
						ID string `json:"id"`
					}
					if json.Unmarshal(cb.b, &probe) == nil && probe.ID != "" {
						reqs = append(reqs, &apiReq{Kind: "add", ID: id, Body: cb.b, Src: "clean"}, &apiReq{Kind: "get", ID: id},
							&apiReq{Kind: "rem", ID: id, CID: probe.ID})
						reqs = append(reqs, reads()...)
						reqs = append(reqs, &apiReq{Kind: "rem", ID: id, CID: probe.ID}, &apiReq{Kind: "get", ID: id})
					}
				}
				directed = append(directed, directedHist{frb, reqs})
			}
		}
		var emptied, bigUpload []directedHist
		// a file emptied one cash letter at a time, reads after each removal, then removals from the EMPTY file (the ID
		// just removed, an ID never known), reads, a cash letter added again, reads
		for k, doc := range pools.jsonDocs {
			id := pools.jsonIDs[k]
			var probe struct {
				CashLetters []struct {
					ID string `json:"id"`
				} `json:"cashLetters"`
			}
			if id == "" || k > 1 || json.Unmarshal(doc, &probe) != nil || len(probe.CashLetters) == 0 {
				continue
			}
			reqs := []*apiReq{{Kind: "c1", Body: doc, CT: "application/json", Src: "clean"}, {Kind: "get", ID: id}}
			last := ""
			for _, c := range probe.CashLetters {
				if c.ID == "" {
					continue
				}
				last = c.ID
				reqs = append(reqs, &apiReq{Kind: "rem", ID: id, CID: c.ID}, &apiReq{Kind: "get", ID: id}, &apiReq{Kind: "list"})
			}
			if last == "" {
				continue
			}
			reqs = append(reqs, &apiReq{Kind: "rem", ID: id, CID: last}, &apiReq{Kind: "get", ID: id}, &apiReq{Kind: "rem", ID: id, CID: "never-known"},
				&apiReq{Kind: "get", ID: id}, &apiReq{Kind: "val", ID: id}, &apiReq{Kind: "cont", ID: id}, &apiReq{Kind: "list"})
			if cb := pick("valid-cashletter", nil); cb != nil {
				reqs = append(reqs, &apiReq{Kind: "add", ID: id, Body: cb.b, Src: "clean"}, &apiReq{Kind: "get", ID: id}, &apiReq{Kind: "list"})
			}
			emptied = append(emptied, directedHist{false, reqs})
		}
		// a raw X9 upload, then the same bytes without their File Header record (raw and as a v2 form), then the whole file
		// again: what one upload decoded is nothing a later one may start from
		if len(pools.x9E) > 0 && len(pools.x9E[0]) > 84 && len(pools.x9A) > 0 && len(pools.x9A[0]) > 84 {
			reqs := []*apiReq{{Kind: "c1", CT: "application/octet-stream", Body: pools.x9E[0], Src: "clean"},
				{Kind: "c1", CT: "application/octet-stream", Body: pools.x9E[0][84:], Note: "bad:x9-without-file-header"}, {Kind: "list"},
				{Kind: "c2", Body: pools.x9A[0], Multipart: "file:text/plain", Src: "clean"},
				{Kind: "c2", Body: pools.x9A[0][84:], Multipart: "file:text/plain", Note: "bad:x9-without-file-header"}, {Kind: "list"},
				{Kind: "c1", CT: "application/octet-stream", Body: pools.x9E[0], Src: "clean"}, {Kind: "list"}}
			bigUpload = append(bigUpload, directedHist{false, reqs})
		}
		// an upload of more than 64 KiB through the multipart form of v2 (both character sets), then reads of what was stored
		if len(pools.bigX9) == 2 {
			reqs := []*apiReq{{Kind: "c2", Body: pools.bigX9[0], Multipart: "file:application/octet-stream", Src: "clean"}, {Kind: "get", ID: "@last"}, {Kind: "cont", ID: "@last"},
				{Kind: "c2", Body: pools.bigX9[1], Multipart: "file:text/plain", Src: "clean"}, {Kind: "get", ID: "@last"}, {Kind: "val", ID: "@last"}, {Kind: "list"}}
			bigUpload = append(bigUpload, directedHist{false, reqs})
			rep.count(fmt.Sprintf("directed:big-multipart-upload:%dKiB", len(pools.bigX9[0])>>10))
		}
		// a return file with zoned dates created through v2 WITHOUT being JSON-encoded in the answer, then only read
		if pools.zonedReturnDoc != nil {
			reqs := []*apiReq{{Kind: "c2", Body: pools.zonedReturnDoc, CT: "application/json", Accept: "text/plain", Src: "clean"},
				{Kind: "cont", ID: "@last"}, {Kind: "get", ID: "@last"}, {Kind: "cont", ID: "@last"}, {Kind: "list"}, {Kind: "cont", ID: "@last"}, {Kind: "val", ID: "@last"}, {Kind: "get", ID: "@last"}}
			directed = append([]directedHist{{false, reqs}}, directed...)
		}
		// a file whose rendering fails late (after kilobytes of output), read in turn with a file that renders: no
		// answer may carry anything of the failed rendering
		if bad := pick("cashletter-view-count-mismatch", nil); bad != nil && len(pools.jsonIDs) >= 2 && pools.jsonIDs[0] != "" && pools.jsonIDs[1] != "" {
			a, b := pools.jsonIDs[0], pools.jsonIDs[1]
			reqs := []*apiReq{{Kind: "c1", Body: pools.jsonDocs[0], CT: "application/json", Src: "clean"}, {Kind: "c1", Body: pools.jsonDocs[1], CT: "application/json", Src: "clean"},
				{Kind: "cont", ID: b}, {Kind: "add", ID: a, Body: bad.b}}
			for i := 0; i < 6; i++ {
				reqs = append(reqs, &apiReq{Kind: "cont", ID: a}, &apiReq{Kind: "cont", ID: b})
			}
			reqs = append(reqs, &apiReq{Kind: "get", ID: b}, &apiReq{Kind: "val", ID: a}, &apiReq{Kind: "cont", ID: b})
			directed = append([]directedHist{{false, reqs}}, directed...)
		}
		// two different documents submitted under ONE file ID, with reads in between: the second submission replaces the
		// file, and every later read answers with the second
		if len(pools.jsonDocs) >= 2 && pools.jsonIDs[0] != "" && pools.jsonIDs[1] != "" {
			a, b := pools.jsonIDs[0], pools.jsonIDs[1]
			second := bytes.Replace(pools.jsonDocs[1], []byte(`"id":"`+b+`"`), []byte(`"id":"`+a+`"`), 1)
			if !bytes.Equal(second, pools.jsonDocs[1]) {
				reqs := []*apiReq{{Kind: "c1", Body: pools.jsonDocs[0], CT: "application/json", Src: "clean"}, {Kind: "get", ID: a}, {Kind: "cont", ID: a}, {Kind: "get", ID: a},
					{Kind: "c1", Body: second, CT: "application/json", Src: "clean"}, {Kind: "get", ID: a}, {Kind: "cont", ID: a}, {Kind: "list"}, {Kind: "val", ID: a}, {Kind: "get", ID: a}}
				directed = append([]directedHist{{false, reqs}}, directed...)
			}
		}
		// twins: the rendering of one file must not depend on which file was rendered before it
		if pools.twinDocs[0] != nil {
			reqs := []*apiReq{{Kind: "c1", Body: pools.twinDocs[0], CT: "application/json", Src: "clean"}, {Kind: "c1", Body: pools.twinDocs[1], CT: "application/json", Src: "clean"},
				{Kind: "c1", Body: pools.twinDocs[2], CT: "application/json", Src: "clean"},
				{Kind: "cont", ID: "twin-p"}, {Kind: "cont", ID: "twin-q"}, {Kind: "cont", ID: "twin-r"}, {Kind: "cont", ID: "twin-q"}, {Kind: "cont", ID: "twin-p"}, {Kind: "get", ID: "twin-q"},
				{Kind: "cont", ID: "twin-r"}, {Kind: "cont", ID: "twin-p"}, {Kind: "cont", ID: "twin-q"}, {Kind: "list"}}
			directed = append([]directedHist{{false, reqs}}, directed...)
		}
		// a well-filled store: more than two hundred files created one after the other (the server draws the IDs), the last one read,
		// the list fetched, the last one read again (limits and paging of the list must not touch what is stored)
		if len(pools.jsonDocs) > 0 {
			big := 0
			for k := range pools.jsonDocs {
				if len(pools.jsonDocs[k]) > len(pools.jsonDocs[big]) {
					big = k
				}
			}
			small := 0
			for k := range pools.jsonDocs {
				if len(pools.jsonDocs[k]) < len(pools.jsonDocs[small]) {
					small = k
				}
			}
			var reqs []*apiReq
			for i := 0; i < 30; i++ {
				reqs = append(reqs, &apiReq{Kind: "c2", Body: pools.jsonDocs[(big+i)%len(pools.jsonDocs)], CT: "application/json", Src: "clean"})
			}
			// past any page size a listing might apply by default: every stored file is listed
			for i := 0; i < 180; i++ {
				reqs = append(reqs, &apiReq{Kind: "c2", Body: pools.jsonDocs[small], CT: "application/json", Src: "clean"})
			}
			reqs = append(reqs, &apiReq{Kind: "c2", Body: pools.jsonDocs[big], CT: "application/json", Src: "clean"},
				&apiReq{Kind: "get", ID: "@last"}, &apiReq{Kind: "cont", ID: "@last"}, &apiReq{Kind: "list"}, &apiReq{Kind: "get", ID: "@last"},
				&apiReq{Kind: "cont", ID: "@last"}, &apiReq{Kind: "list"}, &apiReq{Kind: "val", ID: "@last"}, &apiReq{Kind: "get", ID: "@last"})
			directed = append([]directedHist{{false, reqs}}, directed...)
		}
		if len(emptied) > 0 {
			directed = append([]directedHist{emptied[0]}, append(directed, emptied[1:]...)...)
		}
		directed = append(bigUpload, directed...)
		if cfg.tier != "thorough" && len(directed) > 16 {
			directed = directed[:16]
		}
		nHist += len(directed)
	}
	frbOf := func(h int) bool {
		if h < len(directed) {
			return directed[h].frb
		}
		return replayFixed == nil && h%5 == 3
	}
	for h := 0; h < nHist; h++ {
		g := &apiGen{r: r, p: pools, wBad: wBad, wRead: wRead}
		var fixed []*apiReq
		n := hLen
		if replayFixed != nil {
			fixed, n = replayFixed[h], 0
		} else if h < len(directed) {
			fixed, n = directed[h].reqs, 0
			rep.count("history:directed")
		} else if h%4 == 0 {
			// start from a populated store
			for k := 0; k < 3; k++ {
				fixed = append(fixed, g.create(false))
			}
			n = hLen
		}
		// every fifth history runs with FRB compatibility mode on (the library's verdicts are taken in the same mode)
		hreg := reg
		if frbOf(h) {
			hreg = regFRB
			setFRB(true)
			rep.count("history:frb-mode-on")
		}
		steps := runHistoryReal(g, hreg, n, fixed)
		setFRB(false)
		hs = append(hs, hist{steps})
		var ls []string
		for _, s := range steps {
			ls = append(ls, s.line)
		}
		lines = append(lines, "api\t"+strings.Join(ls, "|"))
	}
	outs, err := leanParallel(cfg.driver, lines, 8)
	if err != nil {
		rep.violate(Violation{Key: prop + ":driver", What: "Lean driver failed: " + err.Error(), Replay: nil, NoInput: true})
		return rep
	}
	for h, hi := range hs {
		hreg := reg
		setFRB(false)
		if frbOf(h) {
			hreg = regFRB
			setFRB(true)
		}
		ms := strings.Split(outs[h], "|")
		if len(ms) != len(hi.steps) {
			rep.violate(Violation{Key: prop + ":driver-shape", What: "driver answered " + outs[h], Replay: map[string]any{"history": reqsOf(hi.steps)}, NoInput: true})
			continue
		}
		// what each read answered since the last request that may change the store
		lastRead := map[string]string{}
		for i, s := range hi.steps {
			if !isReadKind(s.q.Kind) {
				lastRead = map[string]string{}
			} else if s.q.Kind != "list" && s.r.Dropped == "" {
				k := s.q.Kind + " " + s.q.ID + " " + s.q.Accept
				cur := fmt.Sprintf("%d %x", s.r.Status, sha1.Sum(s.r.Body))
				if prev, ok := lastRead[k]; ok && prev != cur {
					rep.violate(Violation{Key: "C14:read-answered-differently:" + s.q.Kind, What: "the same read-only request is answered differently although only read-only requests were made in between",
						Replay: map[string]any{"history": reqsOf(hi.steps[:i+1]), "failing_request_index": i, "request": s.q.Kind + " " + s.q.ID, "earlier": prev, "now": cur, "real_body_head": headStr(s.r.Body, 300)}})
				}
				lastRead[k] = cur
			}
			rep.Evaluations++
			rep.CorrOps++
			rep.count("kind:" + s.q.Kind)
			rep.count(fmt.Sprintf("status:%d", s.r.Status))
			if len(s.q.Body) > 65536 {
				rep.count(fmt.Sprintf("upload-above-64KiB:%s:%d", s.q.Kind, s.r.Status))
			}
			if s.q.Note != "" {
				rep.count(s.q.Note)
			}
			mm := strings.SplitN(ms[i], "#", 2)
			mresp, mstore := mm[0], ""
			if len(mm) == 2 {
				mstore = sortStoreDump(mm[1])
			}
			if !strings.HasPrefix(mresp, "404") {
				rep.nontrivial(s.line + " => " + mresp)
			}
			replay := map[string]any{"history": reqsOf(hi.steps[:i+1]), "failing_request_index": i, "model_request": s.line,
				"model_response": mresp, "real_status": s.r.Status, "real_body_head": headStr(s.r.Body, 300), "dropped": s.r.Dropped}
			// 1. correspondence: response
			if d := e2(hreg, mresp, s.q, s.r); d != "" {
				rep.CorrDisagree++
				key, what := classifyAPI(prop, s, mresp, d)
				rep.violate(Violation{Key: key, What: what, Replay: replay})
			}
			// 2. correspondence: store content after the request
			if mstore != s.store {
				rep.CorrDisagree++
				rep.violate(Violation{Key: prop + ":store-differs:" + s.q.Kind, What: "after " + s.q.Kind + " the repository holds " + s.store + " but the reference map holds " + mstore, Replay: replay})
			}
			if s.reused != "" {
				rep.violate(Violation{Key: "C11:create-reused-id:" + s.q.Kind, What: "a create that must store the upload under a new ID answered with " + s.reused + ", an ID already taken / the upload's own: an existing file is replaced instead of a new one being listed", Replay: replay})
			}
			if s.undec != "" {
				rep.violate(Violation{Key: "C11:contents-do-not-decode-back", What: "GET contents answered 200 with bytes that do not decode back to the stored file: " + s.undec, Replay: replay})
			}
			// 3. property predicates on the implementation itself
			if isReadKind(s.q.Kind) && s.before != s.after {
				rep.violate(Violation{Key: "C14:store-changed-by:" + s.q.Kind, What: "a read-only request changed what the repository stores: " + firstSnapDiff(s.before, s.after), Replay: replay})
			}
			if strings.HasPrefix(s.q.Note, "bad:") {
				if s.before != s.after {
					rep.violate(Violation{Key: "C13:store-changed-by-bad:" + s.q.Kind, What: "a rejected request changed what the repository stores: " + firstSnapDiff(s.before, s.after), Replay: replay})
				}
				ok4 := s.r.Dropped == "" && (s.r.Status == 404 || s.r.Status == 405 && s.q.ID == "" || s.r.Status == 400 && isErrorJSON(s.r.Body))
				if !ok4 {
					rep.violate(Violation{Key: "C13:not-4xx:" + s.q.Kind + ":" + strings.TrimPrefix(s.q.Note, "bad:"), What: fmt.Sprintf("bad request (%s) answered with status %d %s", s.q.Note, s.r.Status, s.r.Dropped), Replay: replay})
				}
			}
			if i%97 == 0 {
				rep.sample(map[string]any{"request": s.line, "model": mresp, "status": s.r.Status})
			}
		}
	}
	setFRB(false)
	return rep
}

func e2(reg *registry, mresp string, q *apiReq, r apiResp) string {
	e := &apiEnv{reg: reg}
	return e.compareResp(mresp, q, r)
}

func headStr(b []byte, n int) string {
	if len(b) > n {
		b = b[:n]
	}
	return string(b)
}

// classifyAPI decides which property a response disagreement belongs to and names it structurally.
func classifyAPI(prop string, s apiStep, mresp, d string) (key, what string) {
	what = fmt.Sprintf("%s: real handler disagrees with the model (%s): %s", s.q.Kind, mresp, d)
	if strings.HasPrefix(d, "dropped") {
		return "C13:dropped:" + s.q.Kind, what
	}
	short := d
	if i := strings.IndexAny(short, ",:("); i > 0 {
		short = short[:i]
	}
	short = strings.ReplaceAll(strings.TrimSpace(short), " ", "-")
	return prop + ":resp:" + s.q.Kind + ":" + short, what
}

func loadAPIReplay(path string) [][]*apiReq {
	var rf struct {
		Replay struct {
			History []*apiReq `json:"history"`
		} `json:"replay"`
	}
	b, err := readFile(path)
	if err != nil || json.Unmarshal(b, &rf) != nil || len(rf.Replay.History) == 0 {
		return nil
	}
	return [][]*apiReq{rf.Replay.History}
}

func runC11(cfg *config) *Report { return runAPI(cfg, "C11") }
func runC13(cfg *config) *Report {
	rep := runAPI(cfg, "C13")
	// malformed requests behind uploads that broke off part-way (in-process, with a body reader that fails)
	rep.Evaluations += afterCutUploads(rep, newRng(cfg.seed+13500), "C13")
	return rep
}
func runC14(cfg *config) *Report { return runAPI(cfg, "C14") }

var _ = icl.NewFile
