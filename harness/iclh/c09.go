package main

import (
	"encoding/json"
	"fmt"
	"strings"

	icl "github.com/moov-io/imagecashletter"
)

func runC09(cfg *config) *Report {
	rep := newReport("C09", cfg.tier, cfg.seed)
	r := newRng(cfg.seed + 9000)
	rep.Rule = "generated valid files x every record of the file x every field of that record x each class of invalid value (blank, all zeros, a single zero, a code outside any table '~', an illegal character 0x01, a zero date) or of boundary value (every column of the field filled with letters / with nines); each faulted file is (a) built (every CashLetter.Create, File.Create) and validated, (b) encoded as JSON and loaded with FileFromJSON; whenever (a) or (b) accepts, the file is written (ASCII, newline) and read back: the reader must accept; non-trivial = the fault makes the record invalid on its own; distinct by (record type, field, class)"
	nFiles := 6
	if cfg.tier == "thorough" {
		nFiles = 18
	}
	classes := []struct {
		name string
		mk   func(w WField) (FV, bool)
	}{
		{"blank", func(w WField) (FV, bool) {
			switch kindOfConv(w.Conv) {
			case 'S':
				return FV{K: 'S'}, true
			case 'I':
				return FV{K: 'I', I: 0}, true
			case 'D':
				return FV{K: 'D', Y: 1, M: 1, D: 1}, true
			}
			return FV{}, false
		}},
		{"zeros", func(w WField) (FV, bool) {
			if kindOfConv(w.Conv) == 'S' && w.Width > 0 {
				return FV{K: 'S', S: []byte(strings.Repeat("0", w.Width))}, true
			}
			return FV{}, false
		}},
		{"full-width-letters", func(w WField) (FV, bool) {
			// every column of the field used (valid for free text: the neighbours must not bleed into each other)
			if kindOfConv(w.Conv) == 'S' && w.Width > 1 {
				return FV{K: 'S', S: []byte(strings.Repeat("Z", w.Width))}, true
			}
			return FV{}, false
		}},
		{"full-width-nines", func(w WField) (FV, bool) {
			if kindOfConv(w.Conv) == 'S' && w.Width > 1 {
				return FV{K: 'S', S: []byte(strings.Repeat("9", w.Width))}, true
			}
			return FV{}, false
		}},
		{"short-zero", func(w WField) (FV, bool) {
			// a zero written shorter than the column: rendered as all zeros by the zero-filling converters
			if kindOfConv(w.Conv) == 'S' && w.Width > 1 {
				return FV{K: 'S', S: []byte("0")}, true
			}
			return FV{}, false
		}},
		{"bad-code", func(w WField) (FV, bool) {
			if kindOfConv(w.Conv) == 'S' && w.Width > 0 {
				return FV{K: 'S', S: []byte(strings.Repeat("~", min(w.Width, 2)))}, true
			}
			if kindOfConv(w.Conv) == 'I' {
				return FV{K: 'I', I: 7}, true
			}
			return FV{}, false
		}},
		{"illegal-char", func(w WField) (FV, bool) {
			if kindOfConv(w.Conv) == 'S' && w.Width > 0 {
				return FV{K: 'S', S: []byte("\x01")}, true
			}
			return FV{}, false
		}},
	}
	seen := map[string]bool{}
	var corrOps, corrWant, corrDesc []string
	for fi := 0; fi < nFiles; fi++ {
		f, err := genFile(r, genOpts{maxCL: 1, maxBundles: 2, maxItems: 2, mutateP: 20, kind: 1 + fi%2, b64: 30, b64plain: true})
		if err != nil {
			fi--
			continue
		}
		// shapes in which a record is reached by the build through a different path: an item without
		// addenda but with image views / with addenda and without views; a cash letter with credit (61)
		// records and no credit items (62) / the reverse
		variant := (fi / 2) % 3
		if variant < 2 {
			for ci := range f.CashLetters {
				cl := &f.CashLetters[ci]
				for _, b := range cl.Bundles {
					if len(b.Checks) > 0 {
						cd := b.Checks[0]
						if variant == 0 {
							cd.CheckDetailAddendumA, cd.CheckDetailAddendumB, cd.CheckDetailAddendumC = nil, nil, nil
							cd.AddendumCount = 0
							if len(cd.ImageViewDetail) == 0 {
								cd.AddImageViewDetail(baseImageViewDetail())
								cd.AddImageViewData(mkIVData(r, genOpts{}))
								cd.AddImageViewAnalysis(baseImageViewAnalysis())
							}
						} else {
							cd.ImageViewDetail, cd.ImageViewData, cd.ImageViewAnalysis = nil, nil, nil
							// every addendum kind at least once: the matrix below must reach every record type
							if len(cd.CheckDetailAddendumA) == 0 {
								cd.AddCheckDetailAddendumA(baseCheckDetailAddendumA())
							}
							if len(cd.CheckDetailAddendumB) == 0 {
								cd.AddCheckDetailAddendumB(baseCheckDetailAddendumB())
							}
							if len(cd.CheckDetailAddendumC) == 0 {
								cd.AddCheckDetailAddendumC(baseCheckDetailAddendumC())
							}
							cd.AddendumCount = len(cd.CheckDetailAddendumA) + len(cd.CheckDetailAddendumB) + len(cd.CheckDetailAddendumC)
						}
					}
					if len(b.Returns) > 0 {
						rd := b.Returns[0]
						if variant == 0 {
							rd.ReturnDetailAddendumA, rd.ReturnDetailAddendumB, rd.ReturnDetailAddendumC, rd.ReturnDetailAddendumD = nil, nil, nil, nil
							rd.AddendumCount = 0
							if len(rd.ImageViewDetail) == 0 {
								rd.AddImageViewDetail(baseImageViewDetail())
								rd.AddImageViewData(mkIVData(r, genOpts{}))
								rd.AddImageViewAnalysis(baseImageViewAnalysis())
							}
						} else {
							rd.ImageViewDetail, rd.ImageViewData, rd.ImageViewAnalysis = nil, nil, nil
							if len(rd.ReturnDetailAddendumA) == 0 {
								rd.AddReturnDetailAddendumA(baseReturnDetailAddendumA())
							}
							if len(rd.ReturnDetailAddendumB) == 0 {
								rd.AddReturnDetailAddendumB(baseReturnDetailAddendumB())
							}
							if len(rd.ReturnDetailAddendumC) == 0 {
								rd.AddReturnDetailAddendumC(baseReturnDetailAddendumC())
							}
							if len(rd.ReturnDetailAddendumD) == 0 {
								rd.AddReturnDetailAddendumD(baseReturnDetailAddendumD())
							}
							rd.AddendumCount = len(rd.ReturnDetailAddendumA) + len(rd.ReturnDetailAddendumB) + len(rd.ReturnDetailAddendumC) + len(rd.ReturnDetailAddendumD)
						}
					}
				}
				if variant == 0 {
					cl.CreditItems = nil
					if len(cl.Credits) == 0 {
						cl.AddCredit(baseCredit())
					}
				} else {
					cl.Credits = nil
					if len(cl.CreditItems) == 0 {
						cl.AddCreditItem(baseCreditItem())
					}
				}
			}
			rebuilt := true
			for ci := range f.CashLetters {
				if err := f.CashLetters[ci].Create(); err != nil {
					rebuilt = false
				}
			}
			if !rebuilt || f.Create() != nil {
				fi--
				continue
			}
		}
		rep.count(fmt.Sprintf("file-shape:%d", variant))
		base, _ := json.Marshal(f)
		// enumerate the records once to know how many there are
		count := 0
		everyRecord(f, func(string, any) { count++ })
		for k := 0; k < count; k++ {
			var recName string
			idx := 0
			everyRecord(f, func(n string, rec any) {
				if idx == k {
					recName = n
				}
				idx++
			})
			L := layoutOf(recName)
			for _, w := range L.Write {
				if w.Conv == "lit" || w.Conv == "opaque" || strings.HasPrefix(w.Src, "reserved") {
					continue
				}
				type namedVal struct {
					name string
					fv   FV
				}
				var vals []namedVal
				for _, c0 := range classes {
					if fv, ok := c0.mk(w); ok {
						vals = append(vals, namedVal{c0.name, fv})
					}
				}
				// every VALID code of a coded member as well: a file may be accepted for writing with a value its reader
				// treats differently (container-level rules keyed on a code)
				if info := fieldInfos(L)[w.Src]; info != nil {
					if kindOfConv(w.Conv) == 'S' {
						for _, sv := range info.strTable {
							vals = append(vals, namedVal{"code:" + sv, FV{K: 'S', S: []byte(sv)}})
						}
					}
					if kindOfConv(w.Conv) == 'I' {
						for _, iv := range info.intTable {
							vals = append(vals, namedVal{fmt.Sprintf("code:%d", iv), FV{K: 'I', I: iv}})
						}
					}
				}
				// VALID dates that a hand-written calendar gets wrong (leap day of a century year, of an ordinary leap year,
				// a month end): accepted for writing, they must be read back
				if kindOfConv(w.Conv) == 'D' {
					for _, d := range [][3]int{{2000, 2, 29}, {2024, 2, 29}, {2019, 12, 31}} {
						vals = append(vals, namedVal{fmt.Sprintf("date:%04d-%02d-%02d", d[0], d[1], d[2]), FV{K: 'D', Y: d[0], M: d[1], D: d[2]}})
					}
				}
				for _, cl := range vals {
					fv := cl.fv
					key := recName + "." + w.Src + "/" + cl.name
					if seen[fmt.Sprint(variant, fi%2, key)] && cfg.tier != "thorough" {
						continue
					}
					// fresh copy of the file through JSON
					g, err := icl.FileFromJSON(base)
					if err != nil {
						rep.Notes = append(rep.Notes, "baseline JSON does not load: "+err.Error())
						break
					}
					var target any
					idx := 0
					everyRecord(g, func(n string, rec any) {
						if idx == k {
							target = rec
						}
						idx++
					})
					if target == nil {
						continue
					}
					old := getField(target, w.Src, kindOfConv(w.Conv))
					setField(target, w.Src, fv)
					// every faulted value is judged - also one the record's own Validate() lets through, since that
					// verdict is part of what is being checked; it only decides what counts as non-trivial
					invalidAlone := realValidate(target) != "ok"
					_ = old
					seen[fmt.Sprint(variant, fi%2, key)] = true
					rep.Evaluations++
					if invalidAlone {
						rep.nontrivial(fmt.Sprint(variant, fi%2, key))
					} else {
						rep.count("fault-valid-on-its-own")
					}
					rep.count("class:" + cl.name)
					rep.count("record:" + recName)
					beforeBuild := dumpFile(g)
					// (a) build + validate
					acceptedBuild := true
					func() {
						defer func() {
							if recover() != nil {
								acceptedBuild = false
							}
						}()
						for ci := range g.CashLetters {
							if err := g.CashLetters[ci].Create(); err != nil {
								acceptedBuild = false
							}
						}
						if acceptedBuild && (g.Create() != nil || g.Validate() != nil) {
							acceptedBuild = false
						}
					}()
					corrOps = append(corrOps, "build\t"+today()+"\t"+beforeBuild)
					if acceptedBuild {
						corrWant = append(corrWant, "ok")
					} else {
						corrWant = append(corrWant, "error")
					}
					corrDesc = append(corrDesc, key)
					// (b) JSON path
					js, _ := json.Marshal(g)
					h, jerr := icl.FileFromJSON(js)
					acceptedJSON := jerr == nil
					for _, path := range []struct {
						name string
						ok   bool
						file *icl.File
					}{{"build+validate", acceptedBuild, g}, {"FileFromJSON", acceptedJSON, h}} {
						if !path.ok {
							continue
						}
						// newline-framed ASCII always, and one of the three other renderings in rotation
						for _, e := range []encCfg{{}, allEnc[1+rep.Evaluations%3]} {
							out, werr, p := realWrite(path.file, e)
							if p != nil {
								continue
							}
							if werr != nil {
								continue // the writer itself refuses: nothing is produced that the reader could reject
							}
							_, rerr, _ := realRead(out, e, 1<<22)
							if rerr != nil && strings.Contains(rerr.Error(), "token too long") {
								// the record outgrew this harness' scanner buffer (a length field was set to its maximum):
								// a buffer-size matter (C16), not a refusal by a validator
								rep.count("record-larger-than-harness-buffer")
								continue
							}
							if rerr != nil {
								vkey := "C09:accepted-then-refused:" + recName
								if iv, isIV := target.(*icl.ImageViewData); isIV && w.Src == "LengthImageData" {
									if dec, derr := iv.DecodeImageData(); derr == nil && len(dec) > 0 {
										// the image is base64 text: it is written decoded, at its own size, whatever the length column says
										vkey += ":base64-image-and-length-column-disagree"
									}
								}
								rep.violate(Violation{Key: vkey, What: fmt.Sprintf("%s accepts a file whose %s.%s is invalid (%s), the bytes it writes (%s) are refused by the reader: %v", path.name, recName, w.Src, cl.name, e, rerr),
									Replay: map[string]any{"record": recName, "field": w.Src, "class": cl.name, "path": path.name, "encoding": e.String(), "json": string(js), "reader_error": rerr.Error()}})
								break
							}
						}
					}
					if rep.Evaluations%211 == 0 {
						rep.sample(map[string]any{"fault": key, "accepted_by_build": acceptedBuild, "accepted_by_json": acceptedJSON})
					}
				}
			}
		}
	}
	got, err := leanParallel(cfg.driver, corrOps, 16)
	if err != nil {
		fatal("driver: %v", err)
	}
	for i := range corrOps {
		rep.CorrOps++
		if firstWord(got[i]) != corrWant[i] {
			rep.CorrDisagree++
			rep.violate(Violation{Key: "C09:corr:build-verdict", What: "model build and Create()/Validate() disagree on whether a faulted file is accepted (" + corrDesc[i] + ")",
				Replay: map[string]any{"fault": corrDesc[i], "implementation": corrWant[i], "model": firstWord(got[i]), "op": corrOps[i][:min(len(corrOps[i]), 3000)]}, NoInput: true})
		}
	}
	c09Base64Length(rep, r)
	return rep
}

// c09Base64Length: the documented alternative form of an image (base64 text in ImageData, written decoded) with a length
// column that announces more than the decoded size: built and validated, written, read back.  Directed, so that the
// case is met on every run whatever the generator drew.
func c09Base64Length(rep *Report, r rng) {
	for tries := 0; tries < 50; tries++ {
		f, err := genFile(r, genOpts{maxCL: 1, maxBundles: 1, maxItems: 2, mutateP: 0, kind: 1})
		if err != nil {
			continue
		}
		var iv *icl.ImageViewData
		for _, b := range f.CashLetters[0].Bundles {
			for _, cd := range b.Checks {
				if iv == nil && len(cd.ImageViewData) > 0 {
					iv = &cd.ImageViewData[0]
				}
			}
		}
		if iv == nil {
			continue
		}
		iv.ImageData = []byte("SEVMTE9XT1JMRDE=") // "HELLOWORLD1"
		iv.LengthImageData = "0000020"
		ok := true
		for ci := range f.CashLetters {
			if f.CashLetters[ci].Create() != nil {
				ok = false
			}
		}
		if !ok || f.Create() != nil || f.Validate() != nil {
			rep.count("base64-length:refused-at-build")
			return
		}
		rep.Evaluations++
		for _, e := range allEnc {
			out, werr, p := realWrite(f, e)
			if p != nil || werr != nil {
				continue
			}
			if _, rerr, _ := realRead(out, e, 1<<22); rerr != nil {
				js, _ := json.Marshal(f)
				rep.violate(Violation{Key: "C09:accepted-then-refused:ImageViewData:base64-image-and-length-column-disagree",
					What:   fmt.Sprintf("build+validate accepts a file whose ImageViewData holds an 11-byte image as base64 text and announces 20 bytes in LengthImageData; the bytes it writes (%s) are refused by the reader: %v", e, rerr),
					Replay: map[string]any{"record": "ImageViewData", "field": "LengthImageData", "class": "announces-more-than-decoded", "encoding": e.String(), "json": string(js), "reader_error": rerr.Error()}})
				return
			}
		}
		rep.count("base64-length:read-back")
		return
	}
}
