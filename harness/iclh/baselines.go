// Valid baseline records, transcribed once from the mock constructors of the repository's own test files
// (they are not importable from outside the package).  Dates are fixed so that runs are reproducible.
package main

import (
	"time"

	icl "github.com/moov-io/imagecashletter"
)

var baseDate = time.Date(2018, 10, 3, 0, 0, 0, 0, time.UTC)
var baseTime = time.Date(0, 1, 1, 10, 15, 0, 0, time.UTC)

func baseBundleControl() *icl.BundleControl {
	bc := icl.NewBundleControl()
	bc.BundleItemsCount = 7
	bc.BundleTotalAmount = 100000    // 1000.00
	bc.MICRValidTotalAmount = 100000 // 1000.00
	bc.BundleImagesCount = 1
	bc.UserField = ""
	bc.CreditTotalIndicator = 0
	return bc
}

func baseBundleHeader() *icl.BundleHeader {
	bh := icl.NewBundleHeader()
	bh.CollectionTypeIndicator = "01"
	bh.DestinationRoutingNumber = "231380104"
	bh.ECEInstitutionRoutingNumber = "121042882"
	bh.BundleBusinessDate = baseDate
	bh.BundleCreationDate = baseDate
	bh.BundleID = "9999"
	bh.BundleSequenceNumber = "1"
	bh.CycleNumber = "01"
	bh.UserField = ""
	return bh
}

func baseCashLetterControl() *icl.CashLetterControl {
	clc := icl.NewCashLetterControl()
	clc.CashLetterBundleCount = 1
	clc.CashLetterItemsCount = 7
	clc.CashLetterTotalAmount = 100000 // 1000.00
	clc.CashLetterImagesCount = 1
	clc.ECEInstitutionName = "Wells Fargo"
	clc.SettlementDate = baseDate
	clc.CreditTotalIndicator = 0
	return clc
}

func baseCashLetterHeader() *icl.CashLetterHeader {
	clh := icl.NewCashLetterHeader()
	clh.CollectionTypeIndicator = "01"
	clh.DestinationRoutingNumber = "231380104"
	clh.ECEInstitutionRoutingNumber = "121042882"
	clh.CashLetterBusinessDate = baseDate
	clh.CashLetterCreationDate = baseDate
	clh.CashLetterCreationTime = baseTime
	clh.RecordTypeIndicator = "I"
	clh.DocumentationTypeIndicator = "G"
	clh.CashLetterID = "A1"
	clh.OriginatorContactName = "Contact Name"
	clh.OriginatorContactPhoneNumber = "5558675552"
	clh.FedWorkType = ""
	clh.ReturnsIndicator = ""
	clh.UserField = ""
	return clh
}

func baseCheckDetailAddendumA() icl.CheckDetailAddendumA {
	cdAddendumA := icl.NewCheckDetailAddendumA()
	cdAddendumA.RecordNumber = 1
	cdAddendumA.ReturnLocationRoutingNumber = "121042882"
	cdAddendumA.BOFDEndorsementDate = baseDate
	cdAddendumA.BOFDItemSequenceNumber = "1              "
	cdAddendumA.BOFDAccountNumber = "938383"
	cdAddendumA.BOFDBranchCode = "01"
	cdAddendumA.PayeeName = "Test Payee"
	cdAddendumA.TruncationIndicator = "Y"
	cdAddendumA.BOFDConversionIndicator = "1"
	cdAddendumA.BOFDCorrectionIndicator = 0
	cdAddendumA.UserField = ""
	return cdAddendumA
}

func baseCheckDetailAddendumB() icl.CheckDetailAddendumB {
	cdAddendumB := icl.NewCheckDetailAddendumB()
	cdAddendumB.ImageReferenceKeyIndicator = 1
	cdAddendumB.MicrofilmArchiveSequenceNumber = "1A             "
	cdAddendumB.LengthImageReferenceKey = "0034"
	cdAddendumB.ImageReferenceKey = "0"
	cdAddendumB.Description = "CD Addendum B"
	cdAddendumB.UserField = ""
	return cdAddendumB
}

func baseCheckDetailAddendumC() icl.CheckDetailAddendumC {
	cdAddendumC := icl.NewCheckDetailAddendumC()
	cdAddendumC.RecordNumber = 1
	cdAddendumC.EndorsingBankRoutingNumber = "121042882"
	cdAddendumC.BOFDEndorsementBusinessDate = baseDate
	cdAddendumC.EndorsingBankItemSequenceNumber = "1              "
	cdAddendumC.TruncationIndicator = "Y"
	cdAddendumC.EndorsingBankConversionIndicator = "1"
	cdAddendumC.EndorsingBankCorrectionIndicator = 0
	cdAddendumC.ReturnReason = "A"
	cdAddendumC.UserField = ""
	cdAddendumC.EndorsingBankIdentifier = 0
	return cdAddendumC
}

func baseCheckDetail() *icl.CheckDetail {
	cd := icl.NewCheckDetail()
	cd.AuxiliaryOnUs = "123456789"
	cd.ExternalProcessingCode = ""
	cd.PayorBankRoutingNumber = "03130001"
	cd.PayorBankCheckDigit = "2"
	cd.OnUs = "5558881"
	cd.ItemAmount = 100000 // 1000.00
	cd.EceInstitutionItemSequenceNumber = "1              "
	cd.DocumentationTypeIndicator = "G"
	cd.ReturnAcceptanceIndicator = "D"
	cd.MICRValidIndicator = 1
	cd.BOFDIndicator = "Y"
	cd.AddendumCount = 3
	cd.CorrectionIndicator = 0
	cd.ArchiveTypeIndicator = "B"
	return cd
}

func baseCreditItem() *icl.CreditItem {
	ci := icl.NewCreditItem()
	ci.AuxiliaryOnUs = "123456789"
	ci.ExternalProcessingCode = ""
	ci.PostingBankRoutingNumber = "031300012"
	ci.OnUs = "5558881"
	ci.ItemAmount = 100000 // 1000.00
	ci.CreditItemSequenceNumber = "1              "
	ci.DocumentationTypeIndicator = "G"
	ci.AccountTypeCode = "1"
	ci.SourceWorkCode = "01"
	ci.UserField = "                "
	return ci
}

func baseCredit() *icl.Credit {
	cr := icl.NewCredit()

	cr.AuxiliaryOnUs = "010910999940910"
	cr.ExternalProcessingCode = ""
	cr.PayorBankRoutingNumber = "999920060"
	cr.CreditAccountNumberOnUs = "50920060509383521210"
	cr.ItemAmount = 102088
	cr.ECEInstitutionItemSequenceNumber = "               "
	cr.DocumentationTypeIndicator = "G"
	cr.AccountTypeCode = "1"
	cr.SourceWorkCode = "3"
	cr.WorkType = " "
	cr.DebitCreditIndicator = " "

	return cr
}

func baseFileControl() icl.FileControl {
	fc := icl.NewFileControl()
	fc.CashLetterCount = 1
	fc.TotalRecordCount = 7
	fc.TotalItemCount = 1
	fc.FileTotalAmount = 100000 // 1000.00
	fc.ImmediateOriginContactName = "Contact Name"
	fc.ImmediateOriginContactPhoneNumber = "5558675552"
	fc.CreditTotalIndicator = 0
	return fc
}

func baseFileHeader() icl.FileHeader {
	fh := icl.NewFileHeader()
	fh.StandardLevel = "35"
	fh.TestFileIndicator = "T"
	fh.ImmediateDestination = "231380104"
	fh.ImmediateOrigin = "121042882"
	fh.FileCreationDate = baseDate
	fh.FileCreationTime = baseTime
	fh.ResendIndicator = "N"
	fh.ImmediateDestinationName = "Citadel"
	fh.ImmediateOriginName = "Wells Fargo"
	fh.FileIDModifier = ""
	fh.CountryCode = "US"
	fh.UserField = ""
	fh.CompanionDocumentIndicator = ""
	return fh
}

func baseImageViewAnalysis() icl.ImageViewAnalysis {
	ivAnalysis := icl.NewImageViewAnalysis()
	ivAnalysis.GlobalImageQuality = 2
	ivAnalysis.GlobalImageUsability = 2
	ivAnalysis.ImagingBankSpecificTest = 0
	ivAnalysis.PartialImage = 2
	ivAnalysis.ExcessiveImageSkew = 2
	ivAnalysis.PiggybackImage = 2
	ivAnalysis.TooLightOrTooDark = 2
	ivAnalysis.StreaksAndOrBands = 2
	ivAnalysis.BelowMinimumImageSize = 2
	ivAnalysis.ExceedsMaximumImageSize = 2
	ivAnalysis.ImageEnabledPOD = 1
	ivAnalysis.SourceDocumentBad = 0
	ivAnalysis.DateUsability = 2
	ivAnalysis.PayeeUsability = 2
	ivAnalysis.ConvenienceAmountUsability = 2
	ivAnalysis.AmountInWordsUsability = 2
	ivAnalysis.SignatureUsability = 2
	ivAnalysis.PayorNameAddressUsability = 2
	ivAnalysis.MICRLineUsability = 2
	ivAnalysis.MemoLineUsability = 2
	ivAnalysis.PayorBankNameAddressUsability = 2
	ivAnalysis.PayeeEndorsementUsability = 2
	ivAnalysis.BOFDEndorsementUsability = 2
	ivAnalysis.TransitEndorsementUsability = 2
	return ivAnalysis
}

func baseImageViewData() icl.ImageViewData {
	ivData := icl.NewImageViewData()
	ivData.EceInstitutionRoutingNumber = "121042882"
	ivData.BundleBusinessDate = baseDate
	ivData.CycleNumber = "1"
	ivData.EceInstitutionItemSequenceNumber = "1             "
	ivData.SecurityOriginatorName = "Sec Orig Name"
	ivData.SecurityAuthenticatorName = "Sec Auth Name"
	ivData.SecurityKeyName = "SECURE"
	ivData.ClippingOrigin = 0
	ivData.ClippingCoordinateH1 = ""
	ivData.ClippingCoordinateH2 = ""
	ivData.ClippingCoordinateV1 = ""
	ivData.ClippingCoordinateV2 = ""
	ivData.LengthImageReferenceKey = "0000"
	ivData.ImageReferenceKey = ""
	ivData.LengthDigitalSignature = "0    "
	ivData.DigitalSignature = []byte("")
	ivData.LengthImageData = "0000001"
	ivData.ImageData = []byte("")
	return ivData
}

func baseImageViewDetail() icl.ImageViewDetail {
	ivDetail := icl.NewImageViewDetail()
	ivDetail.ImageIndicator = 1
	ivDetail.ImageCreatorRoutingNumber = "031300012"
	ivDetail.ImageCreatorDate = baseDate
	ivDetail.ImageViewFormatIndicator = "00"
	ivDetail.ImageViewCompressionAlgorithm = "00"
	// use of ivDetail.ImageViewDataSize is not recommended
	ivDetail.ImageViewDataSize = "0000000"
	ivDetail.ViewSideIndicator = 0
	ivDetail.ViewDescriptor = "00"
	ivDetail.DigitalSignatureIndicator = 0
	ivDetail.DigitalSignatureMethod = "00"
	ivDetail.SecurityKeySize = 00000
	ivDetail.ProtectedDataStart = 0000000
	ivDetail.ProtectedDataLength = 0000000
	ivDetail.ImageRecreateIndicator = 0
	ivDetail.UserField = ""
	ivDetail.OverrideIndicator = "0"
	return ivDetail
}

func baseReturnDetailAddendumA() icl.ReturnDetailAddendumA {
	rdAddendumA := icl.NewReturnDetailAddendumA()
	rdAddendumA.RecordNumber = 1
	rdAddendumA.ReturnLocationRoutingNumber = "121042882"
	rdAddendumA.BOFDEndorsementDate = baseDate
	rdAddendumA.BOFDItemSequenceNumber = "1              "
	rdAddendumA.BOFDAccountNumber = "938383"
	rdAddendumA.BOFDBranchCode = "01"
	rdAddendumA.PayeeName = "Test Payee"
	rdAddendumA.TruncationIndicator = "Y"
	rdAddendumA.BOFDConversionIndicator = "1"
	rdAddendumA.BOFDCorrectionIndicator = 0
	rdAddendumA.UserField = ""
	return rdAddendumA
}

func baseReturnDetailAddendumB() icl.ReturnDetailAddendumB {
	rdAddendumB := icl.NewReturnDetailAddendumB()
	rdAddendumB.PayorBankName = "Payor Bank Name"
	rdAddendumB.AuxiliaryOnUs = "123456789"
	rdAddendumB.PayorBankSequenceNumber = "1              "
	rdAddendumB.PayorBankBusinessDate = baseDate
	rdAddendumB.PayorAccountName = "Payor Account Name"
	return rdAddendumB
}

func baseReturnDetailAddendumC() icl.ReturnDetailAddendumC {
	rdAddendumC := icl.NewReturnDetailAddendumC()
	rdAddendumC.ImageReferenceKeyIndicator = 1
	rdAddendumC.MicrofilmArchiveSequenceNumber = "1A"
	rdAddendumC.LengthImageReferenceKey = "0034"
	rdAddendumC.ImageReferenceKey = "0"
	rdAddendumC.Description = "RD Addendum C"
	rdAddendumC.UserField = ""
	return rdAddendumC
}

func baseReturnDetailAddendumD() icl.ReturnDetailAddendumD {
	rdAddendumD := icl.NewReturnDetailAddendumD()
	rdAddendumD.RecordNumber = 1
	rdAddendumD.EndorsingBankRoutingNumber = "121042882"
	rdAddendumD.BOFDEndorsementBusinessDate = baseDate
	rdAddendumD.EndorsingBankItemSequenceNumber = "1              "
	rdAddendumD.TruncationIndicator = "Y"
	rdAddendumD.EndorsingBankConversionIndicator = "1"
	rdAddendumD.EndorsingBankCorrectionIndicator = 0
	rdAddendumD.ReturnReason = "A"
	rdAddendumD.UserField = ""
	rdAddendumD.EndorsingBankIdentifier = 0
	return rdAddendumD
}

func baseReturnDetail() *icl.ReturnDetail {
	rd := icl.NewReturnDetail()
	rd.PayorBankRoutingNumber = "03130001"
	rd.PayorBankCheckDigit = "2"
	rd.OnUs = "5558881"
	rd.ItemAmount = 100000
	rd.ReturnReason = "A"
	rd.AddendumCount = 4
	rd.DocumentationTypeIndicator = "G"
	rd.ForwardBundleDate = baseDate
	rd.EceInstitutionItemSequenceNumber = "1              "
	rd.ExternalProcessingCode = ""
	rd.ReturnNotificationIndicator = "2"
	rd.ArchiveTypeIndicator = "B"
	rd.TimesReturned = 0
	return rd
}

func baseRoutingNumberSummary() *icl.RoutingNumberSummary {
	rns := icl.NewRoutingNumberSummary()
	rns.CashLetterRoutingNumber = "231380104"
	rns.RoutingNumberTotalAmount = 100000
	rns.RoutingNumberItemCount = 1
	rns.UserField = ""
	return rns
}

func baseUserGeneral() *icl.UserGeneral {
	ug := icl.NewUserGeneral()
	ug.OwnerIdentifierIndicator = 3
	ug.OwnerIdentifier = "230918276"
	ug.OwnerIdentifierModifier = "ZZ1"
	ug.UserRecordFormatType = "000"
	ug.FormatTypeVersionLevel = "1"
	ug.LengthUserData = "0000038"
	ug.UserData = "This is a payment for your information"
	return ug
}

func baseUserPayeeEndorsement() *icl.UserPayeeEndorsement {
	upe := icl.NewUserPayeeEndorsement()
	upe.OwnerIdentifierIndicator = 3
	upe.OwnerIdentifier = "230918276"
	upe.OwnerIdentifierModifier = "ZZ1"
	upe.UserRecordFormatType = "001"
	upe.FormatTypeVersionLevel = "1"
	upe.LengthUserData = "0000290"
	upe.PayeeName = "Payee Name"

	upe.EndorsementDate = baseDate
	upe.BankRoutingNumber = "121042882"
	upe.BankAccountNumber = "123456888"
	upe.CustomerIdentifier = "A234A"
	upe.CustomerContactInformation = "Home"
	upe.StoreMerchantProcessingSiteNumber = "12345678"
	upe.InternalControlSequenceNumber = "ZB17262ZB"
	upe.Time = baseDate
	upe.OperatorName = "ZJK"
	upe.OperatorNumber = "12345"
	upe.ManagerName = "ZBK"
	upe.ManagerNumber = "12345"
	upe.EquipmentNumber = "123456789012345"
	upe.EndorsementIndicator = 1
	upe.UserField = ""
	return upe
}

var baselines = map[string]func() any{
	"BundleControl":         func() any { return baseBundleControl() },
	"BundleHeader":          func() any { return baseBundleHeader() },
	"CashLetterControl":     func() any { return baseCashLetterControl() },
	"CashLetterHeader":      func() any { return baseCashLetterHeader() },
	"CheckDetailAddendumA":  func() any { x := baseCheckDetailAddendumA(); return &x },
	"CheckDetailAddendumB":  func() any { x := baseCheckDetailAddendumB(); return &x },
	"CheckDetailAddendumC":  func() any { x := baseCheckDetailAddendumC(); return &x },
	"CheckDetail":           func() any { return baseCheckDetail() },
	"CreditItem":            func() any { return baseCreditItem() },
	"Credit":                func() any { return baseCredit() },
	"FileControl":           func() any { x := baseFileControl(); return &x },
	"FileHeader":            func() any { x := baseFileHeader(); return &x },
	"ImageViewAnalysis":     func() any { x := baseImageViewAnalysis(); return &x },
	"ImageViewData":         func() any { x := baseImageViewData(); return &x },
	"ImageViewDetail":       func() any { x := baseImageViewDetail(); return &x },
	"ReturnDetailAddendumA": func() any { x := baseReturnDetailAddendumA(); return &x },
	"ReturnDetailAddendumB": func() any { x := baseReturnDetailAddendumB(); return &x },
	"ReturnDetailAddendumC": func() any { x := baseReturnDetailAddendumC(); return &x },
	"ReturnDetailAddendumD": func() any { x := baseReturnDetailAddendumD(); return &x },
	"ReturnDetail":          func() any { return baseReturnDetail() },
	"RoutingNumberSummary":  func() any { return baseRoutingNumberSummary() },
	"UserGeneral":           func() any { return baseUserGeneral() },
	"UserPayeeEndorsement":  func() any { return baseUserPayeeEndorsement() },
}
