package main

import (
	"bytes"
	"errors"
	"fmt"
	"runtime"
	"strings"

	icl "github.com/moov-io/imagecashletter"
)

var tagToGo = map[string]string{"01": "FileHeader", "10": "CashLetterHeader", "20": "BundleHeader", "25": "CheckDetail", "26": "CheckDetailAddendumA",
	"27": "CheckDetailAddendumB", "28": "CheckDetailAddendumC", "31": "ReturnDetail", "32": "ReturnDetailAddendumA", "33": "ReturnDetailAddendumB",
	"34": "ReturnDetailAddendumC", "35": "ReturnDetailAddendumD", "50": "ImageViewDetail", "52": "ImageViewData", "54": "ImageViewAnalysis",
	"61": "Credit", "62": "CreditItem", "70": "BundleControl", "85": "RoutingNumberSummary", "90": "CashLetterControl", "99": "FileControl"}

type parser interface{ Parse(string) }

// standaloneInvalid: does the line, parsed and validated on its own, fail?
func standaloneInvalid(line []byte) (invalid bool) {
	defer func() {
		if recover() != nil {
			invalid = true
		}
	}()
	goName, ok := tagToGo[string(line[:2])]
	if !ok {
		return true
	}
	rec := newRec(goName)
	if goName == "ImageViewData" {
		rec.(*icl.ImageViewData).Parse(string(line))
	} else {
		rec.(parser).Parse(string(line))
	}
	return realValidate(rec) != "ok"
}

type spoil struct {
	line []byte
	desc string
	cls  string
}

func spoilsOf(line []byte, full bool, r rng) []spoil {
	var out []spoil
	cp := func() []byte { return append([]byte{}, line...) }
	// too short, unknown type
	for _, n := range []int{79, 40, 2, 0} {
		if n < len(line) {
			out = append(out, spoil{cp()[:n], fmt.Sprintf("cut to %d bytes", n), "short"})
		}
	}
	// one byte short of what the record itself says it holds (records of variable length)
	if tag := string(line[:2]); (tag == "27" || tag == "34") && len(line) > 47 {
		out = append(out, spoil{cp()[:len(line)-1], fmt.Sprintf("cut to %d bytes (one short of its own length field)", len(line)-1), "short"})
		out = append(out, spoil{cp()[:46], "cut to 46 bytes (fixed part only, key length left as it was)", "short"})
		neg := cp()
		copy(neg[18:22], []byte("-001"))
		out = append(out, spoil{neg, "image reference key length -001", "short"})
	}
	// the image view data record has its own decoder with its own length checks (fixed part 105 bytes, then
	// three sections sized by embedded lengths): cut inside the fixed part beyond column 80, and one byte short
	if string(line[:2]) == "52" {
		for _, n := range []int{80, 92, 104, len(line) - 1} {
			if n < len(line) && n >= 80 {
				out = append(out, spoil{cp()[:n], fmt.Sprintf("image view data cut to %d bytes", n), "short52"})
			}
		}
	}
	u := cp()
	u[0], u[1] = '7', '7'
	out = append(out, spoil{u, "unknown record type 77", "unknown-type"})
	// type bytes that are no digits but share bits with the digits of a legal type (a decoder that masks or
	// folds the type bytes takes them for the legal type)
	for _, alias := range []struct {
		at  int
		add byte
	}{{0, 0x10}, {0, 0x20}, {0, 0x30}, {1, 0x10}, {1, 0x30}} {
		if len(line) >= 2 && line[alias.at] >= '0' && line[alias.at] <= '9' {
			a := cp()
			a[alias.at] += alias.add
			out = append(out, spoil{a, fmt.Sprintf("unknown record type %q (type byte %d raised by 0x%02x)", string(a[:2]), alias.at+1, alias.add), "unknown-type"})
		}
	}
	L := layoutOf(tagToGo[string(line[:2])])
	if L == nil {
		return out
	}
	pos := 0
	for _, w := range L.Write {
		if w.Width == 0 {
			break // variable part: columns depend on the values
		}
		lo, hi := pos, pos+w.Width
		pos = hi
		if w.Conv == "lit" || hi > len(line) {
			continue
		}
		if !full && r.Intn(2) == 0 {
			continue
		}
		for _, fill := range []struct {
			b    byte
			name string
		}{{' ', "blank"}, {'0', "zero"}, {0x01, "illegal-char"}, {'~', "tilde"}, {0xE9, "eight-bit"}} {
			s := cp()
			for i := lo; i < hi; i++ {
				s[i] = fill.b
			}
			if bytes.Equal(s, line) {
				continue
			}
			out = append(out, spoil{s, fmt.Sprintf("%s field %s (columns %d-%d)", fill.name, w.Src, lo+1, hi), fill.name})
		}
		// a date column holding eight digits that name no day of the calendar
		if kindOfConv(w.Conv) == 'D' && w.Width == 8 {
			for _, d := range []string{"20200230", "20210229", "20200431"} {
				s := cp()
				copy(s[lo:hi], d)
				out = append(out, spoil{s, fmt.Sprintf("impossible date %s in field %s (columns %d-%d)", d, w.Src, lo+1, hi), "impossible-date"})
			}
		}
		// a VALID two-byte UTF-8 character in a text field: the record keeps its byte length but holds one
		// character less than its layout (decoders that count characters see a short record)
		if w.Width >= 2 && kindOfConv(w.Conv) == 'S' {
			s := cp()
			s[lo], s[lo+1] = 0xC3, 0xA9
			out = append(out, spoil{s, fmt.Sprintf("two-byte character in field %s (columns %d-%d)", w.Src, lo+1, lo+2), "multibyte"})
		}
	}
	return out
}

func runC18(cfg *config) *Report {
	rep := newReport("C18", cfg.tier, cfg.seed)
	r := newRng(cfg.seed + 18000)
	rep.Rule = "valid generated files (newline ASCII; thorough: all four encodings) x every record position k x every way of spoiling record k alone: each fixed-width field blanked / zeroed / filled with an illegal character, record cut to 79/40/2/0 bytes, unknown type code; only spoils that make the record invalid on its own are judged; the error's line must be k and every record in the partial file must have been decoded from a record before k; non-trivial = spoiled record is rejected standalone; distinct by (file, position, spoil)"
	nFiles := 2
	if cfg.tier == "thorough" {
		nFiles = 20
	}
	type kase struct {
		lines [][]byte
		k     int
		sp    spoil
		good  []string // tokens of the unspoiled file's read result
		enc   encCfg
	}
	var cases []kase
	for fi := 0; fi < nFiles; {
		// forward and return files in turn: every record type occurs, most of them more than once
		f, err := genFile(r, genOpts{maxCL: 2, maxBundles: 2, maxItems: 2, mutateP: 30, kind: 1 + fi%2})
		if err != nil {
			continue
		}
		out, werr, _ := realWrite(f, encCfg{})
		if werr != nil {
			continue
		}
		lines := bytes.Split(bytes.TrimRight(out, "\n"), []byte("\n"))
		if len(lines) > 50 && cfg.tier != "thorough" {
			continue
		}
		fi++
		gf, gerr, _ := realRead(out, encCfg{}, 1<<22)
		if gerr != nil {
			rep.Notes = append(rep.Notes, "generated file does not read back: "+gerr.Error())
			continue
		}
		good := strings.Split(dumpFile(&gf), "~")
		for k := range lines {
			for _, sp := range spoilsOf(lines[k], cfg.tier == "thorough", r) {
				// whether a spoiled record is invalid on its own is asked of the implementation's own record validation -
				// except for the classes whose point is that this very validation may be what is broken: those are
				// judged by the model (regenerated rules, calendar arithmetic of its own) below
				byModel := sp.cls == "impossible-date"
				if sp.cls != "short" && sp.cls != "short52" && sp.cls != "unknown-type" && !byModel && !standaloneInvalid(sp.line) {
					rep.count("spoil-still-valid")
					continue
				}
				ls := append([][]byte{}, lines...)
				ls[k] = sp.line
				cases = append(cases, kase{ls, k, sp, good, encCfg{}})
				if sp.cls == "short" || sp.cls == "short52" || sp.cls == "unknown-type" || r.Intn(5) == 0 {
					// the same spoiled file in length-prefixed framing (a record cut to 0 bytes is a zero prefix)
					cases = append(cases, kase{ls, k, sp, good, encCfg{LP: true}})
				}
			}
		}
	}
	now := today()
	var ops []string
	type res struct {
		err  error
		dump string
	}
	results := make([]res, len(cases))
	frame := func(c kase) []byte {
		if !c.enc.LP {
			return joinLines(c.lines)
		}
		var b bytes.Buffer
		for _, l := range c.lines {
			n := len(l)
			b.Write([]byte{byte(n >> 24), byte(n >> 16), byte(n >> 8), byte(n)})
			b.Write(l)
		}
		return b.Bytes()
	}
	specAt := map[int]int{}
	var specOps []string
	for i, c := range cases {
		in := frame(c)
		f, rerr, p := realRead(in, c.enc, 1<<22)
		if p != nil {
			rep.violate(Violation{Key: "C18:reader-panic", What: fmt.Sprint("Reader panicked: ", p), Replay: map[string]any{"spoil": c.sp.desc, "position": c.k + 1, "bytes": hx(in)}})
		}
		results[i] = res{rerr, dumpFile(&f)}
		ops = append(ops, fmt.Sprintf("read\t%s\t0\t0\t%s\t%s", b01(c.enc.LP), now, hx(in)))
		if c.sp.cls == "impossible-date" {
			// whether the column is one the format validates at all is asked of the PINNED model (Spec layouts and rules),
			// so that a regenerated model that has lost a record's layout cannot turn an unvalidated column into a finding
			specAt[i] = len(specOps)
			specOps = append(specOps, fmt.Sprintf("readSpec\t%s\t0\t0\t%s\t%s", b01(c.enc.LP), now, hx(in)))
		}
	}
	got, err := leanParallel(cfg.driver, ops, runtime.NumCPU())
	if err != nil {
		fatal("driver: %v", err)
	}
	gotSpec, err := leanParallel(cfg.driver, specOps, runtime.NumCPU())
	if err != nil {
		fatal("driver: %v", err)
	}
	emptyFH := ""
	{
		f := icl.NewFile()
		f.Control = icl.FileControl{}
		toks := strings.Split(dumpFile(f), "~")
		emptyFH = toks[0]
	}
	for i, c := range cases {
		rep.Evaluations++
		rep.CorrOps++
		rep.count("spoil:" + c.sp.cls)
		rep.count("framing:" + c.enc.String())
		rep.count("kind:" + string(c.lines[c.k][:min(2, len(c.lines[c.k]))]))
		rep.nontrivial(fmt.Sprintf("%p/%d/%s", c.good, c.k, c.sp.desc))
		rs := results[i]
		impl := canonErr(rs.err) + " # " + rs.dump
		if impl != got[i] {
			rep.CorrDisagree++
			rep.violate(Violation{Key: "C18:corr:read", What: "model reader and Reader.Read disagree on a file with one spoiled record",
				Replay: map[string]any{"spoil": c.sp.desc, "position": c.k + 1, "bytes": hx(frame(c)), "implementation": impl[:min(300, len(impl))], "model": got[i][:min(300, len(got[i]))]}, NoInput: true})
		}
		if i%3001 == 0 {
			rep.sample(map[string]any{"position": c.k + 1, "of": len(c.lines), "spoil": c.sp.desc, "error": canonErr(rs.err)})
		}
		kind := "??"
		if len(c.lines[c.k]) >= 2 {
			kind = string(c.lines[c.k][:2])
		}
		if rs.err == nil && c.sp.cls == "impossible-date" && strings.HasPrefix(gotSpec[specAt[i]], "ok") {
			// the model accepts the record too (the column is not validated: the value reads as 'no date')
			rep.count("spoil-still-valid-by-model")
			continue
		}
		if rs.err == nil {
			rep.violate(Violation{Key: "C18:accepted:" + kind + ":" + c.sp.cls, What: "a file with one invalid record was read without error (" + c.sp.desc + ")",
				Replay: map[string]any{"spoil": c.sp.desc, "position": c.k + 1, "bytes": hx(frame(c))}})
			continue
		}
		var pe *icl.ParseError
		if !errors.As(rs.err, &pe) {
			rep.violate(Violation{Key: "C18:no-position:" + kind + ":" + c.sp.cls, What: "read error carries no record position: " + rs.err.Error(),
				Replay: map[string]any{"spoil": c.sp.desc, "position": c.k + 1, "bytes": hx(frame(c)), "error": rs.err.Error()}})
			continue
		}
		if pe.Line != c.k+1 {
			rep.violate(Violation{Key: fmt.Sprintf("C18:wrong-line:%s:%s", kind, c.sp.cls), What: fmt.Sprintf("error reports line %d, the offending record is at %d (%s)", pe.Line, c.k+1, c.sp.desc),
				Replay: map[string]any{"spoil": c.sp.desc, "position": c.k + 1, "reported": pe.Line, "bytes": hx(frame(c)), "error": rs.err.Error()}})
			continue
		}
		// partial file: every record token must come from the good file's records before position k
		allowed := map[string]bool{emptyFH: true}
		idx := 0
		for _, t := range c.good {
			if strings.HasSuffix(t, "|^") {
				continue
			}
			// the good dump lists records in writer order = line order for generated files
			if idx < c.k {
				allowed[t] = true
			}
			idx++
		}
		for _, t := range strings.Split(rs.dump, "~") {
			if strings.HasSuffix(t, "|^") || strings.HasPrefix(t, "FC|recordType:S:-;") {
				continue
			}
			if !allowed[t] {
				rep.violate(Violation{Key: "C18:partial-file-holds-later-data:" + kind + ":" + strings.SplitN(t, "|", 2)[0], What: "the partial file returned with the error holds values that were not decoded from a record before the offending one (" + c.sp.desc + ")",
					Replay: map[string]any{"spoil": c.sp.desc, "position": c.k + 1, "bytes": hx(frame(c)), "record_in_partial_file": t}})
				break
			}
		}
	}
	return rep
}
