package main

import (
	"encoding/json"
	"fmt"
	"reflect"
	"strings"

	icl "github.com/moov-io/imagecashletter"
)

// everyRecord visits every record of a file (pointers to the records held by the file)
func everyRecord(f *icl.File, visit func(name string, rec any)) {
	visit("FileHeader", &f.Header)
	for i := range f.CashLetters {
		cl := &f.CashLetters[i]
		if cl.CashLetterHeader != nil {
			visit("CashLetterHeader", cl.CashLetterHeader)
		}
		for _, x := range cl.CreditItems {
			visit("CreditItem", x)
		}
		for _, x := range cl.Credits {
			visit("Credit", x)
		}
		for _, b := range cl.Bundles {
			if b.BundleHeader != nil {
				visit("BundleHeader", b.BundleHeader)
			}
			for _, cd := range b.Checks {
				visit("CheckDetail", cd)
				for j := range cd.CheckDetailAddendumA {
					visit("CheckDetailAddendumA", &cd.CheckDetailAddendumA[j])
				}
				for j := range cd.CheckDetailAddendumB {
					visit("CheckDetailAddendumB", &cd.CheckDetailAddendumB[j])
				}
				for j := range cd.CheckDetailAddendumC {
					visit("CheckDetailAddendumC", &cd.CheckDetailAddendumC[j])
				}
				for j := range cd.ImageViewDetail {
					visit("ImageViewDetail", &cd.ImageViewDetail[j])
				}
				for j := range cd.ImageViewData {
					visit("ImageViewData", &cd.ImageViewData[j])
				}
				for j := range cd.ImageViewAnalysis {
					visit("ImageViewAnalysis", &cd.ImageViewAnalysis[j])
				}
			}
			for _, rd := range b.Returns {
				visit("ReturnDetail", rd)
				for j := range rd.ReturnDetailAddendumA {
					visit("ReturnDetailAddendumA", &rd.ReturnDetailAddendumA[j])
				}
				for j := range rd.ReturnDetailAddendumB {
					visit("ReturnDetailAddendumB", &rd.ReturnDetailAddendumB[j])
				}
				for j := range rd.ReturnDetailAddendumC {
					visit("ReturnDetailAddendumC", &rd.ReturnDetailAddendumC[j])
				}
				for j := range rd.ReturnDetailAddendumD {
					visit("ReturnDetailAddendumD", &rd.ReturnDetailAddendumD[j])
				}
				for j := range rd.ImageViewDetail {
					visit("ImageViewDetail", &rd.ImageViewDetail[j])
				}
				for j := range rd.ImageViewData {
					visit("ImageViewData", &rd.ImageViewData[j])
				}
				for j := range rd.ImageViewAnalysis {
					visit("ImageViewAnalysis", &rd.ImageViewAnalysis[j])
				}
			}
			if b.BundleControl != nil {
				visit("BundleControl", b.BundleControl)
			}
		}
		for _, x := range cl.RoutingNumberSummary {
			visit("RoutingNumberSummary", x)
		}
		if cl.CashLetterControl != nil {
			visit("CashLetterControl", cl.CashLetterControl)
		}
	}
	visit("FileControl", &f.Control)
}

type observer struct {
	name string
	run  func(f *icl.File) string // result rendered as text (for repeatability)
}

func observers() []observer {
	obs := []observer{
		{"File.Validate", func(f *icl.File) string { return fmt.Sprint(f.Validate()) }},
		{"json.Marshal", func(f *icl.File) string { b, err := json.Marshal(f); return string(b) + fmt.Sprint(err) }},
		{"records.Validate", func(f *icl.File) string {
			out := ""
			everyRecord(f, func(n string, rec any) { out += n + ":" + realValidate(rec) + ";" })
			return out
		}},
		{"records.String", func(f *icl.File) string {
			out := ""
			everyRecord(f, func(n string, rec any) { s, _ := recString(rec); out += s + "|" })
			return out
		}},
		{"records.getters", func(f *icl.File) string {
			out := ""
			everyRecord(f, func(n string, rec any) {
				v := reflect.ValueOf(rec)
				for i := 0; i < v.NumMethod(); i++ {
					m := v.Type().Method(i)
					if len(m.Name) > 5 && m.Name[len(m.Name)-5:] == "Field" && m.Type.NumIn() == 1 && m.Type.NumOut() == 1 {
						func() {
							defer func() { recover() }()
							out += v.Method(i).Call(nil)[0].String() + ","
						}()
					}
				}
			})
			return out
		}},
		{"cashLetters.Validate", func(f *icl.File) string {
			out := ""
			for i := range f.CashLetters {
				func() {
					defer func() { recover() }()
					out += fmt.Sprint(f.CashLetters[i].Validate()) + ";"
					for _, b := range f.CashLetters[i].Bundles {
						out += fmt.Sprint(b.Validate()) + ";"
					}
				}()
			}
			return out
		}},
	}
	for _, e := range allEnc {
		e := e
		obs = append(obs, observer{"Write " + e.String(), func(f *icl.File) string {
			out, err, p := realWrite(f, e)
			return hx(out) + fmt.Sprint(err, p)
		}})
	}
	return obs
}

var pairDone = map[string]bool{}

func runC17(cfg *config) *Report {
	rep := newReport("C17", cfg.tier, cfg.seed)
	r := newRng(cfg.seed + 17000)
	rep.Rule = "generated files, valid and with one record spoiled (seeded field set to an illegal / blank / over-long value), each put through seeded sequences of observers (File.Validate, every record's Validate / String / every *Field getter, CashLetter/Bundle.Validate, Writer.Write in the four encodings, json.Marshal); a reflection snapshot of every exported and unexported field is taken before and after each call and each observer is run twice; then every cash letter and the file are built twice and the snapshots after the first and second build compared; non-trivial = observer sequence on a distinct file; distinct by (file, sequence)"
	n := 25
	if cfg.tier == "thorough" {
		n = 400
	}
	obs := observers()
	for i := 0; i < n; i++ {
		o17 := genOpts{maxCL: 2, maxBundles: 2, maxItems: 2, mutateP: 30, b64: 40, zones: true}
		if i%6 == 5 {
			o17.kind = 1 // the supplied check sequence numbers below need forward items with addenda
		}
		f, err := genFile(r, o17)
		if err != nil {
			continue
		}
		if i%6 == 5 {
			for ci := range f.CashLetters {
				for _, b := range f.CashLetters[ci].Bundles {
					for _, cd := range b.Checks {
						if len(cd.CheckDetailAddendumA) == 0 {
							cd.AddCheckDetailAddendumA(baseCheckDetailAddendumA())
							cd.AddendumCount++
						}
					}
				}
			}
		}
		if i%2 == 0 && len(f.CashLetters) > 1 {
			// cash letter IDs in descending order (observers must not reorder them)
			for a, b := 0, len(f.CashLetters)-1; a < b; a, b = a+1, b-1 {
				f.CashLetters[a], f.CashLetters[b] = f.CashLetters[b], f.CashLetters[a]
			}
		}
		kind := "valid"
		if i%3 == 1 {
			// spoil one record
			var recs []any
			var names []string
			everyRecord(f, func(n string, rec any) { recs = append(recs, rec); names = append(names, n) })
			k := r.Intn(len(recs))
			L := layoutOf(names[k])
			w := L.Write[1+r.Intn(len(L.Write)-1)]
			switch kindOfConv(w.Conv) {
			case 'I':
				setField(recs[k], w.Src, FV{K: 'I', I: -5})
			case 'S':
				setField(recs[k], w.Src, FV{K: 'S', S: [][]byte{[]byte("\x01~"), nil, []byte("  x  "), []byte("this value is much too long for its field, really")}[r.Intn(4)]})
			}
			kind = "spoiled " + names[k] + "." + w.Src
			if i%2 == 1 {
				// several members of the same record wrong at once (which of them a verdict names must not vary)
				for extra := 0; extra < 4; extra++ {
					w2 := L.Write[1+r.Intn(len(L.Write)-1)]
					switch kindOfConv(w2.Conv) {
					case 'I':
						setField(recs[k], w2.Src, FV{K: 'I', I: 5 + extra})
					case 'S':
						setField(recs[k], w2.Src, FV{K: 'S', S: []byte("\x01~")})
					}
				}
				kind = "spoiled " + names[k] + " (several members)"
			}
		}
		if i%6 == 3 {
			// a nil entry in front of the cash-letter level lists (what `"creditItem": [null, {...}]` leaves behind): an
			// observer may skip it, it must not compact the list it was handed
			for ci := range f.CashLetters {
				cl := &f.CashLetters[ci]
				if len(cl.CreditItems) > 0 {
					cl.CreditItems = append([]*icl.CreditItem{nil}, cl.CreditItems...)
					kind = "nil list entries"
				}
				if len(cl.Credits) > 0 {
					cl.Credits = append([]*icl.Credit{nil}, cl.Credits...)
					kind = "nil list entries"
				}
				if len(cl.RoutingNumberSummary) > 0 {
					cl.RoutingNumberSummary = append([]*icl.RoutingNumberSummary{nil}, cl.RoutingNumberSummary...)
					kind = "nil list entries"
				}
			}
		}
		rep.count("file:" + kind[:min(7, len(kind))])
		seqLen := 6 + r.Intn(8)
		var seq []string
		base := snapshot(f, false)
		for s := 0; s < seqLen; s++ {
			o := obs[r.Intn(len(obs))]
			seq = append(seq, o.name)
			rep.Evaluations++
			rep.count("observer:" + o.name)
			before := snapshot(f, false)
			r1 := o.run(f)
			after := snapshot(f, false)
			r2 := o.run(f)
			for rep2 := 0; rep2 < 4 && r2 == r1; rep2++ {
				r2 = o.run(f)
			}
			if before != after {
				rep.violate(Violation{Key: "C17:observer-mutates:" + o.name + ":" + diffField(before, after), What: o.name + " modified the file (" + kind + "): " + firstSnapDiff(before, after),
					Replay: map[string]any{"tree": dumpFile(f), "observer": o.name, "file": kind, "sequence": seq}})
			}
			if r1 != r2 {
				rep.violate(Violation{Key: "C17:observer-not-repeatable:" + o.name, What: o.name + " returned different results on an unchanged file (" + kind + ")",
					Replay: map[string]any{"tree": dumpFile(f), "observer": o.name, "file": kind}})
			}
		}
		if i%3 == 1 {
			// every record of the file with ALL its members wrong at once: which member the verdict names is a function
			// of the record, not of the call
			for _, rec := range writerOrder(f) {
				goName := strings.TrimPrefix(fmt.Sprintf("%T", rec), "*imagecashletter.")
				L := layoutOf(goName)
				if L == nil {
					continue
				}
				if pairDone[goName] {
					continue
				}
				pairDone[goName] = true
				// every PAIR of members wrong at once, the others as they are: which of the two the verdict names is a
				// function of the record, not of the call
				var elig []WField
				for wi, w := range L.Write {
					k := kindOfConv(w.Conv)
					if wi == 0 || w.Conv == "lit" || w.Width == 0 || strings.HasPrefix(w.Src, "reserved") || w.Src[0] < 'A' || w.Src[0] > 'Z' || (k != 'I' && k != 'S') {
						continue
					}
					elig = append(elig, w)
				}
				wrong := func(w WField) FV {
					if kindOfConv(w.Conv) == 'I' {
						return FV{K: 'I', I: 7}
					}
					return FV{K: 'S', S: []byte("\x01~")}
				}
				for a := 0; a < len(elig); a++ {
					for b := a + 1; b < len(elig); b++ {
						oa, ob := getField(rec, elig[a].Src, kindOfConv(elig[a].Conv)), getField(rec, elig[b].Src, kindOfConv(elig[b].Conv))
						setField(rec, elig[a].Src, wrong(elig[a]))
						setField(rec, elig[b].Src, wrong(elig[b]))
						first := realValidate(rec)
						rep.Evaluations++
						for k := 0; k < 7; k++ {
							if again := realValidate(rec); again != first {
								rep.violate(Violation{Key: "C17:verdict-not-repeatable:" + goName, What: fmt.Sprintf("Validate on an unchanged %s record whose %s and %s are wrong answered %q, then %q", goName, elig[a].Src, elig[b].Src, first, again),
									Replay: map[string]any{"record": goName, "members": []string{elig[a].Src, elig[b].Src}, "first": first, "again": again}})
								break
							}
						}
						setField(rec, elig[a].Src, oa)
						setField(rec, elig[b].Src, ob)
					}
				}
				rep.count("pairs-of-wrong-members:" + goName)
			}
		}
		rep.nontrivial(base + fmt.Sprint(seq))
		if i%7 == 0 {
			rep.sample(map[string]any{"file": kind, "census": census(dumpFile(f)), "sequence": seq})
		}
		if kind != "valid" {
			continue
		}
		// build twice = build once
		build := func() error {
			for ci := range f.CashLetters {
				if err := f.CashLetters[ci].Create(); err != nil {
					return err
				}
			}
			return f.Create()
		}
		rep.Evaluations++
		rep.count("build-twice")
		noncanon := ""
		if i%6 == 5 {
			// caller-supplied check sequence numbers that the 15-column field cannot hold as such
			noncanon = []string{"-5", "1234567890123456", "12345678901234567890123", "-123456789012345678"}[(i/6)%4]
			for ci := range f.CashLetters {
				for _, b := range f.CashLetters[ci].Bundles {
					for j, cd := range b.Checks {
						if j == 0 {
							cd.EceInstitutionItemSequenceNumber = noncanon
						}
					}
				}
			}
			rep.count("build-twice:noncanonical-check-sequence-number")
		} else if i%2 == 1 {
			// caller-supplied item sequence numbers, unpadded, of different widths
			for ci := range f.CashLetters {
				for _, b := range f.CashLetters[ci].Bundles {
					for j, cd := range b.Checks {
						cd.EceInstitutionItemSequenceNumber = fmt.Sprint(9 + j)
					}
					for j, rd := range b.Returns {
						rd.EceInstitutionItemSequenceNumber = fmt.Sprint(9 + j)
					}
				}
			}
		}
		if err := build(); err != nil {
			continue
		}
		once := snapshot(f, false)
		if err := build(); err != nil {
			rep.violate(Violation{Key: "C17:second-build-fails", What: "building an already built file fails: " + err.Error(), Replay: map[string]any{"tree": dumpFile(f)}})
			continue
		}
		twice := snapshot(f, false)
		if once != twice && noncanon != "" && strings.HasSuffix(diffField(once, twice), "ItemSequenceNumber") {
			// recorded finding: the number is cut / zero-filled into the item's field, the addenda (and the
			// next build) get what is left of it
			rep.violate(Violation{Key: "C17:build-not-idempotent:noncanonical-check-sequence-number", What: "building twice gives a different file than building once for a caller-supplied check sequence number outside 0..10^15-1 (" + noncanon + "): " + firstSnapDiff(once, twice),
				Replay: map[string]any{"tree": dumpFile(f), "supplied": noncanon}})
		} else if once != twice {
			rep.violate(Violation{Key: "C17:build-not-idempotent:" + diffField(once, twice), What: "building twice gives a different file than building once: " + firstSnapDiff(once, twice),
				Replay: map[string]any{"tree": dumpFile(f)}})
		}
	}
	return rep
}
