package main

// HTTP API harness shared by C11-C14: the real handlers (verifhooks.NewRouter = what cmd/server builds)
// behind a real TCP listener, a token registry that abstracts concrete files to the AFile values of
// the Lean model and back, request construction, and the comparison of real responses / real store
// contents with the model's.

import (
	"bytes"
	"encoding/json"
	"fmt"
	"io"
	"mime/multipart"
	"net/http"
	"net/http/httptest"
	"net/textproto"
	"reflect"
	"sort"
	"strings"
	"time"

	icl "github.com/moov-io/imagecashletter"
	"github.com/moov-io/imagecashletter/verifhooks"
)

// ---------- deep copy (keeps unexported scalar members, follows exported pointers / slices) ----------

func deepCopyValue(v reflect.Value) reflect.Value {
	switch v.Kind() {
	case reflect.Ptr:
		if v.IsNil() {
			return v
		}
		n := reflect.New(v.Type().Elem())
		n.Elem().Set(deepCopyValue(v.Elem()))
		return n
	case reflect.Struct:
		n := reflect.New(v.Type()).Elem()
		n.Set(v)
		if v.Type() == reflect.TypeOf(time.Time{}) {
			return n
		}
		for i := 0; i < v.NumField(); i++ {
			if v.Type().Field(i).PkgPath != "" {
				continue
			}
			switch v.Field(i).Kind() {
			case reflect.Ptr, reflect.Struct, reflect.Slice:
				n.Field(i).Set(deepCopyValue(v.Field(i)))
			}
		}
		return n
	case reflect.Slice:
		if v.IsNil() {
			return v
		}
		n := reflect.MakeSlice(v.Type(), v.Len(), v.Len())
		for i := 0; i < v.Len(); i++ {
			n.Index(i).Set(deepCopyValue(v.Index(i)))
		}
		return n
	}
	return v
}

func deepCopyFile(f *icl.File) *icl.File {
	return deepCopyValue(reflect.ValueOf(f)).Interface().(*icl.File)
}

// ---------- registry: concrete content <-> tokens ----------

type fileRest struct {
	Control icl.FileControl
	Bundles []icl.Bundle
}

type registry struct {
	hdr, cl, rest map[string]int
	hdrV          []icl.FileHeader
	clV           []icl.CashLetter
	restV         []fileRest
}

func newRegistry() *registry {
	return &registry{hdr: map[string]int{}, cl: map[string]int{}, rest: map[string]int{}}
}

func (g *registry) hdrTok(h icl.FileHeader) int {
	k := snapshot(&h, false)
	if t, ok := g.hdr[k]; ok {
		return t
	}
	g.hdrV = append(g.hdrV, h)
	g.hdr[k] = len(g.hdrV)
	return len(g.hdrV)
}

func (g *registry) clTok(c icl.CashLetter) int {
	k := snapshot(&c, false)
	if t, ok := g.cl[k]; ok {
		return t
	}
	g.clV = append(g.clV, deepCopyValue(reflect.ValueOf(c)).Interface().(icl.CashLetter))
	g.cl[k] = len(g.clV)
	return len(g.clV)
}

func (g *registry) restTok(f *icl.File) int {
	r := fileRest{f.Control, f.Bundles}
	k := snapshot(&r, false)
	if t, ok := g.rest[k]; ok {
		return t
	}
	g.restV = append(g.restV, deepCopyValue(reflect.ValueOf(r)).Interface().(fileRest))
	g.rest[k] = len(g.restV)
	return len(g.restV)
}

func enID(s string) string {
	if s == "" {
		return "%"
	}
	return s
}
func unID(s string) string {
	if s == "%" {
		return ""
	}
	return s
}

// abs is the abstraction of a concrete file: id~hdr~clid:tok,...~rest
func (g *registry) abs(f *icl.File) string {
	if f == nil {
		return "N"
	}
	var cls []string
	for i := range f.CashLetters {
		cls = append(cls, fmt.Sprintf("%s:%d", enID(f.CashLetters[i].ID), g.clTok(f.CashLetters[i])))
	}
	return fmt.Sprintf("%s~%d~%s~%d", enID(f.ID), g.hdrTok(f.Header), strings.Join(cls, ","), g.restTok(f))
}

// concretise rebuilds a fresh concrete file from its abstraction
func (g *registry) concretise(a string) *icl.File {
	p := strings.Split(a, "~")
	if len(p) != 4 {
		return nil
	}
	f := &icl.File{ID: unID(p[0])}
	var hi, ri int
	fmt.Sscan(p[1], &hi)
	fmt.Sscan(p[3], &ri)
	if hi < 1 || hi > len(g.hdrV) || ri < 1 || ri > len(g.restV) {
		return nil
	}
	f.Header = g.hdrV[hi-1]
	r := deepCopyValue(reflect.ValueOf(g.restV[ri-1])).Interface().(fileRest)
	f.Control, f.Bundles = r.Control, r.Bundles
	if p[2] != "" {
		for _, c := range strings.Split(p[2], ",") {
			q := strings.SplitN(c, ":", 2)
			var ci int
			fmt.Sscan(q[1], &ci)
			if ci < 1 || ci > len(g.clV) {
				return nil
			}
			f.CashLetters = append(f.CashLetters, deepCopyValue(reflect.ValueOf(g.clV[ci-1])).Interface().(icl.CashLetter))
		}
	}
	return f
}

// idSafe: IDs the wire format can carry
func idSafe(s string) bool {
	for _, c := range s {
		if !(c >= 'a' && c <= 'z' || c >= 'A' && c <= 'Z' || c >= '0' && c <= '9' || c == '-') {
			return false
		}
	}
	return true
}

// ---------- the library's verdict on uploaded bytes (what the handlers are supposed to store) ----------

const apiBufSize = 64 * 1024 // bufio.MaxScanTokenSize, the server default

func libJSON(bs []byte) (f *icl.File) {
	defer func() {
		if recover() != nil {
			f = nil
		}
	}()
	g, err := icl.FileFromJSON(bs)
	if err != nil {
		return nil
	}
	return g
}

func libX9(bs []byte, ebcdic bool) *icl.File {
	f, err, p := realRead(bs, encCfg{LP: true, EBCDIC: ebcdic}, apiBufSize)
	if err != nil || p != nil {
		return nil
	}
	return &f
}

func (g *registry) upload(bs []byte, present bool) string {
	if !present {
		return "N;N;N"
	}
	return g.abs(libJSON(bs)) + ";" + g.abs(libX9(bs, true)) + ";" + g.abs(libX9(bs, false))
}

// ---------- requests ----------

type apiReq struct {
	Kind      string `json:"kind"` // list c1 c2 get upd del cont val add rem
	ID        string `json:"id,omitempty"`
	CID       string `json:"cid,omitempty"`
	CT        string `json:"content_type,omitempty"`
	Accept    string `json:"accept,omitempty"`
	Body      []byte `json:"body,omitempty"`       // payload (v2 multipart: the bytes of the part)
	Multipart string `json:"multipart,omitempty"`  // "", "file:<part content type>" or "nofile"
	ReqID     string `json:"request_id,omitempty"` // X-Request-ID header
	Note      string `json:"note,omitempty"`
	Src       string `json:"src,omitempty"` // "clean": a payload that is valid on its own (built, canonical) - see apirun.go
}

type apiResp struct {
	Status  int
	Body    []byte
	Loc     string
	Dropped string // non-empty: transport error (connection reset / EOF / timeout)
}

func (q *apiReq) build(base string) (*http.Request, error) {
	var method, path string
	switch q.Kind {
	case "list":
		method, path = "GET", "/files"
	case "c1":
		method, path = "POST", "/files/create"
	case "c2":
		method, path = "POST", "/v2/files"
	case "get":
		method, path = "GET", "/files/"+q.ID
	case "upd":
		method, path = "POST", "/files/"+q.ID
	case "del":
		method, path = "DELETE", "/files/"+q.ID
	case "cont":
		method, path = "GET", "/files/"+q.ID+"/contents"
	case "val":
		method, path = "GET", "/files/"+q.ID+"/validate"
	case "add":
		method, path = "POST", "/files/"+q.ID+"/cashLetters"
	case "rem":
		method, path = "DELETE", "/files/"+q.ID+"/cashLetters/"+q.CID
	}
	body := q.Body
	ct := q.CT
	if q.Kind == "c2" && q.Multipart != "" {
		var buf bytes.Buffer
		mw := multipart.NewWriter(&buf)
		if strings.HasPrefix(q.Multipart, "file:") {
			h := textproto.MIMEHeader{}
			h.Set("Content-Disposition", `form-data; name="file"; filename="upload.x9"`)
			if pct := strings.TrimPrefix(q.Multipart, "file:"); pct != "" {
				h.Set("Content-Type", pct)
			}
			pw, _ := mw.CreatePart(h)
			pw.Write(q.Body)
		} else {
			mw.WriteField("other", "x")
		}
		mw.Close()
		body = buf.Bytes()
		ct = mw.FormDataContentType()
	}
	req, err := http.NewRequest(method, base+path, bytes.NewReader(body))
	if err != nil {
		return nil, err
	}
	if ct != "" {
		req.Header.Set("Content-Type", ct)
	}
	if q.Accept != "" {
		req.Header.Set("Accept", q.Accept)
	}
	if q.ReqID != "" {
		req.Header.Set("X-Request-ID", q.ReqID)
	}
	return req, nil
}

type apiEnv struct {
	repo   verifhooks.Repo
	srv    *httptest.Server
	client *http.Client
	reg    *registry
}

func newAPIEnv(reg *registry) *apiEnv {
	e := &apiEnv{repo: verifhooks.NewInMemoryRepo(), reg: reg}
	e.srv = httptest.NewServer(verifhooks.NewRouter(e.repo))
	e.client = &http.Client{Timeout: 10 * time.Second}
	return e
}

func (e *apiEnv) close() { e.srv.Close() }

func (e *apiEnv) do(q *apiReq) apiResp {
	req, err := q.build(e.srv.URL)
	if err != nil {
		return apiResp{Dropped: "cannot build request: " + err.Error()}
	}
	resp, err := e.client.Do(req)
	if err != nil {
		return apiResp{Dropped: err.Error()}
	}
	defer resp.Body.Close()
	b, err := io.ReadAll(resp.Body)
	if err != nil {
		return apiResp{Status: resp.StatusCode, Body: b, Dropped: "reading body: " + err.Error()}
	}
	return apiResp{Status: resp.StatusCode, Body: b, Loc: resp.Header.Get("Location")}
}

// storeDump is the abstraction of what the repository holds now (sorted by ID), read in-process.
func (e *apiEnv) storeDump() string {
	fs, _ := e.repo.GetFiles()
	var out []string
	for _, f := range fs {
		out = append(out, enID(f.ID)+"="+e.reg.abs(f))
	}
	sort.Strings(out)
	return strings.Join(out, "+")
}

// storeSnap is the full deep snapshot of the repository (every member of every stored file).
func (e *apiEnv) storeSnap() string {
	fs, _ := e.repo.GetFiles()
	var out []string
	for _, f := range fs {
		out = append(out, f.ID+"="+snapshot(f, false))
	}
	sort.Strings(out)
	return strings.Join(out, "\n")
}

func sortStoreDump(s string) string {
	if s == "" {
		return s
	}
	p := strings.Split(s, "+")
	sort.Strings(p)
	return strings.Join(p, "+")
}

// ctClass is the model's view of a Content-Type (what the handlers test with strings.Contains)
func (q *apiReq) ctClass() string {
	switch {
	case q.Kind == "c2" && q.Multipart != "":
		if q.Multipart == "file:text/plain" {
			return "mtext"
		}
		return "mother"
	case strings.Contains(q.CT, "application/json"):
		return "json"
	case q.Kind == "c2" && strings.Contains(q.CT, "multipart/form-data"):
		return "mother"
	}
	return "other"
}

func accClass(a string) string {
	switch a {
	case "application/octet-stream":
		return "octet"
	case "text/plain":
		return "text"
	}
	return "other"
}

// createdID digs the ID the server chose out of a create response
func createdID(r apiResp) string {
	if r.Loc != "" {
		if i := strings.LastIndex(r.Loc, "/files/"); i >= 0 {
			return r.Loc[i+len("/files/"):]
		}
	}
	var m struct {
		ID string `json:"id"`
	}
	if json.Unmarshal(r.Body, &m) == nil && m.ID != "" {
		return m.ID
	}
	return "zz-none"
}

// modelLine renders the request for the Lean driver (needs the real response for the fresh ID)
func (e *apiEnv) modelLine(q *apiReq, r apiResp) string {
	switch q.Kind {
	case "list":
		return "list"
	case "c1":
		return fmt.Sprintf("c1 %s %s %s", q.ctClass(), e.reg.upload(q.Body, true), enID(createdID(r)))
	case "c2":
		present := q.Multipart != "nofile"
		return fmt.Sprintf("c2 %s %s %s %s", q.ctClass(), e.reg.upload(q.Body, present), enID(createdID(r)), accClass(q.Accept))
	case "get":
		return "get " + enID(q.ID)
	case "del":
		return "del " + enID(q.ID)
	case "cont":
		return "cont " + enID(q.ID)
	case "val":
		return "val " + enID(q.ID)
	case "upd":
		var h icl.FileHeader
		if err := json.NewDecoder(bytes.NewReader(q.Body)).Decode(&h); err != nil {
			return "upd " + enID(q.ID) + " N"
		}
		return fmt.Sprintf("upd %s %d", enID(q.ID), e.reg.hdrTok(h))
	case "add":
		var c icl.CashLetter
		if err := json.NewDecoder(bytes.NewReader(q.Body)).Decode(&c); err != nil || !idSafe(c.ID) {
			return "add " + enID(q.ID) + " N"
		}
		return fmt.Sprintf("add %s %s:%d", enID(q.ID), enID(c.ID), e.reg.clTok(c))
	case "rem":
		return "rem " + enID(q.ID) + " " + enID(q.CID)
	}
	return "bad"
}

func jsonEqual(a, b []byte) bool {
	var x, y any
	if json.Unmarshal(a, &x) != nil || json.Unmarshal(b, &y) != nil {
		return false
	}
	return reflect.DeepEqual(x, y)
}

func isErrorJSON(b []byte) bool {
	var m map[string]any
	if json.Unmarshal(b, &m) != nil {
		return false
	}
	s, ok := m["error"].(string)
	return ok && s != ""
}

// compareResp checks a real response against the model's abstract one; "" = agree
func (e *apiEnv) compareResp(model string, q *apiReq, r apiResp) string {
	if r.Dropped != "" {
		return "dropped connection / transport error: " + r.Dropped
	}
	f := strings.SplitN(model, " ", 3)
	emptyID := (q.ID == "" && q.Kind != "list" && q.Kind != "c1" && q.Kind != "c2") || (q.Kind == "rem" && q.CID == "")
	switch f[0] {
	case "404":
		if r.Status == 404 || (emptyID && r.Status == 405) {
			return ""
		}
		return fmt.Sprintf("status %d, model 404", r.Status)
	case "400":
		if r.Status != 400 {
			return fmt.Sprintf("status %d, model 400", r.Status)
		}
		if !isErrorJSON(r.Body) {
			return "400 without a JSON body naming the error"
		}
		return ""
	case "500":
		if r.Status != 500 {
			return fmt.Sprintf("status %d, model 500", r.Status)
		}
		return ""
	case "oknull":
		if r.Status != 200 {
			return fmt.Sprintf("status %d, model 200", r.Status)
		}
		return ""
	case "file":
		var code int
		fmt.Sscan(f[1], &code)
		if r.Status != code {
			return fmt.Sprintf("status %d, model %d", r.Status, code)
		}
		want := e.reg.concretise(f[2])
		if want == nil {
			return "model file cannot be concretised: " + f[2]
		}
		wb, _ := json.Marshal(want)
		if !jsonEqual(wb, r.Body) {
			return "body is not the JSON of the model's file " + f[2]
		}
		return ""
	case "files":
		if r.Status != 200 {
			return fmt.Sprintf("status %d, model 200", r.Status)
		}
		var got []json.RawMessage
		if len(bytes.TrimSpace(r.Body)) > 0 && string(bytes.TrimSpace(r.Body)) != "null" {
			if err := json.Unmarshal(r.Body, &got); err != nil {
				return "list body is not a JSON array"
			}
		}
		var wants []string
		if len(f) > 1 && f[1] != "" {
			rest := strings.TrimPrefix(model, "files ")
			wants = strings.Split(rest, "+")
		}
		if len(wants) != len(got) {
			return fmt.Sprintf("list holds %d files, model %d", len(got), len(wants))
		}
		used := make([]bool, len(got))
		for _, w := range wants {
			wf := e.reg.concretise(w)
			if wf == nil {
				return "model file cannot be concretised: " + w
			}
			wb, _ := json.Marshal(wf)
			found := false
			for i := range got {
				if !used[i] && jsonEqual(wb, got[i]) {
					used[i], found = true, true
					break
				}
			}
			if !found {
				return "list lacks the model's file " + w
			}
		}
		return ""
	case "contents":
		want := e.reg.concretise(f[1])
		if want == nil {
			return "model file cannot be concretised: " + f[1]
		}
		out, err, p := realWrite(want, encCfg{LP: true, EBCDIC: true})
		if err != nil || p != nil {
			if r.Status != 400 {
				return fmt.Sprintf("status %d for a file the writer refuses, model 400", r.Status)
			}
			if !isErrorJSON(r.Body) {
				return "400 without a JSON body naming the error (writer refused after output had begun?)"
			}
			return ""
		}
		if r.Status != 200 {
			return fmt.Sprintf("status %d, model 200", r.Status)
		}
		if !bytes.Equal(out, r.Body) {
			return "contents differ from the library's EBCDIC length-prefixed rendering of the stored file"
		}
		return ""
	case "validated":
		want := e.reg.concretise(f[1])
		if want == nil {
			return "model file cannot be concretised: " + f[1]
		}
		var cerr error
		func() {
			defer func() {
				if p := recover(); p != nil {
					cerr = fmt.Errorf("panic: %v", p)
				}
			}()
			cerr = want.Create()
		}()
		if cerr != nil {
			if r.Status != 400 {
				return fmt.Sprintf("status %d for a file Create() refuses, model 400", r.Status)
			}
			return ""
		}
		if r.Status != 200 {
			return fmt.Sprintf("status %d, model 200", r.Status)
		}
		return ""
	case "x9":
		g := strings.Split(model, " ")
		want := e.reg.concretise(g[1])
		if want == nil {
			return "model file cannot be concretised: " + g[1]
		}
		if r.Status != 201 {
			return fmt.Sprintf("status %d, model 201", r.Status)
		}
		out, err, p := realWrite(want, encCfg{LP: true, EBCDIC: g[2] == "E"})
		if err != nil || p != nil {
			return "" // writer refuses after the status line: body undefined on this level
		}
		if !bytes.Equal(out, r.Body) {
			return "created-file body differs from the library's rendering in the requested encoding"
		}
		return ""
	}
	return "unknown model response " + model
}
