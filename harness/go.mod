module verifharness

go 1.23.0

require github.com/moov-io/imagecashletter v0.0.0

replace github.com/moov-io/imagecashletter => /repo
