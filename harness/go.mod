module verifharness

go 1.23.0

require (
	github.com/gdamore/encoding v1.0.1
	github.com/moov-io/imagecashletter v0.0.0
)

require (
	github.com/antihax/optional v1.0.0 // indirect
	golang.org/x/oauth2 v0.29.0 // indirect
	golang.org/x/text v0.23.0 // indirect
)

replace github.com/moov-io/imagecashletter => /repo
