module verifharness

go 1.23.0

require (
	github.com/gdamore/encoding v1.0.1
	github.com/moov-io/imagecashletter v0.0.0
)

require (
	github.com/antihax/optional v1.0.0 // indirect
	github.com/beorn7/perks v1.0.1 // indirect
	github.com/cespare/xxhash/v2 v2.3.0 // indirect
	github.com/go-kit/kit v0.13.0 // indirect
	github.com/go-kit/log v0.2.1 // indirect
	github.com/go-logfmt/logfmt v0.6.0 // indirect
	github.com/google/uuid v1.6.0 // indirect
	github.com/gorilla/mux v1.8.1 // indirect
	github.com/moov-io/base v0.54.3 // indirect
	github.com/munnerz/goautoneg v0.0.0-20191010083416-a7dc8b61c822 // indirect
	github.com/prometheus/client_golang v1.22.0 // indirect
	github.com/prometheus/client_model v0.6.1 // indirect
	github.com/prometheus/common v0.62.0 // indirect
	github.com/prometheus/procfs v0.15.1 // indirect
	github.com/rickar/cal/v2 v2.1.22 // indirect
	golang.org/x/oauth2 v0.29.0 // indirect
	golang.org/x/sys v0.31.0 // indirect
	golang.org/x/text v0.23.0 // indirect
	google.golang.org/protobuf v1.36.5 // indirect
)

replace github.com/moov-io/imagecashletter => /repo
