package main

import (
	"fmt"
	"go/ast"
	"go/token"
	"os"
	"path/filepath"
	"strconv"
	"strings"
)

// CashLetter.build (cashLetter.go) translated statement by statement into Lean (Gen/ClBuildT.lean).  The method
// numbers bundles, items and addenda IN PLACE through pointers; on the model level a loop that changes its elements
// returns the new list (`forMap` / `forMapE`, BuildRT.lean) and every mutation `x.F = e` / `x.SetF(e)` becomes a
// `let x := ...` that shadows the element.  The setters are read from their own declarations (`setterOf`): the
// member they assign and how they render the number (`numericField(seq, w)` or `strconv.Itoa(seq)`).  `b.build()`
// is the translated `Bundle.build` (Gen/BuildT.lean), `b.Validate()` the model's `bundleValidate`.

type clTr struct {
	buildTr
}

// setterOf: `func (x *T) SetF(seq int) string { x.F = x.numericField(seq, W); return x.F }` or
// `{ s := strconv.Itoa(seq); x.F = s; return x.F }`  ->  (F, Lean rendering of the argument)
func (t *clTr) setterOf(goType, method, arg string) (string, string, bool) {
	d := t.p.methods[goType][method]
	if d == nil || d.Body == nil || d.Type.Params == nil || len(d.Type.Params.List) != 1 || len(d.Type.Params.List[0].Names) != 1 || src(d.Type.Params.List[0].Type) != "int" {
		return "", "", false
	}
	par := d.Type.Params.List[0].Names[0].Name
	recv := recvName(d)
	body := d.Body.List
	render := func(e ast.Expr) (string, bool) {
		c, ok := e.(*ast.CallExpr)
		if !ok {
			return "", false
		}
		switch {
		case src(c.Fun) == "strconv.Itoa" && len(c.Args) == 1 && src(c.Args[0]) == par:
			return "(itoa " + arg + ")", true
		case src(c.Fun) == recv+".numericField" && len(c.Args) == 2 && src(c.Args[0]) == par:
			if bl, ok := c.Args[1].(*ast.BasicLit); ok && bl.Kind == token.INT {
				return "(numericField " + arg + " " + bl.Value + ")", true
			}
		}
		return "", false
	}
	local, localVal := "", ""
	if len(body) == 3 {
		as, ok := body[0].(*ast.AssignStmt)
		if !ok || as.Tok != token.DEFINE || len(as.Lhs) != 1 || len(as.Rhs) != 1 {
			return "", "", false
		}
		v, ok := render(as.Rhs[0])
		if !ok {
			return "", "", false
		}
		local, localVal = src(as.Lhs[0]), v
		body = body[1:]
	}
	if len(body) != 2 {
		return "", "", false
	}
	as, ok := body[0].(*ast.AssignStmt)
	if !ok || as.Tok != token.ASSIGN || len(as.Lhs) != 1 || len(as.Rhs) != 1 {
		return "", "", false
	}
	sel, ok := as.Lhs[0].(*ast.SelectorExpr)
	if !ok || src(sel.X) != recv {
		return "", "", false
	}
	ft := t.structField(goType, sel.Sel.Name)
	if ft == nil || src(ft) != "string" {
		return "", "", false
	}
	val := ""
	if local != "" && src(as.Rhs[0]) == local {
		val = localVal
	} else if v, ok := render(as.Rhs[0]); ok && local == "" {
		val = v
	} else {
		return "", "", false
	}
	r, ok := body[1].(*ast.ReturnStmt)
	if !ok || len(r.Results) != 1 || src(r.Results[0]) != recv+"."+sel.Sel.Name {
		return "", "", false
	}
	return sel.Sel.Name, val, true
}

func goTypeOfKind(kind string) string {
	for g, k := range walkRecKinds {
		if k == kind {
			return g
		}
	}
	return ""
}

// intStmt: a statement that only touches integer locals: `x := e`, `x = e`, `x++`, `if c { such statements }`
func (t *clTr) intStmt(st ast.Stmt, ind string) (string, bool) {
	switch s := st.(type) {
	case *ast.AssignStmt:
		if len(s.Lhs) != 1 || len(s.Rhs) != 1 {
			return "", false
		}
		id, ok := s.Lhs[0].(*ast.Ident)
		if !ok {
			return "", false
		}
		if s.Tok == token.DEFINE || (s.Tok == token.ASSIGN && t.ints[id.Name]) {
			v, ty := t.iexpr(s.Rhs[0])
			if ty == nil || ty.k != "int" {
				return "", false
			}
			t.ints[id.Name] = true
			return ind + "let σ := σ.set " + leanStr(id.Name) + " " + v + "\n", true
		}
	case *ast.IncDecStmt:
		if id, ok := s.X.(*ast.Ident); ok && t.ints[id.Name] && s.Tok == token.INC {
			return ind + "let σ := σ.set " + leanStr(id.Name) + " ((σ.get " + leanStr(id.Name) + ") + (1 : Int))\n", true
		}
	case *ast.IfStmt:
		if s.Init != nil || s.Else != nil {
			return "", false
		}
		cond, ct := t.iexpr(s.Cond)
		if ct == nil || ct.k != "bool" {
			return "", false
		}
		var sb strings.Builder
		for _, b := range s.Body.List {
			l, ok := t.intStmt(b, ind+"    ")
			if !ok {
				return "", false
			}
			sb.WriteString(l)
		}
		return ind + "let σ := if " + cond + " then (\n" + sb.String() + ind + "    σ) else σ\n", true
	}
	return "", false
}

// setterCall: `X.SetF(n)` as a statement, X a record of Go type goType; Lean: the new record from `r`
func (t *clTr) setterCall(c *ast.CallExpr, goType, r string) (string, bool) {
	sel, ok := c.Fun.(*ast.SelectorExpr)
	if !ok || len(c.Args) != 1 {
		return "", false
	}
	a, at := t.iexpr(c.Args[0])
	if at == nil || at.k != "int" {
		return "", false
	}
	f, v, ok := t.setterOf(goType, sel.Sel.Name, a)
	if !ok {
		return "", false
	}
	return r + ".setS " + leanStr(f) + " " + v, true
}

// addendaLoop: `for i := range item.L { item.L[i].SetF(n); item.L[i].G = v; <int statements> }`
func (t *clTr) addendaLoop(s *ast.RangeStmt, item, ind string) (string, bool) {
	if s.Key == nil || s.Value != nil || s.Tok != token.DEFINE {
		return "", false
	}
	idx := src(s.Key)
	sel, ok := s.X.(*ast.SelectorExpr)
	if !ok || src(sel.X) != item {
		return "", false
	}
	ls, lt := t.expr(s.X)
	if lt == nil || lt.k != "list" || lt.elem.k != "rec" {
		return "", false
	}
	acc := walkAccess[t.env[item].k][sel.Sel.Name]
	goType := goTypeOfKind(lt.elem.kind)
	elem := src(s.X) + "[" + idx + "]"
	var sb strings.Builder
	in := ind + "    "
	for _, st := range s.Body.List {
		switch x := st.(type) {
		case *ast.ExprStmt:
			if c, ok := x.X.(*ast.CallExpr); ok {
				if fs, ok := c.Fun.(*ast.SelectorExpr); ok && src(fs.X) == elem {
					if v, ok := t.setterCall(c, goType, "r"); ok {
						sb.WriteString(in + "let r := " + v + "\n")
						continue
					}
				}
			}
			return "", false
		case *ast.AssignStmt:
			if len(x.Lhs) == 1 && len(x.Rhs) == 1 && x.Tok == token.ASSIGN {
				if ms, ok := x.Lhs[0].(*ast.SelectorExpr); ok && src(ms.X) == elem {
					ft := t.structField(goType, ms.Sel.Name)
					v, vt := t.iexpr(x.Rhs[0])
					if ft != nil && src(ft) == "int" && vt != nil && vt.k == "int" {
						sb.WriteString(in + "let r := r.setI " + leanStr(ms.Sel.Name) + " " + v + "\n")
						continue
					}
					return "", false
				}
			}
			l, ok := t.intStmt(st, in)
			if !ok {
				return "", false
			}
			sb.WriteString(l)
		default:
			l, ok := t.intStmt(st, in)
			if !ok {
				return "", false
			}
			sb.WriteString(l)
		}
	}
	return ind + "let (" + acc.lean + ", σ) := forMap " + ls + " σ (fun r σ =>\n" + sb.String() + in + "(r, σ))\n" +
		ind + "let " + item + " := { " + item + " with " + acc.lean + " := " + acc.lean + " }\n", true
}

// itemLoop: `for _, cd := range b.Checks { ... }` numbering one item and its addenda
func (t *clTr) itemLoop(s *ast.RangeStmt, bundle, ind string) (string, bool) {
	if s.Key == nil || src(s.Key) != "_" || s.Value == nil {
		return "", false
	}
	sel, ok := s.X.(*ast.SelectorExpr)
	if !ok || src(sel.X) != bundle {
		return "", false
	}
	ls, lt := t.expr(s.X)
	if lt == nil || lt.k != "list" || (lt.elem.k != "check" && lt.elem.k != "return") {
		return "", false
	}
	acc := walkAccess["bundle"][sel.Sel.Name]
	item := src(s.Value)
	t.env[item] = lt.elem
	defer delete(t.env, item)
	goType := walkGoType[lt.elem.k]
	var sb strings.Builder
	in := ind + "    "
	for _, st := range s.Body.List {
		switch x := st.(type) {
		case *ast.ExprStmt:
			if c, ok := x.X.(*ast.CallExpr); ok {
				if fs, ok := c.Fun.(*ast.SelectorExpr); ok && src(fs.X) == item {
					if v, ok := t.setterCall(c, goType, item+".detail"); ok {
						sb.WriteString(in + "let " + item + " := { " + item + " with detail := " + v + " }\n")
						continue
					}
				}
			}
			return "", false
		case *ast.RangeStmt:
			l, ok := t.addendaLoop(x, item, in)
			if !ok {
				return "", false
			}
			sb.WriteString(l)
		default:
			l, ok := t.intStmt(st, in)
			if !ok {
				return "", false
			}
			sb.WriteString(l)
		}
	}
	return ind + "let (" + acc.lean + ", σ) := forMap " + ls + " σ (fun " + item + " σ =>\n" + sb.String() + in + "(" + item + ", σ))\n" +
		ind + "let " + bundle + " := { " + bundle + " with " + acc.lean + " := " + acc.lean + " }\n", true
}

// bundleBody: Lean term of type `Except BErr (Bundle Vals × Env)`
func (t *clTr) bundleBody(stmts []ast.Stmt, b, ind string) string {
	if len(stmts) == 0 {
		return ".ok (" + b + ", σ)"
	}
	rest := func() string { return t.bundleBody(stmts[1:], b, ind) }
	switch s := stmts[0].(type) {
	case *ast.ExprStmt:
		// `b.BundleHeader.SetBundleSequenceNumber(n)`
		if c, ok := s.X.(*ast.CallExpr); ok {
			if fs, ok := c.Fun.(*ast.SelectorExpr); ok {
				if ms, ok := fs.X.(*ast.SelectorExpr); ok && src(ms.X) == b {
					if _, mt := t.expr(fs.X); mt != nil && mt.k == "orec" {
						acc := walkAccess["bundle"][ms.Sel.Name]
						if v, ok := t.setterCall(c, goTypeOfKind(mt.kind), "r"); ok && acc.opt {
							return "let " + b + " := { " + b + " with " + acc.lean + " := " + b + "." + acc.lean + ".map (fun (r : Vals) => " + v + ") }\n" + ind + rest()
						}
					}
				}
			}
		}
	case *ast.RangeStmt:
		if l, ok := t.itemLoop(s, b, ind); ok {
			return strings.TrimPrefix(l, ind) + ind + rest()
		}
	case *ast.IfStmt:
		if c := errGuard(s); c != nil {
			if sel, ok := c.Fun.(*ast.SelectorExpr); ok && len(c.Args) == 0 && src(sel.X) == b && len(s.Body.List) == 1 && src(s.Body.List[0]) == "return err" {
				switch sel.Sel.Name {
				case "Validate":
					return "match bundleValidate " + b + " with\n" + ind + "| some fld => .error (ErrClass.bundle, fld)\n" + ind + "| none =>\n" + ind + rest()
				case "build":
					return "match Gen.B.build m " + b + " with\n" + ind + "| .error e => .error e\n" + ind + "| .ok " + b + " =>\n" + ind + rest()
				}
			}
		}
	}
	if l, ok := t.intStmt(stmts[0], ""); ok {
		return l + ind + rest()
	}
	t.bad("clbuild: bundle loop statement not recognised: %s", strings.SplitN(src(stmts[0]), "\n", 2)[0])
	return ".error (.plain, \"?\")"
}

func cashLetterErrorField(e ast.Expr) (string, bool) {
	u, ok := e.(*ast.UnaryExpr)
	if !ok || u.Op != token.AND {
		return "", false
	}
	cl, ok := u.X.(*ast.CompositeLit)
	if !ok || src(cl.Type) != "CashLetterError" {
		return "", false
	}
	for _, el := range cl.Elts {
		if kv, ok := el.(*ast.KeyValueExpr); ok && src(kv.Key) == "FieldName" {
			if bl, ok := kv.Value.(*ast.BasicLit); ok && bl.Kind == token.STRING {
				return strings.Trim(bl.Value, "\""), true
			}
		}
	}
	return "", false
}

// nilLoop: the loop that refuses nil records before anything is numbered.  On the model only the bundle header
// is a pointer (an Option); nil bundles / items cannot be expressed and their guards are dropped.
func (t *clTr) nilLoop(s *ast.RangeStmt) (string, bool) {
	ls, lt := t.expr(s.X)
	if lt == nil || lt.k != "list" || lt.elem.k != "bundle" || s.Key == nil || src(s.Key) != "_" || s.Value == nil {
		return "", false
	}
	b := src(s.Value)
	t.env[b] = lt.elem
	defer delete(t.env, b)
	guard := ""
	for _, st := range s.Body.List {
		switch x := st.(type) {
		case *ast.IfStmt:
			if x.Init != nil || x.Else != nil || len(x.Body.List) != 1 {
				return "", false
			}
			r, ok := x.Body.List[0].(*ast.ReturnStmt)
			if !ok || len(r.Results) != 1 {
				return "", false
			}
			f, ok := cashLetterErrorField(r.Results[0])
			if !ok {
				return "", false
			}
			// `b == nil || b.BundleHeader == nil`
			be, ok := x.Cond.(*ast.BinaryExpr)
			if !ok || be.Op != token.LOR || src(be.X) != b+" == nil" {
				return "", false
			}
			c, ct := t.iexpr(be.Y)
			if ct == nil || ct.k != "bool" || guard != "" {
				return "", false
			}
			guard = "if " + c + " then some (ErrClass.cashLetter, " + leanStr(f) + ") else none"
		case *ast.RangeStmt:
			// `for _, x := range b.L { if x == nil { return &CashLetterError{..} } }`
			_, it := t.expr(x.X)
			if it == nil || it.k != "list" || (it.elem.k != "check" && it.elem.k != "return") || x.Value == nil || len(x.Body.List) != 1 {
				return "", false
			}
			g, ok := x.Body.List[0].(*ast.IfStmt)
			if !ok || g.Init != nil || g.Else != nil || src(g.Cond) != src(x.Value)+" == nil" || len(g.Body.List) != 1 {
				return "", false
			}
			if r, ok := g.Body.List[0].(*ast.ReturnStmt); !ok || len(r.Results) != 1 {
				return "", false
			} else if _, ok := cashLetterErrorField(r.Results[0]); !ok {
				return "", false
			}
		default:
			return "", false
		}
	}
	if guard == "" {
		return "", false
	}
	return "firstErr (fun " + b + " => " + guard + ") " + ls, true
}

// recBlock: statements that only assign members of the new record `rec` (possibly under conditions)
func (t *clTr) recBlock(stmts []ast.Stmt, rec, ind string) (string, bool) {
	var sb strings.Builder
	for _, st := range stmts {
		switch s := st.(type) {
		case *ast.AssignStmt:
			if len(s.Lhs) != 1 || len(s.Rhs) != 1 || s.Tok != token.ASSIGN {
				return "", false
			}
			sel, ok := s.Lhs[0].(*ast.SelectorExpr)
			if !ok || src(sel.X) != rec {
				return "", false
			}
			line, ok := t.memberAssign(rec, sel.Sel.Name, s.Rhs[0])
			if !ok {
				return "", false
			}
			sb.WriteString(ind + line + "\n")
		case *ast.IfStmt:
			if s.Init != nil {
				return "", false
			}
			cond, ct := t.iexpr(s.Cond)
			if ct == nil || ct.k != "bool" {
				return "", false
			}
			body, ok := t.recBlock(s.Body.List, rec, ind+"    ")
			if !ok {
				return "", false
			}
			els := ""
			if s.Else != nil {
				eb, ok := s.Else.(*ast.BlockStmt)
				if !ok {
					return "", false
				}
				els, ok = t.recBlock(eb.List, rec, ind+"    ")
				if !ok {
					return "", false
				}
			}
			sb.WriteString(ind + "let " + rec + " := if " + cond + " then (\n" + body + ind + "    " + rec + ") else (\n" + els + ind + "    " + rec + ")\n")
		default:
			return "", false
		}
	}
	return sb.String(), true
}

// block: Lean term of type `Except BErr (CashLetter Vals)`
func (t *clTr) block(stmts []ast.Stmt, ind string) string {
	if len(stmts) == 0 {
		t.bad("clbuild: function falls off its end")
		return ".error (.plain, \"?\")"
	}
	cl := t.recv
	rest := func() string { return t.block(stmts[1:], ind) }
	switch s := stmts[0].(type) {
	case *ast.ReturnStmt:
		if len(s.Results) == 1 && src(s.Results[0]) == "nil" {
			return ".ok " + cl
		}
	case *ast.AssignStmt:
		if len(s.Lhs) == 1 && len(s.Rhs) == 1 {
			name := src(s.Lhs[0])
			if s.Tok == token.DEFINE {
				if c, ok := s.Rhs[0].(*ast.CallExpr); ok && len(c.Args) == 0 && strings.HasPrefix(src(c.Fun), "New") {
					if k, ok := walkRecKinds[strings.TrimPrefix(src(c.Fun), "New")]; ok {
						t.recs[name] = k
						return "let " + name + " := newRec m Kind." + k + "\n" + ind + rest()
					}
				}
			}
			if s.Tok == token.ASSIGN {
				// `cl.CashLetterControl = clc`
				if sel, ok := s.Lhs[0].(*ast.SelectorExpr); ok && src(sel.X) == cl {
					if acc, ok := walkAccess["cl"][sel.Sel.Name]; ok && acc.opt {
						if id, ok := s.Rhs[0].(*ast.Ident); ok && t.recs[id.Name] != "" {
							return "let " + cl + " := { " + cl + " with " + acc.lean + " := some " + id.Name + " }\n" + ind + rest()
						}
					}
				}
				if sel, ok := s.Lhs[0].(*ast.SelectorExpr); ok && t.recs[src(sel.X)] != "" {
					if l, ok := t.recBlock([]ast.Stmt{s}, src(sel.X), ""); ok {
						return l + ind + rest()
					}
				}
			}
		}
	case *ast.IfStmt:
		if c := errGuard(s); c != nil {
			if v, ok := t.validateCall(c); ok {
				return "match " + v + " with\n" + ind + "| some e => .error e\n" + ind + "| none =>\n" + ind + rest()
			}
		}
		// `if cl.CashLetterHeader == nil { return errors.New("...") }`
		if s.Init == nil && s.Else == nil && len(s.Body.List) == 1 {
			if r, ok := s.Body.List[0].(*ast.ReturnStmt); ok && len(r.Results) == 1 {
				if c, ok := r.Results[0].(*ast.CallExpr); ok && src(c.Fun) == "errors.New" && len(c.Args) == 1 {
					if bl, ok := c.Args[0].(*ast.BasicLit); ok && bl.Kind == token.STRING {
						cond, ct := t.iexpr(s.Cond)
						if msg, err := strconv.Unquote(bl.Value); err == nil && ct != nil && ct.k == "bool" {
							return "if " + cond + " then .error (ErrClass.plain, " + leanStr(msg) + ") else\n" + ind + rest()
						}
					}
				}
			}
		}
		// conditions over the new record
		for rec := range t.recs {
			if l, ok := t.recBlock([]ast.Stmt{s}, rec, ""); ok {
				return l + ind + rest()
			}
		}
	case *ast.RangeStmt:
		if line, ok := t.nilLoop(s); ok {
			return "match " + line + " with\n" + ind + "| some e => .error e\n" + ind + "| none =>\n" + ind + rest()
		}
		ls, lt := t.expr(s.X)
		if lt != nil && lt.k == "list" && lt.elem.k == "bundle" && s.Key != nil && src(s.Key) == "_" && s.Value != nil {
			b := src(s.Value)
			t.env[b] = lt.elem
			body := t.bundleBody(s.Body.List, b, ind+"    ")
			delete(t.env, b)
			return "match forMapE " + ls + " σ (fun " + b + " σ =>\n" + ind + "    " + body + ") with\n" + ind + "| .error e => .error e\n" + ind + "| .ok (bundles, σ) =>\n" + ind +
				"let " + cl + " := { " + cl + " with bundles := bundles }\n" + ind + rest()
		}
	}
	if l, ok := t.intStmt(stmts[0], ""); ok {
		return l + ind + rest()
	}
	t.bad("clbuild: statement not recognised: %s", strings.SplitN(src(stmts[0]), "\n", 2)[0])
	return ".error (.plain, \"?\")"
}

func emitClBuild(dir string, p *pkgInfo) {
	t := &clTr{buildTr: buildTr{walkTr: walkTr{p: p, ok: true, env: map[string]*wty{}, calls: map[string]bool{}}, ints: map[string]bool{}, recs: map[string]string{}}}
	d := p.methods["CashLetter"]["build"]
	body := ".error (.plain, \"?\")"
	t.recv = "cl"
	if d == nil || d.Body == nil {
		t.bad("clbuild: CashLetter.build not found")
	} else {
		t.recv = recvName(d)
		t.env = map[string]*wty{t.recv: {k: "cl"}}
		body = t.block(d.Body.List, "    ")
	}
	var sb strings.Builder
	sb.WriteString("/- GENERATED by harness/extract from cashLetter.go (CashLetter.build) and the setters it calls — do not edit. -/\nimport IclModel.BuildRT\nimport IclModel.Gen.BuildT\nnamespace Icl.Gen.CL\nopen Icl Icl.BuildRT\n\n")
	fmt.Fprintf(&sb, "def build (m : Model) (%s : CashLetter Vals) : Except BErr (CashLetter Vals) :=\n    let σ : Env := []\n    %s\n\n", t.recv, body)
	fmt.Fprintf(&sb, "/-- every statement of the Go method had a recognised shape -/\ndef recognised : Bool := %s\n\nend Icl.Gen.CL\n", leanBool(t.ok))
	must(os.WriteFile(filepath.Join(dir, "ClBuildT.lean"), []byte(sb.String()), 0o644))
	for _, w := range t.why {
		fmt.Fprintf(os.Stderr, "OPAQUE clbuild: %s\n", w)
	}
}
