// Command extract is the translator of the verification framework: it reads the Go sources of
// /repo (go/parser + go/ast, standard library only) and regenerates the Lean tables under
// lean/IclModel/Gen/.  It is closed-world: every statement shape it does not recognise is emitted
// as an `opaque` entry carrying the source text, which makes the table-level `decide` obligations in
// Lean fail instead of being silently skipped.
package main

import (
	"encoding/json"
	"flag"
	"fmt"
	"go/ast"
	"go/parser"
	"go/printer"
	"go/token"
	"os"
	"path/filepath"
	"sort"
	"strings"
)

var fset = token.NewFileSet()

type pkgInfo struct {
	files   map[string]*ast.File
	structs map[string]*ast.StructType
	methods map[string]map[string]*ast.FuncDecl // recv type -> name -> decl
	funcs   map[string]*ast.FuncDecl
	consts  map[string]string // simple string/int constants
}

func loadPkg(dir string) *pkgInfo {
	p := &pkgInfo{files: map[string]*ast.File{}, structs: map[string]*ast.StructType{},
		methods: map[string]map[string]*ast.FuncDecl{}, funcs: map[string]*ast.FuncDecl{}, consts: map[string]string{}}
	ents, err := os.ReadDir(dir)
	if err != nil {
		panic(err)
	}
	for _, e := range ents {
		n := e.Name()
		if e.IsDir() || !strings.HasSuffix(n, ".go") || strings.HasSuffix(n, "_test.go") || strings.HasPrefix(n, "verif_") {
			continue
		}
		f, err := parser.ParseFile(fset, filepath.Join(dir, n), nil, parser.ParseComments)
		if err != nil {
			panic(err)
		}
		p.files[n] = f
		for _, d := range f.Decls {
			switch d := d.(type) {
			case *ast.GenDecl:
				for _, s := range d.Specs {
					switch s := s.(type) {
					case *ast.TypeSpec:
						if st, ok := s.Type.(*ast.StructType); ok {
							p.structs[s.Name.Name] = st
						}
					case *ast.ValueSpec:
						for i, nm := range s.Names {
							if i < len(s.Values) {
								if bl, ok := s.Values[i].(*ast.BasicLit); ok {
									p.consts[nm.Name] = bl.Value
								}
							}
						}
					}
				}
			case *ast.FuncDecl:
				if d.Recv == nil {
					p.funcs[d.Name.Name] = d
					continue
				}
				rt := recvType(d)
				if p.methods[rt] == nil {
					p.methods[rt] = map[string]*ast.FuncDecl{}
				}
				p.methods[rt][d.Name.Name] = d
			}
		}
	}
	return p
}

func recvType(d *ast.FuncDecl) string {
	t := d.Recv.List[0].Type
	if s, ok := t.(*ast.StarExpr); ok {
		t = s.X
	}
	if id, ok := t.(*ast.Ident); ok {
		return id.Name
	}
	return ""
}

func recvName(d *ast.FuncDecl) string {
	if len(d.Recv.List[0].Names) == 0 {
		return ""
	}
	return d.Recv.List[0].Names[0].Name
}

func src(n ast.Node) string {
	var sb strings.Builder
	printer.Fprint(&sb, fset, n)
	return sb.String()
}

// ---------- record layouts (F1/F2) ----------

// record types in the order of the X9 type code; lean identifier, Go type.
var recordTypes = []struct{ Lean, Go string }{
	{"fileHeader", "FileHeader"}, {"cashLetterHeader", "CashLetterHeader"}, {"bundleHeader", "BundleHeader"},
	{"checkDetail", "CheckDetail"}, {"checkDetailAddendumA", "CheckDetailAddendumA"},
	{"checkDetailAddendumB", "CheckDetailAddendumB"}, {"checkDetailAddendumC", "CheckDetailAddendumC"},
	{"returnDetail", "ReturnDetail"}, {"returnDetailAddendumA", "ReturnDetailAddendumA"},
	{"returnDetailAddendumB", "ReturnDetailAddendumB"}, {"returnDetailAddendumC", "ReturnDetailAddendumC"},
	{"returnDetailAddendumD", "ReturnDetailAddendumD"}, {"imageViewDetail", "ImageViewDetail"},
	{"imageViewData", "ImageViewData"}, {"imageViewAnalysis", "ImageViewAnalysis"},
	{"credit", "Credit"}, {"creditItem", "CreditItem"},
	{"userGeneral", "UserGeneral"}, {"userPayeeEndorsement", "UserPayeeEndorsement"},
	{"bundleControl", "BundleControl"}, {"routingNumberSummary", "RoutingNumberSummary"},
	{"cashLetterControl", "CashLetterControl"}, {"fileControl", "FileControl"},
}

// Off is const + sum of named length variables.
type Off struct {
	C    int      `json:"c"`
	Vars []string `json:"vars,omitempty"`
}

type WField struct {
	Getter    string `json:"getter"`
	Src       string `json:"src"`             // struct field read
	Conv      string `json:"conv"`            // lit alpha numeric nbsm zstr date time alphaVar bytesVar image numericBlankNonPos dateBlankZero opaque
	Width     int    `json:"width"`           // fixed width (0 for variable)
	LenField  string `json:"lenField"`        // for the variable forms
	ImageOnly bool   `json:"imageOnly"`       // written only by toString(true)
	Opaque    string `json:"opaque,omitempty"` // source text when conv = opaque
}

type PStmt struct {
	Kind   string `json:"kind"` // guardRunes guardBytes guardVar bind assign lit setType opaque
	Dst    string `json:"dst,omitempty"`
	Lo     Off    `json:"lo"`
	Hi     Off    `json:"hi"`
	PK     string `json:"pk,omitempty"`  // num str date time raw bytes
	Var    string `json:"var,omitempty"` // bind / guardVar
	VarCmp string `json:"varCmp,omitempty"`
	Field  string `json:"field,omitempty"` // bind: field the length is parsed from
	Lit    string `json:"lit,omitempty"`
	Decode bool   `json:"decode,omitempty"` // slice goes through the reader's decode function first
	Opaque string `json:"opaque,omitempty"`
}

type FieldDecl struct {
	Name string `json:"name"`
	Type string `json:"type"`
	JSON string `json:"json"`
	Omit bool   `json:"omit"`
}

type RecLayout struct {
	Lean   string      `json:"lean"`
	Go     string      `json:"go"`
	Tag    string      `json:"tag"`
	Fields []FieldDecl `json:"fields"`
	Write  []WField    `json:"write"`
	Parse  []PStmt     `json:"parse"`
	Custom []string    `json:"custom"` // custom (Un)MarshalJSON present
	SetType []SetAct   `json:"setType"` // body of setRecordType()
	Ctor    []SetAct   `json:"ctor"`    // what New<T>() does besides setRecordType()
	Rules  []Rule      `json:"rules"`
}

func unquote(s string) string {
	if len(s) >= 2 && (s[0] == '"' || s[0] == '`') {
		var out string
		if err := json.Unmarshal([]byte(s), &out); err == nil {
			return out
		}
		return s[1 : len(s)-1]
	}
	return s
}

func structFields(p *pkgInfo, name string) []FieldDecl {
	st := p.structs[name]
	var out []FieldDecl
	if st == nil {
		return out
	}
	for _, f := range st.Fields.List {
		ty := src(f.Type)
		tag := ""
		omit := false
		if f.Tag != nil {
			t := unquote(f.Tag.Value)
			if i := strings.Index(t, `json:"`); i >= 0 {
				r := t[i+6:]
				r = r[:strings.Index(r, `"`)]
				parts := strings.Split(r, ",")
				tag = parts[0]
				for _, o := range parts[1:] {
					if o == "omitempty" {
						omit = true
					}
				}
			}
		}
		if len(f.Names) == 0 {
			out = append(out, FieldDecl{Name: "", Type: ty})
			continue
		}
		for _, n := range f.Names {
			out = append(out, FieldDecl{Name: n.Name, Type: ty, JSON: tag, Omit: omit})
		}
	}
	return out
}

// selector "recv.Name" -> Name
func selOn(e ast.Expr, recv string) (string, bool) {
	s, ok := e.(*ast.SelectorExpr)
	if !ok {
		return "", false
	}
	id, ok := s.X.(*ast.Ident)
	if !ok || id.Name != recv {
		return "", false
	}
	return s.Sel.Name, true
}

// call recv.M(args)
func callOn(e ast.Expr, recv string) (string, []ast.Expr, bool) {
	c, ok := e.(*ast.CallExpr)
	if !ok {
		return "", nil, false
	}
	m, ok := selOn(c.Fun, recv)
	if !ok {
		return "", nil, false
	}
	return m, c.Args, true
}

func intLit(e ast.Expr) (int, bool) {
	bl, ok := e.(*ast.BasicLit)
	if !ok || bl.Kind != token.INT {
		return 0, false
	}
	var n int
	if _, err := fmt.Sscanf(bl.Value, "%d", &n); err != nil {
		return 0, false
	}
	return n, true
}

var convNames = map[string]string{"alphaField": "alpha", "numericField": "numeric", "nbsmField": "nbsm", "stringField": "zstr"}

// isInvalidSizeReturn recognises `if !validSizeInt(v) { return "" }`
func isInvalidSizeReturn(s ast.Stmt, v string) bool {
	is, ok := s.(*ast.IfStmt)
	if !ok || is.Init != nil || is.Else != nil {
		return false
	}
	u, ok := is.Cond.(*ast.UnaryExpr)
	if !ok || u.Op != token.NOT {
		return false
	}
	c, ok := u.X.(*ast.CallExpr)
	if !ok || src(c.Fun) != "validSizeInt" || len(c.Args) != 1 || src(c.Args[0]) != v {
		return false
	}
	return len(is.Body.List) == 1 && src(is.Body.List[0]) == `return ""`
}

// getter recognises the body of an XxxField() method.
func getter(p *pkgInfo, typ, name string) WField {
	w := WField{Getter: name}
	d := p.methods[typ][name]
	if d == nil {
		w.Conv, w.Opaque = "opaque", "missing getter "+name
		return w
	}
	recv := recvName(d)
	body := d.Body.List
	opaque := func() WField {
		w.Conv, w.Opaque = "opaque", src(d.Body)
		return w
	}
	simpleRet := func(s ast.Stmt) bool {
		r, ok := s.(*ast.ReturnStmt)
		if !ok || len(r.Results) != 1 {
			return false
		}
		m, args, ok := callOn(r.Results[0], recv)
		if !ok {
			return false
		}
		if c, ok := convNames[m]; ok && len(args) == 2 {
			f, ok1 := selOn(args[0], recv)
			n, ok2 := intLit(args[1])
			if ok1 && ok2 {
				w.Src, w.Conv, w.Width = f, c, n
				return true
			}
		}
		if (m == "formatYYYYMMDDDate" || m == "formatSimpleTime") && len(args) == 1 {
			if f, ok := selOn(args[0], recv); ok {
				w.Src = f
				if m == "formatYYYYMMDDDate" {
					w.Conv, w.Width = "date", 8
				} else {
					w.Conv, w.Width = "time", 4
				}
				return true
			}
		}
		return false
	}
	// shape 1: single return
	if len(body) == 1 && simpleRet(body[0]) {
		return w
	}
	// shape: if <cond> { return <blank literal> } ; return simple
	if len(body) == 2 {
		if is, ok := body[0].(*ast.IfStmt); ok && is.Init == nil && is.Else == nil && len(is.Body.List) == 1 {
			if r, ok := is.Body.List[0].(*ast.ReturnStmt); ok && len(r.Results) == 1 {
				blank := ""
				switch x := r.Results[0].(type) {
				case *ast.BasicLit:
					blank = unquote(x.Value)
				case *ast.CallExpr: // recv.alphaField("", n)
					if m, args, ok := callOn(x, recv); ok && m == "alphaField" && len(args) == 2 && src(args[0]) == `""` {
						if n, ok := intLit(args[1]); ok {
							blank = strings.Repeat(" ", n)
						}
					}
				}
				if blank != "" && strings.TrimSpace(blank) == "" && simpleRet(body[1]) && len(blank) == w.Width {
					cond := src(is.Cond)
					switch {
					case w.Conv == "numeric" && cond == recv+"."+w.Src+" <= 0":
						w.Conv = "numericBlankNonPos"
						return w
					case w.Conv == "date" && cond == recv+"."+w.Src+".IsZero()":
						w.Conv = "dateBlankZero"
						return w
					}
				}
			}
		}
	}
	// shape: max := recv.parseNumField(recv.Len); if !validSizeInt(max) {return ""}; return recv.alphaField(recv.Src, uint(max))
	varShape := func(stmts []ast.Stmt, srcExprOK func(ast.Expr) (string, bool)) bool {
		if len(stmts) != 3 {
			return false
		}
		as, ok := stmts[0].(*ast.AssignStmt)
		if !ok || as.Tok != token.DEFINE || len(as.Lhs) != 1 || len(as.Rhs) != 1 {
			return false
		}
		v := src(as.Lhs[0])
		m, args, ok := callOn(as.Rhs[0], recv)
		if !ok || m != "parseNumField" || len(args) != 1 {
			return false
		}
		lf, ok := selOn(args[0], recv)
		if !ok || !isInvalidSizeReturn(stmts[1], v) {
			return false
		}
		r, ok := stmts[2].(*ast.ReturnStmt)
		if !ok || len(r.Results) != 1 {
			return false
		}
		m2, args2, ok := callOn(r.Results[0], recv)
		if !ok || m2 != "alphaField" || len(args2) != 2 || src(args2[1]) != "uint("+v+")" {
			return false
		}
		f, ok := srcExprOK(args2[0])
		if !ok {
			return false
		}
		w.Src, w.LenField = f, lf
		return true
	}
	if varShape(body, func(e ast.Expr) (string, bool) { return selOn(e, recv) }) {
		w.Conv = "alphaVar"
		return w
	}
	// shape: s := string(recv.B[:]); <varShape with s>
	bytesLocal := func(s ast.Stmt) (string, string, bool) {
		as, ok := s.(*ast.AssignStmt)
		if !ok || as.Tok != token.DEFINE || len(as.Lhs) != 1 || len(as.Rhs) != 1 {
			return "", "", false
		}
		c, ok := as.Rhs[0].(*ast.CallExpr)
		if !ok || src(c.Fun) != "string" || len(c.Args) != 1 {
			return "", "", false
		}
		sl, ok := c.Args[0].(*ast.SliceExpr)
		if !ok || sl.Low != nil || sl.High != nil {
			return "", "", false
		}
		f, ok := selOn(sl.X, recv)
		if !ok {
			return "", "", false
		}
		return src(as.Lhs[0]), f, true
	}
	if len(body) == 4 {
		if loc, f, ok := bytesLocal(body[0]); ok {
			if varShape(body[1:], func(e ast.Expr) (string, bool) { return f, src(e) == loc }) {
				w.Conv = "bytesVar"
				return w
			}
		}
	}
	// shape (ImageDataField): if decoded, err := recv.DecodeImageData(); len(decoded) > 0 && err == nil { return recv.alphaField(string(decoded[:]), uint(len(decoded))) }; <bytesVar>
	if len(body) == 5 {
		if is, ok := body[0].(*ast.IfStmt); ok && is.Init != nil && is.Else == nil &&
			src(is.Init) == "decoded, err := "+recv+".DecodeImageData()" &&
			src(is.Cond) == "len(decoded) > 0 && err == nil" && len(is.Body.List) == 1 &&
			src(is.Body.List[0]) == "return "+recv+".alphaField(string(decoded[:]), uint(len(decoded)))" {
			if loc, f, ok := bytesLocal(body[1]); ok {
				if varShape(body[2:], func(e ast.Expr) (string, bool) { return f, src(e) == loc }) {
					w.Conv = "image"
					return w
				}
			}
		}
	}
	return opaque()
}

// writeSide recognises String()/toString().
func writeSide(p *pkgInfo, typ string) []WField {
	d := p.methods[typ]["toString"]
	if d == nil {
		d = p.methods[typ]["String"]
	}
	if d == nil {
		return []WField{{Conv: "opaque", Opaque: "no String()"}}
	}
	recv := recvName(d)
	var out []WField
	var walk func(stmts []ast.Stmt, imageOnly bool)
	walk = func(stmts []ast.Stmt, imageOnly bool) {
		for _, s := range stmts {
			switch s := s.(type) {
			case *ast.IfStmt:
				c := src(s.Cond)
				if c == recv+" == nil" {
					continue
				}
				if s.Init != nil && strings.HasPrefix(c, "validSizeInt(") && len(s.Body.List) == 1 && strings.HasPrefix(src(s.Body.List[0]), "buf.Grow(") {
					continue
				}
				if c == "inclImage" && s.Else == nil {
					walk(s.Body.List, true)
					continue
				}
				out = append(out, WField{Conv: "opaque", Opaque: src(s)})
			case *ast.DeclStmt:
				if src(s) == "var buf strings.Builder" {
					continue
				}
				out = append(out, WField{Conv: "opaque", Opaque: src(s)})
			case *ast.ReturnStmt:
				if src(s) == "return buf.String()" {
					continue
				}
				out = append(out, WField{Conv: "opaque", Opaque: src(s)})
			case *ast.ExprStmt:
				c, ok := s.X.(*ast.CallExpr)
				if ok && src(c.Fun) == "buf.Grow" {
					continue
				}
				if ok && src(c.Fun) == "buf.WriteString" && len(c.Args) == 1 {
					if f, ok := selOn(c.Args[0], recv); ok && f == "recordType" {
						out = append(out, WField{Getter: "recordType", Src: "recordType", Conv: "lit", Width: 2, ImageOnly: imageOnly})
						continue
					}
					if m, args, ok := callOn(c.Args[0], recv); ok && len(args) == 0 {
						g := getter(p, typ, m)
						g.ImageOnly = imageOnly
						out = append(out, g)
						continue
					}
				}
				out = append(out, WField{Conv: "opaque", Opaque: src(s)})
			default:
				out = append(out, WField{Conv: "opaque", Opaque: src(s)})
			}
		}
	}
	walk(d.Body.List, false)
	return out
}

// parseOff parses "22", "22+x", "105+lirk+lds" into an Off.
func parseOff(e ast.Expr) (Off, bool) {
	switch x := e.(type) {
	case *ast.BasicLit:
		n, ok := intLit(x)
		return Off{C: n}, ok
	case *ast.Ident:
		return Off{Vars: []string{x.Name}}, true
	case *ast.BinaryExpr:
		if x.Op != token.ADD {
			return Off{}, false
		}
		a, ok1 := parseOff(x.X)
		b, ok2 := parseOff(x.Y)
		if !ok1 || !ok2 {
			return Off{}, false
		}
		return Off{C: a.C + b.C, Vars: append(append([]string{}, a.Vars...), b.Vars...)}, true
	case *ast.ParenExpr:
		return parseOff(x.X)
	}
	return Off{}, false
}

var parseKinds = map[string]string{"parseNumField": "num", "parseStringField": "str", "parseYYYYMMDDDate": "date",
	"parseSimpleTime": "time", "stringToBytesField": "bytes"}

func sliceOf(e ast.Expr, of string) (Off, Off, bool) {
	sl, ok := e.(*ast.SliceExpr)
	if !ok || src(sl.X) != of || sl.Low == nil || sl.High == nil {
		return Off{}, Off{}, false
	}
	lo, ok1 := parseOff(sl.Low)
	hi, ok2 := parseOff(sl.High)
	return lo, hi, ok1 && ok2
}

func parseSide(p *pkgInfo, typ string) []PStmt {
	d := p.methods[typ]["ParseAndDecode"]
	if d == nil {
		d = p.methods[typ]["Parse"]
	}
	if d == nil {
		return []PStmt{{Kind: "opaque", Opaque: "no Parse()"}}
	}
	recv := recvName(d)
	arg := d.Type.Params.List[0].Names[0].Name
	rc := "utf8.RuneCountInString(" + arg + ")"
	var out []PStmt
	lenAlias := "" // recordLength := len(record)
	isRet := func(b *ast.BlockStmt) bool {
		if len(b.List) != 1 {
			return false
		}
		_, ok := b.List[0].(*ast.ReturnStmt)
		return ok
	}
	stmts := d.Body.List
	for i := 0; i < len(stmts); i++ {
		s := stmts[i]
		op := func() { out = append(out, PStmt{Kind: "opaque", Opaque: src(s)}) }
		switch s := s.(type) {
		case *ast.IfStmt:
			if s.Init != nil || s.Else != nil || !isRet(s.Body) {
				op()
				continue
			}
			be, ok := s.Cond.(*ast.BinaryExpr)
			if !ok {
				op()
				continue
			}
			// if RuneCount(record) < N  |  recordLength < N  |  RuneCount(record) != N
			if l := src(be.X); (l == rc || (lenAlias != "" && l == lenAlias)) && (be.Op == token.LSS || be.Op == token.NEQ) {
				if o, ok := parseOff(be.Y); ok && len(o.Vars) == 0 {
					k := "guardRunes"
					if l != rc {
						k = "guardBytes"
					}
					cmp := "lt"
					if be.Op == token.NEQ {
						cmp = "ne"
					}
					out = append(out, PStmt{Kind: k, Hi: o, VarCmp: cmp})
					continue
				}
			}
			// if v <= 0 || RuneCount(record) < 46+v   |   v < 0 || recordLength < 110+v
			if be.Op == token.LOR {
				l, ok1 := be.X.(*ast.BinaryExpr)
				r, ok2 := be.Y.(*ast.BinaryExpr)
				if ok1 && ok2 && (l.Op == token.LEQ || l.Op == token.LSS) && src(l.Y) == "0" && r.Op == token.LSS {
					if o, ok := parseOff(r.Y); ok {
						rl := src(r.X)
						if rl == rc || (lenAlias != "" && rl == lenAlias) {
							cmp := "le0"
							if l.Op == token.LSS {
								cmp = "lt0"
							}
							k := "guardVarRunes"
							if rl != rc {
								k = "guardVarBytes"
							}
							out = append(out, PStmt{Kind: k, Var: src(l.X), VarCmp: cmp, Hi: o})
							continue
						}
					}
				}
			}
			op()
		case *ast.ExprStmt:
			if m, args, ok := callOn(s.X, recv); ok && m == "setRecordType" && len(args) == 0 {
				out = append(out, PStmt{Kind: "setType"})
				continue
			}
			op()
		case *ast.ReturnStmt:
			if i == len(stmts)-1 {
				continue
			}
			op()
		case *ast.AssignStmt:
			if len(s.Lhs) == 1 && len(s.Rhs) == 1 && s.Tok == token.DEFINE {
				v := src(s.Lhs[0])
				if src(s.Rhs[0]) == "len("+arg+")" {
					lenAlias = v
					continue
				}
				if m, args, ok := callOn(s.Rhs[0], recv); ok && m == "parseNumField" && len(args) == 1 {
					if f, ok := selOn(args[0], recv); ok {
						out = append(out, PStmt{Kind: "bind", Var: v, Field: f})
						continue
					}
				}
				op()
				continue
			}
			// decode pattern: lineOut, err (:=|=) decode(record[a:b]) ; if err != nil {return err} ; recv.F = recv.parseK(lineOut)
			if len(s.Lhs) == 2 && len(s.Rhs) == 1 && src(s.Lhs[0]) == "lineOut" && src(s.Lhs[1]) == "err" {
				if c, ok := s.Rhs[0].(*ast.CallExpr); ok && src(c.Fun) == "decode" && len(c.Args) == 1 && i+2 < len(stmts) {
					lo, hi, ok := sliceOf(c.Args[0], arg)
					if ok && src(stmts[i+1]) == "if err != nil {\n\treturn err\n}" {
						if as2, ok := stmts[i+2].(*ast.AssignStmt); ok && len(as2.Lhs) == 1 && len(as2.Rhs) == 1 && as2.Tok == token.ASSIGN {
							if dst, ok := selOn(as2.Lhs[0], recv); ok {
								if m, args, ok := callOn(as2.Rhs[0], recv); ok && len(args) == 1 && src(args[0]) == "lineOut" {
									if pk, ok := parseKinds[m]; ok {
										out = append(out, PStmt{Kind: "assign", Dst: dst, Lo: lo, Hi: hi, PK: pk, Decode: true})
										i += 2
										continue
									}
								}
							}
						}
					}
				}
				op()
				continue
			}
			if len(s.Lhs) == 1 && len(s.Rhs) == 1 && s.Tok == token.ASSIGN {
				dst, ok := selOn(s.Lhs[0], recv)
				if !ok {
					op()
					continue
				}
				if bl, ok := s.Rhs[0].(*ast.BasicLit); ok && bl.Kind == token.STRING {
					out = append(out, PStmt{Kind: "lit", Dst: dst, Lit: unquote(bl.Value)})
					continue
				}
				if lo, hi, ok := sliceOf(s.Rhs[0], arg); ok {
					out = append(out, PStmt{Kind: "assign", Dst: dst, Lo: lo, Hi: hi, PK: "raw"})
					continue
				}
				if m, args, ok := callOn(s.Rhs[0], recv); ok && len(args) == 1 {
					if pk, ok := parseKinds[m]; ok {
						if lo, hi, ok := sliceOf(args[0], arg); ok {
							out = append(out, PStmt{Kind: "assign", Dst: dst, Lo: lo, Hi: hi, PK: pk})
							continue
						}
					}
				}
			}
			op()
		default:
			op()
		}
	}
	return out
}

// SetAct is one effect of setRecordType() / New<T>().
type SetAct struct {
	Kind  string `json:"kind"` // lit nowIfZero setType opaque
	Field string `json:"field,omitempty"`
	Lit   string `json:"lit,omitempty"`
	Src   string `json:"src,omitempty"`
}

func setActs(stmts []ast.Stmt, recv string) []SetAct {
	var out []SetAct
	for i, s := range stmts {
		switch x := s.(type) {
		case *ast.IfStmt:
			if src(x.Cond) == recv+" == nil" {
				continue
			}
			// if recv.F.IsZero() { recv.F = time.Now() }
			if x.Init == nil && x.Else == nil && len(x.Body.List) == 1 {
				if c, ok := x.Cond.(*ast.CallExpr); ok {
					if sel, ok := c.Fun.(*ast.SelectorExpr); ok && sel.Sel.Name == "IsZero" {
						if f, ok := selOn(sel.X, recv); ok && src(x.Body.List[0]) == recv+"."+f+" = time.Now()" {
							out = append(out, SetAct{Kind: "nowIfZero", Field: f})
							continue
						}
					}
				}
			}
		case *ast.AssignStmt:
			if len(x.Lhs) == 1 && len(x.Rhs) == 1 {
				if x.Tok == token.DEFINE && i == 0 {
					continue // x := T{} / &T{}
				}
				if f, ok := selOn(x.Lhs[0], recv); ok {
					if bl, ok := x.Rhs[0].(*ast.BasicLit); ok && bl.Kind == token.STRING {
						out = append(out, SetAct{Kind: "lit", Field: f, Lit: unquote(bl.Value)})
						continue
					}
				}
			}
		case *ast.ExprStmt:
			if m, args, ok := callOn(x.X, recv); ok && m == "setRecordType" && len(args) == 0 {
				out = append(out, SetAct{Kind: "setType"})
				continue
			}
		case *ast.ReturnStmt:
			continue
		}
		out = append(out, SetAct{Kind: "opaque", Src: src(s)})
	}
	return out
}

func setTypeOf(p *pkgInfo, typ string) []SetAct {
	d := p.methods[typ]["setRecordType"]
	if d == nil {
		return []SetAct{{Kind: "opaque", Src: "no setRecordType"}}
	}
	return setActs(d.Body.List, recvName(d))
}

func ctorOf(p *pkgInfo, typ string) []SetAct {
	d := p.funcs["New"+typ]
	if d == nil || len(d.Body.List) == 0 {
		return []SetAct{{Kind: "opaque", Src: "no New" + typ}}
	}
	as, ok := d.Body.List[0].(*ast.AssignStmt)
	if !ok || len(as.Lhs) != 1 {
		return []SetAct{{Kind: "opaque", Src: src(d.Body)}}
	}
	return setActs(d.Body.List, src(as.Lhs[0]))
}

func recordTag(p *pkgInfo, typ string) string {
	d := p.methods[typ]["setRecordType"]
	if d == nil {
		return "?"
	}
	tag := "?"
	ast.Inspect(d.Body, func(n ast.Node) bool {
		if as, ok := n.(*ast.AssignStmt); ok && len(as.Lhs) == 1 && len(as.Rhs) == 1 {
			if s, ok := as.Lhs[0].(*ast.SelectorExpr); ok && s.Sel.Name == "recordType" {
				if bl, ok := as.Rhs[0].(*ast.BasicLit); ok {
					tag = unquote(bl.Value)
				}
			}
		}
		return true
	})
	return tag
}

func main() {
	repo := flag.String("repo", "/repo", "repository root")
	out := flag.String("out", "", "output directory for Lean files")
	jsonOut := flag.String("json", "", "also write the tables as JSON here")
	flag.Parse()
	p := loadPkg(*repo)
	var recs []RecLayout
	for _, rt := range recordTypes {
		r := RecLayout{Lean: rt.Lean, Go: rt.Go, Tag: recordTag(p, rt.Go)}
		r.Fields = structFields(p, rt.Go)
		r.Write = writeSide(p, rt.Go)
		r.Parse = parseSide(p, rt.Go)
		for _, m := range []string{"MarshalJSON", "UnmarshalJSON"} {
			if p.methods[rt.Go][m] != nil {
				r.Custom = append(r.Custom, m)
			}
		}
		r.Rules = rulesOf(p, rt.Go)
		r.SetType = setTypeOf(p, rt.Go)
		r.Ctor = ctorOf(p, rt.Go)
		recs = append(recs, r)
	}
	all := &Tables{Records: recs}
	extractRest(p, *repo, all)
	if *jsonOut != "" {
		b, _ := json.MarshalIndent(all, "", " ")
		if err := os.WriteFile(*jsonOut, b, 0o644); err != nil {
			panic(err)
		}
	}
	if *out != "" {
		emitLean(*out, all)
	}
	// report opaque entries on stderr
	n := 0
	for _, r := range recs {
		for _, w := range r.Write {
			if w.Conv == "opaque" {
				n++
				fmt.Fprintf(os.Stderr, "OPAQUE write %s.%s: %s\n", r.Go, w.Getter, w.Opaque)
			}
		}
		for _, s := range r.Parse {
			if s.Kind == "opaque" {
				n++
				fmt.Fprintf(os.Stderr, "OPAQUE parse %s: %s\n", r.Go, s.Opaque)
			}
		}
	}
	_ = sort.Strings
	for _, r := range recs {
		for i := range r.Rules {
			var op []string
			countOpaque(&r.Rules[i], &op)
			for _, o := range op {
				n++
				fmt.Fprintf(os.Stderr, "OPAQUE rule %s: %s\n", r.Go, o)
			}
		}
	}
	for _, c := range all.Codes {
		if c.Kind == "opaque" {
			fmt.Fprintf(os.Stderr, "OPAQUE code table %s: %s\n", c.Name, c.Src)
		}
	}
	fmt.Fprintf(os.Stderr, "extract: %d records, %d opaque layout entries\n", len(recs), n)
}
