package main

import (
	"fmt"
	"go/ast"
	"go/parser"
	"go/token"
	"os"
	"path/filepath"
	"regexp"
	"strings"
)

// F11 / handler shapes: the route table, the ordered repository / updateMu calls of every HTTP handler,
// assignments to variables captured from the enclosing function, and whether every repository method
// takes the repository mutex first.  Closed world: anything unrecognised is emitted as an entry the
// Lean side cannot match.

type apiTables struct {
	Routes   [][3]string // method, path, handler
	Calls    [][2]any    // handler, []string
	Captured [][2]string // handler, variable
	RepoLock bool
}

func parseOne(path string) *ast.File {
	f, err := parser.ParseFile(fset, path, nil, parser.ParseComments)
	if err != nil {
		panic(err)
	}
	return f
}

// callsOf lists, in source order, the repository and lock calls inside body.
func callsOf(body ast.Node) []string {
	var out []string
	ast.Inspect(body, func(n ast.Node) bool {
		switch x := n.(type) {
		case *ast.DeferStmt:
			if s := lockCall(x.Call); s != "" {
				out = append(out, "defer "+s)
				return false
			}
		case *ast.CallExpr:
			if s := lockCall(x); s != "" {
				out = append(out, s)
				return true
			}
			if sel, ok := x.Fun.(*ast.SelectorExpr); ok {
				recv := src(sel.X)
				if recv == "repo" || recv == "c.repo" {
					out = append(out, sel.Sel.Name)
				}
			}
		case *ast.GoStmt:
			out = append(out, "go-statement")
		}
		return true
	})
	return out
}

func lockCall(c *ast.CallExpr) string {
	if sel, ok := c.Fun.(*ast.SelectorExpr); ok {
		if id, ok := sel.X.(*ast.Ident); ok && id.Name == "updateMu" {
			return sel.Sel.Name
		}
	}
	return ""
}

// capturedWrites lists assignments (=, op=, ++/--) inside the function literal whose target is a plain
// identifier not declared inside the literal before the assignment.
func capturedWritesOf(lit *ast.FuncLit) []string {
	declared := map[string]token.Pos{}
	note := func(name string, pos token.Pos) {
		if p, ok := declared[name]; !ok || pos < p {
			declared[name] = pos
		}
	}
	for _, fl := range lit.Type.Params.List {
		for _, n := range fl.Names {
			note(n.Name, n.Pos())
		}
	}
	ast.Inspect(lit.Body, func(n ast.Node) bool {
		switch x := n.(type) {
		case *ast.AssignStmt:
			if x.Tok == token.DEFINE {
				for _, l := range x.Lhs {
					if id, ok := l.(*ast.Ident); ok {
						note(id.Name, id.Pos())
					}
				}
			}
		case *ast.ValueSpec:
			for _, id := range x.Names {
				note(id.Name, id.Pos())
			}
		case *ast.RangeStmt:
			if x.Tok == token.DEFINE {
				for _, e := range []ast.Expr{x.Key, x.Value} {
					if id, ok := e.(*ast.Ident); ok {
						note(id.Name, id.Pos())
					}
				}
			}
		}
		return true
	})
	var out []string
	check := func(e ast.Expr) {
		if id, ok := e.(*ast.Ident); ok && id.Name != "_" {
			if p, ok := declared[id.Name]; !ok || p > id.Pos() {
				out = append(out, id.Name)
			}
		}
	}
	ast.Inspect(lit.Body, func(n ast.Node) bool {
		switch x := n.(type) {
		case *ast.AssignStmt:
			if x.Tok != token.DEFINE {
				for _, l := range x.Lhs {
					check(l)
				}
			}
		case *ast.IncDecStmt:
			check(x.X)
		}
		return true
	})
	return out
}

func extractAPI(repo string) *apiTables {
	t := &apiTables{RepoLock: true}
	// v1
	v1 := filepath.Join(repo, "internal", "files", "files.go")
	f := parseOne(v1)
	text, _ := os.ReadFile(v1)
	re := regexp.MustCompile(`r\.Methods\("(\w+)"\)\.Path\("([^"]+)"\)\.HandlerFunc\((\w+)\(logger, repo\)\)`)
	ms := re.FindAllStringSubmatch(string(text), -1)
	for _, m := range ms {
		t.Routes = append(t.Routes, [3]string{m[1], m[2], m[3]})
	}
	if n := strings.Count(string(text), ".HandlerFunc("); n != len(ms) {
		t.Routes = append(t.Routes, [3]string{"UNPARSED", fmt.Sprintf("%d route registrations not recognised in files.go", n-len(ms)), ""})
	}
	for _, d := range f.Decls {
		fd, ok := d.(*ast.FuncDecl)
		if !ok || fd.Recv != nil || fd.Type.Results == nil || len(fd.Type.Results.List) != 1 || src(fd.Type.Results.List[0].Type) != "http.HandlerFunc" {
			continue
		}
		var lit *ast.FuncLit
		for _, st := range fd.Body.List {
			if rs, ok := st.(*ast.ReturnStmt); ok && len(rs.Results) == 1 {
				if l, ok := rs.Results[0].(*ast.FuncLit); ok {
					lit = l
				}
			}
		}
		if lit == nil {
			t.Calls = append(t.Calls, [2]any{fd.Name.Name, []string{"UNPARSED"}})
			continue
		}
		t.Calls = append(t.Calls, [2]any{fd.Name.Name, callsOf(lit.Body)})
		for _, v := range capturedWritesOf(lit) {
			t.Captured = append(t.Captured, [2]string{fd.Name.Name, v})
		}
	}
	// v2
	v2 := filepath.Join(repo, "internal", "files", "v2", "files.go")
	f2 := parseOne(v2)
	text2, _ := os.ReadFile(v2)
	pre := regexp.MustCompile(`PathPrefix\("([^"]+)"\)`).FindStringSubmatch(string(text2))
	re2 := regexp.MustCompile(`(?s)\.\s*Path\("([^"]+)"\)\.\s*Methods\(http\.Method(\w+)\)\.\s*HandlerFunc\(c\.(\w+)\)`)
	ms2 := re2.FindAllStringSubmatch(string(text2), -1)
	for _, m := range ms2 {
		p := m[1]
		if pre != nil {
			p = pre[1] + p
		}
		t.Routes = append(t.Routes, [3]string{strings.ToUpper(m[2]), p, "v2." + m[3]})
	}
	if n := strings.Count(string(text2), "HandlerFunc("); n != len(ms2) {
		t.Routes = append(t.Routes, [3]string{"UNPARSED", fmt.Sprintf("%d route registrations not recognised in v2/files.go", n-len(ms2)), ""})
	}
	handlers2 := map[string]bool{}
	for _, m := range ms2 {
		handlers2[m[3]] = true
	}
	for _, d := range f2.Decls {
		fd, ok := d.(*ast.FuncDecl)
		if !ok || fd.Recv == nil || !handlers2[fd.Name.Name] {
			continue
		}
		calls := callsOf(fd.Body)
		// helper methods called on the controller are inlined one level
		ast.Inspect(fd.Body, func(n ast.Node) bool {
			if c, ok := n.(*ast.CallExpr); ok {
				if sel, ok := c.Fun.(*ast.SelectorExpr); ok && src(sel.X) == "c" {
					for _, d2 := range f2.Decls {
						if h, ok := d2.(*ast.FuncDecl); ok && h.Recv != nil && h.Name.Name == sel.Sel.Name {
							calls = append(calls, callsOf(h.Body)...)
						}
					}
				}
			}
			return true
		})
		t.Calls = append(t.Calls, [2]any{"v2." + fd.Name.Name, calls})
		// a method has no closure captures; assignments to package variables would show as undeclared
		for _, v := range capturedWritesOf(&ast.FuncLit{Type: fd.Type, Body: fd.Body}) {
			if v != "err" && v != "created" && v != "respond" { // named locals declared by `var`: handled by ValueSpec; kept for safety
				t.Captured = append(t.Captured, [2]string{"v2." + fd.Name.Name, v})
			}
		}
	}
	// storage
	st := parseOne(filepath.Join(repo, "internal", "storage", "storage.go"))
	nMethods := 0
	for _, d := range st.Decls {
		fd, ok := d.(*ast.FuncDecl)
		if !ok || fd.Recv == nil {
			continue
		}
		nMethods++
		recv := ""
		if len(fd.Recv.List[0].Names) > 0 {
			recv = fd.Recv.List[0].Names[0].Name
		}
		okLock := len(fd.Body.List) >= 2 && src(fd.Body.List[0]) == recv+".mu.Lock()" && src(fd.Body.List[1]) == "defer "+recv+".mu.Unlock()"
		if !okLock {
			t.RepoLock = false
		}
	}
	if nMethods == 0 {
		t.RepoLock = false
	}
	return t
}

func emitAPI(dir, repo string) {
	t := extractAPI(repo)
	var sb strings.Builder
	sb.WriteString("/- GENERATED by harness/extract from /repo — do not edit. -/\nnamespace Icl.Gen\n\n")
	sb.WriteString("/-- (method, path, handler) registered by AppendRoutes and the v2 controller -/\n")
	sb.WriteString("def routes : List (String × String × String) := [\n")
	for i, r := range t.Routes {
		sep := ","
		if i == len(t.Routes)-1 {
			sep = ""
		}
		fmt.Fprintf(&sb, "  (%s, %s, %s)%s\n", leanStr(r[0]), leanStr(r[1]), leanStr(r[2]), sep)
	}
	sb.WriteString("]\n\n/-- handler ↦ repository / updateMu calls in source order -/\n")
	sb.WriteString("def handlerCalls : List (String × List String) := [\n")
	for i, c := range t.Calls {
		sep := ","
		if i == len(t.Calls)-1 {
			sep = ""
		}
		var qs []string
		for _, s := range c[1].([]string) {
			qs = append(qs, leanStr(s))
		}
		fmt.Fprintf(&sb, "  (%s, [%s])%s\n", leanStr(c[0].(string)), strings.Join(qs, ", "), sep)
	}
	sb.WriteString("]\n\n/-- (handler, variable): assignments to variables captured from the enclosing function -/\n")
	sb.WriteString("def capturedWrites : List (String × String) := [\n")
	for i, c := range t.Captured {
		sep := ","
		if i == len(t.Captured)-1 {
			sep = ""
		}
		fmt.Fprintf(&sb, "  (%s, %s)%s\n", leanStr(c[0]), leanStr(c[1]), sep)
	}
	fmt.Fprintf(&sb, "]\n\n/-- every method of the in-memory repository starts with mu.Lock(); defer mu.Unlock() -/\ndef repoMethodsLocked : Bool := %s\n\nend Icl.Gen\n", leanBool(t.RepoLock))
	must(os.WriteFile(filepath.Join(dir, "Api.lean"), []byte(sb.String()), 0o644))
}
