package main

import (
	"fmt"
	"go/ast"
	"go/token"
	"os"
	"path/filepath"
	"strings"
)

// File.Create (file.go) translated statement by statement into Lean (Gen/CreateT.lean): the integer locals live
// in the environment σ; loops over records are `firstErr` (validation only) or folds (tallies only); the loops over
// cash letters and bundles rebuild their element (`b.build()` replaces the bundle's control record) and are
// `forMapE`.  `CashLetter.Validate` / `Bundle.Validate` are the container validators of the model
// (`cashLetterValidate`, `bundleValidate`), `b.build()` is the translated `Bundle.build` (Gen/BuildT.lean).
// Nil checks of pointer elements are dropped: the model's lists hold records, not pointers (the routing number
// summaries excepted, which are options).

type fcTr struct {
	buildTr
	fileVar string
}

func isNilCheckReturn(s ast.Stmt, v string) (string, bool) {
	g, ok := s.(*ast.IfStmt)
	if !ok || g.Init != nil || g.Else != nil || src(g.Cond) != v+" == nil" || len(g.Body.List) != 1 {
		return "", false
	}
	r, ok := g.Body.List[0].(*ast.ReturnStmt)
	if !ok || len(r.Results) != 1 {
		return "", false
	}
	return fileErrorField(r.Results[0])
}

func fileErrorField(e ast.Expr) (string, bool) {
	u, ok := e.(*ast.UnaryExpr)
	if !ok || u.Op != token.AND {
		return "", false
	}
	cl, ok := u.X.(*ast.CompositeLit)
	if !ok || (src(cl.Type) != "FileError" && src(cl.Type) != "FieldError") {
		return "", false
	}
	for _, el := range cl.Elts {
		if kv, ok := el.(*ast.KeyValueExpr); ok && src(kv.Key) == "FieldName" {
			if bl, ok := kv.Value.(*ast.BasicLit); ok && bl.Kind == token.STRING {
				return strings.Trim(bl.Value, "\""), true
			}
		}
	}
	return "", false
}

// pureLoop: `for _, x := range L { <assignments to integer locals> }` -> a fold
func (t *fcTr) pureLoop(s *ast.RangeStmt, ind string) (string, bool) {
	ls, lt := t.expr(s.X)
	if lt == nil || lt.k != "list" || s.Key == nil || src(s.Key) != "_" || s.Value == nil {
		return "", false
	}
	val := src(s.Value)
	t.env[val] = lt.elem
	defer delete(t.env, val)
	body, ok := t.pure(s.Body.List, ind+"    ")
	if !ok {
		return "", false
	}
	return "let σ := " + ls + ".foldl (fun σ " + val + " =>\n" + body + ind + "    σ) σ", true
}

// validateLoop: `for _, x := range L { [if x == nil { return &FileError{..} }]; if err := x.Validate(); err != nil { return err } }`
func (t *fcTr) validateLoop(s *ast.RangeStmt) (string, bool) {
	ls, lt := t.expr(s.X)
	if lt == nil || lt.k != "list" || s.Key == nil || src(s.Key) != "_" || s.Value == nil {
		return "", false
	}
	val := src(s.Value)
	body := s.Body.List
	nilField := ""
	if len(body) == 2 {
		if f, ok := isNilCheckReturn(body[0], val); ok {
			nilField = f
			body = body[1:]
		}
	}
	if len(body) != 1 {
		return "", false
	}
	g, ok := body[0].(*ast.IfStmt)
	if !ok {
		return "", false
	}
	c := errGuard(g)
	if c == nil {
		return "", false
	}
	sel, ok := c.Fun.(*ast.SelectorExpr)
	if !ok || sel.Sel.Name != "Validate" || src(sel.X) != val || len(c.Args) != 0 {
		return "", false
	}
	switch lt.elem.k {
	case "rec":
		return "firstErr (fun " + val + " => vErr m Kind." + lt.elem.kind + " " + val + ") " + ls, true
	case "orec":
		if nilField == "" {
			return "", false
		}
		return "firstErr (fun " + val + " => match " + val + " with | some v => vErr m Kind." + lt.elem.kind + " v | none => some (ErrClass.file, " + leanStr(nilField) + ")) " + ls, true
	}
	return "", false
}

// level: "file" (result File), "cl" (result CashLetter × Env), "bundle" (result Bundle × Env)
func (t *fcTr) fblock(stmts []ast.Stmt, level, cur, ind string) string {
	if len(stmts) == 0 {
		switch level {
		case "cl":
			return ".ok (" + cur + ", σ)"
		case "bundle":
			return ".ok (" + cur + ", σ)"
		}
		t.bad("create: function falls off its end")
		return ".error (.plain, \"?\")"
	}
	rest := func() string { return t.fblock(stmts[1:], level, cur, ind) }
	switch s := stmts[0].(type) {
	case *ast.ReturnStmt:
		if level == "file" && len(s.Results) == 1 && src(s.Results[0]) == "nil" {
			return ".ok " + t.fileVar
		}
	case *ast.AssignStmt:
		if len(s.Lhs) == 1 && len(s.Rhs) == 1 {
			name := src(s.Lhs[0])
			if s.Tok == token.DEFINE {
				if c, ok := s.Rhs[0].(*ast.CallExpr); ok && len(c.Args) == 0 && strings.HasPrefix(src(c.Fun), "New") {
					if k, ok := walkRecKinds[strings.TrimPrefix(src(c.Fun), "New")]; ok {
						t.recs[name] = k
						return "let " + name + " := newRec m Kind." + k + "\n" + ind + rest()
					}
				}
				if v, ty := t.iexpr(s.Rhs[0]); ty != nil && ty.k == "int" {
					t.ints[name] = true
					return "let σ := σ.set " + leanStr(name) + " " + v + "\n" + ind + rest()
				}
			}
			if s.Tok == token.ASSIGN {
				if line, ok := t.pure([]ast.Stmt{s}, ""); ok {
					return strings.TrimSuffix(line, "\n") + "\n" + ind + rest()
				}
				// `f.Control = fc`
				if sel, ok := s.Lhs[0].(*ast.SelectorExpr); ok && src(sel.X) == t.fileVar && sel.Sel.Name == "Control" {
					if id, ok := s.Rhs[0].(*ast.Ident); ok && t.recs[id.Name] == "fileControl" {
						return "let " + t.fileVar + " := { " + t.fileVar + " with cashLetters := cashLetters, control := " + id.Name + " }\n" + ind + rest()
					}
				}
			}
		}
	case *ast.IfStmt:
		if c := errGuard(s); c != nil {
			if sel, ok := c.Fun.(*ast.SelectorExpr); ok && len(c.Args) == 0 {
				recvS := src(sel.X)
				switch {
				case sel.Sel.Name == "nilRecords" && recvS == t.fileVar:
					return rest() // the model's lists hold records, not pointers
				case sel.Sel.Name == "Validate" && t.env[recvS] != nil && t.env[recvS].k == "cl":
					return "match cashLetterValidate m " + recvS + " with\n" + ind + "| some e => .error e\n" + ind + "| none =>\n" + ind + rest()
				case sel.Sel.Name == "Validate" && t.env[recvS] != nil && t.env[recvS].k == "bundle":
					return "match bundleValidate " + recvS + " with\n" + ind + "| some fld => .error (ErrClass.bundle, fld)\n" + ind + "| none =>\n" + ind + rest()
				}
			}
			if v, ok := t.validateCall(c); ok {
				return "match " + v + " with\n" + ind + "| some e => .error e\n" + ind + "| none =>\n" + ind + rest()
			}
		}
		// `if err := b.build(); err != nil { ...; return fmt.Errorf(...%w..., err) }`
		if s.Init != nil && s.Else == nil && src(s.Cond) == "err != nil" {
			if as, ok := s.Init.(*ast.AssignStmt); ok && len(as.Rhs) == 1 {
				if c, ok := as.Rhs[0].(*ast.CallExpr); ok {
					if sel, ok := c.Fun.(*ast.SelectorExpr); ok && sel.Sel.Name == "build" && len(c.Args) == 0 && t.env[src(sel.X)] != nil && t.env[src(sel.X)].k == "bundle" {
						if n := len(s.Body.List); n > 0 {
							if r, ok := s.Body.List[n-1].(*ast.ReturnStmt); ok && len(r.Results) == 1 && strings.Contains(src(r.Results[0]), "%w") {
								b := src(sel.X)
								return "match Gen.B.build m " + b + " with\n" + ind + "| .error e => .error e\n" + ind + "| .ok " + b + " =>\n" + ind + t.fblock(stmts[1:], level, b, ind)
							}
						}
					}
				}
			}
			// `if err := fc.isX(fc.F); err != nil { return &FieldError{FieldName: "F"...} }`
			if as, ok := s.Init.(*ast.AssignStmt); ok && len(as.Rhs) == 1 && len(s.Body.List) == 1 {
				if c, ok := as.Rhs[0].(*ast.CallExpr); ok && len(c.Args) == 1 {
					if sel, ok := c.Fun.(*ast.SelectorExpr); ok && strings.HasPrefix(sel.Sel.Name, "is") && t.recs[src(sel.X)] != "" {
						if arg, ok := c.Args[0].(*ast.SelectorExpr); ok && src(arg.X) == src(sel.X) {
							if r, ok := s.Body.List[0].(*ast.ReturnStmt); ok && len(r.Results) == 1 {
								if f, ok := fileErrorField(r.Results[0]); ok {
									return "if !(m.accepts " + leanStr(sel.Sel.Name) + " (" + src(sel.X) + ".s " + leanStr(arg.Sel.Name) + ")) then .error (ErrClass.field, " + leanStr(f) + ") else\n" + ind + rest()
								}
							}
						}
					}
				}
			}
		}
		if s.Init == nil && s.Else == nil {
			if src(s.Cond) == t.fileVar+" == nil" {
				return rest()
			}
			cond, ct := t.iexpr(s.Cond)
			if ct != nil && ct.k == "bool" {
				if n := len(s.Body.List); n > 0 {
					if r, ok := s.Body.List[n-1].(*ast.ReturnStmt); ok && len(r.Results) == 1 {
						if f, ok := fileErrorField(r.Results[0]); ok {
							return "if " + cond + " then .error (ErrClass.file, " + leanStr(f) + ") else\n" + ind + rest()
						}
					}
				}
				if body, ok := t.pure(s.Body.List, ind+"    "); ok {
					return "let σ := if " + cond + " then (\n" + body + ind + "    σ) else σ\n" + ind + rest()
				}
			}
		}
	case *ast.RangeStmt:
		if line, ok := t.validateLoop(s); ok {
			return "match " + line + " with\n" + ind + "| some e => .error e\n" + ind + "| none =>\n" + ind + rest()
		}
		if line, ok := t.pureLoop(s, ind); ok {
			return line + "\n" + ind + rest()
		}
		ls, lt := t.expr(s.X)
		if lt != nil && lt.k == "list" && s.Key != nil && src(s.Key) == "_" && s.Value != nil && (lt.elem.k == "cl" || lt.elem.k == "bundle") {
			val := src(s.Value)
			t.env[val] = lt.elem
			body := t.fblock(s.Body.List, lt.elem.k, val, ind+"    ")
			delete(t.env, val)
			out := map[string]string{"cl": "cashLetters", "bundle": "bundles"}[lt.elem.k]
			after := rest()
			if lt.elem.k == "bundle" {
				// the rebuilt bundles replace the cash letter's
				after = "let " + cur + " := { " + cur + " with bundles := bundles }\n" + ind + after
			}
			return "match forMapE " + ls + " σ (fun " + val + " σ =>\n" + ind + "    " + body + ") with\n" + ind + "| .error e => .error e\n" + ind + "| .ok (" + out + ", σ) =>\n" + ind + after
		}
	}
	t.bad("create: statement not recognised: %s", strings.SplitN(src(stmts[0]), "\n", 2)[0])
	return ".error (.plain, \"?\")"
}

func emitCreate(dir string, p *pkgInfo) {
	t := &fcTr{buildTr: buildTr{walkTr: walkTr{p: p, ok: true, env: map[string]*wty{}, calls: map[string]bool{}}, ints: map[string]bool{}, recs: map[string]string{}}}
	d := p.methods["File"]["Create"]
	body := ".error (.plain, \"?\")"
	t.fileVar = "f"
	if d == nil || d.Body == nil {
		t.bad("create: File.Create not found")
	} else {
		t.fileVar = recvName(d)
		t.recv = t.fileVar
		t.env = map[string]*wty{t.fileVar: {k: "file"}}
		body = t.fblock(d.Body.List, "file", t.fileVar, "    ")
	}
	var sb strings.Builder
	sb.WriteString("/- GENERATED by harness/extract from file.go (File.Create) — do not edit. -/\nimport IclModel.BuildRT\nimport IclModel.Gen.BuildT\nnamespace Icl.Gen.F\nopen Icl Icl.BuildRT\n\n")
	fmt.Fprintf(&sb, "def create (m : Model) (%s : File Vals) : Except BErr (File Vals) :=\n    let σ : Env := []\n    %s\n\n", t.fileVar, body)
	fmt.Fprintf(&sb, "/-- every statement of the Go method had a recognised shape -/\ndef recognised : Bool := %s\n\nend Icl.Gen.F\n", leanBool(t.ok))
	must(os.WriteFile(filepath.Join(dir, "CreateT.lean"), []byte(sb.String()), 0o644))
	for _, w := range t.why {
		fmt.Fprintf(os.Stderr, "OPAQUE create: %s\n", w)
	}
}
