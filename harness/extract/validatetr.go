package main

import (
	"fmt"
	"go/ast"
	"go/token"
	"os"
	"path/filepath"
	"strconv"
	"strings"
)

// Bundle.Validate with the two addendum-count walks it calls (bundle.go) translated statement by statement into
// Lean (Gen/ValidateT.lean): a function from the bundle to the FieldName of the BundleError it returns (`none` =
// nil).  The text of the messages and the bundle sequence number quoted in them are not part of the model:
// assignments to locals that only feed those members are dropped.

type valTr struct {
	buildTr
	msgOnly map[string]bool // locals that only feed message members of the error
}

// errField: `&BundleError{..., FieldName: "F", ...}` with every other member built from message-only locals
func (t *valTr) errField(e ast.Expr) (string, bool) {
	u, ok := e.(*ast.UnaryExpr)
	if !ok || u.Op != token.AND {
		return "", false
	}
	cl, ok := u.X.(*ast.CompositeLit)
	if !ok || src(cl.Type) != "BundleError" {
		return "", false
	}
	field, found := "", false
	for _, el := range cl.Elts {
		kv, ok := el.(*ast.KeyValueExpr)
		if !ok {
			return "", false
		}
		if src(kv.Key) == "FieldName" {
			bl, ok := kv.Value.(*ast.BasicLit)
			if !ok || bl.Kind != token.STRING {
				return "", false
			}
			field, _ = strconv.Unquote(bl.Value)
			found = true
		}
	}
	return field, found
}

// isMsgOnly: a statement that only assigns message-only locals (`msg := fmt.Sprintf(..)`, `seq := ""`,
// `if b.BundleHeader != nil { seq = b.BundleHeader.BundleSequenceNumber }`)
func (t *valTr) isMsgOnly(st ast.Stmt) bool {
	switch s := st.(type) {
	case *ast.AssignStmt:
		if len(s.Lhs) != 1 {
			return false
		}
		id, ok := s.Lhs[0].(*ast.Ident)
		if !ok {
			return false
		}
		if s.Tok == token.DEFINE {
			if t.ints[id.Name] {
				return false
			}
			// a string-valued local: never read by a condition (conditions are integer / nil tests)
			switch r := s.Rhs[0].(type) {
			case *ast.BasicLit:
				if r.Kind != token.STRING {
					return false
				}
			case *ast.CallExpr:
				if src(r.Fun) != "fmt.Sprintf" {
					return false
				}
			default:
				return false
			}
			t.msgOnly[id.Name] = true
			return true
		}
		return s.Tok == token.ASSIGN && t.msgOnly[id.Name]
	case *ast.IfStmt:
		if s.Init != nil || s.Else != nil {
			return false
		}
		for _, b := range s.Body.List {
			if !t.isMsgOnly(b) {
				return false
			}
		}
		return len(s.Body.List) > 0
	}
	return false
}

// vblock: Lean term of type `Option String`
func (t *valTr) vblock(stmts []ast.Stmt, ind string) string {
	if len(stmts) == 0 {
		return "none" // a loop body that falls through
	}
	rest := func() string { return t.vblock(stmts[1:], ind) }
	if t.isMsgOnly(stmts[0]) {
		return rest()
	}
	switch s := stmts[0].(type) {
	case *ast.ReturnStmt:
		if len(s.Results) == 1 {
			if src(s.Results[0]) == "nil" {
				return "none"
			}
			if f, ok := t.errField(s.Results[0]); ok {
				return "some " + leanStr(f)
			}
		}
	case *ast.IfStmt:
		// `if err := b.walk(); err != nil { return err }`
		if c := errGuard(s); c != nil && len(c.Args) == 0 {
			if sel, ok := c.Fun.(*ast.SelectorExpr); ok && src(sel.X) == t.recv {
				if d := t.p.methods["Bundle"][sel.Sel.Name]; d != nil && recvName(d) == t.recv {
					t.calls[sel.Sel.Name] = true
					return "match " + sel.Sel.Name + " " + t.recv + " with\n" + ind + "| some f => some f\n" + ind + "| none =>\n" + ind + rest()
				}
			}
		}
		if s.Init == nil {
			cond, ct := t.iexpr(s.Cond)
			if ct != nil && ct.k == "bool" {
				n := len(s.Body.List)
				if n > 0 && s.Else == nil {
					if _, isRet := s.Body.List[n-1].(*ast.ReturnStmt); isRet {
						return "if " + cond + " then (" + t.vblock(s.Body.List, ind+"  ") + ") else\n" + ind + rest()
					}
				}
				if s.Else != nil {
					if eb, ok := s.Else.(*ast.BlockStmt); ok {
						thenB := t.vblock(append(append([]ast.Stmt{}, s.Body.List...), stmts[1:]...), ind+"  ")
						elseB := t.vblock(append(append([]ast.Stmt{}, eb.List...), stmts[1:]...), ind+"  ")
						return "if " + cond + " then (\n" + ind + "  " + thenB + ")\n" + ind + "else (\n" + ind + "  " + elseB + ")"
					}
				}
			}
		}
	case *ast.RangeStmt:
		ls, lt := t.expr(s.X)
		if lt != nil && lt.k == "list" && s.Key != nil && src(s.Key) == "_" && s.Value != nil {
			val := src(s.Value)
			t.env[val] = lt.elem
			body := t.vblock(s.Body.List, ind+"    ")
			delete(t.env, val)
			return "match " + ls + ".findSome? (fun " + val + " =>\n" + ind + "    " + body + ") with\n" + ind + "| some f => some f\n" + ind + "| none =>\n" + ind + rest()
		}
	}
	t.bad("validate: statement not recognised: %s", strings.SplitN(src(stmts[0]), "\n", 2)[0])
	return "none"
}

// ---- CashLetter.Validate: `Option (ErrClass × String)` ----

type clvTr struct {
	buildTr
}

func (t *clvTr) cond(e ast.Expr) (string, bool) {
	switch x := e.(type) {
	case *ast.ParenExpr:
		return t.cond(x.X)
	case *ast.BinaryExpr:
		if x.Op == token.EQL || x.Op == token.NEQ {
			// a string member against a literal
			if bl, ok := x.Y.(*ast.BasicLit); ok && bl.Kind == token.STRING {
				if a, ok := t.sexpr(x.X); ok {
					lit, _ := strconv.Unquote(bl.Value)
					c := "(" + a + " == " + leanBytes(lit) + ")"
					if x.Op == token.NEQ {
						c = "(!" + c + ")"
					}
					return c, true
				}
			}
			// a slice against nil: nothing has been appended
			if src(x.Y) == "nil" {
				if ls, lt := t.expr(x.X); lt != nil && lt.k == "list" {
					if x.Op == token.NEQ {
						return "(!" + ls + ".isEmpty)", true
					}
					return ls + ".isEmpty", true
				}
			}
		}
	}
	c, ty := t.iexpr(e)
	if ty != nil && ty.k == "bool" {
		return c, true
	}
	return "", false
}

func clErrorField(e ast.Expr) (string, bool) { return cashLetterErrorField(e) }

func (t *clvTr) block(stmts []ast.Stmt, ind string) string {
	if len(stmts) == 0 {
		t.bad("clvalidate: falls off its end")
		return "none"
	}
	rest := func() string { return t.block(stmts[1:], ind) }
	switch s := stmts[0].(type) {
	case *ast.ReturnStmt:
		if len(s.Results) == 1 {
			if src(s.Results[0]) == "nil" {
				return "none"
			}
			if f, ok := clErrorField(s.Results[0]); ok {
				return "some (ErrClass.cashLetter, " + leanStr(f) + ")"
			}
			if c, ok := s.Results[0].(*ast.CallExpr); ok && src(c.Fun) == "errors.New" && len(c.Args) == 1 {
				if bl, ok := c.Args[0].(*ast.BasicLit); ok && bl.Kind == token.STRING {
					msg, _ := strconv.Unquote(bl.Value)
					return "some (ErrClass.plain, " + leanStr(msg) + ")"
				}
			}
		}
	case *ast.IfStmt:
		if c := errGuard(s); c != nil {
			if v, ok := t.validateCall(c); ok {
				return "match " + v + " with\n" + ind + "| some e => some e\n" + ind + "| none =>\n" + ind + rest()
			}
		}
		if s.Init == nil && s.Else == nil {
			if cond, ok := t.cond(s.Cond); ok {
				body := s.Body.List
				if n := len(body); n > 0 {
					if _, isRet := body[n-1].(*ast.ReturnStmt); isRet {
						return "if " + cond + " then (" + t.block(body, ind+"  ") + ") else\n" + ind + rest()
					}
					// a block that falls through
					return "if " + cond + " then (\n" + ind + "  " + t.block(append(append([]ast.Stmt{}, body...), stmts[1:]...), ind+"  ") + ")\n" + ind + "else (\n" + ind + "  " + t.block(stmts[1:], ind+"  ") + ")"
				}
			}
		}
	case *ast.SwitchStmt:
		// `switch <string member> { case "a", "b": A; default: B }` with bodies that fall through to what follows
		if s.Init == nil && s.Tag != nil {
			if a, ok := t.sexpr(s.Tag); ok {
				var dflt []ast.Stmt
				type arm struct {
					cond string
					body []ast.Stmt
				}
				var arms []arm
				okAll := true
				for _, cs := range s.Body.List {
					cc := cs.(*ast.CaseClause)
					if cc.List == nil {
						dflt = cc.Body
						continue
					}
					var lits []string
					for _, l := range cc.List {
						bl, ok := l.(*ast.BasicLit)
						if !ok || bl.Kind != token.STRING {
							okAll = false
							continue
						}
						v, _ := strconv.Unquote(bl.Value)
						lits = append(lits, leanBytes(v))
					}
					arms = append(arms, arm{"([" + strings.Join(lits, ", ") + "].contains " + a + ")", cc.Body})
				}
				if okAll {
					out := ""
					for _, ar := range arms {
						out += "if " + ar.cond + " then (\n" + ind + "  " + t.block(append(append([]ast.Stmt{}, ar.body...), stmts[1:]...), ind+"  ") + ")\n" + ind + "else "
					}
					return out + "(\n" + ind + "  " + t.block(append(append([]ast.Stmt{}, dflt...), stmts[1:]...), ind+"  ") + ")"
				}
			}
		}
	}
	t.bad("clvalidate: statement not recognised: %s", strings.SplitN(src(stmts[0]), "\n", 2)[0])
	return "none"
}

func emitValidateCL(p *pkgInfo) (string, bool) {
	t := &clvTr{buildTr: buildTr{walkTr: walkTr{p: p, ok: true, env: map[string]*wty{}, calls: map[string]bool{}}, ints: map[string]bool{}, recs: map[string]string{}}}
	d := p.methods["CashLetter"]["Validate"]
	body := "none"
	recv := "cl"
	if d == nil || d.Body == nil {
		t.bad("clvalidate: CashLetter.Validate not found")
	} else {
		recv = recvName(d)
		t.recv = recv
		t.env = map[string]*wty{recv: {k: "cl"}}
		body = t.block(d.Body.List, "  ")
	}
	for _, w := range t.why {
		fmt.Fprintf(os.Stderr, "OPAQUE clvalidate: %s\n", w)
	}
	return fmt.Sprintf("def cashLetterValidate (m : Model) (%s : CashLetter Vals) : Option (ErrClass × String) :=\n  %s\n\n", recv, body), t.ok
}

// ---- File.Validate / CashLetterIDUnique: `Option String` (the FieldName, or "ErrNilFile") ----

// onlyNilGuards: a function body made of range loops and `if x == nil { return &FileError{..} }` guards only
func onlyNilGuards(stmts []ast.Stmt) bool {
	for _, st := range stmts {
		switch s := st.(type) {
		case *ast.RangeStmt:
			if !onlyNilGuards(s.Body.List) {
				return false
			}
		case *ast.IfStmt:
			if s.Init != nil || s.Else != nil || !strings.HasSuffix(src(s.Cond), " == nil") || len(s.Body.List) != 1 {
				return false
			}
			r, ok := s.Body.List[0].(*ast.ReturnStmt)
			if !ok || len(r.Results) != 1 {
				return false
			}
			if _, ok := fileErrorField(r.Results[0]); !ok {
				return false
			}
		case *ast.ReturnStmt:
			if len(s.Results) != 1 || src(s.Results[0]) != "nil" {
				return false
			}
		default:
			return false
		}
	}
	return true
}

func emitValidateFile(p *pkgInfo) (string, bool) {
	ok := true
	var why []string
	bad := func(f string, a ...any) { ok = false; why = append(why, fmt.Sprintf(f, a...)) }
	var sb strings.Builder
	// CashLetterIDUnique
	d := p.methods["File"]["CashLetterIDUnique"]
	uniq := "none"
	if d == nil || d.Body == nil || len(d.Body.List) != 4 {
		bad("filevalidate: CashLetterIDUnique not found or not of the expected length")
	} else {
		f := recvName(d)
		b := d.Body.List
		g0, ok0 := b[0].(*ast.IfStmt)
		a1, ok1 := b[1].(*ast.AssignStmt)
		l2, ok2 := b[2].(*ast.RangeStmt)
		if !ok0 || !ok1 || !ok2 || src(b[3]) != "return nil" ||
			src(g0.Cond) != f+" == nil || len("+f+".CashLetters) == 0" || len(g0.Body.List) != 1 || src(g0.Body.List[0]) != "return ErrNilFile" ||
			a1.Tok != token.DEFINE || src(a1.Rhs[0]) != `""` || src(l2.X) != f+".CashLetters" || l2.Value == nil || len(l2.Body.List) != 3 {
			bad("filevalidate: CashLetterIDUnique statements not recognised")
		} else {
			v := src(a1.Lhs[0])
			cl := src(l2.Value)
			id := cl + ".CashLetterHeader.CashLetterID"
			c0, okc0 := l2.Body.List[0].(*ast.IfStmt)
			c1, okc1 := l2.Body.List[1].(*ast.IfStmt)
			fld := ""
			if okc1 && len(c1.Body.List) > 0 {
				if r, ok := c1.Body.List[len(c1.Body.List)-1].(*ast.ReturnStmt); ok && len(r.Results) == 1 {
					fld, _ = fileErrorField(r.Results[0])
				}
			}
			if !okc0 || !okc1 || src(c0.Cond) != cl+".CashLetterHeader == nil" || len(c0.Body.List) != 1 || src(c0.Body.List[0]) != "continue" ||
				src(c1.Cond) != v+" == "+id || fld == "" || src(l2.Body.List[2]) != v+" = "+id {
				bad("filevalidate: the loop of CashLetterIDUnique not recognised")
			} else {
				hid := "(((" + cl + ".header).map (·.s \"CashLetterID\")).getD [])"
				uniq = "if decide ((" + f + ".cashLetters.length : Int) = (0 : Int)) then some \"ErrNilFile\" else\n" +
					"  let " + v + " : Bytes := []\n" +
					"  match (" + f + ".cashLetters.foldl (fun (st : Option String × Bytes) " + cl + " =>\n" +
					"      match st.1 with\n      | some _ => st\n      | none =>\n" +
					"        let " + v + " := st.2\n" +
					"        if " + cl + ".header.isNone then st else\n" +
					"        if (" + v + " == " + hid + ") then (some " + leanStr(fld) + ", " + v + ") else\n" +
					"        let " + v + " := " + hid + "\n" +
					"        (none, " + v + ")) (none, " + v + ")).1 with\n" +
					"  | some e => some e\n  | none =>\n  none"
			}
		}
		fmt.Fprintf(&sb, "def CashLetterIDUnique (%s : File Vals) : Option String :=\n  %s\n\n", f, uniq)
	}
	// Validate
	d = p.methods["File"]["Validate"]
	if d == nil || d.Body == nil {
		bad("filevalidate: File.Validate not found")
	} else {
		f := recvName(d)
		body := ""
		for _, st := range d.Body.List {
			switch s := st.(type) {
			case *ast.IfStmt:
				if s.Init == nil && src(s.Cond) == f+" == nil" {
					continue
				}
				if c := errGuard(s); c != nil && len(c.Args) == 0 {
					switch src(c.Fun) {
					case f + ".nilRecords":
						if nd := p.methods["File"]["nilRecords"]; nd != nil && nd.Body != nil && onlyNilGuards(nd.Body.List) {
							continue // the model's lists hold records, not pointers
						}
					case f + ".CashLetterIDUnique":
						body += "match CashLetterIDUnique " + f + " with\n  | some e => some e\n  | none =>\n  "
						continue
					}
				}
				bad("filevalidate: statement not recognised: %s", strings.SplitN(src(st), "\n", 2)[0])
			case *ast.ReturnStmt:
				if len(s.Results) == 1 && src(s.Results[0]) == "nil" {
					body += "none"
					continue
				}
				bad("filevalidate: statement not recognised: %s", src(st))
			default:
				bad("filevalidate: statement not recognised: %s", strings.SplitN(src(st), "\n", 2)[0])
			}
		}
		fmt.Fprintf(&sb, "def fileValidate (%s : File Vals) : Option String :=\n  %s\n\n", f, body)
	}
	for _, w := range why {
		fmt.Fprintf(os.Stderr, "OPAQUE %s\n", w)
	}
	return sb.String(), ok
}

func emitValidate(dir string, p *pkgInfo) {
	var sb strings.Builder
	sb.WriteString("/- GENERATED by harness/extract from bundle.go (Bundle.Validate and the addendum-count walks) — do not edit. -/\nimport IclModel.BuildRT\nnamespace Icl.Gen.V\nopen Icl Icl.BuildRT\n\n")
	ok := true
	done := map[string]bool{}
	var order []string
	var defs = map[string]string{}
	var emit func(name string)
	emit = func(name string) {
		if done[name] {
			return
		}
		done[name] = true
		t := &valTr{buildTr: buildTr{walkTr: walkTr{p: p, ok: true, env: map[string]*wty{}, calls: map[string]bool{}}, ints: map[string]bool{}, recs: map[string]string{}}, msgOnly: map[string]bool{}}
		d := p.methods["Bundle"][name]
		body := "none"
		recv := "b"
		if d == nil || d.Body == nil || (d.Type.Params != nil && len(d.Type.Params.List) != 0) {
			t.bad("validate: Bundle.%s not found", name)
		} else {
			recv = recvName(d)
			t.recv = recv
			t.env = map[string]*wty{recv: {k: "bundle"}}
			body = t.vblock(d.Body.List, "  ")
		}
		for c := range t.calls {
			emit(c)
		}
		defs[name] = fmt.Sprintf("def %s (%s : Bundle Vals) : Option String :=\n  %s\n\n", name, recv, body)
		order = append(order, name)
		if !t.ok {
			ok = false
		}
		for _, w := range t.why {
			fmt.Fprintf(os.Stderr, "OPAQUE validate %s: %s\n", name, w)
		}
	}
	emit("Validate")
	for _, n := range order {
		sb.WriteString(defs[n])
	}
	cld, clok := emitValidateCL(p)
	sb.WriteString(cld)
	if !clok {
		ok = false
	}
	fld, flok := emitValidateFile(p)
	sb.WriteString(fld)
	if !flok {
		ok = false
	}
	fmt.Fprintf(&sb, "/-- every statement of the Go methods had a recognised shape -/\ndef recognised : Bool := %s\n\nend Icl.Gen.V\n", leanBool(ok))
	must(os.WriteFile(filepath.Join(dir, "ValidateT.lean"), []byte(sb.String()), 0o644))
}
