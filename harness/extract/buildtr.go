package main

import (
	"fmt"
	"strconv"
	"go/ast"
	"go/token"
	"os"
	"path/filepath"
	"strings"
)

// Bundle.build and the two item validators it calls (bundle.go) translated statement by statement into Lean
// (Gen/BuildT.lean): integer locals live in an environment, loops over the items are folds that stop at the
// first error, `x.Validate()` of a record is the regenerated validator of its kind.  Types and accessors are
// those of the writer-walk translation (walk.go).  Anything outside the recognised shapes clears `recognised`.

type buildTr struct {
	walkTr
	recv string
	ints map[string]bool // integer locals (kept in the environment σ)
	recs map[string]string // record-valued locals (Lean variables of type Vals) -> kind
}

// member of a container's own record: `cd.ItemAmount` -> cd.detail.i "ItemAmount"
func (t *buildTr) detailMember(x ast.Expr, field string) (string, *wty) {
	id, ok := x.(*ast.Ident)
	if !ok {
		return "", nil
	}
	ty := t.env[id.Name]
	if ty == nil || (ty.k != "check" && ty.k != "return") {
		return "", nil
	}
	ft := t.structField(walkGoType[ty.k], field)
	if ft == nil {
		return "", nil
	}
	switch src(ft) {
	case "int":
		return id.Name + ".detail.i " + leanStr(field), &wty{k: "int"}
	case "string":
		return id.Name + ".detail.s " + leanStr(field), &wty{k: "str"}
	}
	return "", nil
}

// sexpr: a string-valued member: `cd.F` of an item's own record, or `x.P.F` of a pointer-typed record member
func (t *buildTr) sexpr(e ast.Expr) (string, bool) {
	sel, ok := e.(*ast.SelectorExpr)
	if !ok {
		return "", false
	}
	if s, ty := t.detailMember(sel.X, sel.Sel.Name); ty != nil && ty.k == "str" {
		return "(" + s + ")", true
	}
	if _, isCall := sel.X.(*ast.CallExpr); !isCall {
		if _, isSel := sel.X.(*ast.SelectorExpr); !isSel {
			return "", false
		}
	}
	if s, ty := t.expr(sel.X); ty != nil && ty.k == "orec" {
		goType := ""
		for g, k := range walkRecKinds {
			if k == ty.kind {
				goType = g
			}
		}
		if ft := t.structField(goType, sel.Sel.Name); ft != nil && src(ft) == "string" {
			opt := strings.TrimSuffix(strings.SplitN(s, ", ", 2)[1], ")")
			return "(((" + opt + ").map (·.s " + leanStr(sel.Sel.Name) + ")).getD [])", true
		}
	}
	return "", false
}

// dexpr: a date-valued member `x.P.F` of a pointer-typed record member
func (t *buildTr) dexpr(e ast.Expr) (string, bool) {
	sel, ok := e.(*ast.SelectorExpr)
	if !ok {
		return "", false
	}
	if _, isSel := sel.X.(*ast.SelectorExpr); !isSel {
		return "", false
	}
	if s, ty := t.expr(sel.X); ty != nil && ty.k == "orec" {
		goType := ""
		for g, k := range walkRecKinds {
			if k == ty.kind {
				goType = g
			}
		}
		if ft := t.structField(goType, sel.Sel.Name); ft != nil && src(ft) == "time.Time" {
			opt := strings.TrimSuffix(strings.SplitN(s, ", ", 2)[1], ")")
			return "(((" + opt + ").map (·.d " + leanStr(sel.Sel.Name) + ")).getD Date.zero)", true
		}
	}
	return "", false
}

func (t *buildTr) iexpr(e ast.Expr) (string, *wty) {
	switch x := e.(type) {
	case *ast.ParenExpr:
		return t.iexpr(x.X)
	case *ast.UnaryExpr:
		if x.Op == token.NOT {
			if a, at := t.iexpr(x.X); at != nil && at.k == "bool" {
				return "(!" + a + ")", at
			}
		}
	case *ast.Ident:
		if t.ints[x.Name] {
			return "(σ.get " + leanStr(x.Name) + ")", &wty{k: "int"}
		}
		// a package-level integer constant
		if v, ok := t.p.consts[x.Name]; ok && t.env[x.Name] == nil {
			if _, err := strconv.Atoi(v); err == nil {
				return "(" + v + " : Int)", &wty{k: "int"}
			}
		}
	case *ast.BasicLit:
		if x.Kind == token.INT {
			return "(" + x.Value + " : Int)", &wty{k: "int"}
		}
	case *ast.SelectorExpr:
		if s, ty := t.detailMember(x.X, x.Sel.Name); ty != nil {
			return s, ty
		}
	case *ast.CallExpr:
		if src(x.Fun) == "len" && len(x.Args) == 1 {
			ls, lt := t.expr(x.Args[0])
			if lt != nil && lt.k == "list" {
				return "(" + ls + ".length : Int)", &wty{k: "int"}
			}
		}
		if sel, ok := x.Fun.(*ast.SelectorExpr); ok {
			// `x.parseNumField(s)` of the converters every record embeds
			if sel.Sel.Name == "parseNumField" && len(x.Args) == 1 {
				if a, ok := t.sexpr(x.Args[0]); ok {
					return "(parseNum " + a + ")", &wty{k: "int"}
				}
			}
			// `t.IsZero()`
			if sel.Sel.Name == "IsZero" && len(x.Args) == 0 {
				if a, ok := t.dexpr(sel.X); ok {
					return a + ".isZero", &wty{k: "bool"}
				}
			}
		}
	case *ast.BinaryExpr:
		// emptiness tests of string members
		if (x.Op == token.NEQ || x.Op == token.EQL) && src(x.Y) == `""` {
			if a, ok := t.sexpr(x.X); ok {
				if x.Op == token.NEQ {
					return "(!" + a + ".isEmpty)", &wty{k: "bool"}
				}
				return a + ".isEmpty", &wty{k: "bool"}
			}
		}
		// nil tests of pointer members
		if x.Op == token.NEQ || x.Op == token.EQL {
			if src(x.Y) == "nil" {
				if s, ty := t.expr(x.X); ty != nil && ty.k == "orec" {
					// (Kind.k, opt) -> opt
					opt := strings.TrimSuffix(strings.SplitN(s, ", ", 2)[1], ")")
					if x.Op == token.NEQ {
						return opt + ".isSome", &wty{k: "bool"}
					}
					return opt + ".isNone", &wty{k: "bool"}
				}
			}
		}
		a, at := t.iexpr(x.X)
		b, bt := t.iexpr(x.Y)
		if at != nil && bt != nil {
			if at.k == "bool" && bt.k == "bool" {
				switch x.Op {
				case token.LAND:
					return "(" + a + " && " + b + ")", at
				case token.LOR:
					return "(" + a + " || " + b + ")", at
				}
			}
			if at.k == "int" && bt.k == "int" {
				switch x.Op {
				case token.ADD:
					return "(" + a + " + " + b + ")", at
				case token.SUB:
					return "(" + a + " - " + b + ")", at
				case token.LSS:
					return "decide (" + a + " < " + b + ")", &wty{k: "bool"}
				case token.LEQ:
					return "decide (" + a + " ≤ " + b + ")", &wty{k: "bool"}
				case token.GTR:
					return "decide (" + a + " > " + b + ")", &wty{k: "bool"}
				case token.GEQ:
					return "decide (" + a + " ≥ " + b + ")", &wty{k: "bool"}
				case token.EQL:
					return "decide (" + a + " = " + b + ")", &wty{k: "bool"}
				case token.NEQ:
					return "decide (" + a + " ≠ " + b + ")", &wty{k: "bool"}
				}
			}
		}
	}
	t.bad("build: expression not recognised: %s", src(e))
	return "default", nil
}

// validateCall recognises `X.Validate()` on a record / container and `recv.ValidateXItems(item)`; returns a Lean
// term of type `Option BErr`
func (t *buildTr) validateCall(c *ast.CallExpr) (string, bool) {
	sel, ok := c.Fun.(*ast.SelectorExpr)
	if !ok {
		return "", false
	}
	if sel.Sel.Name == "Validate" && len(c.Args) == 0 {
		if id, ok := sel.X.(*ast.Ident); ok {
			if k, ok := t.recs[id.Name]; ok {
				return "vErr m Kind." + k + " " + id.Name, true
			}
			if ty := t.env[id.Name]; ty != nil {
				switch ty.k {
				case "check":
					return "vErr m Kind.checkDetail " + id.Name + ".detail", true
				case "return":
					return "vErr m Kind.returnDetail " + id.Name + ".detail", true
				case "rec":
					return "vErr m Kind." + ty.kind + " " + id.Name, true
				}
			}
		}
		s, ty := t.expr(sel.X)
		if ty != nil && ty.k == "orec" {
			parts := strings.SplitN(strings.TrimSuffix(strings.TrimPrefix(s, "("), ")"), ", ", 2)
			return "vOpt m " + parts[0] + " (" + parts[1] + ")", true
		}
	}
	if src(sel.X) == t.recv && len(c.Args) == 1 && (sel.Sel.Name == "ValidateForwardItems" || sel.Sel.Name == "ValidateReturnItems") {
		if id, ok := c.Args[0].(*ast.Ident); ok && t.env[id.Name] != nil {
			t.calls[sel.Sel.Name] = true
			return sel.Sel.Name + " m " + id.Name, true
		}
	}
	return "", false
}

// errorField: FieldName of `&BundleError{... FieldName: "x" ...}`
func bundleErrorField(e ast.Expr) (string, bool) {
	u, ok := e.(*ast.UnaryExpr)
	if !ok || u.Op != token.AND {
		return "", false
	}
	cl, ok := u.X.(*ast.CompositeLit)
	if !ok || src(cl.Type) != "BundleError" {
		return "", false
	}
	for _, el := range cl.Elts {
		if kv, ok := el.(*ast.KeyValueExpr); ok && src(kv.Key) == "FieldName" {
			if bl, ok := kv.Value.(*ast.BasicLit); ok && bl.Kind == token.STRING {
				return strings.Trim(bl.Value, "\""), true
			}
		}
	}
	return "", false
}

// validatorBlock: a function body that only walks lists validating records; Lean term of type Option BErr
func (t *buildTr) validatorBlock(stmts []ast.Stmt) string {
	if len(stmts) == 0 {
		return "none"
	}
	rest := func() string { return t.validatorBlock(stmts[1:]) }
	switch s := stmts[0].(type) {
	case *ast.ReturnStmt:
		if len(s.Results) == 1 && src(s.Results[0]) == "nil" {
			return "none"
		}
	case *ast.RangeStmt:
		ls, lt := t.expr(s.X)
		if lt != nil && lt.k == "list" && s.Key != nil && src(s.Key) == "_" && s.Value != nil && len(s.Body.List) == 1 {
			val := src(s.Value)
			t.env[val] = lt.elem
			defer delete(t.env, val)
			if g, ok := s.Body.List[0].(*ast.IfStmt); ok {
				if c := errGuard(g); c != nil {
					if v, ok := t.validateCall(c); ok {
						return "(firstErr (fun " + val + " => " + v + ") " + ls + ").or (\n    " + rest() + ")"
					}
				}
			}
		}
	}
	t.bad("build: validator statement not recognised: %s", strings.SplitN(src(stmts[0]), "\n", 2)[0])
	return "none"
}

// pure: statements of an if-body that only assign integer locals / members of the new control; returns Lean
// `let` lines
func (t *buildTr) pure(stmts []ast.Stmt, ind string) (string, bool) {
	var sb strings.Builder
	for _, st := range stmts {
		as, ok := st.(*ast.AssignStmt)
		if !ok || len(as.Lhs) != 1 || len(as.Rhs) != 1 || as.Tok != token.ASSIGN {
			return "", false
		}
		if id, ok := as.Lhs[0].(*ast.Ident); ok && t.ints[id.Name] {
			v, ty := t.iexpr(as.Rhs[0])
			if ty == nil || ty.k != "int" {
				return "", false
			}
			fmt.Fprintf(&sb, "%slet σ := σ.set %s %s\n", ind, leanStr(id.Name), v)
			continue
		}
		if sel, ok := as.Lhs[0].(*ast.SelectorExpr); ok {
			if id, ok := sel.X.(*ast.Ident); ok && t.recs[id.Name] != "" {
				if line, ok := t.memberAssign(id.Name, sel.Sel.Name, as.Rhs[0]); ok {
					sb.WriteString(ind + line + "\n")
					continue
				}
			}
		}
		return "", false
	}
	return sb.String(), true
}

// memberAssign: `bc.F = e`
func (t *buildTr) memberAssign(rec, field string, rhs ast.Expr) (string, bool) {
	goType := ""
	for g, k := range walkRecKinds {
		if k == t.recs[rec] {
			goType = g
		}
	}
	ft := t.structField(goType, field)
	if ft == nil {
		return "", false
	}
	switch src(ft) {
	case "int":
		v, ty := t.iexpr(rhs)
		if ty != nil && ty.k == "int" {
			return fmt.Sprintf("let %s := %s.setI %s %s", rec, rec, leanStr(field), v), true
		}
	case "string":
		// only: the same member of a pointer-typed record member of the receiver (`b.BundleControl.ID`)
		if sel, ok := rhs.(*ast.SelectorExpr); ok && sel.Sel.Name == field {
			if s, ty := t.expr(sel.X); ty != nil && ty.k == "orec" && ty.kind == t.recs[rec] {
				opt := strings.TrimSuffix(strings.SplitN(s, ", ", 2)[1], ")")
				return fmt.Sprintf("let %s := %s.setS %s (((%s).map (·.s %s)).getD [])", rec, rec, leanStr(field), opt, leanStr(field)), true
			}
		}
		// a string member of another pointer-typed record (`cl.GetHeader().ECEInstitutionRoutingNumber`)
		if a, ok := t.sexpr(rhs); ok {
			return fmt.Sprintf("let %s := %s.setS %s %s", rec, rec, leanStr(field), a), true
		}
	case "time.Time":
		if a, ok := t.dexpr(rhs); ok {
			return fmt.Sprintf("let %s := %s.setD %s %s", rec, rec, leanStr(field), a), true
		}
	}
	return "", false
}

// block: Lean term of type `Except BErr (Bundle Vals)`
func (t *buildTr) block(stmts []ast.Stmt, ind string) string {
	if len(stmts) == 0 {
		t.bad("build: function falls off its end")
		return ".error (.plain, \"?\")"
	}
	rest := func() string { return t.block(stmts[1:], ind) }
	switch s := stmts[0].(type) {
	case *ast.ReturnStmt:
		if len(s.Results) == 1 && src(s.Results[0]) == "nil" {
			return ".ok " + t.recv
		}
	case *ast.AssignStmt:
		if len(s.Lhs) == 1 && len(s.Rhs) == 1 {
			name := src(s.Lhs[0])
			if s.Tok == token.DEFINE {
				if bl, ok := s.Rhs[0].(*ast.BasicLit); ok && bl.Kind == token.INT {
					t.ints[name] = true
					return "let σ := σ.set " + leanStr(name) + " (" + bl.Value + " : Int)\n" + ind + rest()
				}
				if c, ok := s.Rhs[0].(*ast.CallExpr); ok && len(c.Args) == 0 && strings.HasPrefix(src(c.Fun), "New") {
					if k, ok := walkRecKinds[strings.TrimPrefix(src(c.Fun), "New")]; ok {
						t.recs[name] = k
						return "let " + name + " := newRec m Kind." + k + "\n" + ind + rest()
					}
				}
			}
			if s.Tok == token.ASSIGN {
				if line, ok := t.pure([]ast.Stmt{s}, ""); ok {
					return strings.TrimSuffix(line, "\n") + "\n" + ind + rest()
				}
				// `recv.Member = rec`: the built record replaces the container's
				if sel, ok := s.Lhs[0].(*ast.SelectorExpr); ok && src(sel.X) == t.recv {
					if acc, ok := walkAccess["bundle"][sel.Sel.Name]; ok && acc.opt {
						if id, ok := s.Rhs[0].(*ast.Ident); ok && t.recs[id.Name] != "" {
							return "let " + t.recv + " := { " + t.recv + " with " + acc.lean + " := some " + id.Name + " }\n" + ind + rest()
						}
					}
				}
			}
		}
	case *ast.IfStmt:
		if c := errGuard(s); c != nil {
			if v, ok := t.validateCall(c); ok {
				return "match " + v + " with\n" + ind + "| some e => .error e\n" + ind + "| none =>\n" + ind + rest()
			}
		} else if s.Init == nil && s.Else == nil {
			if src(s.Cond) == t.recv+" == nil" {
				return rest()
			}
			cond, ct := t.iexpr(s.Cond)
			if ct != nil && ct.k == "bool" {
				// a guard that ends in `return &BundleError{FieldName: ...}`
				if n := len(s.Body.List); n > 0 {
					if r, ok := s.Body.List[n-1].(*ast.ReturnStmt); ok && len(r.Results) == 1 {
						if f, ok := bundleErrorField(r.Results[0]); ok {
							return "if " + cond + " then .error (ErrClass.bundle, " + leanStr(f) + ") else\n" + ind + rest()
						}
					}
				}
				if body, ok := t.pure(s.Body.List, ind+"    "); ok {
					vars := "σ"
					tuple := "σ"
					for r := range t.recs {
						vars, tuple = "(σ, "+r+")", "(σ, "+r+")"
					}
					return "let " + vars + " := if " + cond + " then (\n" + body + ind + "    " + tuple + ") else " + tuple + "\n" + ind + rest()
				}
			}
		}
	case *ast.RangeStmt:
		ls, lt := t.expr(s.X)
		if lt != nil && lt.k == "list" && s.Key != nil && src(s.Key) == "_" && s.Value != nil {
			val := src(s.Value)
			t.env[val] = lt.elem
			body := t.loopBody(s.Body.List, ind+"    ")
			delete(t.env, val)
			return "match forEachE " + ls + " σ (fun " + val + " σ =>\n" + ind + "    " + body + ") with\n" + ind + "| .error e => .error e\n" + ind + "| .ok σ =>\n" + ind + rest()
		}
	}
	t.bad("build: statement not recognised: %s", strings.SplitN(src(stmts[0]), "\n", 2)[0])
	return ".error (.plain, \"?\")"
}

// loopBody: Lean term of type `Except BErr Env`
func (t *buildTr) loopBody(stmts []ast.Stmt, ind string) string {
	if len(stmts) == 0 {
		return ".ok σ"
	}
	rest := func() string { return t.loopBody(stmts[1:], ind) }
	switch s := stmts[0].(type) {
	case *ast.AssignStmt:
		if line, ok := t.pure([]ast.Stmt{s}, ""); ok {
			return strings.TrimSuffix(line, "\n") + "\n" + ind + rest()
		}
	case *ast.IfStmt:
		if c := errGuard(s); c != nil {
			if v, ok := t.validateCall(c); ok {
				return "match " + v + " with\n" + ind + "| some e => .error e\n" + ind + "| none =>\n" + ind + rest()
			}
		} else if s.Init == nil && s.Else == nil {
			cond, ct := t.iexpr(s.Cond)
			if ct != nil && ct.k == "bool" {
				if body, ok := t.pure(s.Body.List, ind+"    "); ok {
					return "let σ := if " + cond + " then (\n" + body + ind + "    σ) else σ\n" + ind + rest()
				}
			}
		}
	}
	t.bad("build: loop statement not recognised: %s", strings.SplitN(src(stmts[0]), "\n", 2)[0])
	return ".error (.plain, \"?\")"
}

func emitBuild(dir string, p *pkgInfo) {
	t := &buildTr{walkTr: walkTr{p: p, ok: true, env: map[string]*wty{}, calls: map[string]bool{}}, ints: map[string]bool{}, recs: map[string]string{}}
	var sb strings.Builder
	sb.WriteString("/- GENERATED by harness/extract from bundle.go (Bundle.build, ValidateForwardItems, ValidateReturnItems) — do not edit. -/\nimport IclModel.BuildRT\nnamespace Icl.Gen.B\nopen Icl Icl.BuildRT\n\n")
	for _, n := range []string{"ValidateForwardItems", "ValidateReturnItems"} {
		d := p.methods["Bundle"][n]
		if d == nil || d.Body == nil || len(d.Type.Params.List) != 1 || len(d.Type.Params.List[0].Names) != 1 {
			t.bad("build: Bundle.%s not found", n)
			continue
		}
		par := d.Type.Params.List[0]
		ty := walkTypeOf(par.Type)
		if ty == nil {
			t.bad("build: parameter of %s", n)
			continue
		}
		t.env = map[string]*wty{par.Names[0].Name: ty}
		// the receiver must not be used
		used := false
		ast.Inspect(d.Body, func(x ast.Node) bool {
			if id, ok := x.(*ast.Ident); ok && id.Name == recvName(d) {
				used = true
			}
			return true
		})
		if used {
			t.bad("build: %s uses its receiver", n)
		}
		fmt.Fprintf(&sb, "def %s (m : Model) (%s : Item Vals) : Option BErr :=\n    %s\n\n", n, par.Names[0].Name, t.validatorBlock(d.Body.List))
	}
	d := p.methods["Bundle"]["build"]
	body := ".error (.plain, \"?\")"
	if d == nil || d.Body == nil {
		t.bad("build: Bundle.build not found")
	} else {
		t.recv = recvName(d)
		t.env = map[string]*wty{t.recv: {k: "bundle"}}
		body = t.block(d.Body.List, "    ")
	}
	name := t.recv
	if name == "" {
		name = "b"
	}
	fmt.Fprintf(&sb, "def build (m : Model) (%s : Bundle Vals) : Except BErr (Bundle Vals) :=\n    let σ : Env := []\n    %s\n\n", name, body)
	fmt.Fprintf(&sb, "/-- every statement of the Go methods had a recognised shape -/\ndef recognised : Bool := %s\n\nend Icl.Gen.B\n", leanBool(t.ok))
	must(os.WriteFile(filepath.Join(dir, "BuildT.lean"), []byte(sb.String()), 0o644))
	for _, w := range t.why {
		fmt.Fprintf(os.Stderr, "OPAQUE build: %s\n", w)
	}
}
