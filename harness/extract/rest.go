package main

type Tables struct {
	Records []RecLayout `json:"records"`
	Codes   []CodeTable `json:"codes"`
}

func extractRest(p *pkgInfo, repo string, t *Tables) {
	thePkg = p
	theRepo = repo
	t.Codes = codeTables(p)
	fd := funcDictTables(p)
	for _, d := range dictTables(p) {
		if ks, ok := fd[d.Name]; ok && len(d.Strs) == 0 {
			d.Strs, d.Kind = ks, "str"
		}
		t.Codes = append(t.Codes, d)
	}
}


var thePkg *pkgInfo
var theRepo string

func emitRest(dir string, t *Tables) {
	emitSplit(dir, thePkg)
	emitWalk(dir, thePkg)
	emitBuild(dir, thePkg)
	emitCreate(dir, thePkg)
	emitClBuild(dir, thePkg)
	emitReader(dir, thePkg)
	emitWriteLine(dir, thePkg)
	emitValidate(dir, thePkg)
	emitState(dir, theRepo)
	emitEffects(dir, thePkg)
	emitSchema(dir, thePkg, theRepo)
	emitRules(dir, t)
	emitCp037(dir)
	emitAPI(dir, theRepo)
}
