package main

type Rule struct {
	Kind string `json:"kind"`
}

type Tables struct {
	Records []RecLayout `json:"records"`
}

func rulesOf(p *pkgInfo, typ string) []Rule { return nil }
func extractRest(p *pkgInfo, repo string, t *Tables) {}


func emitRest(dir string, t *Tables) {}
