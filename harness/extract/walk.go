package main

import (
	"fmt"
	"go/ast"
	"go/token"
	"os"
	"path/filepath"
	"sort"
	"strings"
)

// The record walk of writer.go (Writer.Write and the write* methods it calls) translated statement by
// statement into Lean definitions over the model's file tree (Gen/Walk.lean).  What a Go value is on the
// model level is decided by its static Go type, read from the declarations: containers (File, CashLetter,
// Bundle, CheckDetail, ReturnDetail), records (pointers to record structs, kept as `Kind × Option Vals`) and
// slices of either.  Accessors (fields and trivial getters) are mapped by the table `walkAccess`; a getter
// whose body is not `return recv.Field` of the expected field is not trivial and makes the translation opaque.
// Anything outside the recognised shapes clears `recognised`.

type wty struct {
	k    string // "file" "cl" "bundle" "check" "return" "rec" "orec" "list" "int" "bool"
	kind string // record kind (Lean constructor) for rec/orec
	elem *wty   // for list
}

// Go type name -> model type
func walkTypeOf(e ast.Expr) *wty {
	switch x := e.(type) {
	case *ast.StarExpr:
		return walkTypeOf(x.X)
	case *ast.ArrayType:
		if x.Len == nil {
			if et := walkTypeOf(x.Elt); et != nil {
				return &wty{k: "list", elem: et}
			}
		}
	case *ast.Ident:
		switch x.Name {
		case "File":
			return &wty{k: "file"}
		case "CashLetter":
			return &wty{k: "cl"}
		case "Bundle":
			return &wty{k: "bundle"}
		case "CheckDetail":
			return &wty{k: "check"}
		case "ReturnDetail":
			return &wty{k: "return"}
		case "int":
			return &wty{k: "int"}
		}
		if k, ok := walkRecKinds[x.Name]; ok {
			return &wty{k: "rec", kind: k}
		}
	}
	return nil
}

var walkRecKinds = map[string]string{
	"FileHeader": "fileHeader", "FileControl": "fileControl", "CashLetterHeader": "cashLetterHeader", "CashLetterControl": "cashLetterControl",
	"BundleHeader": "bundleHeader", "BundleControl": "bundleControl", "CheckDetailAddendumA": "cdAddA", "CheckDetailAddendumB": "cdAddB",
	"CheckDetailAddendumC": "cdAddC", "ReturnDetailAddendumA": "rdAddA", "ReturnDetailAddendumB": "rdAddB", "ReturnDetailAddendumC": "rdAddC",
	"ReturnDetailAddendumD": "rdAddD", "ImageViewDetail": "ivDetail", "ImageViewData": "ivData", "ImageViewAnalysis": "ivAnalysis",
	"Credit": "credit", "CreditItem": "creditItem", "RoutingNumberSummary": "rns",
}

// (container kind, Go field) -> model member.  Pointer-typed record members are `Option Vals` on the model
// level (orec), value-typed ones `Vals`; slices of record pointers that may hold nil are lists of options.
type wacc struct {
	lean string // member of the model structure
	opt  bool   // the model member is already an Option (pointer that may be nil) / list of options
}

var walkAccess = map[string]map[string]wacc{
	"file":   {"Header": {"header", false}, "Control": {"control", false}, "CashLetters": {"cashLetters", false}},
	"cl":     {"CashLetterHeader": {"header", true}, "CashLetterControl": {"control", true}, "CreditItems": {"creditItems", false}, "Credits": {"credits", false}, "Bundles": {"bundles", false}, "RoutingNumberSummary": {"rns", true}},
	"bundle": {"BundleHeader": {"header", true}, "BundleControl": {"control", true}, "Checks": {"checks", false}, "Returns": {"returns", false}},
	"check": {"CheckDetailAddendumA": {"addA", false}, "CheckDetailAddendumB": {"addB", false}, "CheckDetailAddendumC": {"addC", false},
		"ImageViewDetail": {"ivDetail", false}, "ImageViewData": {"ivData", false}, "ImageViewAnalysis": {"ivAnalysis", false}},
	"return": {"ReturnDetailAddendumA": {"addA", false}, "ReturnDetailAddendumB": {"addB", false}, "ReturnDetailAddendumC": {"addC", false}, "ReturnDetailAddendumD": {"addD", false},
		"ImageViewDetail": {"ivDetail", false}, "ImageViewData": {"ivData", false}, "ImageViewAnalysis": {"ivAnalysis", false}},
}

var walkGoType = map[string]string{"file": "File", "cl": "CashLetter", "bundle": "Bundle", "check": "CheckDetail", "return": "ReturnDetail"}

type walkTr struct {
	p     *pkgInfo
	ok    bool
	why   []string
	env   map[string]*wty
	calls map[string]bool
}

func (t *walkTr) bad(format string, a ...any) {
	t.ok = false
	t.why = append(t.why, fmt.Sprintf(format, a...))
}

// structField gives the declared type of a struct member
func (t *walkTr) structField(goType, field string) ast.Expr {
	st := t.p.structs[goType]
	if st == nil {
		return nil
	}
	for _, f := range st.Fields.List {
		for _, n := range f.Names {
			if n.Name == field {
				return f.Type
			}
		}
	}
	return nil
}

// getterField: the field a trivial getter returns (`func (x *T) GetF() R { return x.F }`), "" otherwise
func (t *walkTr) getterField(goType, method string) string {
	d := t.p.methods[goType][method]
	if d == nil || d.Body == nil || (d.Type.Params != nil && len(d.Type.Params.List) != 0) {
		return ""
	}
	body := d.Body.List
	// an optional nil-receiver guard: `if x == nil { return nil }`
	if len(body) == 2 {
		if g, ok := body[0].(*ast.IfStmt); ok && g.Init == nil && g.Else == nil && src(g.Cond) == recvName(d)+" == nil" && len(g.Body.List) == 1 {
			if r, ok := g.Body.List[0].(*ast.ReturnStmt); ok && len(r.Results) == 1 && src(r.Results[0]) == "nil" {
				body = body[1:]
			}
		}
	}
	if len(body) != 1 {
		return ""
	}
	r, ok := body[0].(*ast.ReturnStmt)
	if !ok || len(r.Results) != 1 {
		return ""
	}
	sel, ok := r.Results[0].(*ast.SelectorExpr)
	if !ok || src(sel.X) != recvName(d) {
		return ""
	}
	return sel.Sel.Name
}

// access translates `x.Field` / `x.GetField()` on a container
func (t *walkTr) access(x ast.Expr, field string) (string, *wty) {
	xs, xt := t.expr(x)
	if xt == nil {
		return "default", nil
	}
	acc, ok := walkAccess[xt.k][field]
	if !ok {
		t.bad("no model member for %s.%s", xt.k, field)
		return "default", nil
	}
	ft := t.structField(walkGoType[xt.k], field)
	if ft == nil {
		t.bad("field %s.%s not declared", xt.k, field)
		return "default", nil
	}
	ty := walkTypeOf(ft)
	if ty == nil {
		t.bad("type of %s.%s not recognised: %s", xt.k, field, src(ft))
		return "default", nil
	}
	lean := xs + "." + acc.lean
	switch ty.k {
	case "rec":
		if acc.opt {
			return "(Kind." + ty.kind + ", " + lean + ")", &wty{k: "orec", kind: ty.kind}
		}
		return "(Kind." + ty.kind + ", some " + lean + ")", &wty{k: "orec", kind: ty.kind}
	case "list":
		if ty.elem.k == "rec" {
			if acc.opt {
				return lean, &wty{k: "list", elem: &wty{k: "orec", kind: ty.elem.kind}}
			}
			return lean, &wty{k: "list", elem: &wty{k: "rec", kind: ty.elem.kind}}
		}
		return lean, ty
	}
	return lean, ty
}

// expr translates an expression; the result type is nil when it is not recognised
func (t *walkTr) expr(e ast.Expr) (string, *wty) {
	switch x := e.(type) {
	case *ast.ParenExpr:
		return t.expr(x.X)
	case *ast.Ident:
		if ty, ok := t.env[x.Name]; ok {
			if ty.k == "rec" {
				return "(Kind." + ty.kind + ", some " + x.Name + ")", &wty{k: "orec", kind: ty.kind}
			}
			if ty.k == "orec" {
				// a range variable over a slice of pointers that may hold nil
				return "(Kind." + ty.kind + ", " + x.Name + ")", &wty{k: "orec", kind: ty.kind}
			}
			if ty.k == "pair" {
				return x.Name, &wty{k: ty.elem.k, kind: ty.elem.kind}
			}
			return x.Name, ty
		}
	case *ast.BasicLit:
		if x.Kind == token.INT {
			return "(" + x.Value + " : Int)", &wty{k: "int"}
		}
	case *ast.UnaryExpr:
		if x.Op == token.AND {
			return t.expr(x.X)
		}
	case *ast.SelectorExpr:
		return t.access(x.X, x.Sel.Name)
	case *ast.IndexExpr:
		ls, lt := t.listExpr(x.X)
		is, it := t.expr(x.Index)
		if lt != nil && lt.k == "list" && it != nil && it.k == "int" {
			switch lt.elem.k {
			case "rec":
				// an index outside the slice panics in Go: `none` aborts the walk
				return "(Kind." + lt.elem.kind + ", " + ls + "[(" + is + ").toNat]?)", &wty{k: "irec", kind: lt.elem.kind}
			}
		}
	case *ast.CallExpr:
		if f := src(x.Fun); f == "len" && len(x.Args) == 1 {
			ls, lt := t.listExpr(x.Args[0])
			if lt != nil && lt.k == "list" {
				return "(" + ls + ".length : Int)", &wty{k: "int"}
			}
		}
		if sel, ok := x.Fun.(*ast.SelectorExpr); ok && len(x.Args) == 0 {
			_, xt := t.expr(sel.X)
			if xt != nil && walkGoType[xt.k] != "" {
				if fld := t.getterField(walkGoType[xt.k], sel.Sel.Name); fld != "" {
					return t.access(sel.X, fld)
				}
				t.bad("%s.%s() is not a trivial getter", xt.k, sel.Sel.Name)
			}
		}
	case *ast.BinaryExpr:
		a, at := t.expr(x.X)
		b, bt := t.expr(x.Y)
		if at != nil && bt != nil {
			if at.k == "bool" && bt.k == "bool" {
				switch x.Op {
				case token.LAND:
					return "(" + a + " && " + b + ")", at
				case token.LOR:
					return "(" + a + " || " + b + ")", at
				}
			}
			if at.k == "int" && bt.k == "int" {
				switch x.Op {
				case token.ADD:
					return "(" + a + " + " + b + ")", at
				case token.SUB:
					return "(" + a + " - " + b + ")", at
				case token.LSS:
					return "decide (" + a + " < " + b + ")", &wty{k: "bool"}
				case token.LEQ:
					return "decide (" + a + " ≤ " + b + ")", &wty{k: "bool"}
				case token.GTR:
					return "decide (" + a + " > " + b + ")", &wty{k: "bool"}
				case token.GEQ:
					return "decide (" + a + " ≥ " + b + ")", &wty{k: "bool"}
				case token.EQL:
					return "decide (" + a + " = " + b + ")", &wty{k: "bool"}
				case token.NEQ:
					return "decide (" + a + " ≠ " + b + ")", &wty{k: "bool"}
				}
			}
		}
	}
	t.bad("expression not recognised: %s", src(e))
	return "default", nil
}

func (t *walkTr) listExpr(e ast.Expr) (string, *wty) {
	s, ty := t.expr(e)
	return s, ty
}

// callStmt recognises `w.writeLine(E)` and `w.writeX(args)`; returns the Lean term of type `Out`
func (t *walkTr) callStmt(c *ast.CallExpr, recv string) (string, bool) {
	sel, ok := c.Fun.(*ast.SelectorExpr)
	if !ok || src(sel.X) != recv {
		return "", false
	}
	if sel.Sel.Name == "writeLine" && len(c.Args) == 1 {
		// a container passed to writeLine is its detail record
		if id, ok := c.Args[0].(*ast.Ident); ok {
			if ty := t.env[id.Name]; ty != nil && (ty.k == "check" || ty.k == "return") {
				k := map[string]string{"check": "checkDetail", "return": "returnDetail"}[ty.k]
				return "line (Kind." + k + ", some " + id.Name + ".detail)", true
			}
		}
		s, ty := t.expr(c.Args[0])
		if ty != nil && ty.k == "orec" {
			return "line " + s, true
		}
		if ty != nil && ty.k == "irec" {
			return "lineIdx " + s, true
		}
		t.bad("writeLine argument not a record: %s", src(c.Args[0]))
		return "none", true
	}
	if strings.HasPrefix(sel.Sel.Name, "write") && t.p.methods["Writer"][sel.Sel.Name] != nil {
		var args []string
		for _, a := range c.Args {
			s, ty := t.expr(a)
			if ty == nil {
				t.bad("argument of %s not recognised: %s", sel.Sel.Name, src(a))
			}
			args = append(args, "("+s+")")
		}
		t.calls[sel.Sel.Name] = true
		return sel.Sel.Name + " " + strings.Join(args, " "), true
	}
	return "", false
}

// errGuard recognises `if err := CALL; err != nil { return err }`
func errGuard(s *ast.IfStmt) *ast.CallExpr {
	if s.Init == nil || s.Else != nil || len(s.Body.List) != 1 {
		return nil
	}
	as, ok := s.Init.(*ast.AssignStmt)
	if !ok || len(as.Lhs) != 1 || len(as.Rhs) != 1 || src(as.Lhs[0]) != "err" {
		return nil
	}
	if src(s.Cond) != "err != nil" {
		return nil
	}
	if r, ok := s.Body.List[0].(*ast.ReturnStmt); !ok || len(r.Results) != 1 || src(r.Results[0]) != "err" {
		return nil
	}
	c, _ := as.Rhs[0].(*ast.CallExpr)
	return c
}

// block translates a statement list into a Lean term of type `Out`; `tail` is what follows when the block
// falls through ("some []" at the end of a function or loop body)
func (t *walkTr) block(stmts []ast.Stmt, recv, ind string) string {
	if len(stmts) == 0 {
		return "some []"
	}
	rest := func() string { return t.block(stmts[1:], recv, ind) }
	switch s := stmts[0].(type) {
	case *ast.ReturnStmt:
		if len(s.Results) == 1 {
			r := src(s.Results[0])
			if r == "nil" || r == recv+".w.Flush()" {
				return "some []"
			}
			if c, ok := s.Results[0].(*ast.CallExpr); ok {
				if call, ok := t.callStmt(c, recv); ok {
					return call
				}
			}
			if u, ok := s.Results[0].(*ast.UnaryExpr); ok && u.Op == token.AND {
				if cl, ok := u.X.(*ast.CompositeLit); ok && strings.HasSuffix(src(cl.Type), "Error") {
					return "none"
				}
			}
			if r == "ErrNilFile" {
				return "none"
			}
		}
	case *ast.AssignStmt:
		if len(s.Lhs) == 1 && len(s.Rhs) == 1 {
			name := src(s.Lhs[0])
			if name == recv+".lineNum" {
				return rest()
			}
			if s.Tok == token.DEFINE {
				if c, ok := s.Rhs[0].(*ast.CallExpr); ok && src(c.Fun) == "fmt.Sprintf" {
					return rest() // an error message
				}
				v, ty := t.expr(s.Rhs[0])
				if ty != nil {
					old, had := t.env[name]
					// `x := xs[i]` copies a record out of a slice: the copy stands for the indexed element
					if ty.k == "orec" || ty.k == "irec" {
						ty = &wty{k: "pair", elem: ty}
					}
					t.env[name] = ty
					body := rest()
					if had {
						t.env[name] = old
					} else {
						delete(t.env, name)
					}
					return "let " + name + " := " + v + "\n" + ind + body
				}
			}
		}
	case *ast.IfStmt:
		if c := errGuard(s); c != nil {
			if src(c.Fun) == "file.Validate" || strings.HasSuffix(src(c.Fun), ".Validate") && len(c.Args) == 0 {
				x := c.Fun.(*ast.SelectorExpr).X
				xs, xt := t.expr(x)
				if xt != nil && xt.k == "file" {
					return "if !fileValidate " + xs + " then none else\n" + ind + rest()
				}
			}
			if call, ok := t.callStmt(c, recv); ok {
				return "seq (" + call + ") (\n" + ind + rest() + ")"
			}
		} else if s.Init == nil && s.Else == nil {
			if src(s.Cond) == "file == nil" {
				return rest()
			}
			cond, ct := t.expr(s.Cond)
			if ct != nil && ct.k == "bool" {
				th := t.block(s.Body.List, recv, ind+"  ")
				if endsInReturn(s.Body.List) {
					return "if " + cond + " then (" + th + ") else\n" + ind + rest()
				}
				return "seq (if " + cond + " then (" + th + ") else some []) (\n" + ind + rest() + ")"
			}
		}
	case *ast.RangeStmt:
		ls, lt := t.listExpr(s.X)
		if lt != nil && lt.k == "list" && s.Tok == token.DEFINE {
			key, val := "", ""
			if s.Key != nil {
				key = src(s.Key)
			}
			if s.Value != nil {
				val = src(s.Value)
			}
			var loop string
			switch {
			case key == "_" && val != "":
				old, had := t.env[val]
				t.env[val] = lt.elem
				body := t.block(s.Body.List, recv, ind+"  ")
				if had {
					t.env[val] = old
				} else {
					delete(t.env, val)
				}
				loop = "forEach " + ls + " (fun " + val + " =>\n" + ind + "  " + body + ")"
			case key != "" && key != "_" && val == "":
				old, had := t.env[key]
				t.env[key] = &wty{k: "int"}
				body := t.block(s.Body.List, recv, ind+"  ")
				if had {
					t.env[key] = old
				} else {
					delete(t.env, key)
				}
				loop = "forIdx " + ls + ".length (fun " + key + " =>\n" + ind + "  " + body + ")"
			}
			if loop != "" {
				return "seq (" + loop + ") (\n" + ind + rest() + ")"
			}
		}
	}
	t.bad("statement not recognised: %s", strings.SplitN(src(stmts[0]), "\n", 2)[0])
	return "none"
}

func endsInReturn(stmts []ast.Stmt) bool {
	if len(stmts) == 0 {
		return false
	}
	_, ok := stmts[len(stmts)-1].(*ast.ReturnStmt)
	return ok
}

func leanTypeOf(ty *wty) string {
	switch ty.k {
	case "file":
		return "File Vals"
	case "cl":
		return "CashLetter Vals"
	case "bundle":
		return "Bundle Vals"
	case "check", "return":
		return "Item Vals"
	case "list":
		if ty.elem.k == "orec" {
			return "List (Option Vals)"
		}
		if ty.elem.k == "rec" {
			return "List Vals"
		}
		return "List (" + leanTypeOf(ty.elem) + ")"
	case "int":
		return "Int"
	}
	return "Vals"
}

func emitWalk(dir string, p *pkgInfo) {
	t := &walkTr{p: p, ok: true, env: map[string]*wty{}, calls: map[string]bool{"Write": true}}
	defs := map[string]string{}
	done := map[string]bool{}
	for {
		var next string
		var names []string
		for n := range t.calls {
			names = append(names, n)
		}
		sort.Strings(names)
		for _, n := range names {
			if !done[n] {
				next = n
				break
			}
		}
		if next == "" {
			break
		}
		done[next] = true
		d := p.methods["Writer"][next]
		if d == nil || d.Body == nil {
			t.bad("Writer.%s not found", next)
			continue
		}
		t.env = map[string]*wty{}
		var params []string
		for _, f := range d.Type.Params.List {
			ty := walkTypeOf(f.Type)
			if ty == nil {
				t.bad("parameter type of %s not recognised: %s", next, src(f.Type))
				ty = &wty{k: "int"}
			}
			// a slice of record values passed as parameter: elements are records
			for _, n := range f.Names {
				t.env[n.Name] = ty
				params = append(params, fmt.Sprintf("(%s : %s)", n.Name, leanTypeOf(ty)))
			}
		}
		body := t.block(d.Body.List, recvName(d), "    ")
		defs[next] = fmt.Sprintf("def %s %s : Out :=\n    %s\n", next, strings.Join(params, " "), body)
	}
	// emit callees before callers
	order := []string{}
	var visit func(n string, seen map[string]bool)
	emitted := map[string]bool{}
	visit = func(n string, seen map[string]bool) {
		if emitted[n] || seen[n] {
			return
		}
		seen[n] = true
		for m := range defs {
			if m != n && strings.Contains(defs[n], m+" (") {
				visit(m, seen)
			}
		}
		emitted[n] = true
		order = append(order, n)
	}
	var names []string
	for n := range defs {
		names = append(names, n)
	}
	sort.Strings(names)
	for _, n := range names {
		visit(n, map[string]bool{})
	}
	var sb strings.Builder
	sb.WriteString("/- GENERATED by harness/extract from writer.go (Writer.Write and the write* methods) — do not edit. -/\nimport IclModel.WalkRT\nnamespace Icl.Gen.W\nopen Icl Icl.WalkRT\n\n")
	for _, n := range order {
		sb.WriteString(defs[n] + "\n")
	}
	fmt.Fprintf(&sb, "/-- every statement of the Go methods had a recognised shape -/\ndef recognised : Bool := %s\n\nend Icl.Gen.W\n", leanBool(t.ok))
	must(os.WriteFile(filepath.Join(dir, "Walk.lean"), []byte(sb.String()), 0o644))
	for _, w := range t.why {
		fmt.Fprintf(os.Stderr, "OPAQUE walk: %s\n", w)
	}
}
