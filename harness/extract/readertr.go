package main

import (
	"fmt"
	"regexp"
	"go/ast"
	"go/token"
	"os"
	"path/filepath"
	"strconv"
	"strings"
)

// The record handlers of reader.go (Reader.parseLine and the parse* methods it calls) translated statement by
// statement into Lean functions over the reader state of the model (Gen/ReaderT.lean).  What a Go expression over
// the reader's own state is on the model level is the closed table `readerPath` below; the small container methods
// the handlers call (AddCheckDetail, GetChecks, NewBundle, ...) are checked to have the one-line bodies the table
// assumes.  A record parsed in place into a container that is not yet part of the returned file (the controls) is
// translated as a parse into a copy that replaces the original on success: after an error the current bundle /
// cash letter is not part of what Read returns.  Anything outside the recognised shapes makes the handler opaque.

type rdTr struct {
	p       *pkgInfo
	ok      bool
	why     []string
	recv    string
	locals  map[string]string // Go local -> what it is: "bytes", "rec:<kind>", "cl:<hdr>", "bundle:<hdr>", "last:checks", "last:returns", "skip"
	inplace string            // kind parsed in place by the last Parse statement
}

func (t *rdTr) bad(format string, a ...any) {
	t.ok = false
	t.why = append(t.why, fmt.Sprintf(format, a...))
}

// paths over the reader's state: Go source (receiver written as `r`) -> (Lean term, type)
var readerPath = map[string][2]string{
	"r.currentCashLetter.CashLetterHeader":                {"s.cur.header", "orec"},
	"r.currentCashLetter.currentBundle":                   {"s.curBundle", "obundle"},
	"r.currentCashLetter.currentBundle.BundleHeader":      {"(ReaderRT.bundleHeader s)", "orec"},
	"r.currentCashLetter.currentBundle.BundleControl":     {"(ReaderRT.bundleControl s)", "orec"},
	"r.currentCashLetter.currentBundle.GetChecks()":       {"hasChecks s", "slice"},
	"r.currentCashLetter.currentBundle.GetReturns()":      {"hasReturns s", "slice"},
	"r.currentCashLetter.currentBundle.Checks":            {"hasChecks s", "slice"},
	"r.currentCashLetter.currentBundle.Returns":           {"hasReturns s", "slice"},
	"r.currentCashLetter.currentBundle.GetControl()":      {"(ReaderRT.bundleControl s)", "orec:bundleControl"},
	"r.currentCashLetter.GetControl()":                    {"s.cur.control", "orec:cashLetterControl"},
	"r.currentCashLetter.currentRoutingNumberSummary":     {"s.curRNS", "orec"},
}

func (t *rdTr) rsrc(e ast.Node) string {
	s := src(e)
	if t.recv != "r" {
		s = strings.ReplaceAll(s, t.recv+".", "r.")
	}
	// locals that only name a path of the reader's state
	if id, ok := e.(*ast.Ident); ok {
		if p, ok := t.locals[id.Name]; ok && strings.HasPrefix(p, "path:") {
			return strings.TrimPrefix(p, "path:")
		}
	}
	if sel, ok := e.(*ast.SelectorExpr); ok {
		if id, ok := sel.X.(*ast.Ident); ok {
			if p, ok := t.locals[id.Name]; ok && strings.HasPrefix(p, "path:") {
				return strings.TrimPrefix(p, "path:") + "." + sel.Sel.Name
			}
		}
	}
	return s
}

// trivialGetter: `func (x *T) G() R { [if x == nil { return nil }]; return x.F }`
func (t *rdTr) trivialGetter(goType, method, field string) bool {
	wt := walkTr{p: t.p}
	return wt.getterField(goType, method) == field
}

// appendMethod: `func (x *T) M(a *A) [..] { x.F = append(x.F, a)[; return x.F] }`
func (t *rdTr) appendMethod(goType, method string) (string, bool) {
	d := t.p.methods[goType][method]
	if d == nil || d.Body == nil || d.Type.Params == nil || len(d.Type.Params.List) != 1 || len(d.Type.Params.List[0].Names) != 1 {
		return "", false
	}
	par := d.Type.Params.List[0].Names[0].Name
	recv := recvName(d)
	body := d.Body.List
	if len(body) == 2 {
		if r, ok := body[1].(*ast.ReturnStmt); ok && len(r.Results) == 1 {
			body = body[:1]
		}
	}
	if len(body) != 1 {
		return "", false
	}
	as, ok := body[0].(*ast.AssignStmt)
	if !ok || as.Tok != token.ASSIGN || len(as.Lhs) != 1 || len(as.Rhs) != 1 {
		return "", false
	}
	sel, ok := as.Lhs[0].(*ast.SelectorExpr)
	if !ok || src(sel.X) != recv {
		return "", false
	}
	want := "append(" + recv + "." + sel.Sel.Name + ", " + par + ")"
	wantDeref := "append(" + recv + "." + sel.Sel.Name + ", *" + par + ")"
	if got := src(as.Rhs[0]); got != want && got != wantDeref {
		return "", false
	}
	return sel.Sel.Name, true
}

// setterMethod: `func (x *T) M(a A) { x.F = a }`
func (t *rdTr) setterMethod(goType, method string) (string, bool) {
	d := t.p.methods[goType][method]
	if d == nil || d.Body == nil || d.Type.Params == nil || len(d.Type.Params.List) != 1 || len(d.Type.Params.List[0].Names) != 1 || len(d.Body.List) != 1 {
		return "", false
	}
	as, ok := d.Body.List[0].(*ast.AssignStmt)
	if !ok || as.Tok != token.ASSIGN || len(as.Lhs) != 1 || len(as.Rhs) != 1 || src(as.Rhs[0]) != d.Type.Params.List[0].Names[0].Name {
		return "", false
	}
	return strings.TrimPrefix(src(as.Lhs[0]), recvName(d)+"."), true
}

func (t *rdTr) cond(e ast.Expr) (string, bool) {
	switch x := e.(type) {
	case *ast.ParenExpr:
		return t.cond(x.X)
	case *ast.UnaryExpr:
		if x.Op == token.NOT {
			if a, ok := t.cond(x.X); ok {
				return "(!" + a + ")", true
			}
		}
	case *ast.SelectorExpr:
		if t.rsrc(x) == "r.ebcdic" {
			return "e.ebcdic", true
		}
	case *ast.BinaryExpr:
		switch x.Op {
		case token.LAND, token.LOR:
			a, ok1 := t.cond(x.X)
			b, ok2 := t.cond(x.Y)
			if ok1 && ok2 {
				op := " && "
				if x.Op == token.LOR {
					op = " || "
				}
				return "(" + a + op + b + ")", true
			}
		case token.EQL, token.NEQ:
			if src(x.Y) == "nil" {
				if p, ok := readerPath[t.rsrc(x.X)]; ok {
					switch {
					case strings.HasPrefix(p[1], "orec") || p[1] == "obundle":
						if x.Op == token.EQL {
							return p[0] + ".isNone", true
						}
						return p[0] + ".isSome", true
					case p[1] == "slice":
						// a nil slice: nothing has been appended yet
						if x.Op == token.EQL {
							return "(!" + p[0] + ")", true
						}
						return "(" + p[0] + ")", true
					}
				}
			}
			// `(FileControl{}) != r.File.Control`
			if t.rsrc(x.Y) == "r.File.Control" && src(x.X) == "(FileControl{})" && x.Op == token.NEQ {
				return "(ReaderRT.controlSet s)", true
			}
		case token.GTR:
			if c, ok := x.X.(*ast.CallExpr); ok && src(c.Fun) == "len" && len(c.Args) == 1 && src(x.Y) == "0" {
				if p, ok := readerPath[t.rsrc(c.Args[0])]; ok && p[1] == "slice" {
					return "(" + p[0] + ")", true
				}
			}
		}
	}
	return "", false
}

// fileErrorReturn: `return r.error(&FileError{[FieldName: "F",] Msg: ...})` -> F
func (t *rdTr) fileErrorReturn(st ast.Stmt) (string, bool) {
	r, ok := st.(*ast.ReturnStmt)
	if !ok || len(r.Results) != 1 {
		return "", false
	}
	c, ok := r.Results[0].(*ast.CallExpr)
	if !ok || t.rsrc(c.Fun) != "r.error" || len(c.Args) != 1 {
		return "", false
	}
	u, ok := c.Args[0].(*ast.UnaryExpr)
	if !ok || u.Op != token.AND {
		return "", false
	}
	cl, ok := u.X.(*ast.CompositeLit)
	if !ok || src(cl.Type) != "FileError" {
		return "", false
	}
	field := ""
	for _, el := range cl.Elts {
		kv, ok := el.(*ast.KeyValueExpr)
		if !ok {
			return "", false
		}
		switch src(kv.Key) {
		case "FieldName":
			bl, ok := kv.Value.(*ast.BasicLit)
			if !ok || bl.Kind != token.STRING {
				return "", false
			}
			field, _ = strconv.Unquote(bl.Value)
		case "Msg", "Value":
		default:
			return "", false
		}
	}
	return field, true
}

func isErrReturn(st ast.Stmt) bool {
	g, ok := st.(*ast.IfStmt)
	if !ok || g.Init != nil || g.Else != nil || src(g.Cond) != "err != nil" || len(g.Body.List) != 1 {
		return false
	}
	return src(g.Body.List[0]) == "return err"
}

// validateGuard: `if err := X.Validate(); err != nil { return r.error(err) }` -> X
func (t *rdTr) validateGuard(st ast.Stmt) (ast.Expr, bool) {
	g, ok := st.(*ast.IfStmt)
	if !ok || g.Init == nil || g.Else != nil || src(g.Cond) != "err != nil" || len(g.Body.List) != 1 {
		return nil, false
	}
	if t.rsrc(g.Body.List[0]) != "return r.error(err)" {
		return nil, false
	}
	as, ok := g.Init.(*ast.AssignStmt)
	if !ok || len(as.Rhs) != 1 {
		return nil, false
	}
	c, ok := as.Rhs[0].(*ast.CallExpr)
	if !ok || len(c.Args) != 0 {
		return nil, false
	}
	sel, ok := c.Fun.(*ast.SelectorExpr)
	if !ok || sel.Sel.Name != "Validate" {
		return nil, false
	}
	return sel.X, true
}

func (t *rdTr) bytesExpr(e ast.Expr) (string, bool) {
	s := t.rsrc(e)
	if s == "r.line" {
		return "line", true
	}
	if id, ok := e.(*ast.Ident); ok && t.locals[id.Name] == "bytes" {
		return id.Name, true
	}
	if c, ok := e.(*ast.CallExpr); ok && len(c.Args) == 1 && (src(c.Fun) == "string" || src(c.Fun) == "[]byte") {
		return t.bytesExpr(c.Args[0])
	}
	return "", false
}

// hblock: Lean term of type `Except (RState × RErr) RState`
func (t *rdTr) hblock(stmts []ast.Stmt, ind string) string {
	if len(stmts) == 0 {
		t.bad("reader: handler falls off its end")
		return ".error (s, s.err .plain \"?\")"
	}
	rest := func(n int) string { return t.hblock(stmts[n:], ind) }
	fail := func() string {
		t.bad("reader: statement not recognised: %s", strings.SplitN(src(stmts[0]), "\n", 2)[0])
		return ".error (s, s.err .plain \"?\")"
	}
	switch s := stmts[0].(type) {
	case *ast.ReturnStmt:
		if len(s.Results) == 1 && src(s.Results[0]) == "nil" {
			return ".ok s"
		}
		if f, ok := t.fileErrorReturn(s); ok {
			return ".error (s, s.err .file " + leanStr(f) + ")"
		}
		if c, ok := s.Results[0].(*ast.CallExpr); ok && len(s.Results) == 1 && src(c.Fun) == "errors.New" && len(c.Args) == 1 {
			if bl, ok := c.Args[0].(*ast.BasicLit); ok && bl.Kind == token.STRING {
				msg, _ := strconv.Unquote(bl.Value)
				return ".error (s, ReaderRT.plainErr s " + leanStr(msg) + ")"
			}
		}
	case *ast.AssignStmt:
		if len(s.Lhs) == 1 && len(s.Rhs) == 1 {
			lhs := t.rsrc(s.Lhs[0])
			// `r.recordName = "X"`
			if lhs == "r.recordName" && s.Tok == token.ASSIGN {
				if bl, ok := s.Rhs[0].(*ast.BasicLit); ok && bl.Kind == token.STRING {
					return "let s := { s with recordName := " + bl.Value + " }\n" + ind + rest(1)
				}
			}
			// `r.File.Header = fh`: the model also remembers whether a header line has been parsed into it
			if lhs == "r.File.Header" && s.Tok == token.ASSIGN {
				if id, ok := s.Rhs[0].(*ast.Ident); ok && t.locals[id.Name] == "rec:fileHeader" {
					return "let s := ReaderRT.setHeader s (dec line) " + id.Name + "\n" + ind + rest(1)
				}
			}
			// the containers the reader opens and closes
			if s.Tok == token.ASSIGN {
				switch lhs + " = " + src(s.Rhs[0]) {
				case "r.currentCashLetter.currentBundle = new(Bundle)":
					return "let s := { s with curBundle := some { header := none, control := none } }\n" + ind + rest(1)
				case "r.currentCashLetter.currentRoutingNumberSummary = new(RoutingNumberSummary)":
					return "let s := { s with curRNS := some {} }\n" + ind + rest(1)
				case "r.currentCashLetter = CashLetter{}":
					return "let s := { s with cur := { header := none, control := none }, curBundle := none, curRNS := none }\n" + ind + rest(1)
				}
			}
			// `r.File.Control = fc`
			if lhs == "r.File.Control" && s.Tok == token.ASSIGN {
				if id, ok := s.Rhs[0].(*ast.Ident); ok && t.locals[id.Name] == "rec:fileControl" {
					return "let s := { s with control := " + id.Name + " }\n" + ind + rest(1)
				}
			}
			if id, ok := s.Lhs[0].(*ast.Ident); ok && s.Tok == token.DEFINE {
				name := id.Name
				rhs := s.Rhs[0]
				if b, ok := t.bytesExpr(rhs); ok {
					t.locals[name] = "bytes"
					return "let " + name + " := " + b + "\n" + ind + rest(1)
				}
				if strings.HasPrefix(src(rhs), "msgFile") {
					return rest(1) // the message text is not part of the model
				}
				if _, ok := readerPath[t.rsrc(rhs)]; ok {
					t.locals[name] = "path:" + t.rsrc(rhs)
					return rest(1)
				}
				if t.rsrc(rhs) == "r.File.Header" {
					t.locals[name] = "rec:fileHeader"
					return "let " + name + " := s.header\n" + ind + rest(1)
				}
				if t.rsrc(rhs) == "r.File.Control" {
					t.locals[name] = "rec:fileControl"
					return "let " + name + " := s.control\n" + ind + rest(1)
				}
				if c, ok := rhs.(*ast.CallExpr); ok {
					f := src(c.Fun)
					switch {
					case len(c.Args) == 0 && strings.HasPrefix(f, "New"):
						if k, ok := walkRecKinds[strings.TrimPrefix(f, "New")]; ok {
							t.locals[name] = "rec:" + k
							return "let " + name + " := (m.layout Kind." + k + ").new m.now\n" + ind + rest(1)
						}
					case f == "new" && len(c.Args) == 1:
						gt := src(c.Args[0])
						k, ok := walkRecKinds[gt]
						if !ok {
							k = map[string]string{"CheckDetail": "checkDetail", "ReturnDetail": "returnDetail"}[gt]
						}
						if k != "" {
							t.locals[name] = "rec:" + k
							return "let " + name + " : Vals := {}\n" + ind + rest(1)
						}
					case f == "NewCashLetter" && len(c.Args) == 1:
						if a, ok := c.Args[0].(*ast.Ident); ok && t.locals[a.Name] == "rec:cashLetterHeader" && t.checkNewContainer("NewCashLetter", "CashLetter", "NewCashLetterControl") {
							t.locals[name] = "cl:" + a.Name
							return rest(1)
						}
					case f == "NewBundle" && len(c.Args) == 1:
						if a, ok := c.Args[0].(*ast.Ident); ok && t.locals[a.Name] == "rec:bundleHeader" && t.checkNewContainer("NewBundle", "Bundle", "NewBundleControl") {
							t.locals[name] = "bundle:" + a.Name
							return rest(1)
						}
					}
				}
				// `entryIndex := len(<checks|returns>) - 1`
				if be, ok := rhs.(*ast.BinaryExpr); ok && be.Op == token.SUB && src(be.Y) == "1" {
					if c, ok := be.X.(*ast.CallExpr); ok && src(c.Fun) == "len" && len(c.Args) == 1 {
						switch t.rsrc(c.Args[0]) {
						case "r.currentCashLetter.currentBundle.GetChecks()", "r.currentCashLetter.currentBundle.Checks":
							if t.trivialGetter("Bundle", "GetChecks", "Checks") {
								t.locals[name] = "last:checks"
								return rest(1)
							}
						case "r.currentCashLetter.currentBundle.GetReturns()", "r.currentCashLetter.currentBundle.Returns":
							if t.trivialGetter("Bundle", "GetReturns", "Returns") {
								t.locals[name] = "last:returns"
								return rest(1)
							}
						}
					}
				}
			}
			if id, ok := s.Lhs[0].(*ast.Ident); ok && s.Tok == token.ASSIGN && t.locals[id.Name] == "bytes" {
				if b, ok := t.bytesExpr(s.Rhs[0]); ok {
					return "let " + id.Name + " := " + b + "\n" + ind + rest(1)
				}
			}
		}
		// `lineOut, err := r.decodeLine(X)` + `if err != nil { return err }`
		if len(s.Lhs) == 2 && len(s.Rhs) == 1 && s.Tok == token.DEFINE && src(s.Lhs[1]) == "err" && len(stmts) >= 2 && isErrReturn(stmts[1]) {
			if c, ok := s.Rhs[0].(*ast.CallExpr); ok && t.rsrc(c.Fun) == "r.decodeLine" && len(c.Args) == 1 {
				if b, ok := t.bytesExpr(c.Args[0]); ok {
					name := src(s.Lhs[0])
					t.locals[name] = "bytes"
					return "let " + name + " := dec " + b + "\n" + ind + rest(2)
				}
			}
		}
	case *ast.IfStmt:
		if as, ok := s.Init.(*ast.AssignStmt); ok && as.Tok == token.DEFINE && len(as.Lhs) == 1 && len(as.Rhs) == 1 && src(as.Lhs[0]) != "err" {
			if _, ok := readerPath[t.rsrc(as.Rhs[0])]; ok {
				t.locals[src(as.Lhs[0])] = "path:" + t.rsrc(as.Rhs[0])
				cp := *s
				cp.Init = nil
				return t.hblock(append([]ast.Stmt{&cp}, stmts[1:]...), ind)
			}
		}
		if s.Init == nil {
			// `if r.ebcdic { x = handleIBM1047Compatibility(y) }`
			if s.Else == nil && len(s.Body.List) == 1 {
				if as, ok := s.Body.List[0].(*ast.AssignStmt); ok && as.Tok == token.ASSIGN && len(as.Lhs) == 1 && len(as.Rhs) == 1 {
					if c, ok := as.Rhs[0].(*ast.CallExpr); ok && src(c.Fun) == "handleIBM1047Compatibility" && len(c.Args) == 1 {
						x, okx := t.bytesExpr(as.Lhs[0])
						y, oky := t.bytesExpr(c.Args[0])
						cond, okc := t.cond(s.Cond)
						if okx && oky && okc {
							return "let " + x + " := if " + cond + " then ibm1047 m.frb " + y + " else " + x + "\n" + ind + rest(1)
						}
					}
				}
			}
			// `r.error(...)` whose result is dropped: Reader.error only builds a value, the comparison has no effect
			if s.Else == nil && len(s.Body.List) == 1 {
				if es, ok := s.Body.List[0].(*ast.ExprStmt); ok {
					if c, ok := es.X.(*ast.CallExpr); ok && t.rsrc(c.Fun) == "r.error" && t.errorIsPure() && !hasCall(s.Cond) {
						return rest(1)
					}
				}
			}
			cond, okc := t.cond(s.Cond)
			if okc && s.Else == nil && len(s.Body.List) >= 1 {
				body := s.Body.List
				// a guard nested in a guard
				if g, ok := body[0].(*ast.IfStmt); ok && len(body) == 1 && g.Init == nil && g.Else == nil {
					if c2, ok := t.cond(g.Cond); ok {
						if _, isRet := g.Body.List[len(g.Body.List)-1].(*ast.ReturnStmt); isRet {
							return "if (" + cond + " && " + c2 + ") then (\n" + ind + "  " + t.hblock(g.Body.List, ind+"  ") + ")\n" + ind + "else\n" + ind + rest(1)
						}
					}
				}
				if _, isRet := body[len(body)-1].(*ast.ReturnStmt); isRet {
					// a guard whose body returns
					return "if " + cond + " then (\n" + ind + "  " + t.hblock(body, ind+"  ") + ")\n" + ind + "else\n" + ind + rest(1)
				}
				// a block that falls through to what follows
				thenB := t.hblock(append(append([]ast.Stmt{}, body...), stmts[1:]...), ind+"  ")
				return "if " + cond + " then (\n" + ind + "  " + thenB + ")\n" + ind + "else (\n" + ind + "  " + t.hblock(stmts[1:], ind+"  ") + ")"
			}
			// if / else-if / else over blocks that fall through to what follows
			if okc && s.Else != nil {
				thenB := t.hblock(append(append([]ast.Stmt{}, s.Body.List...), stmts[1:]...), ind+"  ")
				var elseB string
				switch el := s.Else.(type) {
				case *ast.BlockStmt:
					elseB = t.hblock(append(append([]ast.Stmt{}, el.List...), stmts[1:]...), ind+"  ")
				case *ast.IfStmt:
					elseB = t.hblock(append([]ast.Stmt{el}, stmts[1:]...), ind+"  ")
				}
				return "if " + cond + " then (\n" + ind + "  " + thenB + ")\n" + ind + "else (\n" + ind + "  " + elseB + ")"
			}
		}
		// `if err := <container>.Validate(); err != nil { r.recordName = "X"; return r.error(err) }`
		if s.Init != nil && s.Else == nil && src(s.Cond) == "err != nil" && len(s.Body.List) == 2 {
			if as, ok := s.Init.(*ast.AssignStmt); ok && len(as.Rhs) == 1 {
				if c, ok := as.Rhs[0].(*ast.CallExpr); ok && len(c.Args) == 0 {
					if sel, ok := c.Fun.(*ast.SelectorExpr); ok && sel.Sel.Name == "Validate" && t.rsrc(s.Body.List[1]) == "return r.error(err)" {
						if na, ok := s.Body.List[0].(*ast.AssignStmt); ok && len(na.Lhs) == 1 && t.rsrc(na.Lhs[0]) == "r.recordName" {
							if bl, ok := na.Rhs[0].(*ast.BasicLit); ok && bl.Kind == token.STRING {
								switch t.rsrc(sel.X) {
								case "r.currentCashLetter.currentBundle":
									return "match ReaderRT.validateCurBundle s with\n" + ind + "| some f => .error (s, ({ s with recordName := " + bl.Value + " }).err .bundle f)\n" + ind + "| none =>\n" + ind + rest(1)
								case "r.currentCashLetter":
									return "match cashLetterValidate m s.cur with\n" + ind + "| some (cls, f) => .error (s, ({ s with recordName := " + bl.Value + " }).err cls f)\n" + ind + "| none =>\n" + ind + rest(1)
								}
							}
						}
					}
				}
			}
		}
		// `if err := r.H(); err != nil { return err }` (a handler that calls its worker)
		if c := errGuard(s); c != nil && len(c.Args) == 0 {
			if sel, ok := c.Fun.(*ast.SelectorExpr); ok && src(sel.X) == t.recv {
				if d := t.p.methods["Reader"][sel.Sel.Name]; d != nil && d.Body != nil && recvName(d) == t.recv {
					// inline the worker: its `return nil` falls through to what follows
					body := d.Body.List
					if n := len(body); n > 0 && src(body[n-1]) == "return nil" {
						return t.hblock(append(append([]ast.Stmt{}, body[:n-1]...), stmts[1:]...), ind)
					}
				}
			}
		}
	case *ast.ExprStmt:
		c, ok := s.X.(*ast.CallExpr)
		if !ok {
			return fail()
		}
		sel, ok := c.Fun.(*ast.SelectorExpr)
		if !ok {
			return fail()
		}
		recvS := t.rsrc(sel.X)
		// Parse / ParseAndDecode followed by the Validate guard
		if sel.Sel.Name == "Parse" || sel.Sel.Name == "ParseAndDecode" {
			if len(stmts) < 2 {
				return fail()
			}
			vx, ok := t.validateGuard(stmts[1])
			if !ok || t.rsrc(vx) != recvS {
				return fail()
			}
			decS, lineS := "id", ""
			if sel.Sel.Name == "Parse" && len(c.Args) == 1 {
				b, ok := t.bytesExpr(c.Args[0])
				if !ok {
					return fail()
				}
				lineS = b
			} else if sel.Sel.Name == "ParseAndDecode" && len(c.Args) == 2 && t.rsrc(c.Args[0]) == "r.line" && t.rsrc(c.Args[1]) == "r.decodeLine" {
				decS, lineS = "dec", "line"
			} else {
				return fail()
			}
			if id, ok := sel.X.(*ast.Ident); ok && strings.HasPrefix(t.locals[id.Name], "rec:") {
				k := strings.TrimPrefix(t.locals[id.Name], "rec:")
				return "match parseValidate m Kind." + k + " " + decS + " " + lineS + " " + id.Name + " with\n" + ind + "| .error f => .error (s, s.err .field f)\n" + ind + "| .ok " + id.Name + " =>\n" + ind + rest(2)
			}
			// in place, through a getter of the current container
			if p, ok := readerPath[recvS]; ok && strings.HasPrefix(p[1], "orec:") {
				k := strings.TrimPrefix(p[1], "orec:")
				owner := map[string][3]string{"bundleControl": {"Bundle", "GetControl", "BundleControl"}, "cashLetterControl": {"CashLetter", "GetControl", "CashLetterControl"}}[k]
				if !t.trivialGetter(owner[0], owner[1], owner[2]) {
					return fail()
				}
				return "match " + p[0] + " with\n" + ind + "| none => .error (s, s.err .field \"<panic>\")\n" + ind + "| some c0 =>\n" + ind +
					"match parseValidate m Kind." + k + " " + decS + " " + lineS + " c0 with\n" + ind + "| .error f => .error (s, s.err .field f)\n" + ind + "| .ok c =>\n" + ind +
					"let s := ReaderRT.set_" + k + " s c\n" + ind + rest(2)
			}
			return fail()
		}
		if len(c.Args) != 1 {
			return fail()
		}
		// a finished container appended to its parent
		switch recvS + "." + sel.Sel.Name + "(" + t.rsrc(c.Args[0]) + ")" {
		case "r.currentCashLetter.AddBundle(r.currentCashLetter.currentBundle)":
			if f, ok := t.appendMethod("CashLetter", "AddBundle"); ok && f == "Bundles" {
				return "let s := { s with cur := { s.cur with bundles := s.cur.bundles ++ s.curBundle.toList } }\n" + ind + rest(1)
			}
		case "r.currentCashLetter.AddRoutingNumberSummary(r.currentCashLetter.currentRoutingNumberSummary)":
			if f, ok := t.appendMethod("CashLetter", "AddRoutingNumberSummary"); ok && f == "RoutingNumberSummary" {
				return "let s := { s with cur := { s.cur with rns := s.cur.rns ++ [s.curRNS] } }\n" + ind + rest(1)
			}
		case "r.File.AddCashLetter(r.currentCashLetter)":
			if f, ok := t.appendMethod("File", "AddCashLetter"); ok && f == "CashLetters" {
				return "let s := { s with cashLetters := s.cashLetters ++ [s.cur] }\n" + ind + rest(1)
			}
		}
		arg, _ := c.Args[0].(*ast.Ident)
		if arg == nil {
			return fail()
		}
		what := t.locals[arg.Name]
		switch {
		case recvS == "r" && sel.Sel.Name == "addCurrentCashLetter" && strings.HasPrefix(what, "cl:"):
			if f, ok := t.setterMethod("Reader", "addCurrentCashLetter"); ok && f == "currentCashLetter" {
				return "let s := ReaderRT.newCashLetter m s " + strings.TrimPrefix(what, "cl:") + "\n" + ind + rest(1)
			}
		case recvS == "r" && sel.Sel.Name == "addCurrentBundle" && strings.HasPrefix(what, "bundle:"):
			if f, ok := t.setterMethod("Reader", "addCurrentBundle"); ok && f == "currentCashLetter.currentBundle" {
				return "let s := ReaderRT.newBundle m s " + strings.TrimPrefix(what, "bundle:") + "\n" + ind + rest(1)
			}
		case recvS == "r" && sel.Sel.Name == "addCurrentRoutingNumberSummary" && what == "rec:rns":
			if f, ok := t.setterMethod("Reader", "addCurrentRoutingNumberSummary"); ok && f == "currentCashLetter.currentRoutingNumberSummary" {
				return "let s := { s with curRNS := some " + arg.Name + " }\n" + ind + rest(1)
			}
		case recvS == "r.currentCashLetter.currentBundle" && strings.HasPrefix(what, "rec:"):
			if f, ok := t.appendMethod("Bundle", sel.Sel.Name); ok {
				if acc, ok := walkAccess["bundle"][f]; ok {
					return "let s := ReaderRT.appendItem_" + acc.lean + " s " + arg.Name + "\n" + ind + rest(1)
				}
			}
		case recvS == "r.currentCashLetter" && strings.HasPrefix(what, "rec:"):
			if f, ok := t.appendMethod("CashLetter", sel.Sel.Name); ok {
				if acc, ok := walkAccess["cl"][f]; ok && !acc.opt {
					return "let s := { s with cur := { s.cur with " + acc.lean + " := s.cur." + acc.lean + " ++ [" + arg.Name + "] } }\n" + ind + rest(1)
				}
			}
		default:
			// `<bundle>.Checks[entryIndex].AddX(rec)`
			if ix, ok := sel.X.(*ast.IndexExpr); ok && strings.HasPrefix(what, "rec:") {
				idx, _ := ix.Index.(*ast.Ident)
				base := t.rsrc(ix.X)
				if idx != nil {
					for _, side := range [][4]string{{"r.currentCashLetter.currentBundle.Checks", "last:checks", "CheckDetail", "check"}, {"r.currentCashLetter.currentBundle.Returns", "last:returns", "ReturnDetail", "return"}} {
						if base == side[0] && t.locals[idx.Name] == side[1] {
							if f, ok := t.appendMethod(side[2], sel.Sel.Name); ok {
								if acc, ok := walkAccess[side[3]][f]; ok {
									upd := "updLastCheck"
									if side[3] == "return" {
										upd = "updLastReturn"
									}
									return "let s := s." + upd + " (fun it => { it with " + acc.lean + " := it." + acc.lean + " ++ [" + arg.Name + "] })\n" + ind + rest(1)
								}
							}
						}
					}
				}
			}
		}
	}
	return fail()
}

func hasCall(e ast.Expr) bool {
	found := false
	ast.Inspect(e, func(n ast.Node) bool {
		if _, ok := n.(*ast.CallExpr); ok {
			found = true
		}
		return true
	})
	return found
}

// errorIsPure: Reader.error only builds and returns a value
func (t *rdTr) errorIsPure() bool {
	d := t.p.methods["Reader"]["error"]
	if d == nil || d.Body == nil || len(d.Body.List) != 1 {
		return false
	}
	_, ok := d.Body.List[0].(*ast.ReturnStmt)
	return ok
}

// checkNewContainer: `func NewX(h *H) X { x := ...; x.SetControl(NewXControl()); x.SetHeader(h); return x }`
func (t *rdTr) checkNewContainer(fn, goType, newCtl string) bool {
	d := t.p.funcs[fn]
	if d == nil || d.Body == nil || len(d.Body.List) != 4 {
		return false
	}
	b := d.Body.List
	as, ok := b[0].(*ast.AssignStmt)
	if !ok || as.Tok != token.DEFINE || len(as.Lhs) != 1 {
		return false
	}
	v := src(as.Lhs[0])
	if r := src(as.Rhs[0]); r != "new("+goType+")" && r != goType+"{}" {
		return false
	}
	par := d.Type.Params.List[0].Names[0].Name
	if src(b[1]) != v+".SetControl("+newCtl+"())" || src(b[2]) != v+".SetHeader("+par+")" || src(b[3]) != "return "+v {
		return false
	}
	ctlField := map[string]string{"Bundle": "BundleControl", "CashLetter": "CashLetterControl"}[goType]
	hdrField := map[string]string{"Bundle": "BundleHeader", "CashLetter": "CashLetterHeader"}[goType]
	f1, ok1 := t.setterMethod(goType, "SetControl")
	f2, ok2 := t.setterMethod(goType, "SetHeader")
	return ok1 && ok2 && f1 == ctlField && f2 == hdrField
}

// constant string value (the record type codes)
func (t *rdTr) constBytes(name string) ([]byte, bool) {
	v, ok := t.p.consts[name]
	if !ok {
		return nil, false
	}
	u, err := strconv.Unquote(v)
	if err != nil {
		return nil, false
	}
	return []byte(u), true
}

// readBody: the statements of the scan loop of Reader.Read
func (t *rdTr) readBody(stmts []ast.Stmt, ind string) string {
	if len(stmts) == 0 {
		return ".ok s"
	}
	rest := func() string { return t.readBody(stmts[1:], ind) }
	st := stmts[0]
	switch t.rsrc(st) {
	case "r.line = r.scanner.Text()":
		return rest()
	case "r.lineNum++":
		return "let s := { s with lineNum := s.lineNum + 1 }\n" + ind + rest()
	case "lineLength := len(r.line)":
		return "let lineLength : Nat := line.length\n" + ind + rest()
	}
	if g, ok := st.(*ast.IfStmt); ok {
		// `if minLength := r.minRecordLength(); lineLength < minLength { ...; return r.File, r.error(err) }`
		if as, ok := g.Init.(*ast.AssignStmt); ok && as.Tok == token.DEFINE && len(as.Rhs) == 1 && t.rsrc(as.Rhs[0]) == "r.minRecordLength()" && src(g.Cond) == "lineLength < "+src(as.Lhs[0]) && g.Else == nil {
			if f, ok := t.returnsFileError(g.Body.List); ok {
				return "if lineLength < minRecordLength m e line then .error (s, s.err .file " + leanStr(f) + ") else\n" + ind + rest()
			}
		}
		// `if err := r.parseLine(); err != nil { return r.File, err }`
		if as, ok := g.Init.(*ast.AssignStmt); ok && len(as.Rhs) == 1 && t.rsrc(as.Rhs[0]) == "r.parseLine()" && src(g.Cond) == "err != nil" && len(g.Body.List) == 1 && t.rsrc(g.Body.List[0]) == "return r.File, err" {
			return "match step m e s line with\n" + ind + "| .error x => .error x\n" + ind + "| .ok s =>\n" + ind + rest()
		}
	}
	t.bad("reader: Read loop statement not recognised: %s", strings.SplitN(src(st), "\n", 2)[0])
	return ".error (s, s.err .plain \"?\")"
}

// returnsFileError: `[msg := ..;] err := &FileError{FieldName: F, ..}; return r.File, r.error(err)` or
// `[r.recordName = "X";] return r.File, r.error(&FileError{..})`; gives F (and leaves the record name to the caller)
func (t *rdTr) returnsFileError(stmts []ast.Stmt) (string, bool) {
	field := ""
	for i, st := range stmts {
		if as, ok := st.(*ast.AssignStmt); ok && as.Tok == token.DEFINE && len(as.Lhs) == 1 {
			if src(as.Lhs[0]) == "msg" {
				continue
			}
			if src(as.Lhs[0]) == "err" {
				ret := &ast.ReturnStmt{Results: []ast.Expr{&ast.CallExpr{Fun: ast.NewIdent(t.recv + ".error"), Args: []ast.Expr{as.Rhs[0]}}}}
				f, ok := t.fileErrorReturn(ret)
				if !ok {
					return "", false
				}
				field = f
				continue
			}
			return "", false
		}
		if r, ok := st.(*ast.ReturnStmt); ok && i == len(stmts)-1 && len(r.Results) == 2 && t.rsrc(r.Results[0]) == "r.File" {
			if t.rsrc(r.Results[1]) == "r.error(err)" {
				return field, true
			}
			f, ok := t.fileErrorReturn(&ast.ReturnStmt{Results: []ast.Expr{r.Results[1]}})
			return f, ok
		}
		return "", false
	}
	return "", false
}

// readFinish: the statements behind the scan loop; Lean term of type `Option RErr`
func (t *rdTr) readFinish(stmts []ast.Stmt, ind string) string {
	if len(stmts) == 0 {
		t.bad("reader: Read falls off its end")
		return "none"
	}
	rest := func() string { return t.readFinish(stmts[1:], ind) }
	st := stmts[0]
	if t.rsrc(st) == "return r.File, nil" {
		return "none"
	}
	if g, ok := st.(*ast.IfStmt); ok && g.Else == nil {
		cond := ""
		body := g.Body.List
		if as, ok := g.Init.(*ast.AssignStmt); ok && len(as.Rhs) == 1 && t.rsrc(as.Rhs[0]) == "r.scanner.Err()" && src(g.Cond) == src(as.Lhs[0])+" != nil" {
			cond = "scanErr"
		} else if g.Init == nil {
			switch t.rsrc(g.Cond) {
			case "NewFileHeader() == r.File.Header":
				cond = "s.headerUntouched" // no header line has been parsed into the fresh header
			case "(FileControl{}) == r.File.Control":
				cond = "(!ReaderRT.controlSet s)"
			default:
				if c, ok := t.cond(g.Cond); ok {
					cond = c
				}
			}
		}
		if cond != "" {
			name := ""
			if len(body) > 0 {
				if as, ok := body[0].(*ast.AssignStmt); ok && as.Tok == token.ASSIGN && len(as.Lhs) == 1 && t.rsrc(as.Lhs[0]) == "r.recordName" {
					if bl, ok := as.Rhs[0].(*ast.BasicLit); ok && bl.Kind == token.STRING {
						name = bl.Value
						body = body[1:]
					}
				}
			}
			if f, ok := t.returnsFileError(body); ok {
				st := "s"
				if name != "" {
					st = "({ s with recordName := " + name + " })"
				}
				return "if " + cond + " then some (" + st + ".err .file " + leanStr(f) + ") else\n" + ind + rest()
			}
		}
	}
	t.bad("reader: statement behind the scan loop not recognised: %s", strings.SplitN(src(st), "\n", 2)[0])
	return "none"
}

// ---- minRecordLength / minImageViewDataLength: integer-valued functions of the line ----

type mlTr struct {
	rdTr
	nats  map[string]bool   // locals holding lengths / offsets (Nat)
	ints  map[string]bool   // locals holding a parsed number (Int)
	strs  map[string]string // locals holding decoded bytes
	inFor bool              // inside the loop over the section widths: `return x` leaves the loop with `.inl x`
}

var sliceRe = regexp.MustCompile(`^([A-Za-z_.]+)\[([^:\]]*):([^\]]*)\]$`)

// bytes-valued expression: r.line, a decoded local, or a slice of one
func (t *mlTr) bexpr(e ast.Expr) (string, bool) {
	s := t.rsrc(e)
	if s == "r.line" {
		return "line", true
	}
	if id, ok := e.(*ast.Ident); ok {
		if v, ok := t.strs[id.Name]; ok {
			return v, true
		}
	}
	if sl, ok := e.(*ast.SliceExpr); ok && sl.Max == nil {
		base, ok := t.bexpr(sl.X)
		if !ok {
			return "", false
		}
		lo, hi := "0", ""
		if sl.Low != nil {
			v, ok := t.nexpr(sl.Low)
			if !ok {
				return "", false
			}
			lo = v
		}
		if sl.High != nil {
			v, ok := t.nexpr(sl.High)
			if !ok {
				return "", false
			}
			hi = v
		}
		if hi == "" {
			return "(" + base + ".drop " + lo + ")", true
		}
		if lo == "0" {
			return "(" + base + ".take " + hi + ")", true
		}
		return "((" + base + ".drop " + lo + ").take (" + hi + " - " + lo + "))", true
	}
	return "", false
}

// Nat-valued expression
func (t *mlTr) nexpr(e ast.Expr) (string, bool) {
	switch x := e.(type) {
	case *ast.ParenExpr:
		return t.nexpr(x.X)
	case *ast.BasicLit:
		if x.Kind == token.INT {
			return x.Value, true
		}
	case *ast.Ident:
		if t.nats[x.Name] {
			return leanIdent(x.Name), true
		}
		if t.ints[x.Name] {
			return leanIdent(x.Name) + ".toNat", true // only reached behind the guard `n < 0 -> return`
		}
	case *ast.CallExpr:
		if src(x.Fun) == "len" && len(x.Args) == 1 {
			if b, ok := t.bexpr(x.Args[0]); ok {
				return b + ".length", true
			}
		}
	case *ast.BinaryExpr:
		if x.Op == token.ADD {
			a, ok1 := t.nexpr(x.X)
			b, ok2 := t.nexpr(x.Y)
			if ok1 && ok2 {
				return "(" + a + " + " + b + ")", true
			}
		}
	}
	return "", false
}

func leanIdent(n string) string {
	if n == "end" {
		return "end_"
	}
	return n
}

func (t *mlTr) ret(v string) string {
	if t.inFor {
		return "Sum.inl " + v
	}
	return v
}

// mblock: Lean term of type Nat (or `Sum Nat Nat` inside the loop: inl = returned, inr = next offset)
func (t *mlTr) mblock(stmts []ast.Stmt, ind string) string {
	if len(stmts) == 0 {
		if t.inFor {
			return "Sum.inr end_"
		}
		t.bad("minlen: falls off its end")
		return "0"
	}
	rest := func(n int) string { return t.mblock(stmts[n:], ind) }
	fail := func() string {
		t.bad("minlen: statement not recognised: %s", strings.SplitN(src(stmts[0]), "\n", 2)[0])
		return "0"
	}
	switch s := stmts[0].(type) {
	case *ast.ReturnStmt:
		if len(s.Results) == 1 {
			if v, ok := t.nexpr(s.Results[0]); ok {
				return t.ret(v)
			}
			if t.rsrc(s.Results[0]) == "r.minImageViewDataLength()" {
				return t.ret("minImageViewDataLength m e line")
			}
		}
	case *ast.IfStmt:
		if s.Init == nil && s.Else == nil && len(s.Body.List) == 1 {
			if r, ok := s.Body.List[0].(*ast.ReturnStmt); ok && len(r.Results) == 1 {
				rv, okr := t.nexpr(r.Results[0])
				c := ""
				switch x := s.Cond.(type) {
				case *ast.BinaryExpr:
					if x.Op == token.LSS {
						if id, ok := x.X.(*ast.Ident); ok && t.ints[id.Name] && src(x.Y) == "0" {
							c = leanIdent(id.Name) + " < 0"
						} else {
							a, ok1 := t.nexpr(x.X)
							b, ok2 := t.nexpr(x.Y)
							if ok1 && ok2 {
								c = a + " < " + b
							}
						}
					}
					// `err != nil || len(head) < 22`: decodeLine is total, the first disjunct is dropped
					if x.Op == token.LOR && src(x.X) == "err != nil" {
						if y, ok := x.Y.(*ast.BinaryExpr); ok && y.Op == token.LSS {
							a, ok1 := t.nexpr(y.X)
							b, ok2 := t.nexpr(y.Y)
							if ok1 && ok2 {
								c = a + " < " + b
							}
						}
					}
					// `err != nil` alone: never
					if x.Op == token.NEQ && src(x) == "err != nil" {
						return rest(1)
					}
				}
				if c != "" && okr {
					return "if " + c + " then " + t.ret(rv) + " else\n" + ind + rest(1)
				}
			}
		}
	case *ast.AssignStmt:
		// `head, err := r.decodeLine(X)`
		if len(s.Lhs) == 2 && len(s.Rhs) == 1 && s.Tok == token.DEFINE && src(s.Lhs[1]) == "err" {
			if c, ok := s.Rhs[0].(*ast.CallExpr); ok && t.rsrc(c.Fun) == "r.decodeLine" && len(c.Args) == 1 {
				if b, ok := t.bexpr(c.Args[0]); ok {
					name := src(s.Lhs[0])
					t.strs[name] = name
					return "let " + name + " := dec " + b + "\n" + ind + rest(1)
				}
			}
		}
		// `n, _ := strconv.Atoi(strings.TrimSpace(X))`
		if len(s.Lhs) == 2 && len(s.Rhs) == 1 && s.Tok == token.DEFINE && src(s.Lhs[1]) == "_" {
			if c, ok := s.Rhs[0].(*ast.CallExpr); ok && src(c.Fun) == "strconv.Atoi" && len(c.Args) == 1 {
				if c2, ok := c.Args[0].(*ast.CallExpr); ok && src(c2.Fun) == "strings.TrimSpace" && len(c2.Args) == 1 {
					if b, ok := t.bexpr(c2.Args[0]); ok {
						name := src(s.Lhs[0])
						t.ints[name] = true
						return "let " + name + " : Int := parseNum " + b + "\n" + ind + rest(1)
					}
				}
			}
		}
		if len(s.Lhs) == 1 && len(s.Rhs) == 1 {
			name := src(s.Lhs[0])
			if s.Tok == token.DEFINE {
				if v, ok := t.nexpr(s.Rhs[0]); ok {
					t.nats[name] = true
					return "let " + leanIdent(name) + " : Nat := " + v + "\n" + ind + rest(1)
				}
			}
			// `end += width + n`
			if s.Tok == token.ADD_ASSIGN && t.nats[name] {
				if v, ok := t.nexpr(s.Rhs[0]); ok {
					return "let " + leanIdent(name) + " : Nat := " + leanIdent(name) + " + " + v + "\n" + ind + rest(1)
				}
			}
		}
	case *ast.SwitchStmt:
		// `switch r.line[:2] { case A, B: ; case C, D: return X; default: return Y }`: an empty case falls out of the switch
		if s.Init == nil && t.rsrc(s.Tag) == "r.line[:2]" && !t.inFor {
			out := ""
			dflt := ""
			okAll := true
			for _, cs := range s.Body.List {
				cc := cs.(*ast.CaseClause)
				if cc.List == nil {
					dflt = t.mblock(cc.Body, ind+"  ")
					continue
				}
				var lits []string
				for _, l := range cc.List {
					b, ok := t.constBytes(src(l))
					if !ok {
						okAll = false
					}
					lits = append(lits, leanBytes(string(b)))
				}
				body := ""
				if len(cc.Body) == 0 {
					body = t.mblock(stmts[1:], ind+"  ")
				} else {
					body = t.mblock(cc.Body, ind+"  ")
				}
				out += "if ([" + strings.Join(lits, ", ") + "].contains (line.take 2)) then (\n" + ind + "  " + body + ")\n" + ind + "else "
			}
			if okAll && dflt != "" {
				return out + "(\n" + ind + "  " + dflt + ")"
			}
		}
	case *ast.RangeStmt:
		// `for _, width := range []int{4, 5, 7} { ... }` threading the offset `end`
		if cl, ok := s.X.(*ast.CompositeLit); ok && src(cl.Type) == "[]int" && s.Key != nil && src(s.Key) == "_" && s.Value != nil && t.nats["end"] && !t.inFor {
			var ws []string
			for _, el := range cl.Elts {
				ws = append(ws, src(el))
			}
			w := src(s.Value)
			t.nats[w] = true
			t.inFor = true
			body := t.mblock(s.Body.List, ind+"    ")
			t.inFor = false
			delete(t.nats, w)
			return "match ReaderRT.forWidths [" + strings.Join(ws, ", ") + "] end_ (fun " + w + " end_ =>\n" + ind + "    " + body + ") with\n" + ind + "| Sum.inl r => r\n" + ind + "| Sum.inr end_ =>\n" + ind + rest(1)
		}
	}
	return fail()
}

func emitMinLen(sb *strings.Builder, p *pkgInfo, recv string) bool {
	ok := true
	for _, name := range []string{"minImageViewDataLength", "minRecordLength"} {
		t := &mlTr{rdTr: rdTr{p: p, ok: true, recv: recv, locals: map[string]string{}}, nats: map[string]bool{}, ints: map[string]bool{}, strs: map[string]string{}}
		d := p.methods["Reader"][name]
		body := "0"
		if d == nil || d.Body == nil || recvName(d) != recv {
			t.bad("minlen: Reader.%s not found", name)
		} else {
			body = t.mblock(d.Body.List, "  ")
		}
		fmt.Fprintf(sb, "/-- `Reader.%s` -/\ndef %s (m : Model) (e : Enc) (line : Bytes) : Nat :=\n  let dec : Bytes → Bytes := if e.ebcdic then m.cm.decode else id\n  %s\n\n", name, name, body)
		if !t.ok {
			ok = false
		}
		for _, w := range t.why {
			fmt.Fprintf(os.Stderr, "OPAQUE reader %s: %s\n", name, w)
		}
	}
	return ok
}

func emitReader(dir string, p *pkgInfo) {
	t := &rdTr{p: p, ok: true}
	var sb strings.Builder
	sb.WriteString("/- GENERATED by harness/extract from reader.go (Reader.parseLine and the record handlers) — do not edit. -/\nimport IclModel.ReaderRT\nnamespace Icl.Gen.R\nopen Icl\n\n")
	d := p.methods["Reader"]["parseLine"]
	type kase struct {
		labels  []string
		handler string
		tail    []ast.Stmt
	}
	var cases []kase
	defaultOK := false
	if d == nil || d.Body == nil || len(d.Body.List) != 2 {
		t.bad("reader: parseLine not found or not `switch; return nil`")
	} else {
		t.recv = recvName(d)
		sw, ok := d.Body.List[0].(*ast.SwitchStmt)
		if !ok || sw.Init != nil || t.rsrc(sw.Tag) != "r.line[:2]" || src(d.Body.List[1]) != "return nil" {
			t.bad("reader: parseLine is not a switch over r.line[:2]")
		} else {
			for _, cs := range sw.Body.List {
				cc := cs.(*ast.CaseClause)
				if cc.List == nil {
					// default: unknown record type
					if n := len(cc.Body); n > 0 {
						if f, ok := t.fileErrorReturn(cc.Body[n-1]); ok && f == "recordType" {
							defaultOK = true
						}
					}
					continue
				}
				var k kase
				for _, l := range cc.List {
					b, ok := t.constBytes(src(l))
					if !ok {
						t.bad("reader: case label %s is not a string constant", src(l))
						continue
					}
					k.labels = append(k.labels, leanBytes(string(b)))
				}
				// first statement: `if err := r.parseX(); err != nil { return err }`
				body := cc.Body
				// statements in front of the handler call (the cash letter control case) are kept with the tail
				hi := -1
				for i, st := range body {
					if g, ok := st.(*ast.IfStmt); ok {
						if c := errGuard(g); c != nil && len(c.Args) == 0 {
							if sel, ok := c.Fun.(*ast.SelectorExpr); ok && src(sel.X) == t.recv && strings.HasPrefix(sel.Sel.Name, "parse") {
								k.handler = sel.Sel.Name
								hi = i
								break
							}
						}
					}
				}
				if hi < 0 {
					t.bad("reader: case %v does not call a handler", k.labels)
					continue
				}
				k.tail = body
				cases = append(cases, k)
			}
		}
	}
	if !defaultOK {
		t.bad("reader: the default case of parseLine does not return the unknown-record-type error")
	}
	// dispatch table
	sb.WriteString("/-- `switch r.line[:2]` of parseLine: the labels of each case and the handler it calls -/\ndef dispatch : List (List Bytes × String) := [\n")
	for i, k := range cases {
		sep := ","
		if i == len(cases)-1 {
			sep = ""
		}
		fmt.Fprintf(&sb, "  ([%s], %s)%s\n", strings.Join(k.labels, ", "), leanStr(k.handler), sep)
	}
	sb.WriteString("]\n\n")
	// one function per case: the case body with the handler inlined
	for _, k := range cases {
		ht := &rdTr{p: p, ok: true, recv: t.recv, locals: map[string]string{}}
		hd := p.methods["Reader"][k.handler]
		body := ".error (s, s.err .plain \"?\")"
		if hd == nil || hd.Body == nil || recvName(hd) != t.recv {
			ht.bad("reader: handler %s not found", k.handler)
		} else {
			body = ht.hblock(append(append([]ast.Stmt{}, k.tail...), &ast.ReturnStmt{Results: []ast.Expr{ast.NewIdent("nil")}}), "  ")
		}
		fmt.Fprintf(&sb, "/-- the case of parseLine that calls `%s`, with the handler inlined -/\ndef %s (m : Model) (e : Enc) (s : RState) (line : Bytes) : Except (RState × RErr) RState :=\n  let dec : Bytes → Bytes := if e.ebcdic then m.cm.decode else id\n  %s\n\n", k.handler, k.handler, body)
		fmt.Fprintf(&sb, "def %s_recognised : Bool := %s\n\n", k.handler, leanBool(ht.ok))
		for _, w := range ht.why {
			fmt.Fprintf(os.Stderr, "OPAQUE reader %s: %s\n", k.handler, w)
		}
	}
	// the switch: the first case one of whose labels equals the first two bytes of the line
	sb.WriteString("/-- the handler a case of the switch calls, by name -/\ndef handlerOf (name : String) (m : Model) (e : Enc) (s : RState) (line : Bytes) : Except (RState × RErr) RState :=\n")
	allOK := t.ok
	for _, k := range cases {
		fmt.Fprintf(&sb, "  if name = %s then %s m e s line else\n", leanStr(k.handler), k.handler)
	}
	sb.WriteString("  .error (s, s.err .plain \"?\")\n\n")
	sb.WriteString("/-- `Reader.parseLine` -/\ndef step (m : Model) (e : Enc) (s : RState) (line : Bytes) : Except (RState × RErr) RState :=\n  match dispatch.find? (fun c => c.1.any (fun t => line.take 2 == t)) with\n  | some c => handlerOf c.2 m e s line\n  | none => .error (s, s.err .file \"recordType\")\n\n")
	minOK := emitMinLen(&sb, p, t.recv)
	// Reader.Read: the body of the scan loop and the checks behind it
	readOK := true
	{
		rt := &rdTr{p: p, ok: true, recv: t.recv, locals: map[string]string{}}
		rd := p.methods["Reader"]["Read"]
		body, fin := ".error (s, s.err .plain \"?\")", "none"
		if rd == nil || rd.Body == nil || recvName(rd) != t.recv || len(rd.Body.List) < 4 {
			rt.bad("reader: Read not found")
		} else {
			b := rd.Body.List
			loop, isLoop := b[1].(*ast.ForStmt)
			if rt.rsrc(b[0]) != "r.lineNum = 0" || !isLoop || loop.Init != nil || loop.Post != nil || rt.rsrc(loop.Cond) != "r.scanner.Scan()" {
				rt.bad("reader: Read does not start with `r.lineNum = 0; for r.scanner.Scan()`")
			} else {
				body = rt.readBody(loop.Body.List, "  ")
				fin = rt.readFinish(b[2:], "  ")
			}
		}
		fmt.Fprintf(&sb, "/-- the body of the scan loop of `Reader.Read` for one scanned line -/\ndef readBody (m : Model) (e : Enc) (s : RState) (line : Bytes) : Except (RState × RErr) RState :=\n  %s\n\n", body)
		fmt.Fprintf(&sb, "/-- what `Reader.Read` checks after the last line (`scanErr`: the scanner stopped with an error) -/\ndef readFinish (s : RState) (scanErr : Bool) : Option RErr :=\n  %s\n\n", fin)
		readOK = rt.ok
		for _, w := range rt.why {
			fmt.Fprintf(os.Stderr, "OPAQUE reader Read: %s\n", w)
		}
	}
	sb.WriteString("/-- the switch, every handler and Read had a recognised shape -/\ndef recognised : Bool := " + leanBool(allOK && readOK && minOK))
	for _, k := range cases {
		sb.WriteString(" && " + k.handler + "_recognised")
	}
	sb.WriteString("\n\nend Icl.Gen.R\n")
	must(os.WriteFile(filepath.Join(dir, "ReaderT.lean"), []byte(sb.String()), 0o644))
	for _, w := range t.why {
		fmt.Fprintf(os.Stderr, "OPAQUE reader: %s\n", w)
	}
}
