package main

import (
	"fmt"
	"regexp"
	"go/ast"
	"go/parser"
	"go/token"
	"os"
	"path/filepath"
	"sort"
	"strings"
)

// The state census (Gen/State.lean): every package-level variable of the library and of the server packages, and
// the members of every stateful type (reader, writer, repository, controller, responder, the file containers).
// The models keep exactly this state - the reader's cursor, the repository map, nothing between requests or
// between calls; a new variable, pool, cache or member is state the models do not have, so the census is compared
// (by `decide`) with the transcribed expectation Spec/State.lean.

var stateDirs = []string{".", "client", "internal/files", "internal/files/v2", "internal/storage", "internal/responder", "internal/metrics", "cmd/server"}

// which struct types of the library package are part of the census (the record types are covered by the layouts)
var stateRootTypes = map[string]bool{"Reader": true, "Writer": true, "File": true, "CashLetter": true, "Bundle": true, "converters": true, "validator": true, "ParseError": true}

func initKind(e ast.Expr) string {
	switch x := e.(type) {
	case *ast.BasicLit:
		return strings.ToLower(x.Kind.String())
	case *ast.CallExpr:
		if _, ok := x.Fun.(*ast.FuncLit); ok {
			return "func(){..}()"
		}
		return src(x.Fun) + "(..)"
	case *ast.CompositeLit:
		if x.Type != nil {
			return src(x.Type) + "{..}"
		}
		return "{..}"
	case *ast.FuncLit:
		return "func"
	case *ast.UnaryExpr:
		return x.Op.String() + initKind(x.X)
	case *ast.Ident:
		return x.Name
	case *ast.SelectorExpr:
		return src(x)
	}
	return "expr"
}

// skeleton: the control skeleton of a function of the server packages - every call (logging and formatting aside) in
// source order, every condition, every return - as a flat list of tokens
func skeleton(body *ast.BlockStmt) []string {
	var out []string
	quiet := func(fn string) bool {
		for _, p := range []string{"logger.", "log.", "fmt.", "errors.", "strings.", "strconv."} {
			if strings.HasPrefix(fn, p) {
				return true
			}
		}
		return false
	}
	var expr func(e ast.Node)
	expr = func(e ast.Node) {
		ast.Inspect(e, func(n ast.Node) bool {
			switch x := n.(type) {
			case *ast.FuncLit:
				out = append(out, "func{")
				stmts(x.Body.List, &out, expr)
				out = append(out, "}")
				return false
			case *ast.CallExpr:
				// arguments first (they are evaluated first), then the call
				for _, a := range x.Args {
					expr(a)
				}
				if sel, ok := x.Fun.(*ast.SelectorExpr); ok {
					expr(sel.X)
				}
				if fn := src(x.Fun); !quiet(fn) {
					tok := "call " + fn
					// allocation and slice surgery: sizes, capacities and operands are part of the skeleton (a capacity that can
					// go negative, an append into a shared backing array)
					if fn == "make" || fn == "append" || fn == "copy" || fn == "delete" {
						var as []string
						for _, a := range x.Args {
							as = append(as, src(a))
						}
						tok += "(" + strings.Join(as, ", ") + ")"
					}
					// what is answered is part of the skeleton: status codes and header values
					if strings.HasSuffix(fn, ".WriteHeader") || strings.HasSuffix(fn, ".Header().Set") || fn == "http.Error" {
						var as []string
						for _, a := range x.Args {
							if _, isCall := a.(*ast.CallExpr); isCall {
								as = append(as, "<call>")
							} else {
								as = append(as, src(a))
							}
						}
						tok += "(" + strings.Join(as, ", ") + ")"
					}
					out = append(out, tok)
				}
				return false
			}
			return true
		})
	}
	stmts(body.List, &out, expr)
	return out
}

func stmts(list []ast.Stmt, out *[]string, expr func(ast.Node)) {
	for _, st := range list {
		switch s := st.(type) {
		case *ast.IfStmt:
			if s.Init != nil {
				stmts([]ast.Stmt{s.Init}, out, expr)
			}
			expr(s.Cond)
			*out = append(*out, "if "+src(s.Cond)+" {")
			stmts(s.Body.List, out, expr)
			if s.Else != nil {
				*out = append(*out, "} else {")
				switch el := s.Else.(type) {
				case *ast.BlockStmt:
					stmts(el.List, out, expr)
				default:
					stmts([]ast.Stmt{el}, out, expr)
				}
			}
			*out = append(*out, "}")
		case *ast.ForStmt:
			*out = append(*out, "for {")
			stmts(s.Body.List, out, expr)
			*out = append(*out, "}")
		case *ast.RangeStmt:
			expr(s.X)
			*out = append(*out, "range "+src(s.X)+" {")
			stmts(s.Body.List, out, expr)
			*out = append(*out, "}")
		case *ast.SwitchStmt:
			tag := ""
			if s.Tag != nil {
				expr(s.Tag)
				tag = src(s.Tag)
			}
			*out = append(*out, "switch "+tag+" {")
			for _, cs := range s.Body.List {
				cc := cs.(*ast.CaseClause)
				var ls []string
				for _, l := range cc.List {
					ls = append(ls, src(l))
				}
				*out = append(*out, "case "+strings.Join(ls, ", ")+":")
				stmts(cc.Body, out, expr)
			}
			*out = append(*out, "}")
		case *ast.ReturnStmt:
			for _, r := range s.Results {
				expr(r)
			}
			var rs []string
			for _, r := range s.Results {
				if _, isCall := r.(*ast.CallExpr); isCall {
					rs = append(rs, "<call>")
				} else if _, isFn := r.(*ast.FuncLit); isFn {
					rs = append(rs, "<func>")
				} else {
					rs = append(rs, src(r))
				}
			}
			*out = append(*out, "return "+strings.Join(rs, ", "))
		case *ast.DeferStmt:
			*out = append(*out, "defer "+src(s.Call.Fun))
		case *ast.GoStmt:
			*out = append(*out, "go "+src(s.Call.Fun))
		case *ast.BlockStmt:
			stmts(s.List, out, expr)
		case *ast.AssignStmt:
			expr(st)
			// writes through a member, an element or a pointer change state that outlives the statement: part of the skeleton
			for _, l := range s.Lhs {
				switch l.(type) {
				case *ast.SelectorExpr, *ast.IndexExpr, *ast.StarExpr:
					*out = append(*out, "set "+src(l))
				}
			}
		case *ast.IncDecStmt:
			expr(st)
			switch s.X.(type) {
			case *ast.SelectorExpr, *ast.IndexExpr, *ast.StarExpr:
				*out = append(*out, "set "+src(s.X))
			}
		default:
			expr(st)
		}
	}
}

var rootSkeletonRe = regexp.MustCompile(`^(FileFromJSON|NewReader|NewWriter|NewFile|NewCashLetter|NewBundle|.*Option|UnmarshalJSON|MarshalJSON|setRecordType|setRecordTypes|DecodeImageData|IsFRBCompatibilityModeEnabled|handleIBM1047Compatibility|DecodeEBCDIC|Passthrough|Flush|Add[A-Z].*|Get[A-Z].*|Set[A-Z].*|parseNumField|parseStringField|stringToBytesField|formatYYYYMMDDDate|parseYYYYMMDDDate|formatSimpleTime|parseSimpleTime|alphaField|numericField|nbsmField|stringField|validSizeInt|validSizeUint|isUpperAlphanumeric|isAlphanumeric|isAlphanumericSpecial|isNumeric)$`)

var skeletonDirs = []string{"client", "cmd/server", "internal/files", "internal/files/v2", "internal/storage", "internal/responder"}

func emitState(dir, repo string) {
	type ent struct{ key, val string }
	var globals, fields, envReads []ent
	type skel struct {
		key string
		toks []string
	}
	var skels []skel
	for _, d := range stateDirs {
		ents, err := os.ReadDir(filepath.Join(repo, d))
		if err != nil {
			continue
		}
		for _, de := range ents {
			n := de.Name()
			if de.IsDir() || !strings.HasSuffix(n, ".go") || strings.HasSuffix(n, "_test.go") {
				continue
			}
			path := filepath.Join(repo, d, n)
			b, err := os.ReadFile(path)
			if err != nil {
				continue
			}
			// files of the verification hooks are not part of the product
			if strings.Contains(string(b[:min(len(b), 400)]), "go:build verif") {
				continue
			}
			f, err := parser.ParseFile(fset, path, b, 0)
			if err != nil {
				continue
			}
			for _, sd := range skeletonDirs {
				if sd != d {
					continue
				}
				for _, decl := range f.Decls {
					if fd, ok := decl.(*ast.FuncDecl); ok && fd.Body != nil {
						name := fd.Name.Name
						if fd.Recv != nil {
							name = recvType(fd) + "." + name
						}
						skels = append(skels, skel{d + ":" + name, skeleton(fd.Body)})
					}
				}
			}
			// the functions of the library that are neither translated nor covered by a regenerated table: constructors,
			// options, the JSON loader and the (un)marshallers, record-type stamping, the image decoder, the line decoders
			if d == "." {
				for _, decl := range f.Decls {
					if fd, ok := decl.(*ast.FuncDecl); ok && fd.Body != nil && rootSkeletonRe.MatchString(fd.Name.Name) {
						name := fd.Name.Name
						if fd.Recv != nil {
							name = recvType(fd) + "." + name
						}
						skels = append(skels, skel{d + ":" + name, skeleton(fd.Body)})
					}
				}
			}
			// where the process environment / the FRB compatibility mode is consulted: (function, call), with multiplicity
			for _, decl := range f.Decls {
				var body ast.Node
				name := ""
				switch x := decl.(type) {
				case *ast.FuncDecl:
					if x.Body == nil {
						continue
					}
					body, name = x.Body, x.Name.Name
					if x.Recv != nil {
						name = recvType(x) + "." + name
					}
				case *ast.GenDecl:
					if x.Tok != token.VAR {
						continue
					}
					body, name = x, "(package variable initialiser)"
				default:
					continue
				}
				ast.Inspect(body, func(nd ast.Node) bool {
					if c, ok := nd.(*ast.CallExpr); ok {
						switch fn := src(c.Fun); fn {
						case "os.Getenv", "os.LookupEnv", "os.Environ", "IsFRBCompatibilityModeEnabled", "imagecashletter.IsFRBCompatibilityModeEnabled":
							arg := ""
							if len(c.Args) == 1 {
								arg = src(c.Args[0])
							}
							envReads = append(envReads, ent{d + ":" + name, fn + "(" + arg + ")"})
						}
					}
					return true
				})
			}
			for _, decl := range f.Decls {
				gd, ok := decl.(*ast.GenDecl)
				if !ok {
					continue
				}
				switch gd.Tok {
				case token.VAR:
					for _, sp := range gd.Specs {
						vs := sp.(*ast.ValueSpec)
						for i, nm := range vs.Names {
							kind := ""
							if vs.Type != nil {
								kind = src(vs.Type)
							} else if i < len(vs.Values) {
								kind = initKind(vs.Values[i])
							}
							globals = append(globals, ent{d + ":" + nm.Name, kind})
						}
					}
				case token.CONST:
					// named constants of the library and of the server (bounds, limits, mode names): (name, value as written)
					if d == "client" {
						break
					}
					for _, sp := range gd.Specs {
						vs := sp.(*ast.ValueSpec)
						for i, nm := range vs.Names {
							val := "(iota / repeated)"
							if i < len(vs.Values) {
								val = src(vs.Values[i])
							}
							globals = append(globals, ent{d + ":const " + nm.Name, val})
						}
					}
				case token.TYPE:
					for _, sp := range gd.Specs {
						ts := sp.(*ast.TypeSpec)
						st, ok := ts.Type.(*ast.StructType)
						if !ok || (d == "." && !stateRootTypes[ts.Name.Name]) {
							continue
						}
						var fs []string
						for _, fl := range st.Fields.List {
							ty := src(fl.Type)
							if len(fl.Names) == 0 {
								fs = append(fs, "(embedded) "+ty)
							}
							for _, nm := range fl.Names {
								fs = append(fs, nm.Name+" "+ty)
							}
						}
						fields = append(fields, ent{d + ":" + ts.Name.Name, strings.Join(fs, "; ")})
					}
				}
			}
		}
	}
	sort.Slice(globals, func(i, j int) bool { return globals[i].key < globals[j].key })
	sort.Slice(fields, func(i, j int) bool { return fields[i].key < fields[j].key })
	sort.SliceStable(envReads, func(i, j int) bool { return envReads[i].key < envReads[j].key })
	var sb strings.Builder
	sb.WriteString("/- GENERATED by harness/extract from /repo — do not edit. -/\nnamespace Icl.Gen.State\n\n")
	sb.WriteString("/-- every package-level variable: (package directory:name, declared type or kind of initialiser) -/\ndef globals : List (String × String) := [\n")
	for i, e := range globals {
		sep := ","
		if i == len(globals)-1 {
			sep = ""
		}
		fmt.Fprintf(&sb, "  (%s, %s)%s\n", leanStr(e.key), leanStr(e.val), sep)
	}
	sb.WriteString("]\n\n/-- the members of the stateful types: (package directory:type, members) -/\ndef fields : List (String × String) := [\n")
	for i, e := range fields {
		sep := ","
		if i == len(fields)-1 {
			sep = ""
		}
		fmt.Fprintf(&sb, "  (%s, %s)%s\n", leanStr(e.key), leanStr(e.val), sep)
	}
	sb.WriteString("]\n\n/-- the control skeleton of every function of the server packages: its calls (logging and formatting aside) in source\norder, its conditions, its returns -/\ndef skeletons : List (String × List String) := [\n")
	sort.Slice(skels, func(i, j int) bool { return skels[i].key < skels[j].key })
	for i, e := range skels {
		sep := ","
		if i == len(skels)-1 {
			sep = ""
		}
		var qs []string
		for _, tk := range e.toks {
			qs = append(qs, leanStr(tk))
		}
		fmt.Fprintf(&sb, "  (%s, [%s])%s\n", leanStr(e.key), strings.Join(qs, ", "), sep)
	}
	sb.WriteString("]\n\n/-- where the process environment or the FRB compatibility mode is consulted: (package directory:function, call) -/\ndef envReads : List (String × String) := [\n")
	for i, e := range envReads {
		sep := ","
		if i == len(envReads)-1 {
			sep = ""
		}
		fmt.Fprintf(&sb, "  (%s, %s)%s\n", leanStr(e.key), leanStr(e.val), sep)
	}
	sb.WriteString("]\n\nend Icl.Gen.State\n")
	must(os.WriteFile(filepath.Join(dir, "State.lean"), []byte(sb.String()), 0o644))
}
