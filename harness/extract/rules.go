package main

import (
	"go/ast"
	"go/token"
	"regexp"
	"sort"
	"strconv"
	"strings"
)

// ---------- F4: Validate()/fieldInclusion() as a small statement tree ----------

// E is a boolean expression or a term.
type E struct {
	Op   string `json:"op"`             // terms: fieldS fieldI getter str int trim ; booleans: eq ne lt le gt ge and or not iszero frb invalid opaque
	Name string `json:"name,omitempty"` // field / getter / validator name
	Str  string `json:"str,omitempty"`
	Int  int    `json:"int,omitempty"`
	A    *E     `json:"a,omitempty"`
	B    *E     `json:"b,omitempty"`
	Src  string `json:"src,omitempty"`
}

// S is a statement.
type S struct {
	K     string `json:"k"` // skip seq ite reject assign accept include opaque
	Cond  *E     `json:"cond,omitempty"`
	A     *S     `json:"a,omitempty"`
	B     *S     `json:"b,omitempty"`
	Field string `json:"field,omitempty"`
	Val   *E     `json:"val,omitempty"`
	Src   string `json:"src,omitempty"`
}

type Rule = S

func fieldType(p *pkgInfo, typ, field string) string {
	for _, f := range structFields(p, typ) {
		if f.Name == field {
			return f.Type
		}
	}
	return ""
}

type ruleCtx struct {
	p     *pkgInfo
	typ   string
	recv  string
	bools map[string]*E // local boolean variables bound by `_, v := Dict[recv.F]`
	depth int
}

func (c *ruleCtx) term(e ast.Expr) *E {
	switch x := e.(type) {
	case *ast.BasicLit:
		if x.Kind == token.STRING {
			return &E{Op: "str", Str: unquote(x.Value)}
		}
		if x.Kind == token.INT {
			n, _ := strconv.Atoi(x.Value)
			return &E{Op: "int", Int: n}
		}
	case *ast.SelectorExpr:
		if f, ok := selOn(x, c.recv); ok {
			switch fieldType(c.p, c.typ, f) {
			case "string":
				return &E{Op: "fieldS", Name: f}
			case "int":
				return &E{Op: "fieldI", Name: f}
			}
		}
	case *ast.CallExpr:
		if m, args, ok := callOn(x, c.recv); ok && len(args) == 0 && strings.HasSuffix(m, "Field") {
			return &E{Op: "getter", Name: m}
		}
		if src(x.Fun) == "strings.TrimSpace" && len(x.Args) == 1 {
			if a := c.term(x.Args[0]); a.Op != "opaque" {
				return &E{Op: "trim", A: a}
			}
		}
	case *ast.UnaryExpr:
		if x.Op == token.SUB {
			if bl, ok := x.X.(*ast.BasicLit); ok && bl.Kind == token.INT {
				n, _ := strconv.Atoi(bl.Value)
				return &E{Op: "int", Int: -n}
			}
		}
	case *ast.ParenExpr:
		return c.term(x.X)
	}
	return &E{Op: "opaque", Src: src(e)}
}

var cmpOps = map[token.Token]string{token.EQL: "eq", token.NEQ: "ne", token.LSS: "lt", token.LEQ: "le", token.GTR: "gt", token.GEQ: "ge"}

func (c *ruleCtx) cond(e ast.Expr) *E {
	switch x := e.(type) {
	case *ast.Ident:
		if b, ok := c.bools[x.Name]; ok {
			return b
		}
	case *ast.ParenExpr:
		return c.cond(x.X)
	case *ast.UnaryExpr:
		if x.Op == token.NOT {
			return &E{Op: "not", A: c.cond(x.X)}
		}
	case *ast.BinaryExpr:
		if x.Op == token.LAND || x.Op == token.LOR {
			op := "and"
			if x.Op == token.LOR {
				op = "or"
			}
			return &E{Op: op, A: c.cond(x.X), B: c.cond(x.Y)}
		}
		if x.Op == token.EQL && src(x.X) == c.recv && src(x.Y) == "nil" {
			return &E{Op: "false"}
		}
		if op, ok := cmpOps[x.Op]; ok {
			a, b := c.term(x.X), c.term(x.Y)
			if a.Op != "opaque" && b.Op != "opaque" {
				return &E{Op: op, A: a, B: b}
			}
		}
	case *ast.CallExpr:
		if src(x) == "IsFRBCompatibilityModeEnabled()" {
			return &E{Op: "frb"}
		}
		if src(x.Fun) == "strings.Contains" && len(x.Args) == 2 {
			if bl, ok := x.Args[1].(*ast.BasicLit); ok && bl.Kind == token.STRING {
				if a := c.term(x.Args[0]); a.Op != "opaque" {
					return &E{Op: "contains", A: a, Str: unquote(bl.Value)}
				}
			}
		}
		// recv.F.IsZero()
		if s, ok := x.Fun.(*ast.SelectorExpr); ok && s.Sel.Name == "IsZero" && len(x.Args) == 0 {
			if f, ok := selOn(s.X, c.recv); ok && fieldType(c.p, c.typ, f) == "time.Time" {
				return &E{Op: "iszero", Name: f}
			}
		}
	}
	return &E{Op: "opaque", Src: src(e)}
}

// fieldErrorName recognises `return &FieldError{FieldName: "X", ...}`
func fieldErrorName(s ast.Stmt) (string, bool) {
	r, ok := s.(*ast.ReturnStmt)
	if !ok || len(r.Results) != 1 {
		return "", false
	}
	u, ok := r.Results[0].(*ast.UnaryExpr)
	if !ok || u.Op != token.AND {
		return "", false
	}
	cl, ok := u.X.(*ast.CompositeLit)
	if !ok || src(cl.Type) != "FieldError" {
		return "", false
	}
	for _, el := range cl.Elts {
		if kv, ok := el.(*ast.KeyValueExpr); ok && src(kv.Key) == "FieldName" {
			if bl, ok := kv.Value.(*ast.BasicLit); ok {
				return unquote(bl.Value), true
			}
		}
	}
	return "", false
}

func seq(a, b *S) *S {
	if a.K == "skip" {
		return b
	}
	if b.K == "skip" {
		return a
	}
	return &S{K: "seq", A: a, B: b}
}

// block translates a statement list; `tail` says the list is the tail of a method body, where a
// final `return nil` simply ends the method (any other `return nil` is an unrecognised shape).
func (c *ruleCtx) block(stmts []ast.Stmt, tail bool) *S {
	out := &S{K: "skip"}
	for i, s := range stmts {
		if tail && i == len(stmts)-1 {
			if r, ok := s.(*ast.ReturnStmt); ok && src(r) == "return nil" {
				continue
			}
		}
		out = seq(out, c.stmt(s))
	}
	return out
}

func (c *ruleCtx) stmt(s ast.Stmt) *S {
	switch x := s.(type) {
	case *ast.ReturnStmt:
		if f, ok := fieldErrorName(x); ok {
			return &S{K: "reject", Field: f}
		}
	case *ast.SwitchStmt:
		// switch recv.IntField { case 1, 2: ...; default: ... }
		if x.Init == nil && x.Tag != nil {
			tag := c.term(x.Tag)
			if tag.Op == "fieldI" || tag.Op == "fieldS" {
				var build func(i int) *S
				var def *S = &S{K: "skip"}
				var clauses []*ast.CaseClause
				for _, cl := range x.Body.List {
					cc := cl.(*ast.CaseClause)
					if cc.List == nil {
						def = c.block(cc.Body, false)
					} else {
						clauses = append(clauses, cc)
					}
				}
				okAll := true
				build = func(i int) *S {
					if i == len(clauses) {
						return def
					}
					var cond *E
					for _, v := range clauses[i].List {
						t := c.term(v)
						if t.Op == "opaque" {
							okAll = false
						}
						eq := &E{Op: "eq", A: tag, B: t}
						if cond == nil {
							cond = eq
						} else {
							cond = &E{Op: "or", A: cond, B: eq}
						}
					}
					return &S{K: "ite", Cond: cond, A: c.block(clauses[i].Body, false), B: build(i + 1)}
				}
				r := build(0)
				if okAll {
					return r
				}
			}
		}
	case *ast.AssignStmt:
		if len(x.Lhs) == 1 && len(x.Rhs) == 1 && x.Tok == token.DEFINE && src(x.Lhs[0]) == "msg" {
			return &S{K: "skip"} // error-message text only
		}
		// _, v := Dict[recv.F]
		if len(x.Lhs) == 2 && len(x.Rhs) == 1 && x.Tok == token.DEFINE && src(x.Lhs[0]) == "_" {
			if ix, ok := x.Rhs[0].(*ast.IndexExpr); ok {
				if d, ok := ix.X.(*ast.Ident); ok {
					if a := c.term(ix.Index); a.Op != "opaque" {
						if c.bools == nil {
							c.bools = map[string]*E{}
						}
						c.bools[src(x.Lhs[1])] = &E{Op: "dictHas", Name: d.Name, A: a}
						return &S{K: "skip"}
					}
				}
			}
		}
		if len(x.Lhs) == 1 && len(x.Rhs) == 1 && x.Tok == token.ASSIGN {
			if f, ok := selOn(x.Lhs[0], c.recv); ok {
				if v := c.term(x.Rhs[0]); v.Op == "str" && fieldType(c.p, c.typ, f) == "string" {
					return &S{K: "assign", Field: f, Val: v}
				}
			}
		}
	case *ast.IfStmt:
		// if err := recv.M(...); err != nil { ... }
		if x.Init != nil {
			as, ok := x.Init.(*ast.AssignStmt)
			if ok && len(as.Lhs) == 1 && src(as.Lhs[0]) == "err" && len(as.Rhs) == 1 && src(x.Cond) == "err != nil" && x.Else == nil {
				if m, args, ok := callOn(as.Rhs[0], c.recv); ok {
					if len(args) == 0 && len(x.Body.List) == 1 && src(x.Body.List[0]) == "return err" && c.p.methods[c.typ][m] != nil && c.depth < 3 {
						d := c.p.methods[c.typ][m]
						sub := &ruleCtx{p: c.p, typ: c.typ, recv: recvName(d), depth: c.depth + 1}
						return sub.block(d.Body.List, true)
					}
					if strings.HasPrefix(m, "is") && len(args) == 1 && len(x.Body.List) == 1 {
						if f, ok := fieldErrorName(x.Body.List[0]); ok {
							if a := c.term(args[0]); a.Op != "opaque" {
								return &S{K: "ite", Cond: &E{Op: "invalid", Name: m, A: a}, A: &S{K: "reject", Field: f}, B: &S{K: "skip"}}
							}
						}
					}
				}
			}
			// if date := recv.F; !date.IsZero() { if date.Year() < A || date.Year() > B { reject } }
			if ok && as.Tok == token.DEFINE && len(as.Lhs) == 1 && len(as.Rhs) == 1 && x.Else == nil && len(x.Body.List) == 1 {
				v := src(as.Lhs[0])
				if f, ok := selOn(as.Rhs[0], c.recv); ok && fieldType(c.p, c.typ, f) == "time.Time" && src(x.Cond) == "!"+v+".IsZero()" {
					if in, ok := x.Body.List[0].(*ast.IfStmt); ok && in.Init == nil && in.Else == nil && len(in.Body.List) == 1 {
						if be, ok := in.Cond.(*ast.BinaryExpr); ok && be.Op == token.LOR {
							l, ok1 := be.X.(*ast.BinaryExpr)
							r, ok2 := be.Y.(*ast.BinaryExpr)
							if ok1 && ok2 && l.Op == token.LSS && r.Op == token.GTR && src(l.X) == v+".Year()" && src(r.X) == v+".Year()" {
								lo, okl := intLit(l.Y)
								hi, okh := intLit(r.Y)
								if fn, okf := fieldErrorName(in.Body.List[0]); okl && okh && okf {
									return &S{K: "ite", Cond: &E{Op: "and", A: &E{Op: "not", A: &E{Op: "iszero", Name: f}},
										B: &E{Op: "yearOutside", Name: f, Int: lo, A: &E{Op: "int", Int: hi}}},
										A: &S{K: "reject", Field: fn}, B: &S{K: "skip"}}
								}
							}
						}
					}
				}
			}
			return &S{K: "opaque", Src: src(s)}
		}
		if src(x.Cond) == c.recv+" == nil" && x.Else == nil && len(x.Body.List) == 1 && src(x.Body.List[0]) == "return nil" {
			return &S{K: "skip"} // nil-receiver guard: records of the model are never nil
		}
		cond := c.cond(x.Cond)
		th := c.block(x.Body.List, false)
		el := &S{K: "skip"}
		if x.Else != nil {
			switch e := x.Else.(type) {
			case *ast.BlockStmt:
				el = c.block(e.List, false)
			case *ast.IfStmt:
				el = c.stmt(e)
			}
		}
		return &S{K: "ite", Cond: cond, A: th, B: el}
	}
	return &S{K: "opaque", Src: src(s)}
}

func rulesOfMethod(p *pkgInfo, typ, method string) *S {
	d := p.methods[typ][method]
	if d == nil {
		return &S{K: "opaque", Src: "missing " + method}
	}
	c := &ruleCtx{p: p, typ: typ, recv: recvName(d)}
	return c.block(d.Body.List, true)
}

func rulesOf(p *pkgInfo, typ string) []Rule {
	return []Rule{*rulesOfMethod(p, typ, "Validate")}
}

func countOpaque(s *S, out *[]string) {
	if s == nil {
		return
	}
	if s.K == "opaque" {
		*out = append(*out, s.Src)
	}
	var ce func(e *E)
	ce = func(e *E) {
		if e == nil {
			return
		}
		if e.Op == "opaque" {
			*out = append(*out, "expr: "+e.Src)
		}
		ce(e.A)
		ce(e.B)
	}
	ce(s.Cond)
	ce(s.Val)
	countOpaque(s.A, out)
	countOpaque(s.B, out)
}

// ---------- F3: code tables of validators.go ----------

type CodeTable struct {
	Name string   `json:"name"`
	Kind string   `json:"kind"` // str | int | class | opaque
	Strs []string `json:"strs,omitempty"`
	Ints []int    `json:"ints,omitempty"`
	// class: the 256-entry acceptance table of the negated-class regexp, evaluated by Go's regexp on
	// every single byte
	Class []bool `json:"class,omitempty"`
	Regex string `json:"regex,omitempty"`
	Src   string `json:"src,omitempty"`
}

func codeTables(p *pkgInfo) []CodeTable {
	var out []CodeTable
	regexSrc := map[string]string{}
	// package-level regexp vars: name = regexp.MustCompile(`...`)
	for _, f := range p.files {
		for _, d := range f.Decls {
			gd, ok := d.(*ast.GenDecl)
			if !ok {
				continue
			}
			for _, sp := range gd.Specs {
				vs, ok := sp.(*ast.ValueSpec)
				if !ok {
					continue
				}
				for i, n := range vs.Names {
					if i < len(vs.Values) {
						if c, ok := vs.Values[i].(*ast.CallExpr); ok && src(c.Fun) == "regexp.MustCompile" && len(c.Args) == 1 {
							if bl, ok := c.Args[0].(*ast.BasicLit); ok {
								regexSrc[n.Name] = unquote(bl.Value)
							}
						}
					}
				}
			}
		}
	}
	names := make([]string, 0)
	for n := range p.methods["validator"] {
		names = append(names, n)
	}
	sort.Strings(names)
	for _, n := range names {
		d := p.methods["validator"][n]
		t := CodeTable{Name: n, Kind: "opaque", Src: src(d.Body)}
		body := d.Body.List
		// switch code { case a, b, c: return nil }; return errors.New(msgInvalid)
		if len(body) == 2 {
			if sw, ok := body[0].(*ast.SwitchStmt); ok && sw.Init == nil && len(sw.Body.List) == 1 && src(body[1]) == "return errors.New(msgInvalid)" {
				cc := sw.Body.List[0].(*ast.CaseClause)
				if len(cc.Body) == 1 && src(cc.Body[0]) == "return nil" && src(sw.Tag) == d.Type.Params.List[0].Names[0].Name {
					okAll := true
					var strs []string
					var ints []int
					for _, e := range cc.List {
						bl, ok := e.(*ast.BasicLit)
						if !ok {
							okAll = false
							break
						}
						if bl.Kind == token.STRING {
							strs = append(strs, unquote(bl.Value))
						} else if bl.Kind == token.INT {
							v, _ := strconv.Atoi(bl.Value)
							ints = append(ints, v)
						} else {
							okAll = false
						}
					}
					if okAll && (len(strs) == 0) != (len(ints) == 0) {
						if len(strs) > 0 {
							t = CodeTable{Name: n, Kind: "str", Strs: strs}
						} else {
							t = CodeTable{Name: n, Kind: "int", Ints: ints}
						}
					}
				}
			}
			// if <regex>.MatchString(s) { return errors.New(msg) }; return nil
			if is, ok := body[0].(*ast.IfStmt); ok && is.Init == nil && is.Else == nil && src(body[1]) == "return nil" {
				if c, ok := is.Cond.(*ast.CallExpr); ok && len(c.Args) == 1 {
					if s, ok := c.Fun.(*ast.SelectorExpr); ok && s.Sel.Name == "MatchString" {
						if rs, ok := regexSrc[src(s.X)]; ok && len(is.Body.List) == 1 && strings.HasPrefix(src(is.Body.List[0]), "return errors.New(") {
							if tbl, ok := negClassTable(rs); ok {
								t = CodeTable{Name: n, Kind: "class", Class: tbl, Regex: rs}
							}
						}
					}
				}
			}
		}
		out = append(out, t)
	}
	return out
}

// negClassTable: for a regexp of the form `[^...]` or `[^...]+`, the bytes b for which the one-byte
// string does NOT match (i.e. the accepted characters).  A string is accepted by the validator iff
// no rune of it matches the negated class; runes >= 0x80 and invalid bytes match every negated ASCII
// class, which is checked here on a sample of them.
func negClassTable(rs string) ([]bool, bool) {
	if !strings.HasPrefix(rs, "[^") || !(strings.HasSuffix(rs, "]") || strings.HasSuffix(rs, "]+")) {
		return nil, false
	}
	re, err := regexp.Compile(rs)
	if err != nil {
		return nil, false
	}
	tbl := make([]bool, 256)
	for b := 0; b < 128; b++ {
		tbl[b] = !re.MatchString(string([]byte{byte(b)}))
	}
	for _, s := range []string{"\x80", "\xff", "é", "\u0085", "€", "😀", "\xc3", "Ā"} {
		if !re.MatchString(s) {
			return nil, false // class accepts a non-ASCII rune: not the byte-level shape we model
		}
	}
	return tbl, true
}

// dictTables: package-level `var X = map[string]string{ "k": ..., }` used by validators (return reasons).
func dictTables(p *pkgInfo) []CodeTable {
	var out []CodeTable
	for _, f := range p.files {
		for _, d := range f.Decls {
			gd, ok := d.(*ast.GenDecl)
			if !ok || gd.Tok != token.VAR {
				continue
			}
			for _, sp := range gd.Specs {
				vs := sp.(*ast.ValueSpec)
				for i, n := range vs.Names {
					if i >= len(vs.Values) {
						continue
					}
					cl, ok := vs.Values[i].(*ast.CompositeLit)
					if !ok {
						continue
					}
					if _, ok := cl.Type.(*ast.MapType); !ok {
						continue
					}
					t := CodeTable{Name: n.Name, Kind: "str"}
					for _, el := range cl.Elts {
						kv, ok := el.(*ast.KeyValueExpr)
						if !ok {
							t.Kind = "opaque"
							break
						}
						bl, ok := kv.Key.(*ast.BasicLit)
						if !ok || bl.Kind != token.STRING {
							t.Kind = "opaque"
							break
						}
						t.Strs = append(t.Strs, unquote(bl.Value))
					}
					out = append(out, t)
				}
			}
		}
	}
	sort.Slice(out, func(i, j int) bool { return out[i].Name < out[j].Name })
	return out
}

// funcDictTables: `func makeXDict() map[string]*T { ...; codes := []T{{"A", ...}, ...}; ... }` — the
// return-reason dictionaries are filled by such functions from init(); the table is the list of the
// first member of each element.
func funcDictTables(p *pkgInfo) map[string][]string {
	out := map[string][]string{}
	for name, d := range p.funcs {
		if !strings.HasPrefix(name, "make") || !strings.HasSuffix(name, "Dict") || d.Body == nil {
			continue
		}
		var keys []string
		found := false
		ast.Inspect(d.Body, func(n ast.Node) bool {
			if found {
				return false
			}
			cl, ok := n.(*ast.CompositeLit)
			if !ok {
				return true
			}
			if _, ok := cl.Type.(*ast.ArrayType); !ok {
				return true
			}
			for _, el := range cl.Elts {
				ec, ok := el.(*ast.CompositeLit)
				if !ok || len(ec.Elts) == 0 {
					return true
				}
				bl, ok := ec.Elts[0].(*ast.BasicLit)
				if !ok || bl.Kind != token.STRING {
					return true
				}
				keys = append(keys, unquote(bl.Value))
			}
			found = true
			return false
		})
		if found {
			out[strings.TrimPrefix(name, "make")] = keys
		}
	}
	return out
}
