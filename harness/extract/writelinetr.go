package main

import (
	"fmt"
	"go/ast"
	"go/token"
	"os"
	"path/filepath"
	"strings"
)

// Writer.writeLine (writer.go) translated statement by statement into Lean (Gen/WriteLineT.lean).  The destination
// buffer is the byte list `out` (a destination that fails is outside the model: every `w.w.Write*` succeeds); what
// the record renders - `record.String()`, and for record 52 `toString(false)` and `ImageDataField()` - are the
// regenerated layouts of the model; the EBCDIC encoder is the model's code page.  `none` = writeLine returns an error.

type wlTr struct {
	ok     bool
	why    []string
	recv   string
	rec    string            // the record parameter
	bytes  map[string]string // Go locals holding bytes -> Lean term
	ivVar  string            // the type-asserted *ImageViewData
	sized4 map[string]bool   // 4-byte buffers
}

func (t *wlTr) bad(format string, a ...any) {
	t.ok = false
	t.why = append(t.why, fmt.Sprintf(format, a...))
}

func (t *wlTr) cond(e ast.Expr) (string, bool) {
	switch x := e.(type) {
	case *ast.ParenExpr:
		return t.cond(x.X)
	case *ast.UnaryExpr:
		if x.Op == token.NOT {
			if a, ok := t.cond(x.X); ok {
				return "(!" + a + ")", true
			}
		}
	case *ast.SelectorExpr:
		switch src(x) {
		case t.recv + ".VariableLineLength":
			return "e.lp", true
		case t.recv + ".EbcdicEncoding":
			return "e.ebcdic", true
		}
	case *ast.CallExpr:
		if src(x.Fun) == "validSizeInt" && len(x.Args) == 1 && src(x.Args[0]) == "lineLength" {
			return "validSizeInt lineLength", true
		}
	case *ast.BinaryExpr:
		if x.Op == token.LOR || x.Op == token.LAND {
			a, ok1 := t.cond(x.X)
			b, ok2 := t.cond(x.Y)
			if ok1 && ok2 {
				op := " || "
				if x.Op == token.LAND {
					op = " && "
				}
				return "(" + a + op + b + ")", true
			}
		}
		if x.Op == token.LSS && src(x.X) == "lineLength" && src(x.Y) == "0" {
			return "decide (lineLength < 0)", true
		}
	}
	return "", false
}

// value written / encoded
func (t *wlTr) bytesOf(e ast.Expr) (string, bool) {
	if id, ok := e.(*ast.Ident); ok {
		if v, ok := t.bytes[id.Name]; ok {
			return v, true
		}
	}
	if bl, ok := e.(*ast.BasicLit); ok && bl.Kind == token.STRING && bl.Value == `"\n"` {
		return "[0x0A]", true
	}
	if c, ok := e.(*ast.CallExpr); ok && t.ivVar != "" {
		switch src(c) {
		case t.ivVar + ".toString(false)":
			return "(render m.b64 (m.layout k).write false v)", true
		case t.ivVar + ".ImageDataField()":
			return "(((m.layout k).write.filter (·.imageOnly)).flatMap (fun f => renderField m.b64 f v))", true
		}
	}
	return "", false
}

// a statement `if _, err := w.w.Write[String](X); err != nil { return err }` -> X
func (t *wlTr) writeStmt(st ast.Stmt) (ast.Expr, bool) {
	g, ok := st.(*ast.IfStmt)
	if !ok || g.Init == nil || g.Else != nil || src(g.Cond) != "err != nil" || len(g.Body.List) != 1 || src(g.Body.List[0]) != "return err" {
		return nil, false
	}
	as, ok := g.Init.(*ast.AssignStmt)
	if !ok || len(as.Lhs) != 2 || len(as.Rhs) != 1 || src(as.Lhs[0]) != "_" || src(as.Lhs[1]) != "err" {
		return nil, false
	}
	c, ok := as.Rhs[0].(*ast.CallExpr)
	if !ok || len(c.Args) != 1 {
		return nil, false
	}
	if f := src(c.Fun); f != t.recv+".w.Write" && f != t.recv+".w.WriteString" {
		return nil, false
	}
	return c.Args[0], true
}

// block: Lean term of type `Option Bytes`
func (t *wlTr) block(stmts []ast.Stmt, ind string) string {
	if len(stmts) == 0 {
		t.bad("writeLine: falls off its end")
		return "none"
	}
	rest := func(n int) string { return t.block(stmts[n:], ind) }
	fail := func() string {
		t.bad("writeLine: statement not recognised: %s", strings.SplitN(src(stmts[0]), "\n", 2)[0])
		return "none"
	}
	switch s := stmts[0].(type) {
	case *ast.ReturnStmt:
		if len(s.Results) == 1 && src(s.Results[0]) == "nil" {
			return "some out"
		}
		if len(s.Results) == 1 {
			if c, ok := s.Results[0].(*ast.CallExpr); ok && src(c.Fun) == "errors.New" {
				return "none"
			}
		}
	case *ast.IncDecStmt:
		if src(s.X) == t.recv+".lineNum" {
			return rest(1)
		}
	case *ast.ExprStmt:
		// `binary.BigEndian.PutUint32(ctrl, uint32(lineLength))`
		if c, ok := s.X.(*ast.CallExpr); ok && src(c.Fun) == "binary.BigEndian.PutUint32" && len(c.Args) == 2 {
			if id, ok := c.Args[0].(*ast.Ident); ok && t.sized4[id.Name] && src(c.Args[1]) == "uint32(lineLength)" {
				t.bytes[id.Name] = id.Name
				return "let " + id.Name + " := be32 lineLength.toNat\n" + ind + rest(1)
			}
		}
	case *ast.AssignStmt:
		if len(s.Lhs) == 1 && len(s.Rhs) == 1 && s.Tok == token.DEFINE {
			name := src(s.Lhs[0])
			switch src(s.Rhs[0]) {
			case t.rec + ".String()":
				t.bytes[name] = name
				return "let " + name + " := lineOf m k r\n" + ind + rest(1)
			case "len(line)":
				if name == "lineLength" && t.bytes["line"] != "" {
					return "let lineLength : Int := (line.length : Int)\n" + ind + rest(1)
				}
			case "make([]byte, 4)":
				t.sized4[name] = true
				return rest(1)
			}
		}
		// `encoded, err := encoding.EBCDIC.NewEncoder().String(X)` + `if err != nil { return err }`
		if len(s.Lhs) == 2 && len(s.Rhs) == 1 && s.Tok == token.DEFINE && src(s.Lhs[1]) == "err" && len(stmts) >= 2 && isErrReturn(stmts[1]) {
			if c, ok := s.Rhs[0].(*ast.CallExpr); ok && src(c.Fun) == "encoding.EBCDIC.NewEncoder().String" && len(c.Args) == 1 {
				if x, ok := t.bytesOf(c.Args[0]); ok {
					name := src(s.Lhs[0])
					t.bytes[name] = name
					return "match m.cm.encode " + x + " with\n" + ind + "| none => none\n" + ind + "| some " + name + " =>\n" + ind + rest(2)
				}
			}
		}
	case *ast.IfStmt:
		if x, ok := t.writeStmt(s); ok {
			if b, ok := t.bytesOf(x); ok {
				return "let out := out ++ " + b + "\n" + ind + rest(1)
			}
			return fail()
		}
		// `if ivData, ok := record.(*ImageViewData); ok { A } else { B }`
		if as, ok := s.Init.(*ast.AssignStmt); ok && len(as.Lhs) == 2 && len(as.Rhs) == 1 && src(s.Cond) == src(as.Lhs[1]) && s.Else != nil {
			if ta, ok := as.Rhs[0].(*ast.TypeAssertExpr); ok && src(ta.X) == t.rec && src(ta.Type) == "*ImageViewData" {
				if eb, ok := s.Else.(*ast.BlockStmt); ok {
					t.ivVar = src(as.Lhs[0])
					thenB := t.block(append(append([]ast.Stmt{}, s.Body.List...), stmts[1:]...), ind+"  ")
					t.ivVar = ""
					elseB := t.block(append(append([]ast.Stmt{}, eb.List...), stmts[1:]...), ind+"  ")
					return "match k, r with\n" + ind + "| .ivData, some v =>\n" + ind + "  " + thenB + "\n" + ind + "| _, _ =>\n" + ind + "  " + elseB
				}
			}
		}
		if s.Init == nil {
			cond, ok := t.cond(s.Cond)
			if !ok {
				return fail()
			}
			thenB := t.block(append(append([]ast.Stmt{}, s.Body.List...), stmts[1:]...), ind+"  ")
			var elseStmts []ast.Stmt
			if s.Else != nil {
				eb, ok := s.Else.(*ast.BlockStmt)
				if !ok {
					return fail()
				}
				elseStmts = eb.List
			}
			elseB := t.block(append(append([]ast.Stmt{}, elseStmts...), stmts[1:]...), ind+"  ")
			return "if " + cond + " then (\n" + ind + "  " + thenB + ")\n" + ind + "else (\n" + ind + "  " + elseB + ")"
		}
	}
	return fail()
}

func emitWriteLine(dir string, p *pkgInfo) {
	t := &wlTr{ok: true, bytes: map[string]string{}, sized4: map[string]bool{}}
	d := p.methods["Writer"]["writeLine"]
	body := "none"
	if d == nil || d.Body == nil || d.Type.Params == nil || len(d.Type.Params.List) != 1 || len(d.Type.Params.List[0].Names) != 1 {
		t.bad("writeLine: Writer.writeLine not found")
	} else {
		t.recv = recvName(d)
		t.rec = d.Type.Params.List[0].Names[0].Name
		body = t.block(d.Body.List, "  ")
	}
	var sb strings.Builder
	sb.WriteString("/- GENERATED by harness/extract from writer.go (Writer.writeLine) — do not edit. -/\nimport IclModel.Tree\nnamespace Icl.Gen.WL\nopen Icl\n\n")
	fmt.Fprintf(&sb, "def writeLine (m : Model) (e : Enc) (k : Kind) (r : Option Vals) : Option Bytes :=\n  let out : Bytes := []\n  %s\n\n", body)
	fmt.Fprintf(&sb, "/-- every statement of the Go method had a recognised shape -/\ndef recognised : Bool := %s\n\nend Icl.Gen.WL\n", leanBool(t.ok))
	must(os.WriteFile(filepath.Join(dir, "WriteLineT.lean"), []byte(sb.String()), 0o644))
	for _, w := range t.why {
		fmt.Fprintf(os.Stderr, "OPAQUE writeLine: %s\n", w)
	}
}
