/-
Line-protocol driver: one operation per input line (tab separated), one result line per operation.
Runs the executable definitions of the model so that the Go harness can diff them against the
real implementation (DESIGN.md §4.2).  Core-only (no Mathlib), compiled as `icldriver`.
-/
import IclModel.Wire
import IclModel.Base64
import IclModel.Gen.Layouts
import IclModel.Spec.Layouts
import IclModel.Gen.Rules
import IclModel.Spec.Rules
open Icl Icl.Wire

def findRec (n : String) : Option RecLayout := Gen.all.find? (fun L => L.name == n)

def handle (line : String) : String :=
  match line.splitOn "\t" with
  | ["alpha", h, w] => toHex (alphaField (fromHex h) (parseNat w))
  | ["nbsm", h, w] => toHex (nbsmField (fromHex h) (parseNat w))
  | ["zstr", h, w] => toHex (zstrField (fromHex h) (parseNat w))
  | ["numeric", n, w] => toHex (numericField (parseInt n) (parseNat w))
  | ["trim", h] => toHex (trimSpace (fromHex h))
  | ["atoi", h] => toString (parseNum (fromHex h))
  | ["rc", h] => toString (runeCount (fromHex h))
  | ["pdate", h] => let d := parseDate (fromHex h); s!"{d.y}-{d.m}-{d.d}"
  | ["ptime", h] => let t := parseTime (fromHex h); s!"{t.h}-{t.m}-{if t.z then 1 else 0}"
  | ["fdate", y, m, d] => toHex (fmtDate ⟨parseNat y, parseNat m, parseNat d⟩)
  | ["ftime", h, m] => toHex (fmtTime ⟨parseNat h, parseNat m, false⟩)
  | ["b64", h] => match b64Go (fromHex h) with
    | some d => toHex d
    | none => "none"
  | ["render", r, incl, vals] =>
    match findRec r with
    | none => "bad-rec"
    | some L => toHex (render b64Go L.write (incl == "1") (parseVals vals).1)
  | ["renderSpec", r, incl, vals] =>
    match Spec.all.find? (fun p => p.1 == r) with
    | none => "bad-rec"
    | some p => toHex (render b64Go (Spec.toWrite p.2) (incl == "1") (parseVals vals).1)
  | ["validate", r, frb, vals] =>
    match findRec r, Gen.allRules.find? (fun p => p.1 == r) with
    | some L, some p =>
      let cx : VCtx := { codes := Gen.codes, write := L.write, b64 := b64Go, frb := frb == "1" }
      match validate cx p.2 (parseVals vals).1 with
      | (none, v) => "ok " ++ dumpVals (fieldKinds L) v
      | (some f, _) => "reject " ++ f
    | _, _ => "bad-rec"
  | ["validateSpec", r, frb, vals] =>
    match Spec.all.find? (fun p => p.1 == r), Spec.allRules.find? (fun p => p.1 == r) with
    | some L, some p =>
      let cx : VCtx := { codes := Spec.codes, write := Spec.toWrite L.2, b64 := b64Go, frb := frb == "1" }
      match evalSites cx p.2 (parseVals vals).1 with
      | (none, _) => "ok"
      | (some f, _) => "reject " ++ f
    | _, _ => "bad-rec"
  | ["parse", r, h] =>
    match findRec r with
    | none => "bad-rec"
    | some L =>
      match L.parseRec id (fromHex h) {} with
      | .panic => "panic"
      | .done v => "ok " ++ dumpVals (fieldKinds L) v
  | _ => "bad-op"

partial def loop (h : IO.FS.Stream) (out : IO.FS.Stream) : IO Unit := do
  let line ← h.getLine
  if line.isEmpty then return ()
  let l := if line.endsWith "\n" then (line.dropEnd 1).toString else line
  out.putStrLn (handle l)
  loop h out

def main : IO Unit := do
  let stdin ← IO.getStdin
  let stdout ← IO.getStdout
  loop stdin stdout
  stdout.flush
