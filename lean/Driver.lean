/-
Line-protocol driver: one operation per input line (tab separated), one result line per operation.
Runs the executable definitions of the model so that the Go harness can diff them against the
real implementation (DESIGN.md §4.2).  Core-only (no Mathlib), compiled as `icldriver`.
-/
import IclModel.Wire
import IclModel.Base64
import IclModel.Gen.Layouts
import IclModel.Spec.Layouts
import IclModel.Gen.Rules
import IclModel.Spec.Rules
import IclModel.TreeWire
import IclModel.Build
import IclModel.Gen.Cp037
import IclModel.Gen.Split
import IclModel.ApiWire
import IclModel.FileOKCheck
import IclModel.CanonCheck
import IclModel.GenModel
open Icl Icl.Wire

def findRec (n : String) : Option RecLayout := Gen.all.find? (fun L => L.name == n)

def theModel (frb : Bool) (now : Date) : Model := genModel frb now

/-- the same machine over the hand-written Spec tables: layout columns for writing and for direct
decoding, documented rules for validation (setRecordType/constructor effects are taken from Gen) -/
def specLayouts : List RecLayout :=
  Gen.all.map (fun L =>
    match Spec.all.find? (fun p => p.1 == L.name) with
    | some p => { L with write := Spec.toWrite p.2, parse := Spec.toParse p.2 }
    | none => L)

def specModel (frb : Bool) (now : Date) : Model :=
  { layouts := specLayouts,
    validator := fun n v =>
      match Spec.allRules.find? (fun p => p.1 == n) with
      | some p => evalSites { codes := Spec.codes, write := ((specLayouts.find? (fun L => L.name == n)).getD default).write,
                              b64 := b64Go, frb := frb } p.2 v
      | none => (some "<no rules>", v),
    cm := { dec := Gen.cp037Dec, repl := Gen.cp037Repl }, b64 := b64Go, now := now, frb := frb }

def parseDateArg (s : String) : Date :=
  match s.splitOn "-" with
  | [y, m, d] => ⟨parseNat y, parseNat m, parseNat d⟩
  | _ => ⟨2000, 1, 1⟩

def handle (line : String) : String :=
  match line.splitOn "\t" with
  | ["alpha", h, w] => toHex (alphaField (fromHex h) (parseNat w))
  | ["nbsm", h, w] => toHex (nbsmField (fromHex h) (parseNat w))
  | ["zstr", h, w] => toHex (zstrField (fromHex h) (parseNat w))
  | ["numeric", n, w] => toHex (numericField (parseInt n) (parseNat w))
  | ["trim", h] => toHex (trimSpace (fromHex h))
  | ["atoi", h] => toString (parseNum (fromHex h))
  | ["rc", h] => toString (runeCount (fromHex h))
  | ["pdate", h] => let d := parseDate (fromHex h); s!"{d.y}-{d.m}-{d.d}"
  | ["ptime", h] => let t := parseTime (fromHex h); s!"{t.h}-{t.m}-{if t.z then 1 else 0}"
  | ["fdate", y, m, d] => toHex (fmtDate ⟨parseNat y, parseNat m, parseNat d⟩)
  | ["ftime", h, m] => toHex (fmtTime ⟨parseNat h, parseNat m, false⟩)
  | ["b64", h] => match b64Go (fromHex h) with
    | some d => toHex d
    | none => "none"
  | ["render", r, incl, vals] =>
    match findRec r with
    | none => "bad-rec"
    | some L => toHex (render b64Go L.write (incl == "1") (parseVals vals).1)
  | ["renderSpec", r, incl, vals] =>
    match Spec.all.find? (fun p => p.1 == r) with
    | none => "bad-rec"
    | some p => toHex (render b64Go (Spec.toWrite p.2) (incl == "1") (parseVals vals).1)
  | ["validate", r, frb, vals] =>
    match findRec r, Gen.allRules.find? (fun p => p.1 == r) with
    | some L, some p =>
      let cx : VCtx := { codes := Gen.codes, write := L.write, b64 := b64Go, frb := frb == "1" }
      match validate cx p.2 (parseVals vals).1 with
      | (none, v) => "ok " ++ dumpVals (fieldKinds L) v
      | (some f, _) => "reject " ++ f
    | _, _ => "bad-rec"
  | ["validateSpec", r, frb, vals] =>
    match Spec.all.find? (fun p => p.1 == r), Spec.allRules.find? (fun p => p.1 == r) with
    | some L, some p =>
      let cx : VCtx := { codes := Spec.codes, write := Spec.toWrite L.2, b64 := b64Go, frb := frb == "1" }
      match evalSites cx p.2 (parseVals vals).1 with
      | (none, _) => "ok"
      | (some f, _) => "reject " ++ f
    | _, _ => "bad-rec"
  | ["write", lp, ebc, tree] =>
    match writeFile (theModel false ⟨2000, 1, 1⟩) { lp := lp == "1", ebcdic := ebc == "1" } (parseTree tree) with
    | some b => toHex b
    | none => "error"
  | ["read", lp, ebc, frb, now, h] =>
    let m := theModel (frb == "1") (parseDateArg now)
    let (f, e) := readFile m { lp := lp == "1", ebcdic := ebc == "1" } (fromHex h)
    dumpErr e ++ " # " ++ dumpTree m f
  | ["writeSpec", lp, ebc, tree] =>
    match writeFile (specModel false ⟨2000, 1, 1⟩) { lp := lp == "1", ebcdic := ebc == "1" } (parseTree tree) with
    | some b => toHex b
    | none => "error"
  | ["readSpec", lp, ebc, frb, now, h] =>
    let m := specModel (frb == "1") (parseDateArg now)
    let (f, e) := readFile m { lp := lp == "1", ebcdic := ebc == "1" } (fromHex h)
    dumpErr e ++ " # " ++ dumpTree m f
  | ["readScan", lp, ebc, now, max, sched, h] =>
    let m := theModel false (parseDateArg now)
    let sc := if sched == "-" then [] else (sched.splitOn ",").map parseNat
    let (f, e) := readFileScan m { lp := lp == "1", ebcdic := ebc == "1" } Gen.splitLP (parseNat max) sc (fromHex h)
    dumpErr e ++ " # " ++ dumpTree m f
  | ["build", now, tree] =>
    let m := theModel false (parseDateArg now)
    match buildAll m (parseTree tree) with
    | .ok f => "ok # " ++ dumpTree m f
    | .error _ => "error"
  | ["buildcl", now, tree] =>
    let m := theModel false (parseDateArg now)
    let f := parseTree tree
    match f.cashLetters with
    | [cl] =>
      match cashLetterCreate m cl with
      | .ok c => "ok # " ++ dumpTree m { f with cashLetters := [c] }
      | .error _ => "error"
    | _ => "bad-tree"
  | ["ebcenc", h] => match (Charmap.encode { dec := Gen.cp037Dec, repl := Gen.cp037Repl } (fromHex h)) with
    | some b => toHex b
    | none => "error"
  | ["ebcdec", h] => toHex (Charmap.decode { dec := Gen.cp037Dec, repl := Gen.cp037Repl } (fromHex h))
  | ["parse", r, h] =>
    match findRec r with
    | none => "bad-rec"
    | some L =>
      match L.parseRec id ⟨2000, 1, 1⟩ (fromHex h) {} with
      | .panic => "panic"
      | .done v => "ok " ++ dumpVals (fieldKinds L) v
  | ["fileok", lp, ebc, tree] =>
    -- the decidable part of the premise of the C01 reassembly theorems, on the regenerated model
    if Icl.C01.fileOKb (theModel false ⟨2000, 1, 1⟩) { lp := lp == "1", ebcdic := ebc == "1" } (parseTree tree) then "ok" else "fail"
  | ["fileokwhy", lp, ebc, tree] =>
    Icl.C01.fileOKwhy (theModel false ⟨2000, 1, 1⟩) { lp := lp == "1", ebcdic := ebc == "1" } (parseTree tree)
  | ["canonfile", tree] =>
    -- the decidable part of the hypothesis `CanonFile` of the end-to-end C01 theorems (Props/C01Rec.lean)
    let w := Icl.C01.canonFileWhy (theModel false ⟨2000, 1, 1⟩) (parseTree tree)
    if w == "" then "ok" else w
  | ["canonfilee", tree] =>
    -- ... and of `CanonFileE` (EBCDIC theorems: safe text, no record 52)
    let w := Icl.C01.canonFileEWhy (theModel false ⟨2000, 1, 1⟩) (parseTree tree)
    if w == "" then "ok" else w
  | ["api", h] => Icl.Api.Wire.runApi h
  | ["apifrom", st, h] => Icl.Api.Wire.runApiFrom st h
  | ["apiconc", st, rq, sc] => Icl.Api.Wire.runConc st rq sc
  | _ => "bad-op"

partial def loop (h : IO.FS.Stream) (out : IO.FS.Stream) : IO Unit := do
  let line ← h.getLine
  if line.isEmpty then return ()
  let l := if line.endsWith "\n" then (line.dropEnd 1).toString else line
  out.putStrLn (handle l)
  loop h out

def main : IO Unit := do
  let stdin ← IO.getStdin
  let stdout ← IO.getStdout
  loop stdin stdout
  stdout.flush
