/-
L7: concurrent execution of API requests.

Each client request is a thread.  What is atomic is what the code makes atomic: one repository
method (storage.go takes its mutex around each), and - for the handlers that replace or delete a
stored file - the section between `updateMu.Lock()` and the deferred `Unlock()` is exclusive among
those handlers (but NOT against the handlers that do not take the lock: readers and the v2 create
run in between).  The thread state is the handler's position (`Th`); `kind` classifies the ten
handlers by their access pattern, which is tied to the source by the regenerated call table
(Gen.handlerCalls, Props/C12.lean) and to the sequential programs of Api.lean by `solo_run`.

A schedule is a list of events (`start i`: the request arrives; `step i`: thread i performs its next
atomic action).  The ghost field `log` records, at the moment a thread performs its last repository
action, its index and response (the linearization point).
-/
import IclModel.Api
namespace Icl.Api

inductive Kind
  | unlocked      -- no repository access, or exactly one, outside the lock
  | lockedWrite   -- Lock; SaveFile; Unlock                        (v1 create)
  | rmw           -- Lock; GetFile; (SaveFile | DeleteFile)?; Unlock
deriving DecidableEq, Repr, Inhabited

def kind : Req → Kind
  | .list | .get _ | .contents _ | .validate _ | .createV2 _ _ _ _ => .unlocked
  | .createV1 ct u _ => if (v1Parsed ct u).isSome then .lockedWrite else .unlocked
  | .updateHeader id h => if id = "" ∨ h.isNone then .unlocked else .rmw
  | .addCL id c => if id = "" ∨ c.isNone then .unlocked else .rmw
  | .delete id => if id = "" then .unlocked else .rmw
  | .removeCL id cid => if id = "" ∨ cid = "" then .unlocked else .rmw

/-- the file a read-modify-write handler addresses -/
def rmwId : Req → String
  | .updateHeader id _ | .addCL id _ | .delete id | .removeCL id _ => id
  | _ => ""

/-- the second half of a read-modify-write handler, given what its `GetFile` returned -/
def applyRMW (r : Req) (v : Option AFile) (s : Store) : Store × Resp :=
  match v with
  | none => (s, .notFound)
  | some f =>
    match r with
    | .updateHeader _ (some h) =>
      let f' := { f with hdr := h }
      match saveFile s f' with
      | some s' => (s', .file 201 f')
      | none => (s, .bad)
    | .addCL _ (some c) =>
      let f' := { f with cls := f.cls ++ [c] }
      match saveFile s f' with
      | some s' => (s', .file 200 f')
      | none => (s, .bad)
    | .removeCL _ cid =>
      match saveFile s { f with cls := f.cls.filter (fun c => c.id ≠ cid) } with
      | some s' => (s', .okNull)
      | none => (s, .bad)
    | .delete id =>
      match deleteFile s id with
      | some s' => (s', .okNull)
      | none => (s, .bad)
    | _ => (s, .bad)

inductive Th
  | idle                      -- request not yet issued
  | ready                     -- issued, no shared action performed yet
  | locked                    -- holds updateMu, nothing read or written yet
  | got (v : Option AFile)    -- holds updateMu, GetFile returned v
  | committed (ρ : Resp)      -- holds updateMu, all repository actions done
  | done (ρ : Resp)           -- response sent
deriving DecidableEq, Repr, Inhabited

inductive Ev
  | start (i : Nat)
  | step (i : Nat)
deriving DecidableEq, Repr, Inhabited

structure Conc where
  store : Store
  lock : Option Nat
  ths : List Th
  log : List (Nat × Resp)
deriving Repr, Inhabited

def Conc.init (s : Store) (n : Nat) : Conc := { store := s, lock := none, ths := List.replicate n .idle, log := [] }

def Conc.setTh (c : Conc) (i : Nat) (t : Th) : Conc := { c with ths := c.ths.set i t }

/-- one event -/
def Conc.ev (reqs : List Req) (c : Conc) : Ev → Conc
  | .start i =>
    match c.ths[i]? with
    | some .idle => c.setTh i .ready
    | _ => c
  | .step i =>
    match c.ths[i]?, reqs[i]? with
    | some .ready, some r =>
      match kind r with
      | .unlocked =>
        let (s', ρ) := step c.store r
        { c with store := s', ths := c.ths.set i (.done ρ), log := c.log ++ [(i, ρ)] }
      | _ => if c.lock = none then { c with lock := some i, ths := c.ths.set i .locked } else c
    | some .locked, some r =>
      match kind r with
      | .lockedWrite =>
        let (s', ρ) := step c.store r
        { c with store := s', ths := c.ths.set i (.committed ρ), log := c.log ++ [(i, ρ)] }
      | _ => c.setTh i (.got (getFile c.store (rmwId r)))
    | some (.got v), some r =>
      let (s', ρ) := applyRMW r v c.store
      { c with store := s', ths := c.ths.set i (.committed ρ), log := c.log ++ [(i, ρ)] }
    | some (.committed ρ), some _ => { c with lock := none, ths := c.ths.set i (.done ρ) }
    | _, _ => c

def Conc.run (reqs : List Req) (c : Conc) (σ : List Ev) : Conc := σ.foldl (Conc.ev reqs) c

/-- the requests in linearization order -/
def Conc.linReqs (reqs : List Req) (c : Conc) : List Req := c.log.filterMap (fun e => reqs[e.1]?)

/-- all threads have answered -/
def Conc.allDone (c : Conc) : Bool := c.ths.all (fun t => match t with | .done _ => true | _ => false)

end Icl.Api
