/-
L1 — record validation: the statement trees into which every `Validate()` (with the methods it
calls inlined) is translated, and their evaluator.  Code tables (`isXxx` switches, the two return
reason dictionaries, the character-class regexps) are regenerated data (`Codes`).
-/
import IclModel.Layout
namespace Icl

inductive Term
  | fieldS (n : String) | fieldI (n : String) | getter (n : String)
  | str (b : Bytes) | int (i : Int) | trim (t : Term) | opaque
deriving DecidableEq, Repr, Inhabited

inductive BExp
  | eq (a b : Term) | ne (a b : Term) | lt (a b : Term) | le (a b : Term) | gt (a b : Term) | ge (a b : Term)
  | and (a b : BExp) | or (a b : BExp) | not (a : BExp)
  /-- `rec.F.IsZero()` of a date (`isTime = false`) or time field -/
  | iszero (f : String) (isTime : Bool)
  | frb
  /-- `rec.isFoo(arg) != nil` -/
  | invalid (fn : String) (a : Term)
  | dictHas (d : String) (a : Term)
  | contains (a : Term) (lit : Bytes)
  | yearOutside (f : String) (lo hi : Nat)
  | ff | opaque
deriving DecidableEq, Repr, Inhabited

inductive Stmt
  | skip | seq (a b : Stmt) | ite (c : BExp) (a b : Stmt)
  | reject (f : String) | assign (f : String) (v : Bytes)
  /-- any statement shape the translator does not recognise (including a `return nil` that is not
  the last statement of its method) -/
  | opaque
deriving DecidableEq, Repr, Inhabited

/-- one regenerated code table -/
inductive CodeTable
  | strs (l : List Bytes) | ints (l : List Int)
  /-- accepted bytes of a negated-class regexp (any byte ≥ 0x80 is rejected) -/
  | cls (accepted : List UInt8)
  | opaque
deriving DecidableEq, Repr, Inhabited

abbrev Codes := List (String × CodeTable)

def Codes.get (c : Codes) (n : String) : CodeTable :=
  match c.find? (fun p => p.1 == n) with
  | some p => p.2
  | none => .opaque

inductive TVal | s (b : Bytes) | i (n : Int)
deriving DecidableEq, Repr, Inhabited

structure VCtx where
  codes : Codes
  write : List WField
  b64 : Bytes → Option Bytes
  frb : Bool

def evalTerm (cx : VCtx) (v : Vals) : Term → TVal
  | .fieldS n => .s (v.s n)
  | .fieldI n => .i (v.i n)
  | .getter n =>
    match cx.write.find? (fun f => f.getter == n) with
    | some f => .s (renderField cx.b64 f v)
    | none => .s []
  | .str b => .s b
  | .int i => .i i
  | .trim t => match evalTerm cx v t with
    | .s b => .s (trimSpace b)
    | x => x
  | .opaque => .s []

def bytesLt : Bytes → Bytes → Bool
  | [], [] => false
  | [], _ :: _ => true
  | _ :: _, [] => false
  | a :: r, b :: q => a < b || (a == b && bytesLt r q)

def cmpT (op : String) (a b : TVal) : Bool :=
  match a, b with
  | .s x, .s y =>
    match op with
    | "eq" => x == y | "ne" => x != y | "lt" => bytesLt x y | "le" => !bytesLt y x
    | "gt" => bytesLt y x | _ => !bytesLt x y
  | .i x, .i y =>
    match op with
    | "eq" => x == y | "ne" => x != y | "lt" => x < y | "le" => x ≤ y | "gt" => x > y | _ => x ≥ y
  | _, _ => false

/-- does the sub-list `lit` occur in `s` (strings.Contains) -/
def containsBytes (s lit : Bytes) : Bool :=
  match s with
  | [] => lit.isEmpty
  | _ :: r => lit.isPrefixOf s || containsBytes r lit

/-- does validator `fn` accept the value -/
def codeAccepts (c : Codes) (fn : String) (x : TVal) : Bool :=
  match c.get fn, x with
  | .strs l, .s b => l.contains b
  | .ints l, .i n => l.contains n
  | .cls acc, .s b => b.all (fun ch => acc.contains ch)
  | _, _ => false

def evalB (cx : VCtx) (v : Vals) : BExp → Bool
  | .eq a b => cmpT "eq" (evalTerm cx v a) (evalTerm cx v b)
  | .ne a b => cmpT "ne" (evalTerm cx v a) (evalTerm cx v b)
  | .lt a b => cmpT "lt" (evalTerm cx v a) (evalTerm cx v b)
  | .le a b => cmpT "le" (evalTerm cx v a) (evalTerm cx v b)
  | .gt a b => cmpT "gt" (evalTerm cx v a) (evalTerm cx v b)
  | .ge a b => cmpT "ge" (evalTerm cx v a) (evalTerm cx v b)
  | .and a b => evalB cx v a && evalB cx v b
  | .or a b => evalB cx v a || evalB cx v b
  | .not a => !evalB cx v a
  | .iszero f isTime => if isTime then (v.t f).isZero else (v.d f).isZero
  | .frb => cx.frb
  | .invalid fn a => !codeAccepts cx.codes fn (evalTerm cx v a)
  | .dictHas d a => codeAccepts cx.codes d (evalTerm cx v a)
  | .contains a lit => match evalTerm cx v a with
    | .s b => containsBytes b lit
    | _ => false
  | .yearOutside f lo hi => (v.d f).y < lo || (v.d f).y > hi
  | .ff => false
  | .opaque => false

inductive VOut
  | cont (v : Vals)
  | rejected (field : String)
  | stuck
deriving Inhabited

/-- run a `Validate()` body; the record may be modified (FRB normalisations) -/
def evalS (cx : VCtx) : Stmt → Vals → VOut
  | .skip, v => .cont v
  | .seq a b, v =>
    match evalS cx a v with
    | .cont v' => evalS cx b v'
    | o => o
  | .ite c a b, v => if evalB cx v c then evalS cx a v else evalS cx b v
  | .reject f, _ => .rejected f
  | .assign f x, v => .cont (v.setS f x)
  | .opaque, _ => .stuck

/-- verdict of `Validate()`: `none` = nil error, `some f` = FieldError on field `f` -/
def validate (cx : VCtx) (body : Stmt) (v : Vals) : Option String × Vals :=
  match evalS cx body v with
  | .cont v' => (none, v')
  | .rejected f => (some f, v)
  | .stuck => (some "<opaque>", v)

end Icl
