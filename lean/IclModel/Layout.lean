/-
L1 — record layouts as tables, and the generic interpreters that give them meaning:
`render` (what `String()` does), `parseRec` (what `Parse()` does, with checked slicing so that an
out-of-range slice is an explicit `panic` outcome).  The tables themselves are regenerated from
/repo on every run (IclModel/Gen/Layouts.lean); the hand transcription of X9.100-187 they are
compared with is IclModel/Spec/Layouts.lean.
-/
import IclModel.Prim
namespace Icl

/-- how a getter converts its source field -/
inductive Conv
  | lit | alpha | numeric | nbsm | zstr | date | time
  | numericBlankNonPos | dateBlankZero
  | alphaVar | bytesVar | image
  | opaque
deriving DecidableEq, Repr, Inhabited

structure WField where
  getter : String
  src : String
  conv : Conv
  width : Nat := 0
  lenField : String := ""
  imageOnly : Bool := false
deriving DecidableEq, Repr, Inhabited

/-- field values of one record, by Go field name; one map per Go type -/
structure Vals where
  s : String → Bytes := fun _ => []
  i : String → Int := fun _ => 0
  d : String → Date := fun _ => Date.zero
  t : String → HM := fun _ => HM.zero

instance : Inhabited Vals := ⟨{}⟩

def Vals.setS (v : Vals) (k : String) (x : Bytes) : Vals := { v with s := fun k' => if k' = k then x else v.s k' }
def Vals.setI (v : Vals) (k : String) (x : Int) : Vals := { v with i := fun k' => if k' = k then x else v.i k' }
def Vals.setD (v : Vals) (k : String) (x : Date) : Vals := { v with d := fun k' => if k' = k then x else v.d k' }
def Vals.setT (v : Vals) (k : String) (x : HM) : Vals := { v with t := fun k' => if k' = k then x else v.t k' }

/-- width of a variable section: `max := parseNumField(len); if !validSizeInt(max) { return "" }` -/
def varWidth (v : Vals) (lenField : String) : Option Nat :=
  let n := parseNum (v.s lenField)
  if validSizeInt n then some n.toNat else none

def blanks (n : Nat) : Bytes := List.replicate n SP

/-- `b64` is the model parameter for `ImageViewData.DecodeImageData`: `some out` when the image data
decodes as base64 with a non-empty result (`out` is the whole output buffer). -/
def renderField (b64 : Bytes → Option Bytes) (f : WField) (v : Vals) : Bytes :=
  match f.conv with
  | .lit => v.s f.src
  | .alpha => alphaField (v.s f.src) f.width
  | .numeric => numericField (v.i f.src) f.width
  | .nbsm => nbsmField (v.s f.src) f.width
  | .zstr => zstrField (v.s f.src) f.width
  | .date => fmtDate (v.d f.src)
  | .time => fmtTime (v.t f.src)
  | .numericBlankNonPos => if v.i f.src ≤ 0 then blanks f.width else numericField (v.i f.src) f.width
  | .dateBlankZero => if (v.d f.src).isZero then blanks f.width else fmtDate (v.d f.src)
  | .alphaVar | .bytesVar =>
    match varWidth v f.lenField with
    | some n => alphaField (v.s f.src) n
    | none => []
  | .image =>
    match b64 (v.s f.src) with
    | some dec => dec
    | none =>
      match varWidth v f.lenField with
      | some n => alphaField (v.s f.src) n
      | none => []
  | .opaque => []

/-- `String()` (inclImage = true) / `toString(false)` -/
def render (b64 : Bytes → Option Bytes) (ws : List WField) (inclImage : Bool) (v : Vals) : Bytes :=
  match ws with
  | [] => []
  | f :: rest =>
    (if f.imageOnly && !inclImage then [] else renderField b64 f v) ++ render b64 rest inclImage v

/-! ### Parse side -/

structure Off where
  c : Nat
  vars : List String := []
deriving DecidableEq, Repr, Inhabited

inductive PKind | num | str | date | time | raw | bytes
deriving DecidableEq, Repr, Inhabited

inductive PStmt
  /-- `if utf8.RuneCountInString(record) < n { return }` (`ne`: `!= n`) -/
  | guardRunes (ne : Bool) (n : Nat)
  /-- `if len(record) < n { return }` -/
  | guardBytes (n : Nat)
  /-- `if v <= 0 || count(record) < off { return }` (`le0 = false`: `v < 0`; `bytes`: len instead of rune count) -/
  | guardVar (bytes : Bool) (var : String) (le0 : Bool) (off : Off)
  /-- `v := parseNumField(rec.field)` -/
  | bind (var : String) (field : String)
  /-- `rec.dst = parseK(record[lo:hi])`, through the reader's decode function first when `decode` -/
  | assign (dst : String) (lo hi : Off) (k : PKind) (decode : Bool)
  | lit (dst : String) (b : Bytes)
  | setType
  | opaque
deriving DecidableEq, Repr, Inhabited

/-- one effect of `setRecordType()` / of a `New<T>()` constructor -/
inductive SetAct
  | lit (f : String) (b : Bytes)
  /-- `if rec.f.IsZero() { rec.f = time.Now() }` -/
  | nowIfZero (f : String)
  /-- call of `setRecordType()` (inside a constructor) -/
  | setType
  | opaque
deriving DecidableEq, Repr, Inhabited

/-- apply `setRecordType()`; `now` is the model's clock (date part) -/
def applySetType (now : Date) : List SetAct → Vals → Vals
  | [], v => v
  | .lit f b :: r, v => applySetType now r (v.setS f b)
  | .nowIfZero f :: r, v => applySetType now r (if (v.d f).isZero then v.setD f now else v)
  | _ :: r, v => applySetType now r v

inductive ParseOut
  | done (v : Vals)
  | panic
deriving Inhabited

abbrev Env := List (String × Int)

def Env.get (e : Env) (k : String) : Int :=
  match e with
  | [] => 0
  | (k', x) :: r => if k' = k then x else Env.get r k

def Off.eval (o : Off) (e : Env) : Int := o.vars.foldl (fun acc k => acc + e.get k) (o.c : Int)

/-- Go `s[lo:hi]` with its bounds check -/
def slice? (s : Bytes) (lo hi : Int) : Option Bytes :=
  if 0 ≤ lo ∧ lo ≤ hi ∧ hi ≤ (s.length : Int) then some ((s.drop lo.toNat).take (hi.toNat - lo.toNat)) else none

def Vals.assign (v : Vals) (dst : String) (k : PKind) (x : Bytes) : Vals :=
  match k with
  | .num => v.setI dst (parseNum x)
  | .str => v.setS dst (parseStr x)
  | .date => v.setD dst (parseDate x)
  | .time => v.setT dst (parseTime x)
  | .raw => v.setS dst x
  | .bytes => v.setS dst x

/-- interpret the statements of a `Parse()` body on `record` -/
def parseStmts (dec : Bytes → Bytes) (now : Date) (sty : List SetAct) (record : Bytes) :
    List PStmt → Env → Vals → ParseOut
  | [], _, v => .done v
  | st :: rest, e, v =>
    match st with
    | .guardRunes ne n =>
      if (if ne then runeCount record ≠ n else runeCount record < n) then .done v
      else parseStmts dec now sty record rest e v
    | .guardBytes n =>
      if record.length < n then .done v else parseStmts dec now sty record rest e v
    | .guardVar bytes var le0 off =>
      let x := e.get var
      let cnt : Int := if bytes then record.length else runeCount record
      if (if le0 then x ≤ 0 else x < 0) ∨ cnt < off.eval e then .done v
      else parseStmts dec now sty record rest e v
    | .bind var field => parseStmts dec now sty record rest ((var, parseNum (v.s field)) :: e) v
    | .assign dst lo hi k decode =>
      match slice? record (lo.eval e) (hi.eval e) with
      | none => .panic
      | some x => parseStmts dec now sty record rest e (v.assign dst k (if decode then dec x else x))
    | .lit dst b => parseStmts dec now sty record rest e (v.setS dst b)
    | .setType => parseStmts dec now sty record rest e (applySetType now sty v)
    | .opaque => .panic

structure RecLayout where
  name : String
  tag : Bytes
  write : List WField
  parse : List PStmt
  /-- body of `setRecordType()` -/
  setType : List SetAct := []
  /-- body of `New<T>()` -/
  ctor : List SetAct := []
deriving Inhabited

def RecLayout.parseRec (L : RecLayout) (dec : Bytes → Bytes) (now : Date) (record : Bytes) (v0 : Vals) : ParseOut :=
  parseStmts dec now L.setType record L.parse [] v0

/-- the record `New<T>()` returns -/
def RecLayout.new (L : RecLayout) (now : Date) : Vals :=
  L.ctor.foldl (fun v a =>
    match a with
    | .setType => applySetType now L.setType v
    | .lit f b => v.setS f b
    | .nowIfZero f => if (v.d f).isZero then v.setD f now else v
    | .opaque => v) {}

/-- a zero-valued struct on which only `setRecordType()` was called -/
def RecLayout.typed (L : RecLayout) (now : Date) : Vals := applySetType now L.setType {}

/-- total fixed width of a write table (variable sections count 0) -/
def fixedWidth : List WField → Nat
  | [] => 0
  | f :: r => f.width + fixedWidth r

end Icl
