/-
The driver's instantiation of the model parameter `b64` (ImageViewData.DecodeImageData): a
transcription of Go's `base64.StdEncoding.Decode` into a zeroed buffer of `DecodedLen(len(src))`
bytes.  The theorems never unfold it (they hold for every `b64`); it is tied to the real function by
the `b64` correspondence stream.
-/
import IclModel.Prim
namespace Icl

def b64val (c : UInt8) : Option Nat :=
  if 0x41 ≤ c && c ≤ 0x5A then some (c.toNat - 0x41)
  else if 0x61 ≤ c && c ≤ 0x7A then some (c.toNat - 0x61 + 26)
  else if 0x30 ≤ c && c ≤ 0x39 then some (c.toNat - 0x30 + 52)
  else if c == 0x2B then some 62
  else if c == 0x2F then some 63
  else none

/-- decode the newline-free text; `none` on any corrupt input -/
def b64Groups : Nat → Bytes → Option Bytes
  | 0, _ => none
  | _, [] => some []
  | fuel + 1, a :: b :: c :: d :: rest =>
    match b64val a, b64val b with
    | some x, some y =>
      match b64val c, b64val d with
      | some z, some w =>
        let v := x * 262144 + y * 4096 + z * 64 + w
        (b64Groups fuel rest).map (fun t =>
          UInt8.ofNat (v / 65536) :: UInt8.ofNat (v / 256 % 256) :: UInt8.ofNat (v % 256) :: t)
      | some z, none =>
        if d == 0x3D && rest.isEmpty then
          let v := x * 262144 + y * 4096 + z * 64
          some [UInt8.ofNat (v / 65536), UInt8.ofNat (v / 256 % 256)]
        else none
      | none, _ =>
        if c == 0x3D && d == 0x3D && rest.isEmpty then
          let v := x * 262144 + y * 4096
          some [UInt8.ofNat (v / 65536)]
        else none
    | _, _ => none
  | _, _ => none

/-- `DecodeImageData` succeeding with a non-empty result: the whole output buffer -/
def b64Go (src : Bytes) : Option Bytes :=
  if src.isEmpty then none else
  let f := src.filter (fun c => c != 0x0A && c != 0x0D)
  match b64Groups (f.length + 1) f with
  | some dec =>
    if dec.isEmpty then none
    else some (dec ++ List.replicate (src.length / 4 * 3 - dec.length) 0)
  | none => none

end Icl
