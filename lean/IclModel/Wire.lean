/-
Line-protocol helpers for the driver: hex, integers, field-value maps.  Not part of the model.
-/
import IclModel.Layout
namespace Icl.Wire
open Icl

def hexDigit (n : Nat) : Char := if n < 10 then Char.ofNat (48 + n) else Char.ofNat (87 + n)

def toHex (b : Bytes) : String :=
  if b.isEmpty then "-" else
  String.ofList (b.foldr (fun x acc => hexDigit (x.toNat / 16) :: hexDigit (x.toNat % 16) :: acc) [])

def hexVal (c : Char) : Nat :=
  if '0' ≤ c ∧ c ≤ '9' then c.toNat - 48
  else if 'a' ≤ c ∧ c ≤ 'f' then c.toNat - 87
  else if 'A' ≤ c ∧ c ≤ 'F' then c.toNat - 55 else 0

def fromHexChars : List Char → Bytes
  | a :: b :: r => UInt8.ofNat (hexVal a * 16 + hexVal b) :: fromHexChars r
  | _ => []

def fromHex (s : String) : Bytes := if s == "-" then [] else fromHexChars s.toList

def parseInt (s : String) : Int := s.toInt?.getD 0
def parseNat (s : String) : Nat := s.toNat?.getD 0

/-- `name:S:hex` / `name:I:int` / `name:D:y-m-d` / `name:T:h-m`, `;`-separated -/
def parseVals (s : String) : Vals × List String :=
  let items := if s == "" || s == "-" then [] else s.splitOn ";"
  items.foldl (fun (acc : Vals × List String) it =>
    match it.splitOn ":" with
    | [k, "S", h] => (acc.1.setS k (fromHex h), k :: acc.2)
    | [k, "I", n] => (acc.1.setI k (parseInt n), k :: acc.2)
    | [k, "D", d] =>
      match d.splitOn "-" with
      | [y, m, dd] => (acc.1.setD k ⟨parseNat y, parseNat m, parseNat dd⟩, k :: acc.2)
      | _ => acc
    | [k, "T", t] =>
      match t.splitOn "-" with
      | [h, m] => (acc.1.setT k ⟨parseNat h, parseNat m, false⟩, k :: acc.2)
      | [h, m, z] => (acc.1.setT k ⟨parseNat h, parseNat m, z == "1"⟩, k :: acc.2)
      | _ => acc
    | _ => acc) ({}, [])

/-- field kinds of a record, from its parse/write tables: name ↦ S/I/D/T -/
def kindOfConv : Conv → Char
  | .numeric | .numericBlankNonPos => 'I'
  | .date | .dateBlankZero => 'D'
  | .time => 'T'
  | _ => 'S'

def fieldKinds (L : RecLayout) : List (String × Char) :=
  L.write.map (fun f => (f.src, kindOfConv f.conv))

def dumpVals (ks : List (String × Char)) (v : Vals) : String :=
  ";".intercalate (ks.map (fun (k, c) =>
    match c with
    | 'I' => s!"{k}:I:{v.i k}"
    | 'D' => let d := v.d k; s!"{k}:D:{d.y}-{d.m}-{d.d}"
    | 'T' => let t := v.t k; s!"{k}:T:{t.h}-{t.m}-{if t.z then 1 else 0}"
    | _ => s!"{k}:S:{toHex (v.s k)}"))

end Icl.Wire
