/-
Line protocol of the API model (driver side): histories in, responses out.  Not part of the model.
IDs are restricted by the harness to [A-Za-z0-9-]; the empty string is written `%`.
-/
import IclModel.Api
import IclModel.Conc
namespace Icl.Api.Wire
open Icl.Api

def unId (s : String) : String := if s == "%" then "" else s
def enId (s : String) : String := if s == "" then "%" else s
def nat (s : String) : Nat := s.toNat?.getD 0

def parseCl (s : String) : Option ACl :=
  match s.splitOn ":" with
  | [i, t] => some ⟨unId i, nat t⟩
  | _ => none

def parseFile (s : String) : Option AFile :=
  match s.splitOn "~" with
  | [i, h, cls, r] =>
    let cl := if cls == "" then [] else (cls.splitOn ",").filterMap parseCl
    some ⟨unId i, nat h, cl, nat r⟩
  | _ => none

def parseOptFile (s : String) : Option AFile := if s == "N" then none else parseFile s

def parseUpload (s : String) : Upload :=
  match s.splitOn ";" with
  | [a, b, c] => ⟨parseOptFile a, parseOptFile b, parseOptFile c⟩
  | _ => ⟨none, none, none⟩

def parseCT : String → CT
  | "json" => .json
  | "mtext" => .multipartText
  | "mother" => .multipartOther
  | _ => .other

def parseAcc : String → Accept
  | "octet" => .octet
  | "text" => .text
  | _ => .other

def parseReq (s : String) : Option Req :=
  match s.splitOn " " with
  | ["list"] => some .list
  | ["c1", ct, u, fr] => some (.createV1 (parseCT ct) (parseUpload u) (unId fr))
  | ["c2", ct, u, fr, a] => some (.createV2 (parseCT ct) (parseUpload u) (unId fr) (parseAcc a))
  | ["get", i] => some (.get (unId i))
  | ["upd", i, h] => some (.updateHeader (unId i) (if h == "N" then none else some (nat h)))
  | ["del", i] => some (.delete (unId i))
  | ["cont", i] => some (.contents (unId i))
  | ["val", i] => some (.validate (unId i))
  | ["add", i, c] => some (.addCL (unId i) (if c == "N" then none else parseCl c))
  | ["rem", i, c] => some (.removeCL (unId i) (unId c))
  | _ => none

def dumpFile (f : AFile) : String :=
  s!"{enId f.id}~{f.hdr}~{",".intercalate (f.cls.map (fun c => s!"{enId c.id}:{c.tok}"))}~{f.rest}"

def dumpResp : Resp → String
  | .notFound => "404"
  | .bad => "400"
  | .serverError => "500"
  | .file c f => s!"file {c} {dumpFile f}"
  | .files fs => "files " ++ "+".intercalate (fs.map dumpFile)
  | .okNull => "oknull"
  | .contents f => s!"contents {dumpFile f}"
  | .validated f => s!"validated {dumpFile f}"
  | .x9 f e => s!"x9 {dumpFile f} {if e then "E" else "A"}"

def dumpStore (s : Store) : String := "+".intercalate (s.map (fun kv => s!"{enId kv.1}={dumpFile kv.2}"))

def parseHistory (s : String) : Option (List Req) :=
  if s == "" || s == "-" then some [] else (s.splitOn "|").mapM parseReq

def parseStore (s : String) : Store :=
  if s == "" || s == "-" then [] else
  (s.splitOn "+").filterMap (fun kv =>
    match kv.splitOn "=" with
    | [k, f] => (parseFile f).map (fun x => (unId k, x))
    | _ => none)

def parseEv (s : String) : Option Ev :=
  if s.startsWith "s" then some (.start (nat (s.drop 1).toString))
  else if s.startsWith "t" then some (.step (nat (s.drop 1).toString))
  else none

def parseSched (s : String) : List Ev :=
  if s == "" || s == "-" then [] else (s.splitOn ",").filterMap parseEv

def dumpTh : Th → String
  | .idle => "idle"
  | .ready => "ready"
  | .locked => "locked"
  | .got none => "got N"
  | .got (some f) => s!"got {dumpFile f}"
  | .committed r => s!"committed {dumpResp r}"
  | .done r => s!"done {dumpResp r}"

def runApiAux : Store → List Req → List String
  | _, [] => []
  | s, r :: rs =>
    let (s', o) := step s r
    (dumpResp o ++ "#" ++ dumpStore s') :: runApiAux s' rs

/-- one entry per request: response # store after the request -/
def runApi (h : String) : String :=
  match parseHistory h with
  | none => "bad-history"
  | some rs => "|".intercalate (runApiAux [] rs)

def runApiFrom (st h : String) : String :=
  match parseHistory h with
  | none => "bad-history"
  | some rs => "|".intercalate (runApiAux (parseStore st) rs)

def runConc (st rq sc : String) : String :=
  match parseHistory rq with
  | none => "bad-requests"
  | some rs =>
    let c := Conc.run rs (Conc.init (parseStore st) rs.length) (parseSched sc)
    "|".intercalate (c.ths.map dumpTh) ++ "\t" ++ dumpStore c.store ++ "\t" ++
      ",".intercalate (c.log.map (fun e => toString e.1)) ++ "\t" ++ (match c.lock with | none => "-" | some i => toString i)

end Icl.Api.Wire
