/-
L8 — JSON schemas as tables: the members of every struct of the library model (what the server
encodes) and of the shipped client models, with the decidable relation "the client model can carry
every value of the server model".
-/
namespace Icl

structure Member where
  go : String
  json : String
  /-- lower-cased JSON name (encoding/json matches member names case-insensitively) -/
  jsonLower : String
  omitEmpty : Bool
  /-- Go type as written -/
  ty : String
  /-- string / int / int32 / int64 / time.Time / []byte / struct -/
  base : String
  /-- slice of structs -/
  list : Bool
  /-- struct name with `[]` and `*` removed -/
  elem : String
deriving DecidableEq, Repr, Inhabited

abbrev Schema := List (String × List Member)

def Schema.get (s : Schema) (n : String) : Option (List Member) := (s.find? (fun p => p.1 == n)).map (·.2)

/-- server struct ↦ client struct -/
def clientName (n : String) : String :=
  match n with
  | "File" => "IclFile" | "FileHeader" => "IclFileHeader" | "FileControl" => "IclFileControl"
  | "CheckDetail" => "Checks" | "ReturnDetail" => "Returns"
  | x => x

/-- can the client member hold every value of the server member?
`wide` = the member is an integer whose X9 column has 10 or more digits -/
def tyCompat (s c : Member) (wide : Bool) : Bool :=
  if s.base == "string" then c.base == "string"
  else if s.base == "int" then c.base == "int64" || c.base == "int" || (c.base == "int32" && !wide)
  else if s.base == "time.Time" then c.base == "time.Time" || c.base == "string"
  else if s.base == "[]byte" then c.base == "string" || c.base == "[]byte"
  else if s.base == "struct" then c.base == "struct" && s.list == c.list && clientName s.elem == c.elem
  else s.ty == c.ty

/-- members of the server schema the client schema cannot carry: (server struct, JSON name, reason) -/
def mismatches (server client : Schema) (widths : List (String × String × Nat)) : List (String × String × String) :=
  server.flatMap (fun (sn, ms) =>
    match client.get (clientName sn) with
    | none => [(sn, "*", "no client struct")]
    | some cms =>
      ms.filterMap (fun m =>
        match cms.find? (fun c => c.jsonLower == m.jsonLower) with
        | none => some (sn, m.json, "no client member")
        | some c =>
          let wide := widths.any (fun w => w.1 == sn && w.2.1 == m.go && w.2.2 ≥ 10)
          if tyCompat m c wide then none else some (sn, m.json, "type " ++ c.ty ++ " cannot hold " ++ m.ty)))

end Icl
