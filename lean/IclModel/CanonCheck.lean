/-
An executable rendition of the hypothesis `CanonFile` / `RecCanon` of the end-to-end C01 theorems
(Props/C01Rec.lean), for the driver: evaluated on the canonical files the harness generates it shows the
hypothesis is met (non-vacuity) and, on files with non-canonical values, that it is not trivially true.
`canonFieldB_sound`: the Boolean field check implies the `Prop` the theorems use.  Equality of record values
(`shaped`, `valid`) is decided on the members the record's layout names (values are functions).
-/
import IclModel.Lemmas.RecCanon
import IclModel.Lemmas.RecCanonE
import IclModel.FileOKCheck
namespace Icl.C01
open Icl Icl.Wire

def anchorB (b : UInt8) : Bool := decide (b.toNat < 128) && !asciiSpace b

def trimmedB (s : Bytes) : Bool :=
  match s, s.reverse with
  | [], _ => true
  | b :: _, b' :: _ => anchorB b && anchorB b'
  | _, _ => false

theorem trimmedB_sound (s : Bytes) (h : trimmedB s = true) : Trimmed s := by
  unfold trimmedB at h
  cases hs : s with
  | nil => exact Or.inl rfl
  | cons b r =>
    cases hr : (b :: r).reverse with
    | nil => simp at hr
    | cons b' r' =>
      rw [hs, hr] at h
      simp only [Bool.and_eq_true, anchorB, decide_eq_true_eq, Bool.not_eq_true'] at h
      exact Or.inr ⟨⟨b, r, rfl, h.1.1, h.1.2⟩, ⟨b', r', hr, h.2.1, h.2.2⟩⟩

def lenOKB (v : Vals) (lf : String) : Bool := decide (0 ≤ parseNum (v.s lf)) && decide (parseNum (v.s lf) < (maxGrow : Int))

def canonFieldB (b64 : Bytes → Option Bytes) (raws : List String) (f : WField) (v : Vals) : Bool :=
  match f.conv with
  | .alpha => if raws.contains f.src then (v.s f.src).length == f.width else trimmedB (v.s f.src) && decide ((v.s f.src).length ≤ f.width)
  | .nbsm => trimmedB (v.s f.src) && decide ((v.s f.src).length ≤ f.width)
  | .zstr => trimmedB (v.s f.src) && (v.s f.src).length == f.width
  | .numeric | .numericBlankNonPos =>
    decide (0 ≤ v.i f.src) && decide (v.i f.src < 9223372036854775808) && decide ((itoa (v.i f.src)).length ≤ f.width)
  | .date | .dateBlankZero => (v.d f.src).valid
  | .time => (v.t f.src).valid && !(v.t f.src).z
  | .alphaVar => lenOKB v f.lenField && trimmedB (v.s f.src) && decide ((v.s f.src).length ≤ widthOfLen v f.lenField)
  | .bytesVar => lenOKB v f.lenField && (v.s f.src).length == widthOfLen v f.lenField
  | .image => lenOKB v f.lenField && (b64 (v.s f.src)).isNone && (v.s f.src).length == widthOfLen v f.lenField
  | _ => true

/-- the Boolean field check implies the canonical-field predicate of the theorems -/
theorem canonFieldB_sound (b64 : Bytes → Option Bytes) (raws : List String) (f : WField) (v : Vals)
    (h : canonFieldB b64 raws f v = true) : CanonField b64 raws f v := by
  unfold canonFieldB at h
  unfold CanonField
  cases hc : f.conv <;> simp only [hc] at h ⊢
  · cases hr : raws.contains f.src
    · simp only [hr, Bool.false_eq_true, if_false, Bool.and_eq_true, decide_eq_true_eq] at h ⊢
      exact ⟨trimmedB_sound _ h.1, h.2⟩
    · simp only [hr, if_true, beq_iff_eq] at h ⊢; exact h
  · simp only [Bool.and_eq_true, decide_eq_true_eq] at h; exact ⟨h.1.1, h.1.2, h.2⟩
  · simp only [Bool.and_eq_true, decide_eq_true_eq] at h; exact ⟨trimmedB_sound _ h.1, h.2⟩
  · simp only [Bool.and_eq_true, beq_iff_eq] at h; exact ⟨trimmedB_sound _ h.1, h.2⟩
  · exact h
  · simp only [Bool.and_eq_true, Bool.not_eq_true'] at h; exact h
  · simp only [Bool.and_eq_true, decide_eq_true_eq] at h; exact ⟨h.1.1, h.1.2, h.2⟩
  · exact h
  · simp only [Bool.and_eq_true, decide_eq_true_eq, lenOKB] at h
    exact ⟨⟨h.1.1.1, h.1.1.2⟩, trimmedB_sound _ h.1.2, h.2⟩
  · simp only [Bool.and_eq_true, decide_eq_true_eq, lenOKB, beq_iff_eq] at h
    exact ⟨⟨h.1.1, h.1.2⟩, h.2⟩
  · simp only [Bool.and_eq_true, decide_eq_true_eq, lenOKB, beq_iff_eq, Option.isNone_iff_eq_none] at h
    exact ⟨⟨h.1.1.1, h.1.1.2⟩, h.1.2, h.2⟩

/-- the decidable part of `RecCanonFrom m k v0 v`; "" = holds, otherwise which part fails -/
def recCanonWhy (m : Model) (k : Kind) (v0 v : Vals) : String :=
  let L := m.layout k
  let line := render m.b64 L.write true v
  if !(v.s "recordType" == k.tag) then "typeSet"
  else match L.write.find? (fun f => (isVarConv f.conv || (assignDsts L.parse).contains f.src) &&
      !canonFieldB m.b64 (rawDsts L.parse) f v) with
  | some f => "field " ++ f.src
  | none =>
    if L.parse.any usesRunes && !(runeCount line == line.length) then "runes"
    else if !sameVals m k (replay m.now L.setType v L.parse v0) v then "shaped"
    else match m.validateK k v with
      | (some fld, _) => "invalid " ++ fld
      | (none, v') => if sameVals m k v' v then "" else "normalised"

def recCanonFirst (m : Model) (k : Kind) (vs : List Vals) : String :=
  match (vs.map (fun v => recCanonWhy m k (tmpl m k) v)).find? (· != "") with
  | some w => k.goName ++ ": " ++ w
  | none => ""

def firstNonEmpty (l : List String) : String := (l.find? (· != "")).getD ""

def itemCanonWhy (m : Model) (isCheck : Bool) (it : Item Vals) : String :=
  firstNonEmpty [
    recCanonFirst m (if isCheck then .checkDetail else .returnDetail) [it.detail],
    recCanonFirst m (if isCheck then .cdAddA else .rdAddA) it.addA,
    recCanonFirst m (if isCheck then .cdAddB else .rdAddB) it.addB,
    recCanonFirst m (if isCheck then .cdAddC else .rdAddC) it.addC,
    recCanonFirst m .rdAddD it.addD, recCanonFirst m .ivDetail it.ivDetail, recCanonFirst m .ivData it.ivData,
    recCanonFirst m .ivAnalysis it.ivAnalysis,
    if isCheck && !it.addD.isEmpty then "check with addendum D" else "",
    if it.ivData.length ≤ it.ivDetail.length && it.ivAnalysis.length ≤ it.ivDetail.length then "" else "image view counts"]

def bundleCanonWhy (m : Model) (b : Bundle Vals) : String :=
  firstNonEmpty [
    (match b.header with | some h => recCanonFirst m .bundleHeader [h] | none => "bundle header missing"),
    (match b.control with | some c => recCanonFirst m .bundleControl [c] | none => "bundle control missing"),
    if b.checks.isEmpty || b.returns.isEmpty then "" else "mixed bundle",
    (match bundleValidate b with | none => "" | some f => "bundleValidate " ++ f),
    firstNonEmpty (b.checks.map (itemCanonWhy m true)), firstNonEmpty (b.returns.map (itemCanonWhy m false))]

def cashLetterCanonWhy (m : Model) (cl : CashLetter Vals) : String :=
  firstNonEmpty [
    (match cl.header with | some h => recCanonFirst m .cashLetterHeader [h] | none => "cash letter header missing"),
    (match cl.control with | some c => recCanonFirst m .cashLetterControl [c] | none => "cash letter control missing"),
    if cl.rns.all (·.isSome) then "" else "nil summary",
    (match cashLetterValidate m cl with | none => "" | some (_, f) => "cashLetterValidate " ++ f),
    recCanonFirst m .creditItem cl.creditItems, recCanonFirst m .credit cl.credits,
    recCanonFirst m .rns (cl.rns.filterMap id), firstNonEmpty (cl.bundles.map (bundleCanonWhy m))]

/-- the decidable part of `CanonFile m f`: "" when it holds -/
def canonFileWhy (m : Model) (f : File Vals) : String :=
  firstNonEmpty [
    recCanonFirst m .fileHeader [f.header],
    (let w := recCanonWhy m .fileControl {} f.control; if w == "" then "" else "FileControl: " ++ w),
    firstNonEmpty (f.cashLetters.map (cashLetterCanonWhy m))]


/-! ### the additional hypothesis of the EBCDIC theorems (`CanonFileE`): text the code page carries -/

def safeWhy (m : Model) (krs : List (Kind × Option Vals)) : String :=
  match krs.find? (fun kr => match kr.2 with
      | some v =>
        if kr.1 == .ivData then !(render m.b64 (m.layout .ivData).write false v).all (safeB m.cm)
        else !(lineOf m kr.1 (some v)).all (safeB m.cm)
      | none => true) with
  | none => ""
  | some kr => kr.1.goName ++ ": text outside the code page"

/-- the decidable part of `CanonFileE m f`: "" when it holds -/
def canonFileEWhy (m : Model) (f : File Vals) : String :=
  firstNonEmpty [canonFileWhy m f, safeWhy m f.flatten]

end Icl.C01
