/-
Run-time support of the record handlers translated from reader.go (Gen/ReaderT.lean): what the small container
methods the handlers call do on the reader state of the model.  Each definition mirrors one Go method or one
assignment; the translator checks that the Go method has the one-line body assumed here.
-/
import IclModel.Tree
namespace Icl.ReaderRT
open Icl

/-- `r.currentCashLetter.currentBundle.BundleHeader` (nil when there is no current bundle) -/
def bundleHeader (s : RState) : Option Vals := s.curBundle.bind (·.header)

/-- `r.currentCashLetter.currentBundle.BundleControl` -/
def bundleControl (s : RState) : Option Vals := s.curBundle.bind (·.control)

/-- `(FileControl{}) != r.File.Control`: a control line has been parsed into it (Parse sets the record type) -/
def controlSet (s : RState) : Bool := !(s.control.s "recordType").isEmpty

/-- `errors.New(msg)` returned as it is (not wrapped by `r.error`) -/
def plainErr (s : RState) (msg : String) : RErr :=
  { wrapped := false, line := s.lineNum, record := s.recordName, cls := .plain, field := msg }

/-- `r.File.Header = fh`; the model also remembers whether a header line of full length has been parsed into it -/
def setHeader (s : RState) (decoded : Bytes) (fh : Vals) : RState :=
  { s with header := fh, headerUntouched := s.headerUntouched && !(runeCount decoded == 80) }

/-- `cl := NewCashLetter(clh); r.addCurrentCashLetter(cl)`: fresh control, everything else empty -/
def newCashLetter (m : Model) (s : RState) (clh : Vals) : RState :=
  { s with cur := { header := some clh, control := some ((m.layout .cashLetterControl).new m.now) },
           curBundle := none, curRNS := none }

/-- `bundle := NewBundle(bh); r.addCurrentBundle(bundle)` -/
def newBundle (m : Model) (s : RState) (bh : Vals) : RState :=
  { s with curBundle := some { header := some bh, control := some ((m.layout .bundleControl).new m.now) } }

/-- `currentBundle.AddCheckDetail(cd)` -/
def appendItem_checks (s : RState) (v : Vals) : RState :=
  { s with curBundle := s.curBundle.map (fun b => { b with checks := b.checks ++ [{ detail := v }] }) }

/-- `currentBundle.AddReturnDetail(rd)` -/
def appendItem_returns (s : RState) (v : Vals) : RState :=
  { s with curBundle := s.curBundle.map (fun b => { b with returns := b.returns ++ [{ detail := v }] }) }

/-- the bundle control parsed in place -/
def set_bundleControl (s : RState) (c : Vals) : RState :=
  { s with curBundle := s.curBundle.map (fun b => { b with control := some c }) }

/-- the cash letter control parsed in place -/
def set_cashLetterControl (s : RState) (c : Vals) : RState :=
  { s with cur := { s.cur with control := some c } }

/-- `currentBundle.Validate()` -/
def validateCurBundle (s : RState) : Option String := s.curBundle.bind bundleValidate

/-- `for _, w := range ws { ... }` threading an offset; the body either returns (`inl`) or gives the next offset (`inr`) -/
def forWidths (ws : List Nat) (st : Nat) (f : Nat → Nat → Sum Nat Nat) : Sum Nat Nat :=
  match ws with
  | [] => .inr st
  | w :: r =>
    match f w st with
    | .inl x => .inl x
    | .inr st' => forWidths r st' f

end Icl.ReaderRT
