/-
Flattening of a validation statement tree into its rejection sites, each with the path condition
under which it is reached — the normal form in which the validation rules are specified
(Spec/Rules.lean) and compared with the regenerated trees.
-/
import IclModel.Rules
namespace Icl

/-- one `return &FieldError{FieldName: f}` (or one FRB normalising assignment) and the conditions,
with polarity, of the enclosing `if`s -/
structure Site where
  field : String
  path : List (BExp × Bool)
  /-- `some x`: the site is the assignment `rec.field = x`, not a rejection -/
  assign : Option Bytes := none
deriving DecidableEq, Repr, Inhabited

/-- sites in evaluation order -/
def sitesAux : Stmt → List (BExp × Bool) → List Site
  | .skip, _ => []
  | .seq a b, p => sitesAux a p ++ sitesAux b p
  | .ite c a b, p => sitesAux a (p ++ [(c, true)]) ++ sitesAux b (p ++ [(c, false)])
  | .reject f, p => [{ field := f, path := p }]
  | .assign f x, p => [{ field := f, path := p, assign := some x }]
  | .opaque, p => [{ field := "<opaque>", path := p }]

def sites (s : Stmt) : List Site := sitesAux s []

def Site.fires (cx : VCtx) (v : Vals) (s : Site) : Bool :=
  s.path.all (fun p => evalB cx v p.1 == p.2)

/-- evaluate a flattened rule list: sites in order; a firing assignment updates the record, a firing
rejection stops -/
def evalSites (cx : VCtx) : List Site → Vals → Option String × Vals
  | [], v => (none, v)
  | s :: r, v =>
    if s.fires cx v then
      match s.assign with
      | some x => evalSites cx r (v.setS s.field x)
      | none => (some s.field, v)
    else evalSites cx r v

end Icl
