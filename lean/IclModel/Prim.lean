/-
L0 — primitives of converters.go / validators.go and of the Go library functions they lean on
(strconv.Atoi/Itoa, strings.TrimSpace, utf8.RuneCountInString, time.Format/Parse for the two
layouts used).  Core Lean only: this file is imported by the compiled driver.

Everything here is *modelled, not verified*: it is tied to the real functions by the converter
correspondence stream (harness `conv` ops), see DESIGN.md §6.
-/
namespace Icl

abbrev Bytes := List UInt8

def SP : UInt8 := 0x20
def ZERO : UInt8 := 0x30
/-- validators.go `maxBufferGrowth` -/
def maxGrow : Nat := 100000000

/-- validators.go `validSizeInt` -/
def validSizeInt (n : Int) : Bool := decide (0 < n) && decide (n < (maxGrow : Int))

/-! ### converters.go: the four padding/cutting converters -/

/-- `alphaField`: left-justified, blank filled, tail cut. -/
def alphaField (s : Bytes) (w : Nat) : Bytes :=
  if w < s.length then s.take w
  else if w - s.length < maxGrow then s ++ List.replicate (w - s.length) SP else []

/-- `nbsmField`: right-justified, blank filled, head cut. -/
def nbsmField (s : Bytes) (w : Nat) : Bytes :=
  if w < s.length then s.drop (s.length - w)
  else if w - s.length < maxGrow then List.replicate (w - s.length) SP ++ s else []

/-- `stringField`: zero filled on the left, tail cut. -/
def zstrField (s : Bytes) (w : Nat) : Bytes :=
  if w < s.length then s.take w
  else if w - s.length < maxGrow then List.replicate (w - s.length) ZERO ++ s else []

def digitByte (d : Nat) : UInt8 := UInt8.ofNat (48 + d % 10)

/-- decimal digits of a natural number, most significant first (`strconv.Itoa` on n ≥ 0) -/
def natDigits (n : Nat) : Bytes :=
  if h : n < 10 then [digitByte n] else natDigits (n / 10) ++ [digitByte (n % 10)]
decreasing_by omega

/-- `strconv.Itoa` -/
def itoa (n : Int) : Bytes :=
  if n < 0 then 0x2D :: natDigits n.natAbs else natDigits n.natAbs

/-- `numericField`: right-justified, zero filled, head cut. -/
def numericField (n : Int) (w : Nat) : Bytes :=
  let s := itoa n
  if w < s.length then s.drop (s.length - w)
  else if w - s.length < maxGrow then List.replicate (w - s.length) ZERO ++ s else []

/-! ### strings.TrimSpace (exact: ASCII and Unicode White_Space, byte level) -/

def asciiSpace (b : UInt8) : Bool :=
  b == 0x20 || b == 0x09 || b == 0x0A || b == 0x0B || b == 0x0C || b == 0x0D

/-- If `s` starts with the UTF-8 encoding of a White_Space rune, the rest after it. -/
def stripSpacePrefix : Bytes → Option Bytes
  | b :: r =>
    if asciiSpace b then some r
    else match b, r with
      | 0xC2, b1 :: r1 => if b1 == 0x85 || b1 == 0xA0 then some r1 else none
      | 0xE1, 0x9A :: 0x80 :: r2 => some r2
      | 0xE2, 0x80 :: b2 :: r2 =>
          if (0x80 ≤ b2 && b2 ≤ 0x8A) || b2 == 0xA8 || b2 == 0xA9 || b2 == 0xAF then some r2 else none
      | 0xE2, 0x81 :: 0x9F :: r2 => some r2
      | 0xE3, 0x80 :: 0x80 :: r2 => some r2
      | _, _ => none
  | [] => none

/-- Same, for the *reversed* string (i.e. a White_Space suffix of the original). -/
def stripSpaceSuffixRev : Bytes → Option Bytes
  | b :: r =>
    if asciiSpace b then some r
    else match b, r with
      | 0x85, 0xC2 :: r1 => some r1
      | 0xA0, 0xC2 :: r1 => some r1
      | 0x80, 0x9A :: 0xE1 :: r2 => some r2
      | 0x80, 0x80 :: 0xE3 :: r2 => some r2
      | 0x9F, 0x81 :: 0xE2 :: r2 => some r2
      | b2, 0x80 :: 0xE2 :: r2 =>
          if (0x80 ≤ b2 && b2 ≤ 0x8A) || b2 == 0xA8 || b2 == 0xA9 || b2 == 0xAF then some r2 else none
      | _, _ => none
  | [] => none

def trimLeftFuel : Nat → Bytes → Bytes
  | 0, s => s
  | n + 1, s => match stripSpacePrefix s with
    | some r => trimLeftFuel n r
    | none => s

def trimRightRevFuel : Nat → Bytes → Bytes
  | 0, s => s
  | n + 1, s => match stripSpaceSuffixRev s with
    | some r => trimRightRevFuel n r
    | none => s

def trimLeft (s : Bytes) : Bytes := trimLeftFuel s.length s
def trimRight (s : Bytes) : Bytes := (trimRightRevFuel s.length s.reverse).reverse
/-- `strings.TrimSpace` -/
def trimSpace (s : Bytes) : Bytes := trimRight (trimLeft s)

/-! ### strconv.Atoi, as used by `parseNumField` (error ⇒ the value Atoi returns alongside it) -/

def isDigit (b : UInt8) : Bool := 0x30 ≤ b && b ≤ 0x39

def digitsVal (s : Bytes) : Nat := s.foldl (fun acc b => acc * 10 + (b.toNat - 48)) 0

def maxInt64 : Int := 9223372036854775807
def minInt64 : Int := -9223372036854775808

/-- outcome of `strconv.ParseUint`'s digit loop (base 10, 64 bits): the loop stops at the first byte that
is not a digit (syntax error) or at the first digit that overflows uint64 (range error) - whichever
comes first, so a 20-digit number followed by garbage is a range error -/
inductive AScan | syntax | range | val (n : Nat)

def maxUint64 : Nat := 18446744073709551615

def scanU : Bytes → Nat → AScan
  | [], n => .val n
  | c :: r, n =>
    if !isDigit c then .syntax
    else if n ≥ maxUint64 / 10 + 1 then .range
    else
      let n1 := n * 10 + (c.toNat - 48)
      if n1 > maxUint64 then .range else scanU r n1

/-- value returned by `strconv.Atoi` alongside its error (0 on a syntax error, saturated on a range
error); Atoi's fast path for short strings agrees with ParseInt, which is what is modelled -/
def atoi (s : Bytes) : Int :=
  let (neg, ds) := match s with
    | 0x2D :: r => (true, r)
    | 0x2B :: r => (false, r)
    | _ => (false, s)
  if ds.isEmpty then 0
  else
    match scanU ds 0 with
    | .syntax => 0
    | .range => if neg then minInt64 else maxInt64
    | .val un =>
      if neg then (if un > 9223372036854775808 then minInt64 else -(un : Int))
      else (if un ≥ 9223372036854775808 then maxInt64 else (un : Int))

/-- converters.go `parseNumField` -/
def parseNum (s : Bytes) : Int := atoi (trimSpace s)
/-- converters.go `parseStringField` -/
def parseStr (s : Bytes) : Bytes := trimSpace s

/-! ### utf8.RuneCountInString / utf8.DecodeRune -/

def isCont (b : UInt8) : Bool := 0x80 ≤ b && b ≤ 0xBF

/-- `(rune, size)` of the first rune of a non-empty string; invalid ⇒ (0xFFFD, 1). -/
def decodeRune : Bytes → Nat × Nat
  | [] => (0xFFFD, 0)
  | c :: r =>
    if c < 0x80 then (c.toNat, 1)
    else if 0xC2 ≤ c && c ≤ 0xDF then
      match r with
      | b1 :: _ => if isCont b1 then ((c.toNat - 0xC0) * 64 + (b1.toNat - 0x80), 2) else (0xFFFD, 1)
      | _ => (0xFFFD, 1)
    else if 0xE0 ≤ c && c ≤ 0xEF then
      let lo : UInt8 := if c == 0xE0 then 0xA0 else 0x80
      let hi : UInt8 := if c == 0xED then 0x9F else 0xBF
      match r with
      | b1 :: b2 :: _ =>
        if lo ≤ b1 && b1 ≤ hi && isCont b2 then
          ((c.toNat - 0xE0) * 4096 + (b1.toNat - 0x80) * 64 + (b2.toNat - 0x80), 3) else (0xFFFD, 1)
      | _ => (0xFFFD, 1)
    else if 0xF0 ≤ c && c ≤ 0xF4 then
      let lo : UInt8 := if c == 0xF0 then 0x90 else 0x80
      let hi : UInt8 := if c == 0xF4 then 0x8F else 0xBF
      match r with
      | b1 :: b2 :: b3 :: _ =>
        if lo ≤ b1 && b1 ≤ hi && isCont b2 && isCont b3 then
          ((c.toNat - 0xF0) * 262144 + (b1.toNat - 0x80) * 4096 + (b2.toNat - 0x80) * 64 + (b3.toNat - 0x80), 4)
        else (0xFFFD, 1)
      | _ => (0xFFFD, 1)
    else (0xFFFD, 1)

/-- list of `(rune, size)` of a string; fuel = length. -/
def runesFuel : Nat → Bytes → List (Nat × Nat)
  | 0, _ => []
  | _, [] => []
  | n + 1, s =>
    let (r, sz) := decodeRune s
    (r, sz) :: runesFuel n (s.drop (if sz == 0 then 1 else sz))

def runes (s : Bytes) : List (Nat × Nat) := runesFuel s.length s
/-- `utf8.RuneCountInString` -/
def runeCount (s : Bytes) : Nat := (runes s).length

/-- `!utf8.FullRune(s)`: `s` is a strict prefix of a possibly-valid multi-byte encoding. -/
def incompleteRune : Bytes → Bool
  | [] => true
  | c :: r =>
    if c < 0x80 then false
    else if 0xC2 ≤ c && c ≤ 0xDF then r.isEmpty
    else if 0xE0 ≤ c && c ≤ 0xEF then
      let lo : UInt8 := if c == 0xE0 then 0xA0 else 0x80
      let hi : UInt8 := if c == 0xED then 0x9F else 0xBF
      match r with
      | [] => true
      | [b1] => lo ≤ b1 && b1 ≤ hi
      | _ => false
    else if 0xF0 ≤ c && c ≤ 0xF4 then
      let lo : UInt8 := if c == 0xF0 then 0x90 else 0x80
      let hi : UInt8 := if c == 0xF4 then 0x8F else 0xBF
      match r with
      | [] => true
      | [b1] => lo ≤ b1 && b1 ≤ hi
      | [b1, b2] => lo ≤ b1 && b1 ≤ hi && isCont b2
      | _ => false
    else false

/-! ### dates and times (`time.Format` / `time.Parse` for layouts "20060102" and "1504") -/

structure Date where
  y : Nat
  m : Nat
  d : Nat
deriving DecidableEq, Repr, Inhabited

/-- Go's zero `time.Time` (January 1, year 1). -/
def Date.zero : Date := ⟨1, 1, 1⟩
def Date.isZero (t : Date) : Bool := t == Date.zero

def isLeap (y : Nat) : Bool := y % 4 == 0 && (y % 100 != 0 || y % 400 == 0)
def daysIn (y m : Nat) : Nat :=
  if m == 2 then (if isLeap y then 29 else 28)
  else if m == 4 || m == 6 || m == 9 || m == 11 then 30 else 31
/-- what `time.Parse("20060102", …)` can return and `time.Format` renders in 8 columns -/
def Date.valid (t : Date) : Bool :=
  t.y ≤ 9999 && 1 ≤ t.m && t.m ≤ 12 && 1 ≤ t.d && t.d ≤ daysIn t.y t.m

/-- `k` decimal digits of `n`, most significant first, zero padded (n mod 10^k) -/
def digitsW : Nat → Nat → Bytes
  | 0, _ => []
  | k + 1, n => digitsW k (n / 10) ++ [digitByte (n % 10)]

/-- `formatYYYYMMDDDate` (years 0..9999) -/
def fmtDate (t : Date) : Bytes := digitsW 4 t.y ++ digitsW 2 t.m ++ digitsW 2 t.d

/-- `parseYYYYMMDDDate`: zero value on any parse error -/
def parseDate (s : Bytes) : Date :=
  if s.length == 8 && s.all isDigit then
    let t : Date := ⟨digitsVal (s.take 4), digitsVal ((s.drop 4).take 2), digitsVal (s.drop 6)⟩
    if t.valid then t else Date.zero
  else Date.zero

/-- an hour/minute `time.Time` as produced by `time.Parse("1504", …)` (year 0, so never the zero
`time.Time`), or Go's zero `time.Time` (`z = true`), which is what a failed parse leaves behind -/
structure HM where
  h : Nat
  m : Nat
  z : Bool := false
deriving DecidableEq, Repr, Inhabited

def HM.zero : HM := ⟨0, 0, true⟩
def HM.isZero (t : HM) : Bool := t.z
def HM.valid (t : HM) : Bool := t.h ≤ 23 && t.m ≤ 59
/-- `formatSimpleTime` -/
def fmtTime (t : HM) : Bytes := digitsW 2 t.h ++ digitsW 2 t.m
/-- `parseSimpleTime` -/
def parseTime (s : Bytes) : HM :=
  if s.length == 4 && s.all isDigit then
    let t : HM := ⟨digitsVal (s.take 2), digitsVal (s.drop 2), false⟩
    if t.valid then t else HM.zero
  else HM.zero

/-! ### character classes of validators.go (byte level: any byte ≥ 0x80 fails every class) -/

def isUpper (b : UInt8) : Bool := 0x41 ≤ b && b ≤ 0x5A
def isLower (b : UInt8) : Bool := 0x61 ≤ b && b ≤ 0x7A
/-- `alphanumericRegex = [^ a-zA-Z0-9]` finds nothing -/
def clsAlnum (b : UInt8) : Bool := b == 0x20 || isUpper b || isLower b || isDigit b
/-- `numericRegex = [^ 0-9]` -/
def clsNumeric (b : UInt8) : Bool := b == 0x20 || isDigit b

end Icl
