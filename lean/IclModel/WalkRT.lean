/-
Run-time support of the writer walk translated from writer.go (Gen/Walk.lean): the walk produces the
sequence of records handed to `writeLine`, `none` when a method returns an error (or an index is out of range).
-/
import IclModel.Tree
namespace Icl.WalkRT
open Icl

abbrev Out := Option (List (Kind × Option Vals))

/-- `if err := A; err != nil { return err }; B` -/
def seq (a b : Out) : Out :=
  match a with
  | none => none
  | some x => match b with
    | none => none
    | some y => some (x ++ y)

/-- `w.writeLine(r)` (a nil record pointer is still handed to writeLine) -/
def line (r : Kind × Option Vals) : Out := some [r]

/-- `w.writeLine(&xs[i])`: an index outside the slice panics -/
def lineIdx (r : Kind × Option Vals) : Out :=
  match r.2 with
  | some _ => some [r]
  | none => none

/-- `for _, x := range l { body }` -/
def forEach {α : Type} (l : List α) (f : α → Out) : Out :=
  match l with
  | [] => some []
  | x :: r => seq (f x) (forEach r f)

/-- `for i := range xs { body }` with `n = len(xs)` -/
def forIdx (n : Nat) (f : Int → Out) : Out := forEach (List.range n) (fun i => f (i : Int))

end Icl.WalkRT
