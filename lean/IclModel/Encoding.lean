/-
L2/L3 — character sets and framing: the EBCDIC transliteration of gdamore/encoding (tables
regenerated in Gen/Cp037.lean) as used through x/text's `Encoder.String` / `Decoder.String`, newline
framing (`bufio.ScanLines`) and 4-byte big-endian length-prefix framing.
-/
import IclModel.Prim
namespace Icl

/-- `utf8.EncodeRune` (0xFFFD for surrogates and out-of-range values) -/
def utf8Encode (r : Nat) : Bytes :=
  if r < 0x80 then [UInt8.ofNat r]
  else if r < 0x800 then [UInt8.ofNat (0xC0 + r / 64), UInt8.ofNat (0x80 + r % 64)]
  else if (0xD800 ≤ r ∧ r ≤ 0xDFFF) ∨ r > 0x10FFFF then [0xEF, 0xBF, 0xBD]
  else if r < 0x10000 then
    [UInt8.ofNat (0xE0 + r / 4096), UInt8.ofNat (0x80 + r / 64 % 64), UInt8.ofNat (0x80 + r % 64)]
  else
    [UInt8.ofNat (0xF0 + r / 262144), UInt8.ofNat (0x80 + r / 4096 % 64), UInt8.ofNat (0x80 + r / 64 % 64),
      UInt8.ofNat (0x80 + r % 64)]

/-- a character map: rune per byte, replacement byte -/
structure Charmap where
  dec : List Nat
  repl : UInt8

/-- `Charmap.NewDecoder().String`: every byte becomes the UTF-8 form of its rune (total) -/
def Charmap.decode (cm : Charmap) (s : Bytes) : Bytes :=
  s.flatMap (fun b => utf8Encode (cm.dec.getD b.toNat 0xFFFD))

/-- byte for a rune: the LAST table index mapping to it (the map is filled in ascending order), never
for 0xFFFD -/
def Charmap.encRune (cm : Charmap) (r : Nat) : UInt8 :=
  if r == 0xFFFD then cm.repl else
  match (List.range 256).reverse.find? (fun i => cm.dec.getD i 0xFFFD == r) with
  | some i => UInt8.ofNat i
  | none => cm.repl

/-- `Charmap.NewEncoder().String`: rune by rune; a string that ends inside a multi-byte sequence is
an error (`transform.ErrShortSrc`), any other invalid byte becomes the replacement byte -/
def Charmap.encodeFuel (cm : Charmap) : Nat → Bytes → Option Bytes
  | 0, _ => some []
  | _, [] => some []
  | n + 1, s =>
    let (r, sz) := decodeRune s
    if r == 0xFFFD && sz == 1 && incompleteRune s then none
    else (cm.encodeFuel n (s.drop sz)).map (fun t => cm.encRune r :: t)

def Charmap.encode (cm : Charmap) (s : Bytes) : Option Bytes := cm.encodeFuel s.length s

/-! ### framing -/

/-- 4-byte big-endian length -/
def be32 (n : Nat) : Bytes :=
  [UInt8.ofNat (n / 16777216 % 256), UInt8.ofNat (n / 65536 % 256), UInt8.ofNat (n / 256 % 256), UInt8.ofNat (n % 256)]

def be32Val : Bytes → Nat
  | [a, b, c, d] => a.toNat * 16777216 + b.toNat * 65536 + c.toNat * 256 + d.toNat
  | _ => 0

/-- split a length-prefixed stream completely available in memory (the chunk-independent reference
of `scanVariableLengthLines`); `none` = `io.ErrUnexpectedEOF` after the lines already split -/
def splitLPFuel : Nat → Bytes → List Bytes × Bool
  | 0, _ => ([], true)
  | _, [] => ([], true)
  | n + 1, s =>
    if s.length < 4 then ([], false)
    else
      let len := be32Val (s.take 4)
      if 4 + len ≤ s.length then
        let (ls, ok) := splitLPFuel n (s.drop (4 + len))
        ((s.drop 4).take len :: ls, ok)
      else ([], false)

/-- (lines, clean end) -/
def splitLP (s : Bytes) : List Bytes × Bool := splitLPFuel (s.length + 1) s

def dropCR (l : Bytes) : Bytes :=
  match l.reverse with
  | 0x0D :: r => r.reverse
  | _ => l

/-- `bufio.ScanLines` over the whole input -/
def splitNLAux : Bytes → Bytes → List Bytes
  | [], acc => if acc.isEmpty then [] else [dropCR acc.reverse]
  | 0x0A :: r, acc => dropCR acc.reverse :: splitNLAux r []
  | b :: r, acc => splitNLAux r (b :: acc)

def splitNL (s : Bytes) : List Bytes := splitNLAux s []

end Icl
