/-
L6/L7: the HTTP API (internal/files/files.go, internal/files/v2/files.go, internal/storage/storage.go).

Files are abstract on this level: a stored file is its ID, a header token, the list of its cash
letters (ID + content token) and a token for everything else.  What the *library* makes of an
uploaded payload (FileFromJSON / Reader under the handler's options) is part of the request
(`Upload`): the theorems quantify over it, the correspondence harness computes it with the real
library.  Whether Writer.Write / File.Create accept a stored file is a parameter (`Lib`).

The repository is transcribed operation by operation (GetFile scans the *values* for a matching ID,
SaveFile stores under `file.ID` and refuses the empty ID, ...).  A handler is a `Prog`: a tree of
atomic repository actions with the local computation in the continuations - sequential execution
(`Prog.run`) gives the request/response semantics (C11, C13, C14), stepping several programs under a
schedule gives the concurrent one (C12).  Core-only.
-/
namespace Icl.Api

structure ACl where
  id : String
  tok : Nat
deriving DecidableEq, Repr, Inhabited

structure AFile where
  id : String
  hdr : Nat
  cls : List ACl
  rest : Nat
deriving DecidableEq, Repr, Inhabited

/-! ### repository (storage.go) -/

/-- the Go map `files map[string]*File` as an association list; iteration order is unspecified in Go,
so `GetFiles` results are compared up to permutation by the harness -/
abbrev Store := List (String × AFile)

/-- `r.files[file.ID] = file` -/
def put : Store → String → AFile → Store
  | [], k, f => [(k, f)]
  | (k', f') :: r, k, f => if k' = k then (k, f) :: r else (k', f') :: put r k f

/-- GetFile: `for i := range r.files { if r.files[i].ID == fileId { copy } }` - a scan over the values -/
def getFile (s : Store) (id : String) : Option AFile :=
  (s.find? (fun kv => kv.2.id = id)).map (·.2)

def getFiles (s : Store) : List AFile := s.map (·.2)

/-- SaveFile: refuses the empty ID -/
def saveFile (s : Store) (f : AFile) : Option Store :=
  if f.id = "" then none else some (put s f.id f)

/-- DeleteFile: refuses the empty ID, `delete(r.files, fileId)` -/
def deleteFile (s : Store) (id : String) : Option Store :=
  if id = "" then none else some (s.filter (fun kv => kv.1 ≠ id))

/-! ### responses -/

inductive Accept | octet | text | other
deriving DecidableEq, Repr, Inhabited

inductive Resp
  | notFound                                   -- 404
  | bad                                        -- 400 + JSON `{"error": ...}`
  | serverError                                -- 5xx
  | file (code : Nat) (f : AFile)              -- code + JSON of the file
  | files (fs : List AFile)                    -- 200 + JSON array
  | okNull                                     -- 200 + `{"error": null}`
  | contents (f : AFile)                       -- 200 + EBCDIC length-prefixed rendering if the writer accepts f, else 400
  | validated (f : AFile)                      -- 200 `{"error": null}` if File.Create accepts f, else 400
  | x9 (f : AFile) (ebcdic : Bool)             -- 201 + the rendering (v2, Accept: octet-stream / text/plain)
deriving DecidableEq, Repr, Inhabited

/-- the library's verdicts on stored files -/
structure Lib where
  renderOk : AFile → Bool
  createOk : AFile → Bool

def Resp.status (lib : Lib) : Resp → Nat
  | .notFound => 404
  | .bad => 400
  | .serverError => 500
  | .file c _ => c
  | .files _ => 200
  | .okNull => 200
  | .contents f => if lib.renderOk f then 200 else 400
  | .validated f => if lib.createOk f then 200 else 400
  | .x9 _ _ => 201

/-! ### requests -/

inductive CT
  | json            -- Content-Type contains application/json
  | multipartText   -- multipart/form-data, part "file" has Content-Type text/plain
  | multipartOther  -- multipart/form-data, part "file" with any other Content-Type
  | other           -- anything else, or missing
deriving DecidableEq, Repr, Inhabited

/-- what the library returns for the uploaded bytes under each decoder a handler may choose
(`none` = the library rejects them; for multipart requests: the bytes of the part "file", `none` when
the form or the part cannot be read) -/
structure Upload where
  asJSON : Option AFile
  asX9E : Option AFile      -- Reader: variable length + EBCDIC
  asX9A : Option AFile      -- Reader: variable length, ASCII
deriving DecidableEq, Repr, Inhabited

inductive Req
  | list
  | createV1 (ct : CT) (u : Upload) (fresh : String)
  | createV2 (ct : CT) (u : Upload) (fresh : String) (acc : Accept)
  | get (id : String)
  | updateHeader (id : String) (hdr : Option Nat)
  | delete (id : String)
  | contents (id : String)
  | validate (id : String)
  | addCL (id : String) (cl : Option ACl)
  | removeCL (id : String) (cid : String)
deriving DecidableEq, Repr, Inhabited

/-- an upload without an ID gets a fresh one -/
def withId (f : AFile) (fresh : String) : AFile := if f.id = "" then { f with id := fresh } else f

/-- v1: JSON when the content type says so, otherwise the body is read as EBCDIC + variable length -/
def v1Parsed (ct : CT) (u : Upload) : Option AFile := if ct = .json then u.asJSON else u.asX9E

/-- v2: JSON, or a multipart form whose part "file" is ASCII (`text/plain`) or EBCDIC (anything else) -/
def v2Parsed (ct : CT) (u : Upload) : Option AFile :=
  match ct with
  | .json => u.asJSON
  | .multipartText => u.asX9A
  | .multipartOther => u.asX9E
  | .other => none

def v2Resp (f : AFile) : Accept → Resp
  | .octet => .x9 f true
  | .text => .x9 f false
  | .other => .file 201 f

/-! ### handlers as programs over atomic repository actions -/

inductive Prog where
  | ret (r : Resp)
  | getFiles (k : List AFile → Prog)
  | getFile (id : String) (k : Option AFile → Prog)
  | save (f : AFile) (k : Bool → Prog)
  | delete (id : String) (k : Bool → Prog)
  | lock (k : Prog)        -- acquire the handlers' update mutex (files.go `updateMu`)
  | unlock (k : Prog)

/-- sequential execution: the whole handler runs against the store (lock/unlock are no-ops) -/
def Prog.run : Prog → Store → Store × Resp
  | .ret r, s => (s, r)
  | .getFiles k, s => (k (Api.getFiles s)).run s
  | .getFile id k, s => (k (Api.getFile s id)).run s
  | .save f k, s =>
    match saveFile s f with
    | some s' => (k true).run s'
    | none => (k false).run s
  | .delete id k, s =>
    match deleteFile s id with
    | some s' => (k true).run s'
    | none => (k false).run s
  | .lock k, s => k.run s
  | .unlock k, s => k.run s

/-- the router: `{fileId}` / `{cashLetterId}` never match an empty segment -/
def routed (ids : List String) (p : Prog) : Prog :=
  if ids.any (· = "") then .ret .notFound else p

def hList : Prog := .getFiles fun fs => .ret (.files fs)

/-- v1 `POST /files/create`: JSON when the content type says so, otherwise the body is read as
EBCDIC + variable length; an upload without an ID gets a fresh one; a JSON upload keeps its own ID
(and replaces the file stored under it) -/
def hCreateV1 (ct : CT) (u : Upload) (fresh : String) : Prog :=
  match v1Parsed ct u with
  | none => .ret .bad
  | some f =>
    .lock (.save (withId f fresh) fun ok => .unlock (.ret (if ok then .file 201 (withId f fresh) else .bad)))

/-- v2 `POST /v2/files`: JSON, or a multipart form whose part "file" is ASCII (`text/plain`) or
EBCDIC (anything else); the stored file always gets a fresh ID -/
def hCreateV2 (ct : CT) (u : Upload) (fresh : String) (acc : Accept) : Prog :=
  match v2Parsed ct u with
  | none => .ret .bad
  | some f =>
    .save { f with id := fresh } fun ok =>
      .ret (if ok then v2Resp { f with id := fresh } acc else .serverError)

def hGet (id : String) : Prog :=
  routed [id] (.getFile id fun
    | none => .ret .notFound
    | some f => .ret (.file 200 f))

def hUpdateHeader (id : String) (hdr : Option Nat) : Prog :=
  routed [id] (match hdr with
    | none => .ret .bad
    | some h =>
      .lock (.getFile id fun
        | none => .unlock (.ret .notFound)
        | some f =>
          let f' := { f with hdr := h }
          .save f' fun ok => .unlock (.ret (if ok then .file 201 f' else .bad))))

def hDelete (id : String) : Prog :=
  routed [id] (.lock (.getFile id fun
    | none => .unlock (.ret .notFound)
    | some _ => .delete id fun ok => .unlock (.ret (if ok then .okNull else .bad))))

def hContents (id : String) : Prog :=
  routed [id] (.getFile id fun
    | none => .ret .notFound
    | some f => .ret (.contents f))

def hValidate (id : String) : Prog :=
  routed [id] (.getFile id fun
    | none => .ret .notFound
    | some f => .ret (.validated f))

def hAddCL (id : String) (cl : Option ACl) : Prog :=
  routed [id] (match cl with
    | none => .ret .bad
    | some c =>
      .lock (.getFile id fun
        | none => .unlock (.ret .notFound)
        | some f =>
          let f' := { f with cls := f.cls ++ [c] }
          .save f' fun ok => .unlock (.ret (if ok then .file 200 f' else .bad))))

def hRemoveCL (id cid : String) : Prog :=
  routed [id, cid] (.lock (.getFile id fun
    | none => .unlock (.ret .notFound)
    | some f =>
      let f' := { f with cls := f.cls.filter (fun c => c.id ≠ cid) }
      .save f' fun ok => .unlock (.ret (if ok then .okNull else .bad))))

def handler : Req → Prog
  | .list => hList
  | .createV1 ct u fresh => hCreateV1 ct u fresh
  | .createV2 ct u fresh acc => hCreateV2 ct u fresh acc
  | .get id => hGet id
  | .updateHeader id h => hUpdateHeader id h
  | .delete id => hDelete id
  | .contents id => hContents id
  | .validate id => hValidate id
  | .addCL id cl => hAddCL id cl
  | .removeCL id cid => hRemoveCL id cid

def step (s : Store) (r : Req) : Store × Resp := (handler r).run s

def runHistory : Store → List Req → Store × List Resp
  | s, [] => (s, [])
  | s, r :: rs =>
    let (s', o) := step s r
    let (s'', os) := runHistory s' rs
    (s'', o :: os)

/-! ### the reference model of C11: a map from file ID to file -/

namespace Spec

def lookup (s : Store) (id : String) : Option AFile := List.lookup id s

def upsert (s : Store) (f : AFile) : Store := put s f.id f

def remove (s : Store) (id : String) : Store := s.filter (fun kv => kv.1 ≠ id)

def step (s : Store) : Req → Store × Resp
  | .list => (s, .files (s.map (·.2)))
  | .createV1 ct u fresh =>
    match v1Parsed ct u with
    | none => (s, .bad)
    | some f =>
      if (withId f fresh).id = "" then (s, .bad) else (upsert s (withId f fresh), .file 201 (withId f fresh))
  | .createV2 ct u fresh acc =>
    match v2Parsed ct u with
    | none => (s, .bad)
    | some f =>
      if fresh = "" then (s, .serverError)
      else (upsert s { f with id := fresh }, v2Resp { f with id := fresh } acc)
  | .get id =>
    match lookup s id with
    | some f => (s, .file 200 f)
    | none => (s, .notFound)
  | .updateHeader id h =>
    if id = "" then (s, .notFound) else
    match h with
    | none => (s, .bad)
    | some h =>
      match lookup s id with
      | none => (s, .notFound)
      | some f => let f' := { f with hdr := h }; (upsert s f', .file 201 f')
  | .delete id =>
    match lookup s id with
    | none => (s, .notFound)
    | some _ => (remove s id, .okNull)
  | .contents id =>
    match lookup s id with
    | some f => (s, .contents f)
    | none => (s, .notFound)
  | .validate id =>
    match lookup s id with
    | some f => (s, .validated f)
    | none => (s, .notFound)
  | .addCL id cl =>
    if id = "" then (s, .notFound) else
    match cl with
    | none => (s, .bad)
    | some c =>
      match lookup s id with
      | none => (s, .notFound)
      | some f => let f' := { f with cls := f.cls ++ [c] }; (upsert s f', .file 200 f')
  | .removeCL id cid =>
    if id = "" ∨ cid = "" then (s, .notFound) else
    match lookup s id with
    | none => (s, .notFound)
    | some f => (upsert s { f with cls := f.cls.filter (fun c => c.id ≠ cid) }, .okNull)

def runHistory : Store → List Req → Store × List Resp
  | s, [] => (s, [])
  | s, r :: rs =>
    let (s', o) := step s r
    let (s'', os) := runHistory s' rs
    (s'', o :: os)

end Spec

/-- the store invariant: every file is stored under its own, non-empty ID, once -/
def Inv (s : Store) : Prop :=
  (s.map (·.1)).Nodup ∧ ∀ kv ∈ s, kv.2.id = kv.1 ∧ kv.1 ≠ ""

def Req.isRead : Req → Bool
  | .list | .get _ | .contents _ | .validate _ => true
  | _ => false

/-- the file a request addresses (for `create`: the ID it is stored under) -/
def Req.target : Req → Option String
  | .list => none
  | .createV1 ct u fresh =>
    match v1Parsed ct u with
    | none => none
    | some f => some (withId f fresh).id
  | .createV2 _ _ fresh _ => some fresh
  | .get id | .updateHeader id _ | .delete id | .contents id | .validate id | .addCL id _ | .removeCL id _ => some id

end Icl.Api
