/-
L3 — `bufio.Scanner` driving a split function over a stream that arrives in arbitrary chunks
(reader.go:118-165 uses it with `bufio.ScanLines` or with `scanVariableLengthLines`).

`scan` follows Scanner.Scan: drain the tokens available in the pending bytes, when the split function
asks for more either fail with ErrTooLong (pending bytes already fill the buffer) or read the next
chunk, and call the split function with atEOF = true once the stream is exhausted.  What the model
leaves out on purpose: how many bytes a Read call may return (the theorem quantifies over every
schedule, including zero-length reads), the 100-empty-reads limit, buffer sliding/growth (only the
bound `max` matters).
-/
import IclModel.Encoding
namespace Icl

inductive SErr | unexpectedEOF | tooLong | badAdvance | noProgress | other
deriving DecidableEq, Repr, Inhabited

/-- a split function: (advance, token, error) -/
abbrev SplitFn := Bytes → Bool → Nat × Option Bytes × Option SErr

/-- tokens available without more data: repeatedly `split pending false` -/
def drain (split : SplitFn) : Nat → Bytes → List Bytes × Bytes × Option SErr
  | 0, p => ([], p, none)
  | n + 1, p =>
    match split p false with
    | (_, _, some e) => ([], p, some e)
    | (adv, some t, none) =>
      if adv = 0 ∨ p.length < adv then ([], p, some .badAdvance)
      else
        let r := drain split n (p.drop adv)
        (t :: r.1, r.2.1, r.2.2)
    | (adv, none, none) =>
      if adv = 0 then ([], p, none)
      else if p.length < adv then ([], p, some .badAdvance)
      else drain split n (p.drop adv)

/-- end of stream: `split pending true` until it yields nothing more -/
def finish (split : SplitFn) : Nat → Bytes → List Bytes × Option SErr
  | 0, _ => ([], none)
  | n + 1, p =>
    match split p true with
    | (_, _, some e) => ([], some e)
    | (adv, some t, none) =>
      if p.length < adv then ([], some .badAdvance)
      else if adv = 0 then ([], some .noProgress)
      else
        let r := finish split n (p.drop adv)
        (t :: r.1, r.2)
    | (adv, none, none) =>
      if adv = 0 then ([], none)
      else if p.length < adv then ([], some .badAdvance)
      else finish split n (p.drop adv)

/-- the scanner over a chunk schedule: `pending` = bytes read but not consumed, `rest` = bytes the
stream has not delivered yet, `sched` = sizes of the coming reads (exhausted schedule: the reader
delivers all that is left) -/
def scan (split : SplitFn) (max : Nat) : List Nat → Bytes → Bytes → List Bytes × Option SErr
  | sched, pending, rest =>
    match drain split (pending.length + 1) pending with
    | (ts, _, some e) => (ts, some e)
    | (ts, p', none) =>
      -- the end of the stream is only discovered by a Read, which needs room in the buffer
      if hmax : max ≤ p'.length then (ts, some .tooLong)
      else if rest.isEmpty then
        let f := finish split (p'.length + 1) p'
        (ts ++ f.1, f.2)
      else
        -- a Read can never deliver more than the room left in the buffer
        match sched with
        | [] =>
          let r := scan split max [] (p' ++ rest.take (max - p'.length)) (rest.drop (max - p'.length))
          (ts ++ r.1, r.2)
        | k :: sched' =>
          let r := scan split max sched' (p' ++ rest.take (min k (max - p'.length))) (rest.drop (min k (max - p'.length)))
          (ts ++ r.1, r.2)
termination_by sched _ rest => (sched.length, rest.length)
decreasing_by
  all_goals simp_wf
  · rename_i h
    right
    have hr : 0 < rest.length := by cases rest <;> simp_all
    omega
  · left; omega

/-- reference: the same tokenisation when the whole stream is in memory -/
def refScan (split : SplitFn) (x : Bytes) : List Bytes × Option SErr :=
  let d := drain split (x.length + 1) x
  match d.2.2 with
  | some e => (d.1, some e)
  | none =>
    let f := finish split (d.2.1.length + 1) d.2.1
    (d.1 ++ f.1, f.2)

end Icl

namespace Icl

/-- `bufio.ScanLines` -/
def scanLinesSplit (data : Bytes) (atEOF : Bool) : Nat × Option Bytes × Option SErr :=
  if atEOF && data.isEmpty then (0, none, none)
  else match data.idxOf? 0x0A with
    | some i => (i + 1, some (dropCR (data.take i)), none)
    | none => if atEOF then (data.length, some (dropCR data), none) else (0, none, none)

end Icl
