/-
L5 — building: `Bundle.build`, `CashLetter.build` / `Create`, `File.Create`, transcribed from
bundle.go, cashLetter.go, file.go.  Hand-written; tied to the code by the `build` correspondence
stream (generated trees built by the real Create() calls and by this model).
-/
import IclModel.Tree
namespace Icl

/-- (error class, field) of a failed build/validation -/
abbrev BErr := ErrClass × String

def vErr (m : Model) (k : Kind) (v : Vals) : Option BErr :=
  match m.validateK k v with
  | (none, _) => none
  | (some f, _) => some (.field, f)

def firstErr {α} (f : α → Option BErr) : List α → Option BErr
  | [] => none
  | x :: r => match f x with
    | some e => some e
    | none => firstErr f r

/-- `Bundle.ValidateForwardItems` -/
def validateForwardItems (m : Model) (cd : Item Vals) : Option BErr :=
  (firstErr (vErr m .cdAddA) cd.addA).or <|
  (firstErr (vErr m .cdAddB) cd.addB).or <|
  (firstErr (vErr m .cdAddC) cd.addC).or <|
  (firstErr (vErr m .ivDetail) cd.ivDetail).or <|
  (firstErr (vErr m .ivData) cd.ivData).or <|
  (firstErr (vErr m .ivAnalysis) cd.ivAnalysis)

/-- `Bundle.ValidateReturnItems` -/
def validateReturnItems (m : Model) (rd : Item Vals) : Option BErr :=
  (firstErr (vErr m .rdAddA) rd.addA).or <|
  (firstErr (vErr m .rdAddB) rd.addB).or <|
  (firstErr (vErr m .rdAddC) rd.addC).or <|
  (firstErr (vErr m .rdAddD) rd.addD).or <|
  (firstErr (vErr m .ivDetail) rd.ivDetail).or <|
  (firstErr (vErr m .ivData) rd.ivData).or <|
  (firstErr (vErr m .ivAnalysis) rd.ivAnalysis)

/-- item record first, then its addenda and image views -/
def validateCheck (m : Model) (cd : Item Vals) : Option BErr :=
  (vErr m .checkDetail cd.detail).or (validateForwardItems m cd)

def validateReturn (m : Model) (rd : Item Vals) : Option BErr :=
  (vErr m .returnDetail rd.detail).or (validateReturnItems m rd)

def sumInt (l : List Int) : Int := l.foldl (· + ·) 0

/-- the control record `Bundle.build()` creates: recounted totals, caller-settable members kept -/
def bundleControlOf (m : Model) (b : Bundle Vals) : Vals :=
  let items := b.checks ++ b.returns
  let amount := sumInt (items.map (fun i => i.detail.i "ItemAmount"))
  let micr := sumInt (b.checks.map (fun i => if i.detail.i "MICRValidIndicator" == 1 then i.detail.i "ItemAmount" else 0))
  let images := sumInt (items.map (fun i => (i.ivDetail.length : Int)))
  let b0 := (m.layout .bundleControl).new m.now
  let b1 := b0.setI "BundleItemsCount" items.length
  let b2 := b1.setI "BundleTotalAmount" amount
  let b3 := b2.setI "MICRValidTotalAmount" micr
  let b4 := b3.setI "BundleImagesCount" images
  let b5 := b4.setI "CreditTotalIndicator" 0
  match b.control with
  | some old => (b5.setS "ID" (old.s "ID")).setS "UserField" (old.s "UserField")
  | none => b5

/-- `Bundle.build()`: validate header, items and the new control; replace the control -/
def bundleBuild (m : Model) (b : Bundle Vals) : Except BErr (Bundle Vals) :=
  match (match b.header with | some h => vErr m .bundleHeader h | none => none) with
  | some e => .error e
  | none =>
    if b.checks.isEmpty && b.returns.isEmpty then .error (.bundle, "entries")
    else
      match (firstErr (validateCheck m) b.checks).or (firstErr (validateReturn m) b.returns) with
      | some e => .error e
      | none =>
        match vErr m .bundleControl (bundleControlOf m b) with
        | some e => .error e
        | none => .ok { b with control := some (bundleControlOf m b) }

/-- what a successful `Bundle.build()` returns -/
theorem bundleBuild_ok (m : Model) (b b' : Bundle Vals) (h : bundleBuild m b = .ok b') :
    b' = { b with control := some (bundleControlOf m b) } := by
  unfold bundleBuild at h
  split at h
  · cases h
  · split at h
    · cases h
    · split at h
      · cases h
      · split at h
        · cases h
        · simp only [Except.ok.injEq] at h; exact h.symm

/-- record numbers 1..limit, wrapping back to 1 -/
def recNums (limit : Nat) (n : Nat) : List Int :=
  (List.range n).map (fun i => ((i % limit + 1 : Nat) : Int))

def zipSet (vs : List Vals) (f : Vals → Int → Vals) (ns : List Int) : List Vals :=
  (vs.zip ns).map (fun p => f p.1 p.2)

/-- the sequence number an item ends up with: its own when supplied, else the running counter -/
def seqOf (counter : Int) (it : Item Vals) : Int :=
  if (it.detail.s "EceInstitutionItemSequenceNumber").isEmpty then counter
  else parseNum (it.detail.s "EceInstitutionItemSequenceNumber")

/-- numbering of the check items of one bundle, threading the sequence counter -/
def numberChecks : Int → List (Item Vals) → List (Item Vals)
  | _, [] => []
  | counter, cd :: r =>
    let seq := seqOf counter cd
    let d := cd.detail.setS "EceInstitutionItemSequenceNumber" (numericField seq 15)
    let a := zipSet cd.addA (fun v n => (v.setS "BOFDItemSequenceNumber" (numericField seq 15)).setI "RecordNumber" n) (recNums 9 cd.addA.length)
    let c := zipSet cd.addC (fun v n => (v.setS "EndorsingBankItemSequenceNumber" (itoa seq)).setI "RecordNumber" n) (recNums 99 cd.addC.length)
    { cd with detail := d, addA := a, addC := c } :: numberChecks (seq + 1) r

def numberReturns : Int → List (Item Vals) → List (Item Vals)
  | _, [] => []
  | counter, rd :: r =>
    let seq := seqOf counter rd
    let d := rd.detail.setS "EceInstitutionItemSequenceNumber" (itoa seq)
    let a := zipSet rd.addA (fun v n => (v.setS "BOFDItemSequenceNumber" (itoa seq)).setI "RecordNumber" n) (recNums 9 rd.addA.length)
    let dd := zipSet rd.addD (fun v n => (v.setS "EndorsingBankItemSequenceNumber" (itoa seq)).setI "RecordNumber" n) (recNums 99 rd.addD.length)
    { rd with detail := d, addA := a, addD := dd } :: numberReturns (seq + 1) r

/-- the bundle loop of `CashLetter.build` -/
def buildBundles (m : Model) : Nat → List (Bundle Vals) → Except BErr (List (Bundle Vals))
  | _, [] => .ok []
  | n, b :: r =>
    match b.header with
    | none => .error (.cashLetter, "Bundles")
    | some h =>
      let b1 : Bundle Vals := { b with header := some (h.setS "BundleSequenceNumber" (numericField n 4)),
                                       checks := numberChecks 1 b.checks, returns := numberReturns 1 b.returns }
      match bundleValidate b1 with
      | some f => .error (.bundle, f)
      | none =>
        match bundleBuild m b1 with
        | .error e => .error e
        | .ok b2 =>
          match buildBundles m (n + 1) r with
          | .error e => .error e
          | .ok rs => .ok (b2 :: rs)

/-- `CashLetter.build()` -/
def cashLetterBuild (m : Model) (cl : CashLetter Vals) : Except BErr (CashLetter Vals) :=
  match cl.header with
  | none => .error (.plain, "nil CashLetterHeader")
  | some h =>
    match vErr m .cashLetterHeader h with
    | some e => .error e
    | none =>
      if cl.bundles.any (fun b => b.header.isNone) then .error (.cashLetter, "Bundles")
      else
        match buildBundles m 1 cl.bundles with
        | .error e => .error e
        | .ok bs =>
          let items := bs.flatMap (fun b => b.checks ++ b.returns)
          let credit : Int := if cl.creditItems.isEmpty then 0 else 1
          let c0 := (m.layout .cashLetterControl).new m.now
          let c1 := c0.setI "CashLetterBundleCount" bs.length
          let c2 := c1.setI "CashLetterItemsCount" (items.length + cl.creditItems.length)
          let c3 := c2.setI "CashLetterTotalAmount" (sumInt (items.map (fun i => i.detail.i "ItemAmount")))
          let c4 := c3.setI "CashLetterImagesCount" (sumInt (items.map (fun i => (i.ivDetail.length : Int))))
          let name : Bytes := match cl.control with
            | some c => if (c.s "ECEInstitutionName").isEmpty then h.s "ECEInstitutionRoutingNumber" else c.s "ECEInstitutionName"
            | none => h.s "ECEInstitutionRoutingNumber"
          let c5 := c4.setS "ECEInstitutionName" name
          let c6 := c5.setI "CreditTotalIndicator" credit
          let clc := match cl.control with
            | some old =>
              let c7 := c6.setS "ID" (old.s "ID")
              if (old.d "SettlementDate").isZero then c7 else c7.setD "SettlementDate" (old.d "SettlementDate")
            | none => c6
          .ok { cl with bundles := bs, control := some clc }

/-- `CashLetter.Create()` = build, then Validate -/
def cashLetterCreate (m : Model) (cl : CashLetter Vals) : Except BErr (CashLetter Vals) :=
  match cashLetterBuild m cl with
  | .error e => .error e
  | .ok c =>
    match cashLetterValidate m c with
    | some e => .error e
    | none => .ok c

/-- records of a cash letter that `File.Create` counts -/
def itemRecordCount (isCheck : Bool) (c : Item Vals) : Nat :=
  1 + c.addA.length + c.addB.length + c.addC.length + (if isCheck then 0 else c.addD.length) +
    c.ivDetail.length + c.ivData.length + c.ivAnalysis.length

def bundleRecordCount (b : Bundle Vals) : Nat :=
  2 + (b.checks.map (itemRecordCount true)).sum + (b.returns.map (itemRecordCount false)).sum

def clRecordCount (cl : CashLetter Vals) : Nat :=
  2 + cl.creditItems.length + cl.credits.length + cl.rns.length + (cl.bundles.map bundleRecordCount).sum

def fileBundles (m : Model) : List (Bundle Vals) → Except BErr (List (Bundle Vals))
  | [] => .ok []
  | b :: r =>
    match bundleValidate b with
    | some f => .error (.bundle, f)
    | none =>
      match bundleBuild m b with
      | .error e => .error e
      | .ok b2 =>
        match fileBundles m r with
        | .error e => .error e
        | .ok rs => .ok (b2 :: rs)

def fileCashLetters (m : Model) : List (CashLetter Vals) → Except BErr (List (CashLetter Vals))
  | [] => .ok []
  | cl :: r =>
    match (cashLetterValidate m cl).or <|
        ((match cl.header with | some h => vErr m .cashLetterHeader h | none => none).or <|
         (firstErr (vErr m .creditItem) cl.creditItems).or <|
         (firstErr (vErr m .credit) cl.credits).or <|
         (firstErr (fun r => match r with | some v => vErr m .rns v | none => some (.file, "RoutingNumberSummary")) cl.rns)) with
    | some e => .error e
    | none =>
      match fileBundles m cl.bundles with
      | .error e => .error e
      | .ok bs =>
        match fileCashLetters m r with
        | .error e => .error e
        | .ok rs => .ok ({ cl with bundles := bs } :: rs)

/-- the control record `File.Create()` creates from the (re)built cash letters -/
def fileControlOf (m : Model) (f : File Vals) (cls : List (CashLetter Vals)) : Vals :=
  let items := cls.flatMap (fun cl => cl.bundles.flatMap (fun b => b.checks ++ b.returns))
  let credit : Int := if cls.any (fun cl => !cl.creditItems.isEmpty) then 1 else 0
  let total : Nat := 2 + (cls.map clRecordCount).sum
  let fc0 := (m.layout .fileControl).new m.now
  let fc1 := fc0.setI "CashLetterCount" cls.length
  let fc2 := fc1.setI "TotalRecordCount" (total : Int)
  let fc3 := fc2.setI "TotalItemCount" items.length
  let fc4 := fc3.setI "FileTotalAmount" (sumInt (items.map (fun i => i.detail.i "ItemAmount")))
  let fc5 := fc4.setS "ImmediateOriginContactName" (f.control.s "ImmediateOriginContactName")
  let fc6 := fc5.setS "ImmediateOriginContactPhoneNumber" (f.control.s "ImmediateOriginContactPhoneNumber")
  (fc6.setI "CreditTotalIndicator" credit).setS "ID" (f.control.s "ID")

/-- `File.Create()` -/
def fileCreate (m : Model) (f : File Vals) : Except BErr (File Vals) :=
  match vErr m .fileHeader f.header with
  | some e => .error e
  | none =>
    if f.cashLetters.isEmpty then .error (.file, "CashLetters")
    else
      match fileCashLetters m f.cashLetters with
      | .error e => .error e
      | .ok cls =>
        if !m.accepts "isAlphanumericSpecial" (f.control.s "ImmediateOriginContactName") then
          .error (.field, "ImmediateOriginContactName")
        else if !m.accepts "isNumeric" (f.control.s "ImmediateOriginContactPhoneNumber") then
          .error (.field, "ImmediateOriginContactPhoneNumber")
        else .ok { f with cashLetters := cls, control := fileControlOf m f cls }

/-- what a successful `File.Create()` returns -/
theorem fileCreate_ok (m : Model) (f f' : File Vals) (h : fileCreate m f = .ok f') :
    ∃ cls, fileCashLetters m f.cashLetters = .ok cls ∧ f' = { f with cashLetters := cls, control := fileControlOf m f cls } := by
  unfold fileCreate at h
  split at h
  · cases h
  · split at h
    · cases h
    · split at h
      · cases h
      · rename_i cls hcls
        split at h
        · cases h
        · split at h
          · cases h
          · simp only [Except.ok.injEq] at h
            exact ⟨cls, hcls, h.symm⟩

/-- what "a file and its cash letters have been built" means: every `CashLetter.Create()`, then `File.Create()` -/
def buildAll (m : Model) (f : File Vals) : Except BErr (File Vals) :=
  let rec go : List (CashLetter Vals) → Except BErr (List (CashLetter Vals))
    | [] => .ok []
    | cl :: r =>
      match cashLetterCreate m cl with
      | .error e => .error e
      | .ok c => match go r with
        | .error e => .error e
        | .ok rs => .ok (c :: rs)
  match go f.cashLetters with
  | .error e => .error e
  | .ok cls => fileCreate m { f with cashLetters := cls }

end Icl
