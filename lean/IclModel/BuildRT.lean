/-
Run-time support of the build functions translated from bundle.go (Gen/BuildT.lean): integer locals live in
an environment, a loop over items is a fold that stops at the first error.
-/
import IclModel.Build
namespace Icl

/-- `x = e` on an integer local -/
def Env.set (σ : Env) (k : String) (x : Int) : Env := (k, x) :: σ

namespace BuildRT

/-- `for _, x := range l { body }` where the body may return an error -/
def forEachE {α : Type} (l : List α) (σ : Env) (f : α → Env → Except BErr Env) : Except BErr Env :=
  match l with
  | [] => .ok σ
  | x :: r =>
    match f x σ with
    | .error e => .error e
    | .ok σ' => forEachE r σ' f

/-- a loop over containers whose body may rebuild its element (`b.build()` replaces the bundle's control record) -/
def forMapE {α : Type} (l : List α) (σ : Env) (f : α → Env → Except BErr (α × Env)) : Except BErr (List α × Env) :=
  match l with
  | [] => .ok ([], σ)
  | x :: r =>
    match f x σ with
    | .error e => .error e
    | .ok (x', σ') =>
      match forMapE r σ' f with
      | .error e => .error e
      | .ok (r', σ'') => .ok (x' :: r', σ'')

/-- a loop that changes its elements in place (through pointers) and cannot fail -/
def forMap {α : Type} (l : List α) (σ : Env) (f : α → Env → α × Env) : List α × Env :=
  match l with
  | [] => ([], σ)
  | x :: r =>
    let (x', σ') := f x σ
    let (r', σ'') := forMap r σ' f
    (x' :: r', σ'')

/-- `p.Validate()` through a pointer member (a nil pointer is not validated here; the reader / JSON loader refuse
such containers earlier) -/
def vOpt (m : Model) (k : Kind) (r : Option Vals) : Option BErr :=
  match r with
  | some v => vErr m k v
  | none => none

/-- `New<T>()` -/
def newRec (m : Model) (k : Kind) : Vals := (m.layout k).new m.now

end BuildRT
end Icl
