/-
C10 — coded fields accept exactly their documented code tables; mandatory fields are rejected when
blank or zero; the verdict depends only on the record's content and on the FRB flag.

`Gen.codes` / `Gen.Rules.*` are regenerated from validators.go and every record's Validate() (with
fieldInclusion and the other methods it calls inlined) on every run; `Spec.codes` / `Spec.Rules.*` are
the hand transcription of the documented tables and rules in flattened form.  `validate_sites`
(Lemmas/Sites.lean) gives the flattened form its meaning: the verdict of `Validate()` on ANY record
value is the field of the first rule whose conditions hold.
-/
import IclModel.Lemmas.Sites
import IclModel.Gen.Rules
import IclModel.Spec.Rules
namespace Icl.C10
open Icl

/-- every `isXxx` switch, both return-reason dictionaries and the three character classes are the
documented tables: a code added to or dropped from a table breaks this -/
theorem codes_eq : Gen.codes = Spec.codes := by decide

/-- membership in a code table is what the validators decide, for every string / every integer -/
theorem codeAccepts_strs (c : Codes) (fn : String) (l : List Bytes) (h : c.get fn = .strs l) (x : Bytes) :
    codeAccepts c fn (.s x) = true ↔ x ∈ l := by
  simp [codeAccepts, h]

theorem codeAccepts_ints (c : Codes) (fn : String) (l : List Int) (h : c.get fn = .ints l) (x : Int) :
    codeAccepts c fn (.i x) = true ↔ x ∈ l := by
  simp [codeAccepts, h]

theorem codeAccepts_cls (c : Codes) (fn : String) (l : List UInt8) (h : c.get fn = .cls l) (x : Bytes) :
    codeAccepts c fn (.s x) = true ↔ ∀ b ∈ x, b ∈ l := by
  simp [codeAccepts, h]

/-! ## the regenerated rule trees flatten to the documented rules -/

theorem sites_fileHeader : sites Gen.Rules.fileHeader = Spec.Rules.fileHeader := by decide
theorem sites_cashLetterHeader : sites Gen.Rules.cashLetterHeader = Spec.Rules.cashLetterHeader := by decide
theorem sites_bundleHeader : sites Gen.Rules.bundleHeader = Spec.Rules.bundleHeader := by decide
theorem sites_checkDetail : sites Gen.Rules.checkDetail = Spec.Rules.checkDetail := by decide
theorem sites_checkDetailAddendumA : sites Gen.Rules.checkDetailAddendumA = Spec.Rules.checkDetailAddendumA := by decide
theorem sites_checkDetailAddendumB : sites Gen.Rules.checkDetailAddendumB = Spec.Rules.checkDetailAddendumB := by decide
theorem sites_checkDetailAddendumC : sites Gen.Rules.checkDetailAddendumC = Spec.Rules.checkDetailAddendumC := by decide
theorem sites_returnDetail : sites Gen.Rules.returnDetail = Spec.Rules.returnDetail := by decide
theorem sites_returnDetailAddendumA : sites Gen.Rules.returnDetailAddendumA = Spec.Rules.returnDetailAddendumA := by decide
theorem sites_returnDetailAddendumB : sites Gen.Rules.returnDetailAddendumB = Spec.Rules.returnDetailAddendumB := by decide
theorem sites_returnDetailAddendumC : sites Gen.Rules.returnDetailAddendumC = Spec.Rules.returnDetailAddendumC := by decide
theorem sites_returnDetailAddendumD : sites Gen.Rules.returnDetailAddendumD = Spec.Rules.returnDetailAddendumD := by decide
theorem sites_imageViewDetail : sites Gen.Rules.imageViewDetail = Spec.Rules.imageViewDetail := by decide
theorem sites_imageViewData : sites Gen.Rules.imageViewData = Spec.Rules.imageViewData := by decide
theorem sites_imageViewAnalysis : sites Gen.Rules.imageViewAnalysis = Spec.Rules.imageViewAnalysis := by decide
theorem sites_credit : sites Gen.Rules.credit = Spec.Rules.credit := by decide
theorem sites_creditItem : sites Gen.Rules.creditItem = Spec.Rules.creditItem := by decide
theorem sites_userGeneral : sites Gen.Rules.userGeneral = Spec.Rules.userGeneral := by decide
theorem sites_userPayeeEndorsement : sites Gen.Rules.userPayeeEndorsement = Spec.Rules.userPayeeEndorsement := by decide
theorem sites_bundleControl : sites Gen.Rules.bundleControl = Spec.Rules.bundleControl := by decide
theorem sites_routingNumberSummary : sites Gen.Rules.routingNumberSummary = Spec.Rules.routingNumberSummary := by decide
theorem sites_cashLetterControl : sites Gen.Rules.cashLetterControl = Spec.Rules.cashLetterControl := by decide
theorem sites_fileControl : sites Gen.Rules.fileControl = Spec.Rules.fileControl := by decide

/-! ## meaning: `Validate()` = first documented rule that fires, for every record value -/

theorem validate_fileHeader (cx : VCtx) (v : Vals) :
    (validate cx Gen.Rules.fileHeader v).1 = firstFiring cx v Spec.Rules.fileHeader := by
  rw [← sites_fileHeader]; exact validate_sites cx _ v (by decide)
theorem validate_cashLetterHeader (cx : VCtx) (v : Vals) :
    (validate cx Gen.Rules.cashLetterHeader v).1 = firstFiring cx v Spec.Rules.cashLetterHeader := by
  rw [← sites_cashLetterHeader]; exact validate_sites cx _ v (by decide)
theorem validate_bundleHeader (cx : VCtx) (v : Vals) :
    (validate cx Gen.Rules.bundleHeader v).1 = firstFiring cx v Spec.Rules.bundleHeader := by
  rw [← sites_bundleHeader]; exact validate_sites cx _ v (by decide)
theorem validate_checkDetail (cx : VCtx) (v : Vals) :
    (validate cx Gen.Rules.checkDetail v).1 = firstFiring cx v Spec.Rules.checkDetail := by
  rw [← sites_checkDetail]; exact validate_sites cx _ v (by decide)
theorem validate_checkDetailAddendumB (cx : VCtx) (v : Vals) :
    (validate cx Gen.Rules.checkDetailAddendumB v).1 = firstFiring cx v Spec.Rules.checkDetailAddendumB := by
  rw [← sites_checkDetailAddendumB]; exact validate_sites cx _ v (by decide)
theorem validate_checkDetailAddendumC (cx : VCtx) (v : Vals) :
    (validate cx Gen.Rules.checkDetailAddendumC v).1 = firstFiring cx v Spec.Rules.checkDetailAddendumC := by
  rw [← sites_checkDetailAddendumC]; exact validate_sites cx _ v (by decide)
theorem validate_returnDetail (cx : VCtx) (v : Vals) :
    (validate cx Gen.Rules.returnDetail v).1 = firstFiring cx v Spec.Rules.returnDetail := by
  rw [← sites_returnDetail]; exact validate_sites cx _ v (by decide)
theorem validate_returnDetailAddendumA (cx : VCtx) (v : Vals) :
    (validate cx Gen.Rules.returnDetailAddendumA v).1 = firstFiring cx v Spec.Rules.returnDetailAddendumA := by
  rw [← sites_returnDetailAddendumA]; exact validate_sites cx _ v (by decide)
theorem validate_returnDetailAddendumB (cx : VCtx) (v : Vals) :
    (validate cx Gen.Rules.returnDetailAddendumB v).1 = firstFiring cx v Spec.Rules.returnDetailAddendumB := by
  rw [← sites_returnDetailAddendumB]; exact validate_sites cx _ v (by decide)
theorem validate_returnDetailAddendumC (cx : VCtx) (v : Vals) :
    (validate cx Gen.Rules.returnDetailAddendumC v).1 = firstFiring cx v Spec.Rules.returnDetailAddendumC := by
  rw [← sites_returnDetailAddendumC]; exact validate_sites cx _ v (by decide)
theorem validate_returnDetailAddendumD (cx : VCtx) (v : Vals) :
    (validate cx Gen.Rules.returnDetailAddendumD v).1 = firstFiring cx v Spec.Rules.returnDetailAddendumD := by
  rw [← sites_returnDetailAddendumD]; exact validate_sites cx _ v (by decide)
theorem validate_imageViewData (cx : VCtx) (v : Vals) :
    (validate cx Gen.Rules.imageViewData v).1 = firstFiring cx v Spec.Rules.imageViewData := by
  rw [← sites_imageViewData]; exact validate_sites cx _ v (by decide)
theorem validate_imageViewAnalysis (cx : VCtx) (v : Vals) :
    (validate cx Gen.Rules.imageViewAnalysis v).1 = firstFiring cx v Spec.Rules.imageViewAnalysis := by
  rw [← sites_imageViewAnalysis]; exact validate_sites cx _ v (by decide)
theorem validate_credit (cx : VCtx) (v : Vals) :
    (validate cx Gen.Rules.credit v).1 = firstFiring cx v Spec.Rules.credit := by
  rw [← sites_credit]; exact validate_sites cx _ v (by decide)
theorem validate_creditItem (cx : VCtx) (v : Vals) :
    (validate cx Gen.Rules.creditItem v).1 = firstFiring cx v Spec.Rules.creditItem := by
  rw [← sites_creditItem]; exact validate_sites cx _ v (by decide)
theorem validate_userGeneral (cx : VCtx) (v : Vals) :
    (validate cx Gen.Rules.userGeneral v).1 = firstFiring cx v Spec.Rules.userGeneral := by
  rw [← sites_userGeneral]; exact validate_sites cx _ v (by decide)
theorem validate_userPayeeEndorsement (cx : VCtx) (v : Vals) :
    (validate cx Gen.Rules.userPayeeEndorsement v).1 = firstFiring cx v Spec.Rules.userPayeeEndorsement := by
  rw [← sites_userPayeeEndorsement]; exact validate_sites cx _ v (by decide)
theorem validate_bundleControl (cx : VCtx) (v : Vals) :
    (validate cx Gen.Rules.bundleControl v).1 = firstFiring cx v Spec.Rules.bundleControl := by
  rw [← sites_bundleControl]; exact validate_sites cx _ v (by decide)
theorem validate_routingNumberSummary (cx : VCtx) (v : Vals) :
    (validate cx Gen.Rules.routingNumberSummary v).1 = firstFiring cx v Spec.Rules.routingNumberSummary := by
  rw [← sites_routingNumberSummary]; exact validate_sites cx _ v (by decide)
theorem validate_cashLetterControl (cx : VCtx) (v : Vals) :
    (validate cx Gen.Rules.cashLetterControl v).1 = firstFiring cx v Spec.Rules.cashLetterControl := by
  rw [← sites_cashLetterControl]; exact validate_sites cx _ v (by decide)
theorem validate_fileControl (cx : VCtx) (v : Vals) :
    (validate cx Gen.Rules.fileControl v).1 = firstFiring cx v Spec.Rules.fileControl := by
  rw [← sites_fileControl]; exact validate_sites cx _ v (by decide)

/-- the verdict is a function of the record's content, the tables and the FRB flag only: `validate`
has no other input (stated for the record: two contexts that agree on those give the same verdict) -/
theorem verdict_depends_only (cx cx' : VCtx) (s : Stmt) (v : Vals)
    (hc : cx.codes = cx'.codes) (hw : cx.write = cx'.write) (hb : cx.b64 = cx'.b64) (hf : cx.frb = cx'.frb) :
    validate cx s v = validate cx' s v := by
  cases cx; cases cx'; simp_all

end Icl.C10
