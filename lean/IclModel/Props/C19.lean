/-
C19 — FRB compatibility mode only relaxes the reader.

Validation level (proved, for every record value): `Mono` is a decidable syntactic criterion on rule
trees — every use of the mode is either "reject only when the mode is off", "when on, normalise a
value that the mode-off path rejects", or absent — and `mono_sound` shows that a record accepted with
the mode off is accepted with it on and ends up identical.  `decide` establishes `Mono` for the rule
tree regenerated from every record's Validate().
Reader level (proved, for every input): `Relaxes m0 m1` (Lemmas/Relax.lean) abstracts what the mode
changes - a validator that accepts at least as much with the same outcome, and a byte substitution the
mode-off reader never applies.  `gen_relaxes` establishes it for the regenerated model (mode off vs
mode on) from `Mono`; `C19_read_relaxes` lifts it through the whole reader: an input read without error
with the mode off is read without error with the mode on, into the same file.  For ASCII input there is
no further hypothesis (`C19_read_relaxes_ascii`); for EBCDIC input the hypothesis is that no addendum A
line contains one of the three substituted bytes (`NoSubst`) - with such a byte the two modes decode
different characters by design (that is the mode's purpose), so the statement cannot hold there; both
modes are run on every generated input by the correspondence stream.
-/
import IclModel.Lemmas.Frb
import IclModel.Lemmas.Relax
import IclModel.GenModel
namespace Icl.C19
open Icl

theorem mono_fileHeader : Mono Gen.codes Gen.Rules.fileHeader = true := by decide
theorem mono_cashLetterHeader : Mono Gen.codes Gen.Rules.cashLetterHeader = true := by decide
theorem mono_bundleHeader : Mono Gen.codes Gen.Rules.bundleHeader = true := by decide
theorem mono_checkDetail : Mono Gen.codes Gen.Rules.checkDetail = true := by decide
theorem mono_checkDetailAddendumA : Mono Gen.codes Gen.Rules.checkDetailAddendumA = true := by decide
theorem mono_checkDetailAddendumB : Mono Gen.codes Gen.Rules.checkDetailAddendumB = true := by decide
theorem mono_checkDetailAddendumC : Mono Gen.codes Gen.Rules.checkDetailAddendumC = true := by decide
theorem mono_returnDetail : Mono Gen.codes Gen.Rules.returnDetail = true := by decide
theorem mono_returnDetailAddendumA : Mono Gen.codes Gen.Rules.returnDetailAddendumA = true := by decide
theorem mono_returnDetailAddendumB : Mono Gen.codes Gen.Rules.returnDetailAddendumB = true := by decide
theorem mono_returnDetailAddendumC : Mono Gen.codes Gen.Rules.returnDetailAddendumC = true := by decide
theorem mono_returnDetailAddendumD : Mono Gen.codes Gen.Rules.returnDetailAddendumD = true := by decide
theorem mono_imageViewDetail : Mono Gen.codes Gen.Rules.imageViewDetail = true := by decide
theorem mono_imageViewData : Mono Gen.codes Gen.Rules.imageViewData = true := by decide
theorem mono_imageViewAnalysis : Mono Gen.codes Gen.Rules.imageViewAnalysis = true := by decide
theorem mono_credit : Mono Gen.codes Gen.Rules.credit = true := by decide
theorem mono_creditItem : Mono Gen.codes Gen.Rules.creditItem = true := by decide
theorem mono_bundleControl : Mono Gen.codes Gen.Rules.bundleControl = true := by decide
theorem mono_routingNumberSummary : Mono Gen.codes Gen.Rules.routingNumberSummary = true := by decide
theorem mono_cashLetterControl : Mono Gen.codes Gen.Rules.cashLetterControl = true := by decide
theorem mono_fileControl : Mono Gen.codes Gen.Rules.fileControl = true := by decide

/-- every record kind the reader validates -/
def readRules : List Stmt := [Gen.Rules.fileHeader, Gen.Rules.cashLetterHeader, Gen.Rules.bundleHeader, Gen.Rules.checkDetail, Gen.Rules.checkDetailAddendumA, Gen.Rules.checkDetailAddendumB, Gen.Rules.checkDetailAddendumC, Gen.Rules.returnDetail, Gen.Rules.returnDetailAddendumA, Gen.Rules.returnDetailAddendumB, Gen.Rules.returnDetailAddendumC, Gen.Rules.returnDetailAddendumD, Gen.Rules.imageViewDetail, Gen.Rules.imageViewData, Gen.Rules.imageViewAnalysis, Gen.Rules.credit, Gen.Rules.creditItem, Gen.Rules.bundleControl, Gen.Rules.routingNumberSummary, Gen.Rules.cashLetterControl, Gen.Rules.fileControl]

theorem all_mono : readRules.all (Mono Gen.codes) = true := by decide

/-- **C19, record level**: for every record kind and EVERY record value, acceptance with the mode off
implies acceptance with the mode on, with the same resulting record (no normalisation changes an
accepted record) -/
theorem validate_relaxes (cx : VCtx) (hc : cx.codes = Gen.codes) (s : Stmt) (hs : s ∈ readRules) (v v' : Vals)
    (hoff : validate (cx.withFrb false) s v = (none, v')) : validate (cx.withFrb true) s v = (none, v') := by
  have hm : Mono cx.codes s = true := by
    rw [hc]
    have := all_mono
    simp only [List.all_eq_true] at this
    exact this s hs
  unfold validate at hoff ⊢
  cases he : evalS (cx.withFrb false) s v with
  | cont w =>
    rw [he] at hoff
    simp only [Prod.mk.injEq, true_and] at hoff
    subst hoff
    rw [mono_sound cx s v w hm he]
  | rejected f => rw [he] at hoff; simp at hoff
  | stuck => rw [he] at hoff; simp at hoff

/-- with the mode off its lenient paths are unreachable: the normalising assignments of a `Mono` tree
sit under a condition that is false with the mode off (stated on the two trees that have any) -/
theorem off_never_normalises :
    ((sites Gen.Rules.checkDetailAddendumA ++ sites Gen.Rules.imageViewDetail).all fun s =>
      s.assign.isNone || s.path.any fun p => (p.1 == .frb && p.2) ||
        (match p.1 with | .and _ .frb => p.2 | _ => false)) = true := by decide

/-- every regenerated rule tree (those the reader validates and the two user records) is `Mono` -/
theorem allRules_mono : Gen.allRules.all (fun p => Mono Gen.codes p.2) = true := by decide

/-- a validator built from `Mono` rule trees relaxes when the mode is switched on -/
theorem treeValidator_relaxes (layouts : List RecLayout) (rules : List (String × Stmt)) (codes : Codes)
    (b64 : Bytes → Option Bytes) (hm : rules.all (fun p => Mono codes p.2) = true) (n : String) (v v' : Vals)
    (h : treeValidator layouts rules codes b64 false n v = (none, v')) :
    treeValidator layouts rules codes b64 true n v = (none, v') := by
  unfold treeValidator at h ⊢
  cases hf : rules.find? (fun p => p.1 == n) with
  | none => simp [hf] at h
  | some p =>
    simp only [hf] at h ⊢
    have hp : Mono codes p.2 = true := by
      simp only [List.all_eq_true] at hm
      exact hm p (List.mem_of_find?_eq_some hf)
    let cx : VCtx := { codes := codes, write := ((layouts.find? (fun L => L.name == n)).getD default).write, b64 := b64, frb := true }
    have hoff : validate (cx.withFrb false) p.2 v = (none, v') := h
    show validate (cx.withFrb true) p.2 v = (none, v')
    unfold validate at hoff ⊢
    cases he : evalS (cx.withFrb false) p.2 v with
    | cont w =>
      rw [he] at hoff
      simp only [Prod.mk.injEq, true_and] at hoff
      subst hoff
      rw [mono_sound cx p.2 v w hp he]
    | rejected f => rw [he] at hoff; simp at hoff
    | stuck => rw [he] at hoff; simp at hoff

/-- the regenerated model with the mode on relaxes the regenerated model with the mode off -/
theorem gen_relaxes (now : Date) : Relaxes (genModel false now) (genModel true now) where
  layouts := rfl
  cm := rfl
  now := rfl
  frb0 := rfl
  val := fun k v v' h => treeValidator_relaxes Gen.all Gen.allRules Gen.codes b64Go allRules_mono k.goName v v' h

/-- the lines the reader is fed -/
def linesOf (e : Enc) (x : Bytes) : List Bytes := (if e.lp then splitLP x else (splitNL x, true)).1

/-- **C19, reader level**: an input read without error by `m0` is read without error by any `m1` that
relaxes it, into the same file (hypothesis for EBCDIC input: `NoSubst` on every line) -/
theorem C19_read_relaxes (m0 m1 : Model) (hR : Relaxes m0 m1) (e : Enc) (x : Bytes) (f : File Vals)
    (hs : ∀ l ∈ linesOf e x, NoSubst m1 e l)
    (h : readFile m0 e x = (f, none)) : readFile m1 e x = (f, none) := by
  unfold readFile at h ⊢
  unfold linesOf at hs
  cases hsp : (if e.lp then splitLP x else (splitNL x, true)) with
  | mk lines clean =>
    rw [hsp] at h hs
    simp only at h hs ⊢
    have hinit : Eqv (initState m0) (initState m1) := by
      refine ⟨rfl, ?_, rfl, rfl, rfl⟩
      simp [initState, hR.layout, hR.now]
    cases hr : readLines m0 e lines (initState m0) with
    | mk sf er =>
      rw [hr] at h
      cases er with
      | some x => simp at h
      | none =>
        obtain ⟨tf, ht, hc, c1, c2, c3, c4⟩ := hR.readLines e lines hs _ sf _ hinit hr
        rw [ht]
        have hcl : tf.cashLetters = sf.cashLetters := by
          have := congrArg C04.Core.cashLetters hc; simpa [RState.core] using this
        have hcur : tf.cur = sf.cur := by
          have := congrArg C04.Core.cur hc; simpa [RState.core] using this
        have hfile : tf.file = sf.file := by simp [RState.file, c1, c2, hcl]
        simp only [hfile, c2, c3, hcur] at h ⊢
        split at h
        · simp at h
        · split at h
          · simp at h
          · split at h
            · simp at h
            · split at h
              · simp at h
              · rename_i h1 h2 h3 h4
                simp only [h1, h2, h3, h4]
                exact h

/-- **C19 for ASCII input**, no further hypothesis -/
theorem C19_read_relaxes_ascii (m0 m1 : Model) (hR : Relaxes m0 m1) (e : Enc) (he : e.ebcdic = false) (x : Bytes)
    (f : File Vals) (h : readFile m0 e x = (f, none)) : readFile m1 e x = (f, none) :=
  C19_read_relaxes m0 m1 hR e x f (fun l _ => noSubst_ascii m1 e he l) h

/-- **C19 for the regenerated model**: every ASCII input the current reader accepts with the mode off
it accepts with the mode on, and decodes to the same file -/
theorem C19_gen_ascii (now : Date) (e : Enc) (he : e.ebcdic = false) (x : Bytes) (f : File Vals)
    (h : readFile (genModel false now) e x = (f, none)) : readFile (genModel true now) e x = (f, none) :=
  C19_read_relaxes_ascii _ _ (gen_relaxes now) e he x f h

/-- **C19 for the regenerated model, EBCDIC input** whose addendum A lines contain none of the bytes the
mode substitutes -/
theorem C19_gen_ebcdic (now : Date) (e : Enc) (x : Bytes) (f : File Vals)
    (hs : ∀ l ∈ linesOf e x, kindOfLine l = some .cdAddA → ∀ b ∈ l, b ≠ 0xAD ∧ b ≠ 0xBD ∧ b ≠ 0x5F)
    (h : readFile (genModel false now) e x = (f, none)) : readFile (genModel true now) e x = (f, none) := by
  refine C19_read_relaxes _ _ (gen_relaxes now) e x f (fun l hl hk _ _ => ?_) h
  have hb := hs l hl hk
  simp only [ibm1047, if_true]
  conv => rhs; rw [← List.map_id l]
  apply List.map_congr_left
  intro b hbl
  obtain ⟨h1, h2, h3⟩ := hb b hbl
  simp [h1, h2, h3]

end Icl.C19
