/-
C19 — FRB compatibility mode only relaxes the reader.

Validation level (proved, for every record value): `Mono` is a decidable syntactic criterion on rule
trees — every use of the mode is either "reject only when the mode is off", "when on, normalise a
value that the mode-off path rejects", or absent — and `mono_sound` shows that a record accepted with
the mode off is accepted with it on and ends up identical.  `decide` establishes `Mono` for the rule
tree regenerated from every record's Validate().
Reader level: the only other use of the mode is the IBM1047 byte substitution applied to addendum A
lines, since the fix recorded in known_findings.json only for EBCDIC input; both modes are run on
every generated input by the correspondence stream.
-/
import IclModel.Lemmas.Frb
import IclModel.Gen.Rules
namespace Icl.C19
open Icl

theorem mono_fileHeader : Mono Gen.codes Gen.Rules.fileHeader = true := by decide
theorem mono_cashLetterHeader : Mono Gen.codes Gen.Rules.cashLetterHeader = true := by decide
theorem mono_bundleHeader : Mono Gen.codes Gen.Rules.bundleHeader = true := by decide
theorem mono_checkDetail : Mono Gen.codes Gen.Rules.checkDetail = true := by decide
theorem mono_checkDetailAddendumA : Mono Gen.codes Gen.Rules.checkDetailAddendumA = true := by decide
theorem mono_checkDetailAddendumB : Mono Gen.codes Gen.Rules.checkDetailAddendumB = true := by decide
theorem mono_checkDetailAddendumC : Mono Gen.codes Gen.Rules.checkDetailAddendumC = true := by decide
theorem mono_returnDetail : Mono Gen.codes Gen.Rules.returnDetail = true := by decide
theorem mono_returnDetailAddendumA : Mono Gen.codes Gen.Rules.returnDetailAddendumA = true := by decide
theorem mono_returnDetailAddendumB : Mono Gen.codes Gen.Rules.returnDetailAddendumB = true := by decide
theorem mono_returnDetailAddendumC : Mono Gen.codes Gen.Rules.returnDetailAddendumC = true := by decide
theorem mono_returnDetailAddendumD : Mono Gen.codes Gen.Rules.returnDetailAddendumD = true := by decide
theorem mono_imageViewDetail : Mono Gen.codes Gen.Rules.imageViewDetail = true := by decide
theorem mono_imageViewData : Mono Gen.codes Gen.Rules.imageViewData = true := by decide
theorem mono_imageViewAnalysis : Mono Gen.codes Gen.Rules.imageViewAnalysis = true := by decide
theorem mono_credit : Mono Gen.codes Gen.Rules.credit = true := by decide
theorem mono_creditItem : Mono Gen.codes Gen.Rules.creditItem = true := by decide
theorem mono_bundleControl : Mono Gen.codes Gen.Rules.bundleControl = true := by decide
theorem mono_routingNumberSummary : Mono Gen.codes Gen.Rules.routingNumberSummary = true := by decide
theorem mono_cashLetterControl : Mono Gen.codes Gen.Rules.cashLetterControl = true := by decide
theorem mono_fileControl : Mono Gen.codes Gen.Rules.fileControl = true := by decide

/-- every record kind the reader validates -/
def readRules : List Stmt := [Gen.Rules.fileHeader, Gen.Rules.cashLetterHeader, Gen.Rules.bundleHeader, Gen.Rules.checkDetail, Gen.Rules.checkDetailAddendumA, Gen.Rules.checkDetailAddendumB, Gen.Rules.checkDetailAddendumC, Gen.Rules.returnDetail, Gen.Rules.returnDetailAddendumA, Gen.Rules.returnDetailAddendumB, Gen.Rules.returnDetailAddendumC, Gen.Rules.returnDetailAddendumD, Gen.Rules.imageViewDetail, Gen.Rules.imageViewData, Gen.Rules.imageViewAnalysis, Gen.Rules.credit, Gen.Rules.creditItem, Gen.Rules.bundleControl, Gen.Rules.routingNumberSummary, Gen.Rules.cashLetterControl, Gen.Rules.fileControl]

theorem all_mono : readRules.all (Mono Gen.codes) = true := by decide

/-- **C19, record level**: for every record kind and EVERY record value, acceptance with the mode off
implies acceptance with the mode on, with the same resulting record (no normalisation changes an
accepted record) -/
theorem validate_relaxes (cx : VCtx) (hc : cx.codes = Gen.codes) (s : Stmt) (hs : s ∈ readRules) (v v' : Vals)
    (hoff : validate (cx.withFrb false) s v = (none, v')) : validate (cx.withFrb true) s v = (none, v') := by
  have hm : Mono cx.codes s = true := by
    rw [hc]
    have := all_mono
    simp only [List.all_eq_true] at this
    exact this s hs
  unfold validate at hoff ⊢
  cases he : evalS (cx.withFrb false) s v with
  | cont w =>
    rw [he] at hoff
    simp only [Prod.mk.injEq, true_and] at hoff
    subst hoff
    rw [mono_sound cx s v w hm he]
  | rejected f => rw [he] at hoff; simp at hoff
  | stuck => rw [he] at hoff; simp at hoff

/-- with the mode off its lenient paths are unreachable: the normalising assignments of a `Mono` tree
sit under a condition that is false with the mode off (stated on the two trees that have any) -/
theorem off_never_normalises :
    ((sites Gen.Rules.checkDetailAddendumA ++ sites Gen.Rules.imageViewDetail).all fun s =>
      s.assign.isNone || s.path.any fun p => (p.1 == .frb && p.2) ||
        (match p.1 with | .and _ .frb => p.2 | _ => false)) = true := by decide

end Icl.C19
