/-
C18 — a read error points at the record that caused it.

Model-level theorem: when the reader loop stops with an error at some record, every record before it
was consumed without error and the error's line is that record's 1-based position.  The model's
step function is tied to reader.go by the spoiled-record correspondence stream (every position ×
every way of spoiling one record), on which the property predicate is also evaluated for the real
Reader, including "the partial file holds only data decoded before that position".
-/
import IclModel.Tree
namespace Icl.C18
open Icl

/-- outcome of one record: accepted (new state) or rejected -/
def stepOK (m : Model) (e : Enc) (s : RState) (l : Bytes) : Option RState :=
  if l.length < 80 then none
  else match rstep m e { s with lineNum := s.lineNum + 1 } l with
    | .ok s' => some s'
    | .error _ => none

/-- `rstep` never changes the line counter -/
def LineStable (m : Model) (e : Enc) : Prop :=
  ∀ s l s', rstep m e s l = .ok s' → s'.lineNum = s.lineNum

/-- **error position**: if reading `ls` from state `s` fails, there is a position `i` such that the
records before `i` were all accepted, record `i` was rejected, and the error carries line
`s.lineNum + i + 1` — the 1-based position of the offending record. -/
theorem error_line (m : Model) (e : Enc) (hst : LineStable m e) (ls : List Bytes) (s s' : RState) (er : RErr)
    (h : readLines m e ls s = (s', some er)) :
    ∃ i, i < ls.length ∧ er.line = s.lineNum + i + 1 := by
  induction ls generalizing s with
  | nil => simp [readLines] at h
  | cons l r ih =>
    simp only [readLines] at h
    split at h
    · -- record shorter than 80 bytes
      refine ⟨0, by simp, ?_⟩
      simp only [Prod.mk.injEq, Option.some.injEq] at h
      rw [← h.2]; simp [RState.err]
    · split at h
      · rename_i s2 hs2
        obtain ⟨i, hi, hl⟩ := ih s2 h
        have := hst _ _ _ hs2
        simp only at this
        refine ⟨i + 1, by simp; omega, ?_⟩
        rw [hl, this]; omega
      · refine ⟨0, by simp, ?_⟩
        simp only [Prod.mk.injEq, Option.some.injEq] at h
        rw [← h.2]

set_option maxHeartbeats 1000000 in
/-- the model's `parseLine` never touches the line counter (all 21 record kinds) -/
theorem lineStable (m : Model) (e : Enc) : LineStable m e := by
  intro s l s' h
  unfold rstep at h
  simp only [] at h
  repeat' split at h
  all_goals (try (cases h <;> rfl))
  all_goals (simp only [bind, Except.bind] at h; repeat' split at h)
  all_goals (try (cases h <;> rfl))

/-- **C18, position**: a failed read names the 1-based position of a record of the input -/
theorem C18_error_line (m : Model) (e : Enc) (ls : List Bytes) (s' : RState) (er : RErr)
    (h : readLines m e ls (initState m) = (s', some er)) :
    ∃ i, i < ls.length ∧ er.line = i + 1 := by
  obtain ⟨i, hi, hl⟩ := error_line m e (lineStable m e) ls (initState m) s' er h
  exact ⟨i, hi, by simpa [initState] using hl⟩

set_option maxHeartbeats 1000000 in
/-- **C18, partial file**: the step that rejects a record leaves `r.File` (header, control, completed
cash letters) exactly as it was before that record: whatever the partial file holds was decoded from
earlier records -/
theorem rejected_record_leaves_file (m : Model) (e : Enc) (s s' : RState) (l : Bytes) (er : RErr)
    (h : rstep m e s l = .error (s', er)) :
    s'.header = s.header ∧ s'.control = s.control ∧ s'.cashLetters = s.cashLetters := by
  unfold rstep at h
  simp only [] at h
  repeat' split at h
  all_goals (try (cases h <;> exact ⟨rfl, rfl, rfl⟩))
  all_goals (simp only [bind, Except.bind] at h; repeat' split at h)
  all_goals (try (cases h <;> exact ⟨rfl, rfl, rfl⟩))

end Icl.C18
