/-
C11 - the HTTP API behaves like a simple keyed store of files.

`Api.step` is the transcription of the handlers over the transcription of the repository
(IclModel/Api.lean); `Api.Spec.step` is the reference model: a map from file ID to file with the ten
operations written directly.  Refinement: from every store satisfying the invariant (every file stored
once, under its own non-empty ID - established by the empty store and preserved by every request) the
handler model and the reference model give the same response and the same next store, hence the same
responses over every finite history.  The clauses of the property statement are then corollaries about
the reference model.
-/
import IclModel.Lemmas.Api
namespace Icl.Api
open Spec

/-- one request: the handler model answers and moves exactly like the reference map -/
theorem C11_step (s : Store) (hs : Inv s) (r : Req) : step s r = Spec.step s r := by
  have hg := getFile_eq_lookup s hs
  have he := lookup_empty_key s hs
  cases r with
  | list => rfl
  | createV1 ct u fresh =>
    simp only [step, handler, hCreateV1, Spec.step]
    cases v1Parsed ct u with
    | none => rfl
    | some f =>
      by_cases hid : (withId f fresh).id = "" <;> simp [Prog.run, saveFile, upsert, hid]
  | createV2 ct u fresh acc =>
    simp only [step, handler, hCreateV2, Spec.step]
    cases v2Parsed ct u with
    | none => rfl
    | some f =>
      by_cases hid : fresh = "" <;> simp [Prog.run, saveFile, upsert, hid]
  | get id =>
    simp only [step, handler, hGet, routed, Spec.step]
    by_cases h : id = ""
    · subst h; simp [Prog.run, he]
    · simp only [List.any_cons, List.any_nil, Bool.or_false, decide_eq_true_eq, h, if_false, Prog.run, hg]
      cases lookup s id <;> rfl
  | updateHeader id hd =>
    simp only [step, handler, hUpdateHeader, routed, Spec.step]
    by_cases h : id = ""
    · subst h; simp [Prog.run]
    · simp only [List.any_cons, List.any_nil, Bool.or_false, decide_eq_true_eq, h, if_false]
      cases hd with
      | none => rfl
      | some hv =>
        simp only [Prog.run, hg]
        cases hl : lookup s id with
        | none => rfl
        | some f =>
          have hid := lookup_some_id s hs id f hl
          simp [Prog.run, saveFile, upsert, hid.1, h]
  | delete id =>
    simp only [step, handler, hDelete, routed, Spec.step]
    by_cases h : id = ""
    · subst h; simp [Prog.run, he]
    · simp only [List.any_cons, List.any_nil, Bool.or_false, decide_eq_true_eq, h, if_false, Prog.run, hg]
      cases hl : lookup s id with
      | none => rfl
      | some f => simp [Prog.run, deleteFile, remove, h]
  | contents id =>
    simp only [step, handler, hContents, routed, Spec.step]
    by_cases h : id = ""
    · subst h; simp [Prog.run, he]
    · simp only [List.any_cons, List.any_nil, Bool.or_false, decide_eq_true_eq, h, if_false, Prog.run, hg]
      cases lookup s id <;> rfl
  | validate id =>
    simp only [step, handler, hValidate, routed, Spec.step]
    by_cases h : id = ""
    · subst h; simp [Prog.run, he]
    · simp only [List.any_cons, List.any_nil, Bool.or_false, decide_eq_true_eq, h, if_false, Prog.run, hg]
      cases lookup s id <;> rfl
  | addCL id cl =>
    simp only [step, handler, hAddCL, routed, Spec.step]
    by_cases h : id = ""
    · subst h; simp [Prog.run]
    · simp only [List.any_cons, List.any_nil, Bool.or_false, decide_eq_true_eq, h, if_false]
      cases cl with
      | none => rfl
      | some c =>
        simp only [Prog.run, hg]
        cases hl : lookup s id with
        | none => rfl
        | some f =>
          have hid := lookup_some_id s hs id f hl
          simp [Prog.run, saveFile, upsert, hid.1, h]
  | removeCL id cid =>
    simp only [step, handler, hRemoveCL, routed, Spec.step]
    by_cases h : id = ""
    · subst h; simp [Prog.run]
    · by_cases h2 : cid = ""
      · subst h2; simp [Prog.run]
      · simp only [List.any_cons, List.any_nil, Bool.or_false, decide_eq_true_eq, h, h2, or_self, if_false,
          Bool.or_eq_true, Prog.run, hg]
        cases hl : lookup s id with
        | none => rfl
        | some f =>
          have hid := lookup_some_id s hs id f hl
          simp [Prog.run, saveFile, upsert, hid.1, h]

/-- every request preserves the store invariant -/
theorem C11_inv (s : Store) (hs : Inv s) (r : Req) : Inv (step s r).1 := by
  rw [C11_step s hs r]
  cases r with
  | list => exact hs
  | createV1 ct u fresh =>
    simp only [Spec.step]
    cases v1Parsed ct u with
    | none => exact hs
    | some f =>
      by_cases hid : (withId f fresh).id = ""
      · simpa [hid] using hs
      · simpa [hid, upsert] using inv_put s _ hs hid
  | createV2 ct u fresh acc =>
    simp only [Spec.step]
    cases v2Parsed ct u with
    | none => exact hs
    | some f =>
      by_cases hid : fresh = ""
      · simpa [hid] using hs
      · simpa [hid, upsert] using inv_put s { f with id := fresh } hs hid
  | get id => simp only [Spec.step]; split <;> exact hs
  | updateHeader id hd =>
    simp only [Spec.step]
    split
    · exact hs
    · cases hd with
      | none => exact hs
      | some hv =>
        simp only
        cases hl : lookup s id with
        | none => exact hs
        | some f =>
          have hid := lookup_some_id s hs id f hl
          exact inv_put s { f with hdr := hv } hs (by simpa [hid.1] using hid.2)
  | delete id =>
    simp only [Spec.step]
    split
    · exact hs
    · exact inv_erase s id hs
  | contents id => simp only [Spec.step]; split <;> exact hs
  | validate id => simp only [Spec.step]; split <;> exact hs
  | addCL id cl =>
    simp only [Spec.step]
    split
    · exact hs
    · cases cl with
      | none => exact hs
      | some c =>
        simp only
        cases hl : lookup s id with
        | none => exact hs
        | some f =>
          have hid := lookup_some_id s hs id f hl
          exact inv_put s { f with cls := f.cls ++ [c] } hs (by simpa [hid.1] using hid.2)
  | removeCL id cid =>
    simp only [Spec.step]
    split
    · exact hs
    · cases hl : lookup s id with
      | none => exact hs
      | some f =>
        have hid := lookup_some_id s hs id f hl
        exact inv_put s { f with cls := f.cls.filter (fun c => c.id ≠ cid) } hs (by simpa [hid.1] using hid.2)

/-- every finite history: same responses and same final store as the reference model -/
theorem C11_history (rs : List Req) (s : Store) (hs : Inv s) :
    runHistory s rs = Spec.runHistory s rs := by
  induction rs generalizing s with
  | nil => rfl
  | cons r rs ih =>
    have h1 := C11_step s hs r
    have h2 := C11_inv s hs r
    simp only [runHistory, Spec.runHistory]
    rw [← h1, ih _ h2]

/-- the server starts with the empty store -/
theorem C11_from_start (rs : List Req) : runHistory [] rs = Spec.runHistory [] rs :=
  C11_history rs [] inv_nil

/-! ### the clauses of the statement, on the reference model -/

/-- a request changes at most the file it addresses: every other ID reads as before -/
theorem C11_other_files_untouched (s : Store) (hs : Inv s) (r : Req) (b : String) (hb : r.target ≠ some b) :
    lookup (Spec.step s r).1 b = lookup s b := by
  have frame : ∀ (id : String) (f g : AFile), lookup s id = some f → g.id = f.id → b ≠ id →
      lookup (upsert s g) b = lookup s b := by
    intro id f g hl hg hne
    have hid := lookup_some_id s hs id f hl
    simp only [upsert, lookup_put, hg, hid.1, hne, if_false]
  cases r with
  | list => rfl
  | createV1 ct u fresh =>
    simp only [Spec.step, Req.target] at hb ⊢
    cases hp : v1Parsed ct u with
    | none => rfl
    | some f =>
      simp only [hp] at hb
      have hne : b ≠ (withId f fresh).id := fun e => hb (by rw [e])
      by_cases hid : (withId f fresh).id = "" <;> simp [hid, upsert, lookup_put, hne]
  | createV2 ct u fresh acc =>
    simp only [Spec.step, Req.target] at hb ⊢
    have hne : b ≠ fresh := fun e => hb (by rw [e])
    cases hp : v2Parsed ct u with
    | none => rfl
    | some f =>
      by_cases hid : fresh = "" <;> simp [hid, upsert, lookup_put, hne]
  | get id => simp only [Spec.step]; split <;> rfl
  | updateHeader id hd =>
    have hne : b ≠ id := fun e => hb (by simp [Req.target, e])
    simp only [Spec.step]
    split
    · rfl
    · cases hd with
      | none => rfl
      | some hv =>
        simp only
        cases hl : lookup s id with
        | none => rfl
        | some f => exact frame id f _ hl rfl hne
  | delete id =>
    have hne : b ≠ id := fun e => hb (by simp [Req.target, e])
    simp only [Spec.step]
    split
    · rfl
    · simp [lookup_erase, hne]
  | contents id => simp only [Spec.step]; split <;> rfl
  | validate id => simp only [Spec.step]; split <;> rfl
  | addCL id cl =>
    have hne : b ≠ id := fun e => hb (by simp [Req.target, e])
    simp only [Spec.step]
    split
    · rfl
    · cases cl with
      | none => rfl
      | some c =>
        simp only
        cases hl : lookup s id with
        | none => rfl
        | some f => exact frame id f _ hl rfl hne
  | removeCL id cid =>
    have hne : b ≠ id := fun e => hb (by simp [Req.target, e])
    simp only [Spec.step]
    split
    · rfl
    · cases hl : lookup s id with
      | none => rfl
      | some f => exact frame id f _ hl rfl hne

/-- a created file is retrievable, under the ID it was stored with, with the content the library
computed for the upload - whichever API version created it (both write the same store) -/
theorem C11_created_is_retrievable (s : Store) (ct : CT) (u : Upload) (fresh : String) (acc : Accept) :
    (∀ f, v1Parsed ct u = some f → (withId f fresh).id ≠ "" →
      (Spec.step s (.createV1 ct u fresh)).2 = .file 201 (withId f fresh) ∧
      (Spec.step (Spec.step s (.createV1 ct u fresh)).1 (.get (withId f fresh).id)).2 = .file 200 (withId f fresh)) ∧
    (∀ f, v2Parsed ct u = some f → fresh ≠ "" →
      (Spec.step s (.createV2 ct u fresh acc)).2 = v2Resp { f with id := fresh } acc ∧
      (Spec.step (Spec.step s (.createV2 ct u fresh acc)).1 (.get fresh)).2 = .file 200 { f with id := fresh }) := by
  constructor
  · intro f hp hid
    simp [Spec.step, hp, hid, upsert, lookup_put]
  · intro f hp hid
    simp [Spec.step, hp, hid, upsert, lookup_put]

/-- a deleted ID answers 404 to every later addressed request until it is created again -/
theorem C11_deleted_is_gone (s : Store) (id : String) :
    (Spec.step (Spec.step s (.delete id)).1 (.get id)).2 = .notFound := by
  simp only [Spec.step]
  cases hl : lookup s id with
  | none => simp [hl]
  | some f => simp [lookup_erase]

/-- unknown IDs answer 404 on every endpoint that addresses a file and takes no (or a decodable) body -/
theorem C11_unknown_is_404 (s : Store) (id : String) (h : lookup s id = none) :
    (Spec.step s (.get id)).2 = .notFound ∧ (Spec.step s (.delete id)).2 = .notFound ∧
    (Spec.step s (.contents id)).2 = .notFound ∧ (Spec.step s (.validate id)).2 = .notFound ∧
    (∀ hv, (Spec.step s (.updateHeader id (some hv))).2 = .notFound) ∧
    (∀ c, (Spec.step s (.addCL id (some c))).2 = .notFound) ∧
    (∀ cid, (Spec.step s (.removeCL id cid)).2 = .notFound) := by
  refine ⟨?_, ?_, ?_, ?_, ?_, ?_, ?_⟩ <;> intros <;> simp only [Spec.step, h] <;> split <;> rfl

/-- header updates and added / removed cash letters are what a later read of that file returns -/
theorem C11_update_then_get (s : Store) (hs : Inv s) (id : String) (f : AFile) (h : lookup s id = some f) :
    (∀ hv, (Spec.step (Spec.step s (.updateHeader id (some hv))).1 (.get id)).2 = .file 200 { f with hdr := hv }) ∧
    (∀ c, (Spec.step (Spec.step s (.addCL id (some c))).1 (.get id)).2 = .file 200 { f with cls := f.cls ++ [c] }) ∧
    (∀ cid, cid ≠ "" → (Spec.step (Spec.step s (.removeCL id cid)).1 (.get id)).2
        = .file 200 { f with cls := f.cls.filter (fun c => c.id ≠ cid) }) := by
  have hid := lookup_some_id s hs id f h
  refine ⟨?_, ?_, ?_⟩ <;> intros <;> simp [Spec.step, hid.2, upsert, lookup_put, hid.1, *]

/-- non-vacuity: a history through both API versions on one store -/
example :
    let u : Upload := { asJSON := some ⟨"a", 1, [⟨"c1", 10⟩], 7⟩, asX9E := none, asX9A := some ⟨"", 2, [], 8⟩ }
    (runHistory [] [.createV1 .json u "g1", .createV2 .multipartText u "g2" .other, .addCL "g2" (some ⟨"c2", 11⟩),
        .removeCL "a" "c1", .get "a", .get "g2", .delete "a", .get "a"]).2
      = [.file 201 ⟨"a", 1, [⟨"c1", 10⟩], 7⟩, .file 201 ⟨"g2", 2, [], 8⟩, .file 200 ⟨"g2", 2, [⟨"c2", 11⟩], 8⟩,
         .okNull, .file 200 ⟨"a", 1, [], 7⟩, .file 200 ⟨"g2", 2, [⟨"c2", 11⟩], 8⟩, .okNull, .notFound] := by
  decide

end Icl.Api
