/-
C13 - bad requests get a 4xx JSON error and leave the store untouched.

`Bad s r`: the library rejects the uploaded payload under the decoder the handler selects (or the
content type selects none), the body of a header / cash-letter request does not decode, an identifier
is empty, or the addressed file is not in the store.  On the handler model such a request returns the
store unchanged and answers 404 or 400 - 404 exactly when the only thing wrong is the unknown file.
The "dropped connection / hang" part of the statement is a property of the Go runtime around a
panicking or looping library call: on this level it is the assumption that `Upload` is total (C05).
-/
import IclModel.Lemmas.Api
namespace Icl.Api

def Bad (s : Store) : Req → Prop
  | .list => False
  | .createV1 ct u _ => v1Parsed ct u = none
  | .createV2 ct u _ _ => v2Parsed ct u = none
  | .get id | .delete id | .contents id | .validate id => id = "" ∨ getFile s id = none
  | .updateHeader id h => id = "" ∨ h = none ∨ getFile s id = none
  | .addCL id c => id = "" ∨ c = none ∨ getFile s id = none
  | .removeCL id cid => id = "" ∨ cid = "" ∨ getFile s id = none

theorem C13_bad (s : Store) (r : Req) (h : Bad s r) :
    (step s r).1 = s ∧ ((step s r).2 = .notFound ∨ (step s r).2 = .bad) := by
  cases r with
  | list => exact absurd h (by simp [Bad])
  | createV1 ct u fresh => simp only [Bad] at h; simp [step, handler, hCreateV1, h, Prog.run]
  | createV2 ct u fresh acc => simp only [Bad] at h; simp [step, handler, hCreateV2, h, Prog.run]
  | get id =>
    simp only [Bad] at h; simp only [step, handler, hGet, routed]
    split
    · simp [Prog.run]
    · rcases h with h | h
      · simp_all
      · simp [Prog.run, h]
  | delete id =>
    simp only [Bad] at h; simp only [step, handler, hDelete, routed]
    split
    · simp [Prog.run]
    · rcases h with h | h
      · simp_all
      · simp [Prog.run, h]
  | contents id =>
    simp only [Bad] at h; simp only [step, handler, hContents, routed]
    split
    · simp [Prog.run]
    · rcases h with h | h
      · simp_all
      · simp [Prog.run, h]
  | validate id =>
    simp only [Bad] at h; simp only [step, handler, hValidate, routed]
    split
    · simp [Prog.run]
    · rcases h with h | h
      · simp_all
      · simp [Prog.run, h]
  | updateHeader id hd =>
    simp only [Bad] at h; simp only [step, handler, hUpdateHeader, routed]
    split
    · simp [Prog.run]
    · cases hd with
      | none => simp [Prog.run]
      | some hv =>
        rcases h with h | h | h
        · simp_all
        · simp at h
        · simp [Prog.run, h]
  | addCL id cl =>
    simp only [Bad] at h; simp only [step, handler, hAddCL, routed]
    split
    · simp [Prog.run]
    · cases cl with
      | none => simp [Prog.run]
      | some c =>
        rcases h with h | h | h
        · simp_all
        · simp at h
        · simp [Prog.run, h]
  | removeCL id cid =>
    simp only [Bad] at h; simp only [step, handler, hRemoveCL, routed]
    split
    · simp [Prog.run]
    · rcases h with h | h | h
      · simp_all
      · simp_all
      · simp [Prog.run, h]

/-- 404 exactly for the unknown (or empty) file when nothing else is wrong; 400 for a rejected body -/
theorem C13_status (s : Store) (id : String) (hn : getFile s id = none) :
    (step s (.get id)).2 = .notFound ∧ (step s (.delete id)).2 = .notFound ∧
    (step s (.contents id)).2 = .notFound ∧ (step s (.validate id)).2 = .notFound ∧
    (∀ hv, (step s (.updateHeader id (some hv))).2 = .notFound) ∧
    (∀ c, (step s (.addCL id (some c))).2 = .notFound) ∧
    (∀ cid, (step s (.removeCL id cid)).2 = .notFound) ∧
    (∀ ct u fr, v1Parsed ct u = none → (step s (.createV1 ct u fr)).2 = .bad) ∧
    (∀ ct u fr a, v2Parsed ct u = none → (step s (.createV2 ct u fr a)).2 = .bad) := by
  refine ⟨?_, ?_, ?_, ?_, ?_, ?_, ?_, ?_, ?_⟩
  all_goals intros
  all_goals simp only [step, handler, hGet, hDelete, hContents, hValidate, hUpdateHeader, hAddCL, hRemoveCL,
    hCreateV1, hCreateV2, routed]
  all_goals first
    | (simp [Prog.run, *]; done)
    | (split <;> simp [Prog.run, hn])

/-- a bad request anywhere in a history leaves every later response what it would have been -/
theorem C13_no_trace (s : Store) (r : Req) (h : Bad s r) (post : List Req) :
    (runHistory (step s r).1 post).2 = (runHistory s post).2 := by
  rw [(C13_bad s r h).1]

/-- non-vacuity: each kind of badness occurs -/
example : Bad [] (.get "x") ∧ Bad [] (.createV2 .other default "g" .other) ∧
    Bad [("a", ⟨"a", 1, [], 2⟩)] (.updateHeader "a" none) ∧ Bad [("a", ⟨"a", 1, [], 2⟩)] (.removeCL "a" "") := by
  simp [Bad, getFile, v2Parsed]

end Icl.Api
