/-
C05 — no input can crash, hang or balloon the reader, the JSON loader or the writer.

Reader, proved: `guardOK` is a decidable symbolic check on a Parse() statement list (every slice
`record[lo:hi]` is dominated by a length guard that was established before it, with the length
variables known non-negative); `parseStmts_no_panic` shows that it excludes the interpreter's `panic`
outcome for EVERY input string — short, padded, multi-byte, with lying embedded length fields.
`decide` establishes `guardOK` for the Parse() regenerated from every record type the reader
dispatches on (a weakened `RuneCountInString(record) < N` guard breaks it).  The rest of the model
reader is total by construction (Lean definitions terminate; `rstep`/`readLines`/`scan` are structurally
or well-founded recursive), which is the model-level "never hangs".
JSON loader / build / writer on nil shapes: covered by the single-position mutation enumeration
(null, absent, wrong type, [null], [{},null], {}) against the real code, not by a theorem.
-/
import IclModel.Lemmas.ParseTotal
import IclModel.Gen.Layouts
namespace Icl.C05
open Icl

theorem guards_fileHeader : guardOK Gen.fileHeader.parse {} = true := by decide
theorem guards_cashLetterHeader : guardOK Gen.cashLetterHeader.parse {} = true := by decide
theorem guards_bundleHeader : guardOK Gen.bundleHeader.parse {} = true := by decide
theorem guards_checkDetail : guardOK Gen.checkDetail.parse {} = true := by decide
theorem guards_checkDetailAddendumA : guardOK Gen.checkDetailAddendumA.parse {} = true := by decide
theorem guards_checkDetailAddendumB : guardOK Gen.checkDetailAddendumB.parse {} = true := by decide
theorem guards_checkDetailAddendumC : guardOK Gen.checkDetailAddendumC.parse {} = true := by decide
theorem guards_returnDetail : guardOK Gen.returnDetail.parse {} = true := by decide
theorem guards_returnDetailAddendumA : guardOK Gen.returnDetailAddendumA.parse {} = true := by decide
theorem guards_returnDetailAddendumB : guardOK Gen.returnDetailAddendumB.parse {} = true := by decide
theorem guards_returnDetailAddendumC : guardOK Gen.returnDetailAddendumC.parse {} = true := by decide
theorem guards_returnDetailAddendumD : guardOK Gen.returnDetailAddendumD.parse {} = true := by decide
theorem guards_imageViewDetail : guardOK Gen.imageViewDetail.parse {} = true := by decide
theorem guards_imageViewData : guardOK Gen.imageViewData.parse {} = true := by decide
theorem guards_imageViewAnalysis : guardOK Gen.imageViewAnalysis.parse {} = true := by decide
theorem guards_credit : guardOK Gen.credit.parse {} = true := by decide
theorem guards_creditItem : guardOK Gen.creditItem.parse {} = true := by decide
theorem guards_userPayeeEndorsement : guardOK Gen.userPayeeEndorsement.parse {} = true := by decide
theorem guards_bundleControl : guardOK Gen.bundleControl.parse {} = true := by decide
theorem guards_routingNumberSummary : guardOK Gen.routingNumberSummary.parse {} = true := by decide
theorem guards_cashLetterControl : guardOK Gen.cashLetterControl.parse {} = true := by decide
theorem guards_fileControl : guardOK Gen.fileControl.parse {} = true := by decide

theorem total_fileHeader (dec : Bytes → Bytes) (now : Date) (record : Bytes) (v0 : Vals) :
    ∃ v, Gen.fileHeader.parseRec dec now record v0 = .done v := parseRec_total _ guards_fileHeader dec now record v0
theorem total_cashLetterHeader (dec : Bytes → Bytes) (now : Date) (record : Bytes) (v0 : Vals) :
    ∃ v, Gen.cashLetterHeader.parseRec dec now record v0 = .done v := parseRec_total _ guards_cashLetterHeader dec now record v0
theorem total_bundleHeader (dec : Bytes → Bytes) (now : Date) (record : Bytes) (v0 : Vals) :
    ∃ v, Gen.bundleHeader.parseRec dec now record v0 = .done v := parseRec_total _ guards_bundleHeader dec now record v0
theorem total_checkDetail (dec : Bytes → Bytes) (now : Date) (record : Bytes) (v0 : Vals) :
    ∃ v, Gen.checkDetail.parseRec dec now record v0 = .done v := parseRec_total _ guards_checkDetail dec now record v0
theorem total_checkDetailAddendumA (dec : Bytes → Bytes) (now : Date) (record : Bytes) (v0 : Vals) :
    ∃ v, Gen.checkDetailAddendumA.parseRec dec now record v0 = .done v := parseRec_total _ guards_checkDetailAddendumA dec now record v0
theorem total_checkDetailAddendumB (dec : Bytes → Bytes) (now : Date) (record : Bytes) (v0 : Vals) :
    ∃ v, Gen.checkDetailAddendumB.parseRec dec now record v0 = .done v := parseRec_total _ guards_checkDetailAddendumB dec now record v0
theorem total_checkDetailAddendumC (dec : Bytes → Bytes) (now : Date) (record : Bytes) (v0 : Vals) :
    ∃ v, Gen.checkDetailAddendumC.parseRec dec now record v0 = .done v := parseRec_total _ guards_checkDetailAddendumC dec now record v0
theorem total_returnDetail (dec : Bytes → Bytes) (now : Date) (record : Bytes) (v0 : Vals) :
    ∃ v, Gen.returnDetail.parseRec dec now record v0 = .done v := parseRec_total _ guards_returnDetail dec now record v0
theorem total_returnDetailAddendumA (dec : Bytes → Bytes) (now : Date) (record : Bytes) (v0 : Vals) :
    ∃ v, Gen.returnDetailAddendumA.parseRec dec now record v0 = .done v := parseRec_total _ guards_returnDetailAddendumA dec now record v0
theorem total_returnDetailAddendumB (dec : Bytes → Bytes) (now : Date) (record : Bytes) (v0 : Vals) :
    ∃ v, Gen.returnDetailAddendumB.parseRec dec now record v0 = .done v := parseRec_total _ guards_returnDetailAddendumB dec now record v0
theorem total_returnDetailAddendumC (dec : Bytes → Bytes) (now : Date) (record : Bytes) (v0 : Vals) :
    ∃ v, Gen.returnDetailAddendumC.parseRec dec now record v0 = .done v := parseRec_total _ guards_returnDetailAddendumC dec now record v0
theorem total_returnDetailAddendumD (dec : Bytes → Bytes) (now : Date) (record : Bytes) (v0 : Vals) :
    ∃ v, Gen.returnDetailAddendumD.parseRec dec now record v0 = .done v := parseRec_total _ guards_returnDetailAddendumD dec now record v0
theorem total_imageViewDetail (dec : Bytes → Bytes) (now : Date) (record : Bytes) (v0 : Vals) :
    ∃ v, Gen.imageViewDetail.parseRec dec now record v0 = .done v := parseRec_total _ guards_imageViewDetail dec now record v0
theorem total_imageViewData (dec : Bytes → Bytes) (now : Date) (record : Bytes) (v0 : Vals) :
    ∃ v, Gen.imageViewData.parseRec dec now record v0 = .done v := parseRec_total _ guards_imageViewData dec now record v0
theorem total_imageViewAnalysis (dec : Bytes → Bytes) (now : Date) (record : Bytes) (v0 : Vals) :
    ∃ v, Gen.imageViewAnalysis.parseRec dec now record v0 = .done v := parseRec_total _ guards_imageViewAnalysis dec now record v0
theorem total_credit (dec : Bytes → Bytes) (now : Date) (record : Bytes) (v0 : Vals) :
    ∃ v, Gen.credit.parseRec dec now record v0 = .done v := parseRec_total _ guards_credit dec now record v0
theorem total_creditItem (dec : Bytes → Bytes) (now : Date) (record : Bytes) (v0 : Vals) :
    ∃ v, Gen.creditItem.parseRec dec now record v0 = .done v := parseRec_total _ guards_creditItem dec now record v0
theorem total_userPayeeEndorsement (dec : Bytes → Bytes) (now : Date) (record : Bytes) (v0 : Vals) :
    ∃ v, Gen.userPayeeEndorsement.parseRec dec now record v0 = .done v := parseRec_total _ guards_userPayeeEndorsement dec now record v0
theorem total_bundleControl (dec : Bytes → Bytes) (now : Date) (record : Bytes) (v0 : Vals) :
    ∃ v, Gen.bundleControl.parseRec dec now record v0 = .done v := parseRec_total _ guards_bundleControl dec now record v0
theorem total_routingNumberSummary (dec : Bytes → Bytes) (now : Date) (record : Bytes) (v0 : Vals) :
    ∃ v, Gen.routingNumberSummary.parseRec dec now record v0 = .done v := parseRec_total _ guards_routingNumberSummary dec now record v0
theorem total_cashLetterControl (dec : Bytes → Bytes) (now : Date) (record : Bytes) (v0 : Vals) :
    ∃ v, Gen.cashLetterControl.parseRec dec now record v0 = .done v := parseRec_total _ guards_cashLetterControl dec now record v0
theorem total_fileControl (dec : Bytes → Bytes) (now : Date) (record : Bytes) (v0 : Vals) :
    ∃ v, Gen.fileControl.parseRec dec now record v0 = .done v := parseRec_total _ guards_fileControl dec now record v0

/-- the length of a record counted in runes never exceeds its length in bytes: the reason why a
rune-count guard protects byte slicing -/
theorem rune_guard_protects (s : Bytes) : runeCount s ≤ s.length := runeCount_le_length s

end Icl.C05
