/-
C14 - read-only endpoints do not change what is stored.

On the handler model: the four GET handlers return the store they were given, for every store
(no invariant needed) - each is a single `GetFile`/`GetFiles` followed by local computation on the
value handed out.  Hence any number of them, in any order, anywhere in a history, leaves every later
response unchanged.  (That the *values* handed out by the real repository share memory with the stored
ones is not expressible on this level; the before/after comparison of the correspondence harness is
what ties the real handlers to this model.)
-/
import IclModel.Lemmas.Api
namespace Icl.Api

theorem C14_readonly (s : Store) (r : Req) (h : r.isRead = true) : (step s r).1 = s := by
  cases r <;> simp [Req.isRead] at h
  · rfl
  all_goals
    rename_i id
    simp only [step, handler, hGet, hContents, hValidate, routed]
    split
    · rfl
    · simp only [Prog.run]; cases getFile s id <;> rfl

theorem runHistory_append (s : Store) (a b : List Req) :
    runHistory s (a ++ b) = ((runHistory (runHistory s a).1 b).1, (runHistory s a).2 ++ (runHistory (runHistory s a).1 b).2) := by
  induction a generalizing s with
  | nil => simp [runHistory]
  | cons r a ih => simp [runHistory, ih]

/-- a block of read-only requests is the identity on the store -/
theorem C14_reads_identity (s : Store) (reads : List Req) (h : ∀ r ∈ reads, r.isRead = true) :
    (runHistory s reads).1 = s := by
  induction reads generalizing s with
  | nil => rfl
  | cons r rs ih =>
    have h1 := C14_readonly s r (h r (by simp))
    simp only [runHistory]
    rw [h1]
    exact ih s (fun r hr => h r (by simp [hr]))

/-- after any prefix, inserting any sequence of read-only requests changes no later response -/
theorem C14_history (s : Store) (pre reads post : List Req) (h : ∀ r ∈ reads, r.isRead = true) :
    (runHistory (runHistory s (pre ++ reads)).1 post).2 = (runHistory (runHistory s pre).1 post).2 := by
  rw [runHistory_append]
  simp only
  rw [C14_reads_identity _ reads h]

/-- non-vacuity: reads interleaved after a mutating prefix -/
example :
    let u : Upload := { asJSON := some ⟨"a", 1, [⟨"c1", 10⟩], 7⟩, asX9E := none, asX9A := none }
    (runHistory [] [.createV1 .json u "g", .validate "a", .contents "a", .list, .get "a", .validate "a"]).1
      = (runHistory [] [.createV1 .json u "g"]).1 := by decide

end Icl.Api
