/-
C04 — a successful read never drops, overwrites or re-parents a record.

`attribute` is the X9 nesting automaton (specification): it assigns every input record, by the
records it follows, the cash letter / bundle / item it belongs to.  `census` lists the records a
returned file holds with the same coordinates.  The property is `readOk → census f ~ attribute kinds`.
The model reader is tied to reader.go by the single-fault correspondence stream (every delete,
duplicate, move, insert, cut of generated valid files).
-/
import IclModel.Lemmas.CensusStep
namespace Icl.C04
open Icl

/-- the automaton never loses a record: one place per input record, of the record's own kind -/
theorem attribute_kinds (a : AState) (ks : List Kind) : (attributeAux a ks).1.map (·.kind) = ks := by
  induction ks generalizing a with
  | nil => simp [attributeAux]
  | cons k r ih =>
    simp only [attributeAux, List.map_cons]
    have hk : (astep a k).2.kind = k := by cases k <;> simp [astep]
    rw [hk, ih]

/-- census of a returned file, in the same coordinates -/
def censusItem (isCheck : Bool) (cl b it : Nat) (i : Item α) : List Place :=
  (Item.flatten isCheck i).map (fun kr => ⟨kr.1, cl, b, it⟩)

theorem census_item_kinds (isCheck : Bool) (cl b it : Nat) (i : Item α) :
    (censusItem isCheck cl b it i).map (·.kind) = (Item.flatten isCheck i).map (·.1) := by
  simp [censusItem, Function.comp_def]

/-! ### the reader model never drops, overwrites or re-parents a record -/

/-- appending one record to a list member of an item adds exactly that record's place -/
macro "item_hf" k:term : tactic =>
  `(tactic| (intro cl b it x p
             simp only [itemPlaces, List.count_append, List.count_replicate, List.count_cons, List.count_nil, List.length_append,
               List.length_singleton, beq_iff_eq, Bool.false_eq_true, if_false, if_true]
             by_cases hq : (⟨$k, cl, b, it⟩ : Place) = p
             · subst hq; simp <;> omega
             · simp [hq] <;> omega))

theorem openB_none (s : RState) (h : s.curBundle = none) : openB s.core = false := by
  simp [openB, RState.core, h]

theorem openB_some (s : RState) (b : Bundle Vals) (h : s.curBundle = some b) : openB s.core = b.header.isSome := by
  simp [openB, RState.core, h]

theorem isSome_of_ne_none {β : Type} (o : Option β) (h : ¬ o = none) : o.isSome = true := by
  cases o <;> simp_all

theorem hasChecks_some (s : RState) (h : hasChecks s = true) : ∃ bd, s.curBundle = some bd ∧ bd.checks ≠ [] := by
  unfold hasChecks at h
  cases hcb : s.curBundle with
  | none => simp [hcb] at h
  | some bd => exact ⟨bd, rfl, by simpa [hcb] using h⟩

theorem hasReturns_some (s : RState) (h : hasReturns s = true) : ∃ bd, s.curBundle = some bd ∧ bd.returns ≠ [] := by
  unfold hasReturns at h
  cases hcb : s.curBundle with
  | none => simp [hcb] at h
  | some bd => exact ⟨bd, rfl, by simpa [hcb] using h⟩

/-- a record attached to the last check item -/
theorem rel_updCheck (s : RState) (a : AState) (ps : List Place) (r : Rel s.core a ps) (k : Kind) (hk : itemKind k = true)
    (hc : hasChecks s = true) (f : Item Vals → Item Vals)
    (hf : ∀ cl b it x p, (itemPlaces true cl b it (f x)).count p =
      (itemPlaces true cl b it x).count p + (if (⟨k, cl, b, it⟩ : Place) = p then 1 else 0)) (n : String) :
    Rel ({ s with recordName := n }.updLastCheck f).core (astep a k).1 (ps ++ [(astep a k).2]) := by
  obtain ⟨bd, hcb, hne⟩ := hasChecks_some s hc
  have := rel_lastItem s.core a ps r k hk true bd hcb (by simpa using hne) f hf
  simpa [RState.core, RState.updLastCheck, hcb] using this

theorem rel_updReturn (s : RState) (a : AState) (ps : List Place) (r : Rel s.core a ps) (k : Kind) (hk : itemKind k = true)
    (hc : hasReturns s = true) (f : Item Vals → Item Vals)
    (hf : ∀ cl b it x p, (itemPlaces false cl b it (f x)).count p =
      (itemPlaces false cl b it x).count p + (if (⟨k, cl, b, it⟩ : Place) = p then 1 else 0)) (n : String) :
    Rel ({ s with recordName := n }.updLastReturn f).core (astep a k).1 (ps ++ [(astep a k).2]) := by
  obtain ⟨bd, hcb, hne⟩ := hasReturns_some s hc
  have := rel_lastItem s.core a ps r k hk false bd hcb (by simpa using hne) f hf
  simpa [RState.core, RState.updLastReturn, hcb] using this

/-- one accepted record: the reader's holdings and the automaton's attribution move together -/
theorem rel_step (m : Model) (e : Enc) (s s' : RState) (line : Bytes) (a : AState) (ps : List Place) (k : Kind)
    (hk : kindOfLine line = some k) (h : rstep m e s line = .ok s') (r : Rel s.core a ps) :
    Rel s'.core (astep a k).1 (ps ++ [(astep a k).2]) := by
  cases k with
  | fileHeader =>
    simp only [rstep, hk] at h
    split at h
    · simp at h
    · split at h
      · simp only [Except.ok.injEq] at h; subst h
        exact rel_fileLevel s.core a ps r .fileHeader (.inl rfl)
      · simp at h
  | fileControl =>
    simp only [rstep, hk] at h
    split at h
    · simp at h
    · split at h
      · simp at h
      · rename_i hcl
        split at h
        · simp at h
        · split at h
          · simp only [Except.ok.injEq] at h; subst h
            exact rel_fileLevel s.core a ps r .fileControl (.inr ⟨rfl, by simpa [RState.core] using hcl⟩)
          · simp at h
  | cashLetterHeader =>
    simp only [rstep, hk] at h
    split at h
    · simp at h
    · rename_i hcl
      obtain ⟨v, _, hp⟩ := bind_ok _ _ _ h
      simp only [pure, Except.pure, Except.ok.injEq] at hp; subst hp
      exact rel_cashLetterHeader s.core a ps r (by cases hx : s.cur.header <;> simp_all [RState.core]) v _
  | bundleHeader =>
    have key : openB s.core = false → rstep m e s line = .ok s' →
        Rel s'.core (astep a .bundleHeader).1 (ps ++ [(astep a .bundleHeader).2]) := by
      intro hclosed h
      cases hcb : s.curBundle with
      | none =>
        simp only [rstep, hk, hcb, Bool.false_eq_true, if_false] at h
        obtain ⟨v, _, hp⟩ := bind_ok _ _ _ h
        split at hp
        · simp at hp
        · rename_i hcl
          simp only [pure, Except.pure, Except.ok.injEq] at hp; subst hp
          have := rel_bundleHeader s.core a ps r (by cases hx : s.cur.header <;> simp_all [RState.core]) hclosed v
            ((m.layout .bundleControl).new m.now)
          simpa [RState.core] using this
      | some b =>
        have hb : b.header.isSome = false := by rw [← openB_some s b hcb]; exact hclosed
        simp only [rstep, hk, hcb, hb, Bool.false_eq_true, if_false] at h
        obtain ⟨v, _, hp⟩ := bind_ok _ _ _ h
        split at hp
        · simp at hp
        · rename_i hcl
          simp only [pure, Except.pure, Except.ok.injEq] at hp; subst hp
          have := rel_bundleHeader s.core a ps r (by cases hx : s.cur.header <;> simp_all [RState.core]) hclosed v
            ((m.layout .bundleControl).new m.now)
          simpa [RState.core] using this
    cases ho : openB s.core with
    | false => exact key ho h
    | true =>
      cases hcb : s.curBundle with
      | none => rw [openB_none s hcb] at ho; cases ho
      | some b =>
        have hb : b.header.isSome = true := by rw [← openB_some s b hcb]; exact ho
        simp [rstep, hk, hcb, hb] at h
  | checkDetail =>
    simp only [rstep, hk] at h
    split at h
    · simp at h
    · rename_i bd hcb
      obtain ⟨v, _, hp⟩ := bind_ok _ _ _ h
      split at hp
      · simp at hp
      · rename_i hh
        split at hp
        · simp at hp
        · rename_i hr
          simp only [pure, Except.pure, Except.ok.injEq] at hp; subst hp
          have := rel_newItem s.core a ps r true bd hcb (isSome_of_ne_none _ (by simpa using hh)) (by simpa using hr) v
          simpa [RState.core] using this
  | returnDetail =>
    simp only [rstep, hk] at h
    split at h
    · simp at h
    · rename_i bd hcb
      obtain ⟨v, _, hp⟩ := bind_ok _ _ _ h
      split at hp
      · simp at hp
      · rename_i hh
        split at hp
        · simp at hp
        · rename_i hr
          simp only [pure, Except.pure, Except.ok.injEq] at hp; subst hp
          have := rel_newItem s.core a ps r false bd hcb (isSome_of_ne_none _ (by simpa using hh)) (by simpa using hr) v
          simpa [RState.core] using this
  | cdAddA =>
    simp only [rstep, hk] at h
    split at h
    · simp at h
    · rename_i hc
      obtain ⟨v, _, hp⟩ := bind_ok _ _ _ h
      simp only [pure, Except.pure, Except.ok.injEq] at hp; subst hp
      exact rel_updCheck s a ps r .cdAddA rfl (by simpa [hasChecks] using hc) _ (by item_hf .cdAddA) _
  | cdAddB =>
    simp only [rstep, hk] at h
    split at h
    · simp at h
    · rename_i hc
      obtain ⟨v, _, hp⟩ := bind_ok _ _ _ h
      simp only [pure, Except.pure, Except.ok.injEq] at hp; subst hp
      exact rel_updCheck s a ps r .cdAddB rfl (by simpa [hasChecks] using hc) _ (by item_hf .cdAddB) _
  | cdAddC =>
    simp only [rstep, hk] at h
    split at h
    · simp at h
    · rename_i hc
      obtain ⟨v, _, hp⟩ := bind_ok _ _ _ h
      simp only [pure, Except.pure, Except.ok.injEq] at hp; subst hp
      exact rel_updCheck s a ps r .cdAddC rfl (by simpa [hasChecks] using hc) _ (by item_hf .cdAddC) _
  | rdAddA =>
    simp only [rstep, hk] at h
    split at h
    · simp at h
    · rename_i hc
      obtain ⟨v, _, hp⟩ := bind_ok _ _ _ h
      simp only [pure, Except.pure, Except.ok.injEq] at hp; subst hp
      exact rel_updReturn s a ps r .rdAddA rfl (by simpa [hasReturns] using hc) _ (by item_hf .rdAddA) _
  | rdAddB =>
    simp only [rstep, hk] at h
    split at h
    · simp at h
    · rename_i hc
      obtain ⟨v, _, hp⟩ := bind_ok _ _ _ h
      simp only [pure, Except.pure, Except.ok.injEq] at hp; subst hp
      exact rel_updReturn s a ps r .rdAddB rfl (by simpa [hasReturns] using hc) _ (by item_hf .rdAddB) _
  | rdAddC =>
    simp only [rstep, hk] at h
    split at h
    · simp at h
    · rename_i hc
      obtain ⟨v, _, hp⟩ := bind_ok _ _ _ h
      simp only [pure, Except.pure, Except.ok.injEq] at hp; subst hp
      exact rel_updReturn s a ps r .rdAddC rfl (by simpa [hasReturns] using hc) _ (by item_hf .rdAddC) _
  | rdAddD =>
    simp only [rstep, hk] at h
    split at h
    · simp at h
    · rename_i hc
      obtain ⟨v, _, hp⟩ := bind_ok _ _ _ h
      simp only [pure, Except.pure, Except.ok.injEq] at hp; subst hp
      exact rel_updReturn s a ps r .rdAddD rfl (by simpa [hasReturns] using hc) _ (by item_hf .rdAddD) _
  | ivDetail =>
    simp only [rstep, hk] at h
    split at h
    · rename_i hc
      obtain ⟨v, _, hp⟩ := bind_ok _ _ _ h
      simp only [pure, Except.pure, Except.ok.injEq] at hp; subst hp
      exact rel_updCheck s a ps r .ivDetail rfl (by simpa [hasChecks] using hc) _ (by item_hf .ivDetail) _
    · split at h
      · rename_i hc
        obtain ⟨v, _, hp⟩ := bind_ok _ _ _ h
        simp only [pure, Except.pure, Except.ok.injEq] at hp; subst hp
        exact rel_updReturn s a ps r .ivDetail rfl (by simpa [hasReturns] using hc) _ (by item_hf .ivDetail) _
      · simp at h
  | ivData =>
    simp only [rstep, hk] at h
    split at h
    · rename_i hc
      obtain ⟨v, _, hp⟩ := bind_ok _ _ _ h
      simp only [pure, Except.pure, Except.ok.injEq] at hp; subst hp
      exact rel_updCheck s a ps r .ivData rfl (by simpa [hasChecks] using hc) _ (by item_hf .ivData) _
    · split at h
      · rename_i hc
        obtain ⟨v, _, hp⟩ := bind_ok _ _ _ h
        simp only [pure, Except.pure, Except.ok.injEq] at hp; subst hp
        exact rel_updReturn s a ps r .ivData rfl (by simpa [hasReturns] using hc) _ (by item_hf .ivData) _
      · simp at h
  | ivAnalysis =>
    simp only [rstep, hk] at h
    split at h
    · rename_i hc
      obtain ⟨v, _, hp⟩ := bind_ok _ _ _ h
      simp only [pure, Except.pure, Except.ok.injEq] at hp; subst hp
      exact rel_updCheck s a ps r .ivAnalysis rfl (by simpa [hasChecks] using hc) _ (by item_hf .ivAnalysis) _
    · split at h
      · rename_i hc
        obtain ⟨v, _, hp⟩ := bind_ok _ _ _ h
        simp only [pure, Except.pure, Except.ok.injEq] at hp; subst hp
        exact rel_updReturn s a ps r .ivAnalysis rfl (by simpa [hasReturns] using hc) _ (by item_hf .ivAnalysis) _
      · simp at h
  | credit =>
    simp only [rstep, hk] at h
    split at h
    · simp at h
    · rename_i hcl
      obtain ⟨v, _, hp⟩ := bind_ok _ _ _ h
      simp only [pure, Except.pure, Except.ok.injEq] at hp; subst hp
      have hcl' : s.core.cur.header.isSome = true := by
        simp only [RState.core]; cases hx : s.cur.header <;> simp_all
      exact rel_clAppend s.core a ps r .credit hcl' _ (.inl rfl) rfl rfl (by simp [RState.core]) (by simp [RState.core]) (by simp [RState.core])
  | creditItem =>
    simp only [rstep, hk] at h
    split at h
    · simp at h
    · rename_i hcl
      obtain ⟨v, _, hp⟩ := bind_ok _ _ _ h
      simp only [pure, Except.pure, Except.ok.injEq] at hp; subst hp
      have hcl' : s.core.cur.header.isSome = true := by
        simp only [RState.core]; cases hx : s.cur.header <;> simp_all
      exact rel_clAppend s.core a ps r .creditItem hcl' _ (.inr (.inl rfl)) rfl rfl (by simp [RState.core]) (by simp [RState.core]) (by simp [RState.core])
  | rns =>
    simp only [rstep, hk] at h
    split at h
    · simp at h
    · rename_i hcl
      obtain ⟨v, _, hp⟩ := bind_ok _ _ _ h
      simp only [pure, Except.pure, Except.ok.injEq] at hp; subst hp
      have hcl' : s.core.cur.header.isSome = true := by
        simp only [RState.core]; cases hx : s.cur.header <;> simp_all
      exact rel_clAppend s.core a ps r .rns hcl' _ (.inr (.inr rfl)) rfl rfl (by simp [RState.core]) (by simp [RState.core]) (by simp [RState.core])
  | bundleControl =>
    simp only [rstep, hk] at h
    split at h
    · simp at h
    · rename_i bd hcb
      split at h
      · simp at h
      · rename_i c0 hc0
        obtain ⟨v, _, hp⟩ := bind_ok _ _ _ h
        split at hp
        · simp at hp
        · simp only [pure, Except.pure, Except.ok.injEq] at hp; subst hp
          have := rel_bundleControl s.core a ps r bd hcb (by simp [hc0]) v
          simpa [RState.core] using this
  | cashLetterControl =>
    cases hcl : s.cur.header with
    | none => simp [rstep, hk, hcl] at h
    | some hd =>
      cases hcb : s.curBundle with
      | none =>
        have hclosed := openB_none s hcb
        simp only [rstep, hk, hcl, hcb, Bool.false_eq_true, if_false] at h
        split at h
        · simp at h
        · obtain ⟨v, _, hp⟩ := bind_ok _ _ _ h
          split at hp
          · simp at hp
          · simp only [pure, Except.pure, Except.ok.injEq] at hp; subst hp
            have := rel_cashLetterControl s.core a ps r (by simp [RState.core, hcl]) hclosed v
            simpa [RState.core, hcl] using this
      | some b =>
        cases hb : b.header.isSome with
        | true => simp [rstep, hk, hcl, hcb, hb] at h
        | false =>
          have hclosed : openB s.core = false := by rw [openB_some s b hcb]; exact hb
          simp only [rstep, hk, hcl, hcb, hb, Bool.false_eq_true, if_false] at h
          split at h
          · simp at h
          · obtain ⟨v, _, hp⟩ := bind_ok _ _ _ h
            split at hp
            · simp at hp
            · simp only [pure, Except.pure, Except.ok.injEq] at hp; subst hp
              have := rel_cashLetterControl s.core a ps r (by simp [RState.core, hcl]) hclosed v
              simpa [RState.core, hcl] using this




/-- the record kinds of the input lines -/
def kindsOf (lines : List Bytes) : List Kind := lines.filterMap kindOfLine

theorem rstep_ok_kind (m : Model) (e : Enc) (s s' : RState) (line : Bytes) (h : rstep m e s line = .ok s') :
    ∃ k, kindOfLine line = some k := by
  cases hk : kindOfLine line with
  | some k => exact ⟨k, rfl⟩
  | none => simp [rstep, hk] at h

/-- the whole record loop: if it ends without error, every line had a known kind and the reader's
holdings are what the automaton attributes to those kinds -/
theorem readLines_rel (m : Model) (e : Enc) : ∀ (lines : List Bytes) (s s' : RState) (a : AState) (ps : List Place),
    Rel s.core a ps → readLines m e lines s = (s', none) →
    Rel s'.core (attributeAux a (kindsOf lines)).2 (ps ++ (attributeAux a (kindsOf lines)).1) ∧
      (kindsOf lines).length = lines.length
  | [], s, s', a, ps, r, h => by
    simp only [readLines, Prod.mk.injEq, and_true] at h
    subst h
    simpa [kindsOf, attributeAux] using r
  | l :: rest, s, s', a, ps, r, h => by
    simp only [readLines] at h
    split at h
    · simp at h
    · split at h
      · rename_i s1 hs1
        obtain ⟨k, hk⟩ := rstep_ok_kind m e _ s1 l hs1
        have r1 := rel_step m e _ s1 l a ps k hk hs1 (by simpa [RState.core] using r)
        have ih := readLines_rel m e rest s1 s' (astep a k).1 (ps ++ [(astep a k).2]) r1 h
        simp only [kindsOf, List.filterMap_cons, hk, attributeAux, List.length_cons] at ih ⊢
        constructor
        · simpa [List.append_assoc] using ih.1
        · simpa [kindsOf] using ih.2
      · simp at h

/-- C04 on the model reader: a read that ends without error holds, below the file level, exactly the
records of the input, each under the cash letter / bundle / item it followed - none dropped, none
overwritten, none moved - and the input was in hierarchy.  (The file header and file control records
are held in one slot each; a repeated file header is the recorded finding `duplicate-file-header`.) -/
theorem C04_no_loss (m : Model) (e : Enc) (lines : List Bytes) (s' : RState)
    (h : readLines m e lines (initState m) = (s', none)) (hend : s'.cur.header.isSome = false) :
    (kindsOf lines).length = lines.length ∧
    (attributeAux {} (kindsOf lines)).2.ok = true ∧
    (attributeAux {} (kindsOf lines)).2.inCL = false ∧ (attributeAux {} (kindsOf lines)).2.inB = false ∧
    ∀ p, inner p.kind = true → (filePlaces s'.file).count p = (attributeAux {} (kindsOf lines)).1.count p := by
  have r0 : Rel (initState m).core {} [] := rel_init _ rfl
  obtain ⟨r, hlen⟩ := readLines_rel m e lines (initState m) s' {} [] r0 h
  have he := r.curEmpty (by simpa [RState.core] using hend)
  refine ⟨hlen, r.ok, ?_, ?_, ?_⟩
  · rw [r.inCL]; simpa [RState.core] using hend
  · rw [r.inB]; exact he.2.2.2.2
  · intro p hp
    have hc := r.count p hp
    simp only [List.nil_append] at hc
    rw [← hc]
    have hcl : s'.cur.header.isSome = false := hend
    have hop := closed_bundle_places s'.core _ _ r he.2.2.2.2 (s'.cashLetters.length + 1) (s'.cur.bundles.length + 1)
    simp only [corePlaces, filePlaces, RState.file, cashLetterPlaces, List.append_nil]
    simp only [RState.core] at hop ⊢
    rw [hop]
    have h1 : s'.cur.bundles = [] := he.1
    have h2 : s'.cur.credits = [] := he.2.1
    have h3 : s'.cur.creditItems = [] := he.2.2.1
    have h4 : s'.cur.rns = [] := he.2.2.2.1
    simp [h1, h2, h3, h4, hcl, bundlesPlaces]

theorem readTail_ok (m : Model) (e : Enc) (ls : List Bytes) (clean : Bool) (f : File Vals)
    (h : (match readLines m e ls (initState m) with
      | (s, er) =>
        match er with
        | some x => (s.file, some x)
        | none =>
          if !clean then
            (s.file, some { wrapped := true, line := s.lineNum, record := s.recordName, cls := ErrClass.file, field := "LineNumber" })
          else if s.headerUntouched then
            (s.file, some { wrapped := true, line := s.lineNum, record := "FileHeader", cls := .file, field := "" })
          else if (s.control.s "recordType").isEmpty then
            (s.file, some { wrapped := true, line := s.lineNum, record := "FileControl", cls := .file, field := "" })
          else if s.cur.header.isSome then
            (s.file, some { wrapped := true, line := s.lineNum, record := "CashLetterControl", cls := .file, field := "" })
          else (s.file, (none : Option RErr))) = (f, none)) :
    ∃ s, readLines m e ls (initState m) = (s, none) ∧ s.cur.header.isSome = false ∧ f = s.file := by
  generalize hrl : readLines m e ls (initState m) = res at h
  obtain ⟨s, er⟩ := res
  cases er with
  | some x => simp at h
  | none =>
    simp only at h
    split at h
    · simp at h
    · split at h
      · simp at h
      · split at h
        · simp at h
        · split at h
          · simp at h
          · rename_i hcur
            simp only [Prod.mk.injEq, and_true] at h
            exact ⟨s, rfl, by simpa using hcur, h.symm⟩

/-- the same for `Reader.Read` as a whole (both framings): a returned file without error holds the
input's records under the parents they followed -/
theorem C04_read (m : Model) (e : Enc) (input : Bytes) (f : File Vals) (h : readFile m e input = (f, none)) :
    ∃ lines, lines = (if e.lp then (splitLP input).1 else splitNL input) ∧
    (attributeAux {} (kindsOf lines)).2.ok = true ∧
    ∀ p, inner p.kind = true → (filePlaces f).count p = (attributeAux {} (kindsOf lines)).1.count p := by
  unfold readFile at h
  cases hlp : e.lp with
  | false =>
    simp only [hlp, Bool.false_eq_true, if_false] at h ⊢
    obtain ⟨s, hrl, hend, hf⟩ := readTail_ok m e (splitNL input) true f h
    subst hf
    have := C04_no_loss m e _ s hrl hend
    exact ⟨_, rfl, this.2.1, this.2.2.2.2⟩
  | true =>
    simp only [hlp, if_true] at h ⊢
    generalize splitLP input = sp at h
    obtain ⟨ls, clean⟩ := sp
    obtain ⟨s, hrl, hend, hf⟩ := readTail_ok m e ls clean f h
    subst hf
    have := C04_no_loss m e _ s hrl hend
    exact ⟨_, rfl, this.2.1, this.2.2.2.2⟩

/-- non-vacuity: a well-nested sequence is accepted by the automaton and a broken one is not -/
example : (attributeAll [.fileHeader, .cashLetterHeader, .bundleHeader, .checkDetail, .cdAddA, .bundleControl,
    .cashLetterControl, .fileControl]).2 = true := by decide
example : (attributeAll [.fileHeader, .cashLetterHeader, .bundleHeader, .checkDetail, .bundleControl, .checkDetail,
    .cashLetterControl, .fileControl]).2 = false := by decide
example : (attributeAll [.fileHeader, .cashLetterHeader, .bundleHeader, .checkDetail, .bundleControl,
    .fileControl]).2 = false := by decide

end Icl.C04
