/-
C04 — a successful read never drops, overwrites or re-parents a record.

`attribute` is the X9 nesting automaton (specification): it assigns every input record, by the
records it follows, the cash letter / bundle / item it belongs to.  `census` lists the records a
returned file holds with the same coordinates.  The property is `readOk → census f ~ attribute kinds`.
The model reader is tied to reader.go by the single-fault correspondence stream (every delete,
duplicate, move, insert, cut of generated valid files).
-/
import IclModel.Tree
namespace Icl.C04
open Icl

/-- coordinates of a record: kind, cash letter, bundle, item (1-based; 0 = none) -/
structure Place where
  kind : Kind
  cl : Nat
  b : Nat
  it : Nat
deriving DecidableEq, Repr

structure AState where
  cl : Nat := 0
  b : Nat := 0
  it : Nat := 0
  inCL : Bool := false
  inB : Bool := false
  ok : Bool := true
  seenFH : Nat := 0
  seenFC : Nat := 0
deriving DecidableEq, Repr

/-- one step of the nesting automaton -/
def astep (a : AState) (k : Kind) : AState × Place :=
  match k with
  | .fileHeader => ({ a with seenFH := a.seenFH + 1 }, ⟨k, 0, 0, 0⟩)
  | .fileControl => ({ a with seenFC := a.seenFC + 1, ok := a.ok && !a.inCL }, ⟨k, 0, 0, 0⟩)
  | .cashLetterHeader =>
    ({ a with cl := a.cl + 1, b := 0, it := 0, inCL := true, inB := false, ok := a.ok && !a.inCL }, ⟨k, a.cl + 1, 0, 0⟩)
  | .cashLetterControl =>
    ({ a with inCL := false, inB := false, ok := a.ok && a.inCL && !a.inB }, ⟨k, a.cl, 0, 0⟩)
  | .credit | .creditItem | .rns => ({ a with ok := a.ok && a.inCL }, ⟨k, a.cl, 0, 0⟩)
  | .bundleHeader =>
    ({ a with b := a.b + 1, it := 0, inB := true, ok := a.ok && a.inCL && !a.inB }, ⟨k, a.cl, a.b + 1, 0⟩)
  | .bundleControl => ({ a with inB := false, ok := a.ok && a.inB }, ⟨k, a.cl, a.b, 0⟩)
  | .checkDetail | .returnDetail => ({ a with it := a.it + 1, ok := a.ok && a.inB }, ⟨k, a.cl, a.b, a.it + 1⟩)
  | _ => ({ a with ok := a.ok && a.inB && a.it != 0 }, ⟨k, a.cl, a.b, a.it⟩)

def attributeAux : AState → List Kind → List Place × AState
  | a, [] => ([], a)
  | a, k :: r =>
    let (a', p) := astep a k
    let (ps, af) := attributeAux a' r
    (p :: ps, af)

/-- places of all input records, and whether the sequence is well nested -/
def attributeAll (ks : List Kind) : List Place × Bool :=
  let (ps, a) := attributeAux {} ks
  (ps, a.ok && a.seenFH == 1 && a.seenFC == 1 && !a.inCL && !a.inB)

/-- the automaton never loses a record: one place per input record, of the record's own kind -/
theorem attribute_kinds (a : AState) (ks : List Kind) : (attributeAux a ks).1.map (·.kind) = ks := by
  induction ks generalizing a with
  | nil => simp [attributeAux]
  | cons k r ih =>
    simp only [attributeAux, List.map_cons]
    have hk : (astep a k).2.kind = k := by cases k <;> simp [astep]
    rw [hk, ih]

/-- census of a returned file, in the same coordinates -/
def censusItem (isCheck : Bool) (cl b it : Nat) (i : Item α) : List Place :=
  (Item.flatten isCheck i).map (fun kr => ⟨kr.1, cl, b, it⟩)

theorem census_item_kinds (isCheck : Bool) (cl b it : Nat) (i : Item α) :
    (censusItem isCheck cl b it i).map (·.kind) = (Item.flatten isCheck i).map (·.1) := by
  simp [censusItem, Function.comp_def]

/-- non-vacuity: a well-nested sequence is accepted by the automaton and a broken one is not -/
example : (attributeAll [.fileHeader, .cashLetterHeader, .bundleHeader, .checkDetail, .cdAddA, .bundleControl,
    .cashLetterControl, .fileControl]).2 = true := by decide
example : (attributeAll [.fileHeader, .cashLetterHeader, .bundleHeader, .checkDetail, .bundleControl, .checkDetail,
    .cashLetterControl, .fileControl]).2 = false := by decide
example : (attributeAll [.fileHeader, .cashLetterHeader, .bundleHeader, .checkDetail, .bundleControl,
    .fileControl]).2 = false := by decide

end Icl.C04
