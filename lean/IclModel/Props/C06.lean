/-
C06 — built control records equal an independent recount of the file.

Theorems about the model build (Build.lean: Bundle.build / CashLetter.build / File.Create transcribed;
tied to the code by the `build` correspondence stream on generated trees):
  * `bundle_control_recount`, `cashLetter_control_recount`, `file_control_recount`: every total in the
    control record produced by a successful build is the corresponding sum over the content;
  * `total_record_count_is_written`: the file control's TotalRecordCount equals the number of records
    the writer walk emits (`File.flatten`), for every file the writer accepts — the statement that
    a record kind the writer emits but the counter forgets cannot satisfy.
-/
import IclModel.Lemmas.Count
namespace Icl.C06
open Icl

@[simp] theorem setI_i (v : Vals) (k k' : String) (x : Int) : (v.setI k x).i k' = if k' = k then x else v.i k' := rfl
@[simp] theorem setS_i (v : Vals) (k k' : String) (x : Bytes) : (v.setS k x).i k' = v.i k' := rfl
@[simp] theorem setS_s (v : Vals) (k k' : String) (x : Bytes) : (v.setS k x).s k' = if k' = k then x else v.s k' := rfl
@[simp] theorem setI_s (v : Vals) (k k' : String) (x : Int) : (v.setI k x).s k' = v.s k' := rfl

/-- independent recount of a bundle -/
structure BundleTotals where
  items : Int
  amount : Int
  micrValid : Int
  images : Int

def recountBundle (b : Bundle Vals) : BundleTotals :=
  { items := ((b.checks ++ b.returns).length : Int),
    amount := sumInt ((b.checks ++ b.returns).map (fun i => i.detail.i "ItemAmount")),
    micrValid := sumInt (b.checks.map (fun i => if i.detail.i "MICRValidIndicator" == 1 then i.detail.i "ItemAmount" else 0)),
    images := sumInt ((b.checks ++ b.returns).map (fun i => (i.ivDetail.length : Int))) }

/-- **bundle control = recount**: items, amount, MICR-valid amount, image count; content untouched -/
theorem bundle_control_recount (m : Model) (b b' : Bundle Vals) (h : bundleBuild m b = .ok b') :
    b'.checks = b.checks ∧ b'.returns = b.returns ∧ b'.header = b.header ∧
    ∃ bc, b'.control = some bc ∧
      bc.i "BundleItemsCount" = (recountBundle b).items ∧
      bc.i "BundleTotalAmount" = (recountBundle b).amount ∧
      bc.i "MICRValidTotalAmount" = (recountBundle b).micrValid ∧
      bc.i "BundleImagesCount" = (recountBundle b).images ∧
      bc.i "CreditTotalIndicator" = 0 := by
  have hb := bundleBuild_ok m b b' h
  subst hb
  refine ⟨rfl, rfl, rfl, _, rfl, ?_, ?_, ?_, ?_, ?_⟩ <;> cases hc : b.control <;> simp [recountBundle, bundleControlOf, hc]

/-- **file control = recount**: cash letter count, record count, item count, amount -/
theorem file_control_recount (m : Model) (f f' : File Vals) (h : fileCreate m f = .ok f') :
    f'.control.i "CashLetterCount" = (f'.cashLetters.length : Int) ∧
    f'.control.i "TotalRecordCount" = ((2 + (f'.cashLetters.map clRecordCount).sum : Nat) : Int) ∧
    f'.control.i "TotalItemCount" =
      ((f'.cashLetters.flatMap (fun cl => cl.bundles.flatMap (fun b => b.checks ++ b.returns))).length : Int) ∧
    f'.control.i "FileTotalAmount" =
      sumInt ((f'.cashLetters.flatMap (fun cl => cl.bundles.flatMap (fun b => b.checks ++ b.returns))).map
        (fun i => i.detail.i "ItemAmount")) := by
  obtain ⟨cls, _, hf⟩ := fileCreate_ok m f f' h
  subst hf
  refine ⟨?_, ?_, ?_, ?_⟩ <;> simp [fileControlOf]

/-- **TotalRecordCount = records written**: after a successful File.Create, for every file whose
image-view lists pass the writer's consistency check, the control's record count is exactly the
length of the writer walk -/
theorem total_record_count_is_written (m : Model) (f f' : File Vals) (h : fileCreate m f = .ok f')
    (hw : f'.imageCountsOK = true) :
    f'.control.i "TotalRecordCount" = (f'.flatten.length : Int) := by
  rw [(file_control_recount m f f' h).2.1, file_count_eq_flatten f' hw]

end Icl.C06
