/-
C06 — built control records equal an independent recount of the file.

Theorems about the model build (Build.lean: Bundle.build / CashLetter.build / File.Create transcribed;
tied to the code by the `build` correspondence stream on generated trees):
  * `bundle_control_recount`, `cashLetter_control_recount`, `file_control_recount`: every total in the
    control record produced by a successful build is the corresponding sum over the content;
  * `total_record_count_is_written`: the file control's TotalRecordCount equals the number of records
    the writer walk emits (`File.flatten`), for every file the writer accepts — the statement that
    a record kind the writer emits but the counter forgets cannot satisfy.
-/
import IclModel.Lemmas.Count
namespace Icl.C06
open Icl

@[simp] theorem setI_i (v : Vals) (k k' : String) (x : Int) : (v.setI k x).i k' = if k' = k then x else v.i k' := rfl
@[simp] theorem setS_i (v : Vals) (k k' : String) (x : Bytes) : (v.setS k x).i k' = v.i k' := rfl
@[simp] theorem setS_s (v : Vals) (k k' : String) (x : Bytes) : (v.setS k x).s k' = if k' = k then x else v.s k' := rfl
@[simp] theorem setI_s (v : Vals) (k k' : String) (x : Int) : (v.setI k x).s k' = v.s k' := rfl

/-- independent recount of a bundle -/
structure BundleTotals where
  items : Int
  amount : Int
  micrValid : Int
  images : Int

def recountBundle (b : Bundle Vals) : BundleTotals :=
  { items := ((b.checks ++ b.returns).length : Int),
    amount := sumInt ((b.checks ++ b.returns).map (fun i => i.detail.i "ItemAmount")),
    micrValid := sumInt (b.checks.map (fun i => if i.detail.i "MICRValidIndicator" == 1 then i.detail.i "ItemAmount" else 0)),
    images := sumInt ((b.checks ++ b.returns).map (fun i => (i.ivDetail.length : Int))) }

/-- **bundle control = recount**: items, amount, MICR-valid amount, image count; content untouched -/
theorem bundle_control_recount (m : Model) (b b' : Bundle Vals) (h : bundleBuild m b = .ok b') :
    b'.checks = b.checks ∧ b'.returns = b.returns ∧ b'.header = b.header ∧
    ∃ bc, b'.control = some bc ∧
      bc.i "BundleItemsCount" = (recountBundle b).items ∧
      bc.i "BundleTotalAmount" = (recountBundle b).amount ∧
      bc.i "MICRValidTotalAmount" = (recountBundle b).micrValid ∧
      bc.i "BundleImagesCount" = (recountBundle b).images ∧
      bc.i "CreditTotalIndicator" = 0 := by
  have hb := bundleBuild_ok m b b' h
  subst hb
  refine ⟨rfl, rfl, rfl, _, rfl, ?_, ?_, ?_, ?_, ?_⟩ <;> cases hc : b.control <;> simp [recountBundle, bundleControlOf, hc]

/-- **file control = recount**: cash letter count, record count, item count, amount -/
theorem file_control_recount (m : Model) (f f' : File Vals) (h : fileCreate m f = .ok f') :
    f'.control.i "CashLetterCount" = (f'.cashLetters.length : Int) ∧
    f'.control.i "TotalRecordCount" = ((2 + (f'.cashLetters.map clRecordCount).sum : Nat) : Int) ∧
    f'.control.i "TotalItemCount" =
      ((f'.cashLetters.flatMap (fun cl => cl.bundles.flatMap (fun b => b.checks ++ b.returns))).length : Int) ∧
    f'.control.i "FileTotalAmount" =
      sumInt ((f'.cashLetters.flatMap (fun cl => cl.bundles.flatMap (fun b => b.checks ++ b.returns))).map
        (fun i => i.detail.i "ItemAmount")) := by
  obtain ⟨cls, _, hf⟩ := fileCreate_ok m f f' h
  subst hf
  refine ⟨?_, ?_, ?_, ?_⟩ <;> simp [fileControlOf]

/-- **TotalRecordCount = records written**: after a successful File.Create, for every file whose
image-view lists pass the writer's consistency check, the control's record count is exactly the
length of the writer walk -/
theorem total_record_count_is_written (m : Model) (f f' : File Vals) (h : fileCreate m f = .ok f')
    (hw : f'.imageCountsOK = true) :
    f'.control.i "TotalRecordCount" = (f'.flatten.length : Int) := by
  rw [(file_control_recount m f f' h).2.1, file_count_eq_flatten f' hw]

@[simp] theorem setD_i (v : Vals) (k k' : String) (x : Date) : (v.setD k x).i k' = v.i k' := rfl

/-- every bundle that `CashLetter.build` produces carries a recounted control record -/
theorem buildBundles_controls (m : Model) : ∀ (n : Nat) (bs bs' : List (Bundle Vals)), buildBundles m n bs = .ok bs' →
    ∀ b' ∈ bs', ∃ bc, b'.control = some bc ∧
      bc.i "BundleItemsCount" = (recountBundle b').items ∧ bc.i "BundleTotalAmount" = (recountBundle b').amount ∧
      bc.i "MICRValidTotalAmount" = (recountBundle b').micrValid ∧ bc.i "BundleImagesCount" = (recountBundle b').images
  | _, [], bs', h, b', hb' => by
    simp only [buildBundles, Except.ok.injEq] at h
    subst h
    simp at hb'
  | n, b :: r, bs', h, b', hb' => by
    simp only [buildBundles] at h
    split at h
    · cases h
    · split at h
      · cases h
      · split at h
        · cases h
        · rename_i b2 hb2
          split at h
          · cases h
          · rename_i rs hrs
            simp only [Except.ok.injEq] at h
            subst h
            simp only [List.mem_cons] at hb'
            rcases hb' with hb' | hb'
            · subst hb'
              obtain ⟨h1, h2, _, bc, hbc, e1, e2, e3, e4, _⟩ := bundle_control_recount m _ _ hb2
              refine ⟨bc, hbc, ?_, ?_, ?_, ?_⟩
              · rw [e1]; simp [recountBundle, h1, h2]
              · rw [e2]; simp [recountBundle, h1, h2]
              · rw [e3]; simp [recountBundle, h1]
              · rw [e4]; simp [recountBundle, h1, h2]
            · exact buildBundles_controls m (n + 1) r rs hrs b' hb'

/-- **cash letter control = recount**: bundle count, items (checks + returns + credit items, the latter
present exactly when CreditTotalIndicator is 1), amount, image count - over the bundles of the built
cash letter; and every bundle control of the built cash letter is a recount (above) -/
theorem cashLetter_control_recount (m : Model) (cl cl' : CashLetter Vals) (h : cashLetterBuild m cl = .ok cl') :
    cl'.creditItems = cl.creditItems ∧ cl'.credits = cl.credits ∧ cl'.rns = cl.rns ∧ cl'.header = cl.header ∧
    buildBundles m 1 cl.bundles = .ok cl'.bundles ∧
    ∃ c, cl'.control = some c ∧
      c.i "CashLetterBundleCount" = (cl'.bundles.length : Int) ∧
      c.i "CashLetterItemsCount" =
        (((cl'.bundles.flatMap (fun b => b.checks ++ b.returns)).length + cl'.creditItems.length : Nat) : Int) ∧
      c.i "CashLetterTotalAmount" = sumInt ((cl'.bundles.flatMap (fun b => b.checks ++ b.returns)).map (fun i => i.detail.i "ItemAmount")) ∧
      c.i "CashLetterImagesCount" = sumInt ((cl'.bundles.flatMap (fun b => b.checks ++ b.returns)).map (fun i => (i.ivDetail.length : Int))) ∧
      c.i "CreditTotalIndicator" = (if cl'.creditItems.isEmpty then 0 else 1) := by
  unfold cashLetterBuild at h
  split at h
  · cases h
  · split at h
    · cases h
    · split at h
      · cases h
      · split at h
        · cases h
        · rename_i bs hbs
          simp only [Except.ok.injEq] at h
          subst h
          refine ⟨rfl, rfl, rfl, rfl, hbs, _, rfl, ?_, ?_, ?_, ?_, ?_⟩ <;>
            (cases hc : cl.control <;> simp [hc] <;> (try split) <;> simp)

end Icl.C06
