/-
C17 — validating, formatting, writing and encoding never modify the file.

(1) Regenerated write-effect table: for every observer method of every library type (Validate,
    fieldInclusion, String, toString, every *Field getter, MarshalJSON, Get*, …) the translator lists
    the assignments made through the receiver; `effects_only_frb` shows there are exactly two, both under
    an FRB-mode condition.  A validator or formatter that "helpfully" normalises a field in place adds
    a row and breaks the theorem.
(2) Model: rendering and writing are functions of the record values (no state to modify); validation
    threads the record through `evalS`, and `validate_off_is_identity` proves that with the mode off
    every regenerated rule tree returns the record it was given, for every record value.
(3) Building twice = building once: proved for `File.Create()` and the `Bundle.build()` inside it
    (`C17_file_create_twice`, `C17_bundle_build_twice`: the rebuilt controls are functions of the items
    and of the caller-settable members a build carries over).  `CashLetter.Create()` renumbers items from
    their own rendered sequence numbers: `C17_cashletter_create_twice_partial` proves idempotence under the
    hypothesis the proof forces (`BundleCanon`: every sequence number, supplied or filled, lies in
    0..10^15-1 for check items and 0..2^63-1 for return items - i.e. survives the 15-column field), using
    the field-level inverse `parseNum (numericField n 15) = n` (Lemmas/Inverse.lean).  Outside that range
    the full statement is FALSE of the model and of the code: `build_twice_can_differ` is the witness
    (supplied number "-5"), replayed on the real CashLetter.Create by the harness (recorded finding).
-/
import IclModel.Lemmas.Frb
import IclModel.Lemmas.BuildIdem
import IclModel.Lemmas.NumberIdem
import IclModel.Gen.Rules
import IclModel.Gen.Effects
namespace Icl.C17
open Icl

/-- the only writes through a receiver in any observer method are the two FRB normalisations -/
theorem effects_only_frb :
    Gen.writeEffects =
      [("CheckDetailAddendumA", "fieldInclusion", "TruncationIndicator", true),
       ("ImageViewDetail", "Validate", "DigitalSignatureMethod", true)] := by decide

/-- the condition can only hold with the mode on -/
def onOnly : BExp → Bool
  | .frb => true
  | .and a b => onOnly a || onOnly b
  | _ => false

theorem onOnly_off (cx : VCtx) (v : Vals) (c : BExp) (h : onOnly c = true) (hf : cx.frb = false) :
    evalB cx v c = false := by
  induction c with
  | frb => simp [evalB, hf]
  | and x y ihx ihy =>
    simp only [onOnly, Bool.or_eq_true] at h
    cases h with
    | inl hx => simp [evalB, ihx hx]
    | inr hy => simp [evalB, ihy hy]
  | _ => simp [onOnly] at h

/-- every assignment sits in the then-branch of a condition that requires the mode to be on -/
def assignsUnderFrb : Stmt → Bool
  | .assign _ _ => false
  | .seq a b => assignsUnderFrb a && assignsUnderFrb b
  | .ite c a b => (onOnly c || assignsUnderFrb a) && assignsUnderFrb b
  | _ => true

theorem evalS_off_identity (cx : VCtx) (hf : cx.frb = false) (s : Stmt) (v v' : Vals)
    (h : assignsUnderFrb s = true) (he : evalS cx s v = .cont v') : v' = v := by
  induction s generalizing v v' with
  | skip => simp [evalS] at he; exact he.symm
  | reject f => simp [evalS] at he
  | assign f x => simp [assignsUnderFrb] at h
  | «opaque» => simp [evalS] at he
  | seq a b iha ihb =>
    simp only [assignsUnderFrb, Bool.and_eq_true] at h
    simp only [evalS] at he
    cases hea : evalS cx a v with
    | cont va =>
      rw [hea] at he
      have := iha v va h.1 hea; subst this
      exact ihb _ v' h.2 he
    | rejected f => rw [hea] at he; cases he
    | stuck => rw [hea] at he; cases he
  | ite c a b iha ihb =>
    simp only [assignsUnderFrb, Bool.and_eq_true, Bool.or_eq_true] at h
    simp only [evalS] at he
    cases h.1 with
    | inl hon =>
      rw [onOnly_off cx v c hon hf] at he
      simp only [Bool.false_eq_true, if_false] at he
      exact ihb v v' h.2 he
    | inr ha =>
      split at he
      · exact iha v v' ha he
      · exact ihb v v' h.2 he

theorem all_assigns_under_frb : (Gen.allRules.all fun p => assignsUnderFrb p.2) = true := by decide

/-- **validation is an observation (mode off)**: for every record kind and every record value,
`Validate()` returns the record unchanged -/
theorem validate_off_is_identity (cx : VCtx) (hf : cx.frb = false) (p : String × Stmt) (hp : p ∈ Gen.allRules)
    (v : Vals) : (validate cx p.2 v).2 = v := by
  have h : assignsUnderFrb p.2 = true := by
    have := all_assigns_under_frb
    simp only [List.all_eq_true] at this
    exact this p hp
  unfold validate
  cases he : evalS cx p.2 v with
  | cont w => simp only []; exact evalS_off_identity cx hf p.2 v w h he
  | rejected f => rfl
  | stuck => rfl

/-- validating twice gives the same verdict as validating once (mode off) -/
theorem validate_repeatable (cx : VCtx) (hf : cx.frb = false) (p : String × Stmt) (hp : p ∈ Gen.allRules)
    (v : Vals) : validate cx p.2 (validate cx p.2 v).2 = validate cx p.2 v := by
  rw [validate_off_is_identity cx hf p hp v]

/-- **`File.Create()` twice = once**, for every file it accepts -/
theorem C17_file_create_twice (m : Model) (f f' : File Vals) (h : fileCreate m f = .ok f') :
    fileCreate m f' = .ok f' := fileCreate_idem m f f' h

/-- **`Bundle.build()` twice = once** -/
theorem C17_bundle_build_twice (m : Model) (b b' : Bundle Vals) (h : bundleBuild m b = .ok b') :
    bundleBuild m b' = .ok b' := bundleBuild_idem m b b' h

/-- **`CashLetter.Create()` twice = once** (PARTIAL: under `BundleCanon` for every bundle; the full
statement fails, see `build_twice_can_differ`) -/
theorem C17_cashletter_create_twice_partial (m : Model) (cl cl' : CashLetter Vals)
    (hc : ∀ b ∈ cl.bundles, BundleCanon b) (h : cashLetterCreate m cl = .ok cl') :
    cashLetterCreate m cl' = .ok cl' := cashLetterCreate_idem m cl cl' hc h

/-- the hypothesis is satisfiable: a bundle whose items carry no number (all filled from the counter) -/
example : BundleCanon { header := none, checks := [{ detail := {} }, { detail := {} }], returns := [], control := none } := by
  simp [BundleCanon, CanonSeq, seqOf, Vals.s]

theorem numericField_neg5 : numericField (-5) 15 = [0x30,0x30,0x30,0x30,0x30,0x30,0x30,0x30,0x30,0x30,0x30,0x30,0x30,0x2D,0x35] := by
  have hi : itoa (-5) = [0x2D, 0x35] := by
    unfold itoa
    rw [natDigits]
    simp [digitByte]
  rw [numericField_fit (-5) 15 (by rw [hi]; decide) (by decide), hi]
  decide

theorem numericField_zero15 : numericField 0 15 = List.replicate 15 0x30 := by
  have hi : itoa 0 = [0x30] := by
    unfold itoa
    rw [natDigits]
    simp [digitByte]
  rw [numericField_fit 0 15 (by rw [hi]; decide) (by decide), hi]
  decide

/-- **finding, with its witness**: a supplied check sequence number the 15-column field cannot hold as
such ("-5": stored zero-filled as "0000000000000-5", which reads back as 0) makes the second build
differ from the first -/
theorem build_twice_can_differ :
    let it : Item Vals := { detail := ({} : Vals).setS "EceInstitutionItemSequenceNumber" [0x2D, 0x35] }
    (numberChecks 1 [it]).map (fun i => i.detail.s "EceInstitutionItemSequenceNumber") ≠
      (numberChecks 1 (numberChecks 1 [it])).map (fun i => i.detail.s "EceInstitutionItemSequenceNumber") := by
  have h1 : parseNum [0x2D, 0x35] = -5 := by decide
  have h2 : parseNum [0x30,0x30,0x30,0x30,0x30,0x30,0x30,0x30,0x30,0x30,0x30,0x30,0x30,0x2D,0x35] = 0 := by decide
  simp [numberChecks, seqOf, h1, numericField_neg5, h2, numericField_zero15, Vals.setS]

end Icl.C17
