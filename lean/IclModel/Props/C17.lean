/-
C17 — validating, formatting, writing and encoding never modify the file.

(1) Regenerated write-effect table: for every observer method of every library type (Validate,
    fieldInclusion, String, toString, every *Field getter, MarshalJSON, Get*, …) the translator lists
    the assignments made through the receiver; `effects_only_frb` shows there are exactly two, both under
    an FRB-mode condition.  A validator or formatter that "helpfully" normalises a field in place adds
    a row and breaks the theorem.
(2) Model: rendering and writing are functions of the record values (no state to modify); validation
    threads the record through `evalS`, and `validate_off_is_identity` proves that with the mode off
    every regenerated rule tree returns the record it was given, for every record value.
(3) Building twice = building once is checked on the real code and on the model by the C17
    correspondence/snapshot stream (model theorem not stated: it needs the field-level parse∘format
    inverse, see DESIGN.md).
-/
import IclModel.Lemmas.Frb
import IclModel.Gen.Rules
import IclModel.Gen.Effects
namespace Icl.C17
open Icl

/-- the only writes through a receiver in any observer method are the two FRB normalisations -/
theorem effects_only_frb :
    Gen.writeEffects =
      [("CheckDetailAddendumA", "fieldInclusion", "TruncationIndicator", true),
       ("ImageViewDetail", "Validate", "DigitalSignatureMethod", true)] := by decide

/-- the condition can only hold with the mode on -/
def onOnly : BExp → Bool
  | .frb => true
  | .and a b => onOnly a || onOnly b
  | _ => false

theorem onOnly_off (cx : VCtx) (v : Vals) (c : BExp) (h : onOnly c = true) (hf : cx.frb = false) :
    evalB cx v c = false := by
  induction c with
  | frb => simp [evalB, hf]
  | and x y ihx ihy =>
    simp only [onOnly, Bool.or_eq_true] at h
    cases h with
    | inl hx => simp [evalB, ihx hx]
    | inr hy => simp [evalB, ihy hy]
  | _ => simp [onOnly] at h

/-- every assignment sits in the then-branch of a condition that requires the mode to be on -/
def assignsUnderFrb : Stmt → Bool
  | .assign _ _ => false
  | .seq a b => assignsUnderFrb a && assignsUnderFrb b
  | .ite c a b => (onOnly c || assignsUnderFrb a) && assignsUnderFrb b
  | _ => true

theorem evalS_off_identity (cx : VCtx) (hf : cx.frb = false) (s : Stmt) (v v' : Vals)
    (h : assignsUnderFrb s = true) (he : evalS cx s v = .cont v') : v' = v := by
  induction s generalizing v v' with
  | skip => simp [evalS] at he; exact he.symm
  | reject f => simp [evalS] at he
  | assign f x => simp [assignsUnderFrb] at h
  | «opaque» => simp [evalS] at he
  | seq a b iha ihb =>
    simp only [assignsUnderFrb, Bool.and_eq_true] at h
    simp only [evalS] at he
    cases hea : evalS cx a v with
    | cont va =>
      rw [hea] at he
      have := iha v va h.1 hea; subst this
      exact ihb _ v' h.2 he
    | rejected f => rw [hea] at he; cases he
    | stuck => rw [hea] at he; cases he
  | ite c a b iha ihb =>
    simp only [assignsUnderFrb, Bool.and_eq_true, Bool.or_eq_true] at h
    simp only [evalS] at he
    cases h.1 with
    | inl hon =>
      rw [onOnly_off cx v c hon hf] at he
      simp only [Bool.false_eq_true, if_false] at he
      exact ihb v v' h.2 he
    | inr ha =>
      split at he
      · exact iha v v' ha he
      · exact ihb v v' h.2 he

theorem all_assigns_under_frb : (Gen.allRules.all fun p => assignsUnderFrb p.2) = true := by decide

/-- **validation is an observation (mode off)**: for every record kind and every record value,
`Validate()` returns the record unchanged -/
theorem validate_off_is_identity (cx : VCtx) (hf : cx.frb = false) (p : String × Stmt) (hp : p ∈ Gen.allRules)
    (v : Vals) : (validate cx p.2 v).2 = v := by
  have h : assignsUnderFrb p.2 = true := by
    have := all_assigns_under_frb
    simp only [List.all_eq_true] at this
    exact this p hp
  unfold validate
  cases he : evalS cx p.2 v with
  | cont w => simp only []; exact evalS_off_identity cx hf p.2 v w h he
  | rejected f => rfl
  | stuck => rfl

/-- validating twice gives the same verdict as validating once (mode off) -/
theorem validate_repeatable (cx : VCtx) (hf : cx.frb = false) (p : String × Stmt) (hp : p ∈ Gen.allRules)
    (v : Vals) : validate cx p.2 (validate cx p.2 v).2 = validate cx p.2 v := by
  rw [validate_off_is_identity cx hf p hp v]

end Icl.C17
