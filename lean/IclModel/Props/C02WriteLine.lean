/-
`Writer.writeLine` of writer.go is TRANSLATED statement by statement into Lean (Gen/WriteLineT.lean, regenerated on
every run): the length prefix computed from `len(record.String())`, its range guard, the per-encoding body (for
record 52 under EBCDIC: the transliterated `toString(false)` followed by the image bytes) and the newline.  Theorem
`writeLine_eq_model`: for every encoding, record kind and record it returns what the model's `writeLine`
(Tree.lean - the function the framing theorems of C01 / C02 / C08 speak about) returns.
-/
import IclModel.Gen.WriteLineT
namespace Icl.WriteLineEq
open Icl

theorem validSize_nonneg (n : Nat) : (decide (((n : Nat) : Int) < 0) || !validSizeInt (n : Int)) = !validSizeInt (n : Int) := by
  have : ¬ (((n : Nat) : Int) < 0) := by omega
  simp [this]

/-- every statement of the translated method had a recognised shape -/
theorem writeLine_recognised : Gen.WL.recognised = true := by decide

/-- **`Writer.writeLine` as translated from writer.go is the model's `writeLine`** -/
theorem writeLine_eq_model (m : Model) (e : Enc) (k : Kind) (r : Option Vals) :
    Gen.WL.writeLine m e k r = writeLine m e k r := by
  unfold Gen.WL.writeLine writeLine bodyOf
  simp only [validSize_nonneg, List.nil_append, Int.toNat_natCast]
  cases hlp : e.lp <;> cases heb : e.ebcdic <;> simp
  · cases k <;> cases r <;> simp <;> (first | rfl | (cases m.cm.encode _ <;> simp))
  · cases validSizeInt _ <;> simp
  · cases validSizeInt _ <;> simp
    cases k <;> cases r <;> simp <;> (first | rfl | (cases m.cm.encode _ <;> simp))

end Icl.WriteLineEq
