/-
The models keep exactly the state listed in Spec/State.lean: the reader's cursor, the writer's buffer, the repository
map behind one mutex - nothing else survives a call or a request.  The census of package-level variables and of the
members of the stateful types is regenerated from /repo on every run (Gen/State.lean) and must equal the transcription.
-/
import IclModel.Gen.State
import IclModel.Spec.State
namespace Icl.StateCensus

/-- no package-level variable beyond the transcribed ones (and none of another kind) -/
theorem globals_as_modelled : Gen.State.globals = Spec.State.globals := by rfl

/-- the stateful types have the transcribed members and no others -/
theorem fields_as_modelled : Gen.State.fields = Spec.State.fields := by rfl

/-- the process environment and the FRB compatibility mode are consulted exactly where the models branch on them: the
two relaxations of addendum A, the one of addendum C, the two of the image view detail, the one of return addendum A, the
IBM1047 substitution of the reader, and the buffer size of the server -/
theorem envReads_as_modelled : Gen.State.envReads = Spec.State.envReads := by rfl

/-- every function of the server packages (handlers, their helpers, the repository, the responder) makes the transcribed
calls under the transcribed conditions and answers with the transcribed status codes: the programs of Api.lean
(`hGet`, `hDelete`, ...) were written against exactly this skeleton -/
theorem skeletons_as_modelled : Gen.State.skeletons = Spec.State.skeletons := by rfl

end Icl.StateCensus
