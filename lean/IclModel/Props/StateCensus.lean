/-
The models keep exactly the state listed in Spec/State.lean: the reader's cursor, the writer's buffer, the repository
map behind one mutex - nothing else survives a call or a request.  The census of package-level variables and of the
members of the stateful types is regenerated from /repo on every run (Gen/State.lean) and must equal the transcription.
-/
import IclModel.Gen.State
import IclModel.Spec.State
namespace Icl.StateCensus

/-- no package-level variable beyond the transcribed ones (and none of another kind) -/
theorem globals_as_modelled : Gen.State.globals = Spec.State.globals := by rfl

/-- the stateful types have the transcribed members and no others -/
theorem fields_as_modelled : Gen.State.fields = Spec.State.fields := by rfl

end Icl.StateCensus
