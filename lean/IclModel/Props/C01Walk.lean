/-
The writer walk: `Writer.Write` and the `write*` methods of writer.go are TRANSLATED statement by statement
into Lean (Gen/Walk.lean, regenerated on every run; accessors resolved through the declared Go types and the
trivial getters).  Theorem `walk_eq_flatten`: for every file, the translated walk hands to `writeLine` exactly
the records of `File.flatten` - the sequence the model writer (`writeFile`, Tree.lean) frames and the C01 / C06 /
C08 theorems speak about - and returns an error exactly when the file does not validate or an item's image
view counts disagree.  So the record order and the guards of the model writer are those of the source.
-/
import IclModel.Gen.Walk
import IclModel.Tree
namespace Icl.Walk
open Icl Icl.WalkRT

theorem seq_some (a b : List (Kind × Option Vals)) : seq (some a) (some b) = some (a ++ b) := rfl
theorem seq_none_left (b : Out) : seq none b = none := rfl
theorem seq_none_right (a : Out) : seq a none = none := by cases a <;> rfl
theorem seq_nil_right (a : Out) : seq a (some []) = a := by cases a <;> simp [seq]

theorem seq_ite_right (a : List (Kind × Option Vals)) (c : Bool) (b : List (Kind × Option Vals)) :
    seq (some a) (if c = true then some b else none) = if c = true then some (a ++ b) else none := by
  cases c <;> simp [seq]

theorem seq_ite_left (c : Bool) (a : List (Kind × Option Vals)) (b : Out) :
    seq (if c = true then some a else none) b = if c = true then seq (some a) b else none := by
  cases c <;> simp [seq]

/-- a loop whose body yields `g x` when `p x` holds and fails otherwise -/
theorem forEach_ite {α : Type} (l : List α) (f : α → Out) (p : α → Bool) (g : α → List (Kind × Option Vals))
    (h : ∀ x ∈ l, f x = if p x = true then some (g x) else none) :
    forEach l f = if l.all p = true then some (l.flatMap g) else none := by
  induction l with
  | nil => simp [forEach]
  | cons x r ih =>
    have hx := h x (by simp)
    have ihr := ih (fun y hy => h y (by simp [hy]))
    simp only [forEach, hx, ihr, List.all_cons, List.flatMap_cons]
    cases p x <;> cases r.all p <;> simp [seq]

theorem forEach_some {α : Type} (l : List α) (f : α → Out) (g : α → List (Kind × Option Vals))
    (h : ∀ x ∈ l, f x = some (g x)) : forEach l f = some (l.flatMap g) := by
  have := forEach_ite l f (fun _ => true) g (fun x hx => by simp [h x hx])
  simpa using this

theorem forEach_append {α : Type} (a b : List α) (f : α → Out) :
    forEach (a ++ b) f = seq (forEach a f) (forEach b f) := by
  induction a with
  | nil => cases h : forEach b f <;> simp [forEach, seq, h]
  | cons x r ih =>
    simp only [List.cons_append, forEach, ih]
    cases f x <;> cases forEach r f <;> cases forEach b f <;> simp [seq]

/-- `for i := range xs { writeLine(&xs[i]) }` hands over the elements in order -/
theorem forIdx_lines (k : Kind) (l : List Vals) :
    forIdx l.length (fun i => seq (lineIdx (k, l[(i).toNat]?)) (some [])) = some (l.map (fun r => (k, some r))) := by
  have key : ∀ n, n ≤ l.length →
      forEach (List.range n) (fun i => seq (lineIdx (k, l[((i : Nat) : Int).toNat]?)) (some [])) =
        some ((l.take n).map (fun r => (k, some r))) := by
    intro n
    induction n with
    | zero => intro _; simp [forEach]
    | succ n ih =>
      intro hn
      rw [List.range_succ, forEach_append, ih (by omega)]
      have hlt : n < l.length := by omega
      have hget : l[((n : Nat) : Int).toNat]? = some l[n] := by
        simp [List.getElem?_eq_getElem hlt]
      simp only [forEach, hget, lineIdx, seq, List.take_add_one, List.getElem?_eq_getElem hlt, Option.toList_some,
        List.map_append, List.map_cons, List.map_nil, List.append_nil]
  have := key l.length (Nat.le_refl _)
  simpa [forIdx] using this


theorem forIdx_lines' (k : Kind) (l : List Vals) :
    forIdx l.length (fun i => lineIdx (k, l[(i).toNat]?)) = some (l.map (fun r => (k, some r))) := by
  have := forIdx_lines k l
  simpa only [seq_nil_right] using this

open Icl.Gen.W

theorem optRec_some {α : Type} (k : Kind) (l : List α) (i : Nat) (h : i < l.length) : optRec k l i = [(k, some l[i])] := by
  simp [optRec, List.getElem?_eq_getElem h]

theorem optRec_nil {α : Type} (k : Kind) (i : Nat) : optRec k ([] : List α) i = [] := by simp [optRec]

/-- `writeImageView`: the views in the order detail, data, analysis per index - or an error when the counts disagree -/
theorem writeImageView_eq (d t a : List Vals) :
    writeImageView d t a =
      if ((t.isEmpty || t.length == d.length) && (a.isEmpty || a.length == d.length)) = true then
        some ((List.range d.length).flatMap (fun i => optRec .ivDetail d i ++ optRec .ivData t i ++ optRec .ivAnalysis a i))
      else none := by
  unfold writeImageView
  by_cases ht : (t.isEmpty || t.length == d.length) = true
  · by_cases ha : (a.isEmpty || a.length == d.length) = true
    · have g1 : (decide ((t.length : Int) > (0 : Int)) && decide ((t.length : Int) ≠ (d.length : Int))) = false := by
        simp only [Bool.or_eq_true, List.isEmpty_iff, beq_iff_eq] at ht
        rcases ht with h | h
        · simp [h]
        · simp [h]
      have g2 : (decide ((a.length : Int) > (0 : Int)) && decide ((a.length : Int) ≠ (d.length : Int))) = false := by
        simp only [Bool.or_eq_true, List.isEmpty_iff, beq_iff_eq] at ha
        rcases ha with h | h
        · simp [h]
        · simp [h]
      simp only [g1, g2, Bool.false_eq_true, if_false, ht, ha, Bool.and_self, if_true, seq_nil_right]
      unfold forIdx
      apply forEach_some
      intro i hi
      have hi' : i < d.length := List.mem_range.1 hi
      have hd : d[((i : Nat) : Int).toNat]? = some d[i] := by simp [List.getElem?_eq_getElem hi']
      have e1 : lineIdx (Kind.ivDetail, d[((i : Nat) : Int).toNat]?) = some (optRec .ivDetail d i) := by
        rw [hd, optRec_some _ _ _ hi']; rfl
      have e2 : (if (decide ((t.length : Int) > (0 : Int)) && decide ((t.length : Int) ≥ ((i : Nat) : Int) - (1 : Int))) = true then
            (lineIdx (Kind.ivData, t[((i : Nat) : Int).toNat]?)) else some []) = some (optRec .ivData t i) := by
        simp only [Bool.or_eq_true, List.isEmpty_iff, beq_iff_eq] at ht
        rcases ht with h | h
        · subst h; simp [optRec_nil]
        · have hit : i < t.length := by omega
          have c : (decide ((t.length : Int) > (0 : Int)) && decide ((t.length : Int) ≥ ((i : Nat) : Int) - (1 : Int))) = true := by
            simp only [Bool.and_eq_true, decide_eq_true_eq]; omega
          have hg : t[((i : Nat) : Int).toNat]? = some t[i] := by simp [List.getElem?_eq_getElem hit]
          rw [if_pos c, hg, optRec_some _ _ _ hit]; rfl
      have e3 : (if (decide ((a.length : Int) > (0 : Int)) && decide ((a.length : Int) ≥ ((i : Nat) : Int) - (1 : Int))) = true then
            (lineIdx (Kind.ivAnalysis, a[((i : Nat) : Int).toNat]?)) else some []) = some (optRec .ivAnalysis a i) := by
        simp only [Bool.or_eq_true, List.isEmpty_iff, beq_iff_eq] at ha
        rcases ha with h | h
        · subst h; simp [optRec_nil]
        · have hit : i < a.length := by omega
          have c : (decide ((a.length : Int) > (0 : Int)) && decide ((a.length : Int) ≥ ((i : Nat) : Int) - (1 : Int))) = true := by
            simp only [Bool.and_eq_true, decide_eq_true_eq]; omega
          have hg : a[((i : Nat) : Int).toNat]? = some a[i] := by simp [List.getElem?_eq_getElem hit]
          rw [if_pos c, hg, optRec_some _ _ _ hit]; rfl
      simp only [e1, e2, e3, seq_some, List.append_nil, List.append_assoc]
    · have g2 : (decide ((a.length : Int) > (0 : Int)) && decide ((a.length : Int) ≠ (d.length : Int))) = true := by
        simp only [Bool.or_eq_true, List.isEmpty_iff, beq_iff_eq, not_or] at ha
        have : a.length ≠ 0 := fun h => ha.1 (List.eq_nil_of_length_eq_zero h)
        simp only [Bool.and_eq_true, decide_eq_true_eq]
        omega
      have : ((t.isEmpty || t.length == d.length) && (a.isEmpty || a.length == d.length)) = false := by
        simp [ht, ha]
      simp only [g2, if_true, this, Bool.false_eq_true, if_false]
      split <;> rfl
  · have g1 : (decide ((t.length : Int) > (0 : Int)) && decide ((t.length : Int) ≠ (d.length : Int))) = true := by
      simp only [Bool.or_eq_true, List.isEmpty_iff, beq_iff_eq, not_or] at ht
      have : t.length ≠ 0 := fun h => ht.1 (List.eq_nil_of_length_eq_zero h)
      simp only [Bool.and_eq_true, decide_eq_true_eq]
      omega
    have : ((t.isEmpty || t.length == d.length) && (a.isEmpty || a.length == d.length)) = false := by
      simp [ht]
    simp only [g1, if_true, this, Bool.false_eq_true, if_false]


theorem imageCountsOK_eq (it : Item Vals) :
    it.imageCountsOK = ((it.ivData.isEmpty || it.ivData.length == it.ivDetail.length) &&
      (it.ivAnalysis.isEmpty || it.ivAnalysis.length == it.ivDetail.length)) := rfl

/-- one forward item: detail, addenda A, B, C, image views -/
theorem check_eq (cd : Item Vals) :
    seq (line (Kind.checkDetail, some cd.detail)) (seq (writeCheckDetailAddendum cd) (seq (writeCheckImageView cd) (some []))) =
      if cd.imageCountsOK = true then some (Item.flatten true cd) else none := by
  unfold writeCheckDetailAddendum writeCheckImageView
  simp only [seq_nil_right, forIdx_lines', writeImageView_eq, line, ← imageCountsOK_eq]
  by_cases h : cd.imageCountsOK = true
  · simp [h, seq, Item.flatten, List.append_assoc]
  · simp [h, seq]

/-- one return item: detail, addenda A, B, C, D, image views -/
theorem return_eq (rd : Item Vals) :
    seq (line (Kind.returnDetail, some rd.detail)) (seq (writeReturnDetailAddendum rd) (seq (writeReturnImageView rd) (some []))) =
      if rd.imageCountsOK = true then some (Item.flatten false rd) else none := by
  unfold writeReturnDetailAddendum writeReturnImageView
  simp only [seq_nil_right, forIdx_lines', writeImageView_eq, line, ← imageCountsOK_eq]
  by_cases h : rd.imageCountsOK = true
  · simp [h, seq, Item.flatten, List.append_assoc]
  · simp [h, seq]

theorem writeCheckDetail_eq (b : Bundle Vals) :
    writeCheckDetail b = if b.checks.all Item.imageCountsOK = true then some (b.checks.flatMap (Item.flatten true)) else none := by
  unfold writeCheckDetail
  rw [seq_nil_right]
  exact forEach_ite _ _ _ _ (fun cd _ => check_eq cd)

theorem writeReturnDetail_eq (b : Bundle Vals) :
    writeReturnDetail b = if b.returns.all Item.imageCountsOK = true then some (b.returns.flatMap (Item.flatten false)) else none := by
  unfold writeReturnDetail
  rw [seq_nil_right]
  exact forEach_ite _ _ _ _ (fun rd _ => return_eq rd)

def bundleCountsOK (b : Bundle Vals) : Bool := b.checks.all Item.imageCountsOK && b.returns.all Item.imageCountsOK

theorem bundle_eq (b : Bundle Vals) :
    seq (line (Kind.bundleHeader, b.header))
      (seq (if decide ((b.checks.length : Int) > (0 : Int)) = true then seq (writeCheckDetail b) (some []) else some [])
        (seq (if decide ((b.returns.length : Int) > (0 : Int)) = true then seq (writeReturnDetail b) (some []) else some [])
          (seq (line (Kind.bundleControl, b.control)) (some [])))) =
      if bundleCountsOK b = true then some b.flatten else none := by
  simp only [seq_nil_right, writeCheckDetail_eq, writeReturnDetail_eq, line, bundleCountsOK]
  have hc : (if decide ((b.checks.length : Int) > (0 : Int)) = true then
      (if b.checks.all Item.imageCountsOK = true then some (b.checks.flatMap (Item.flatten true)) else none) else some []) =
      (if b.checks.all Item.imageCountsOK = true then some (b.checks.flatMap (Item.flatten true)) else none) := by
    cases hl : b.checks with
    | nil => simp
    | cons x r => simp
  have hr : (if decide ((b.returns.length : Int) > (0 : Int)) = true then
      (if b.returns.all Item.imageCountsOK = true then some (b.returns.flatMap (Item.flatten false)) else none) else some []) =
      (if b.returns.all Item.imageCountsOK = true then some (b.returns.flatMap (Item.flatten false)) else none) := by
    cases hl : b.returns with
    | nil => simp
    | cons x r => simp
  rw [hc, hr]
  by_cases h1 : b.checks.all Item.imageCountsOK = true <;> by_cases h2 : b.returns.all Item.imageCountsOK = true <;>
    simp [h1, h2, seq, Bundle.flatten, List.append_assoc]

theorem writeBundle_eq (cl : CashLetter Vals) :
    writeBundle cl = if cl.bundles.all bundleCountsOK = true then some (cl.bundles.flatMap Bundle.flatten) else none := by
  unfold writeBundle
  rw [seq_nil_right]
  exact forEach_ite _ _ _ _ (fun b _ => bundle_eq b)

def clCountsOK (cl : CashLetter Vals) : Bool := cl.bundles.all bundleCountsOK

theorem forEach_line' {α : Type} (l : List α) (g : α → Kind × Option Vals) :
    forEach l (fun x => line (g x)) = some (l.map g) := by
  induction l with
  | nil => rfl
  | cons x r ih =>
    simp only [forEach, ih, List.map_cons]
    simp [line, seq]

theorem cashLetter_eq (cl : CashLetter Vals) :
    seq (line (Kind.cashLetterHeader, cl.header))
      (seq (forEach cl.creditItems (fun ci => seq (line (Kind.creditItem, some ci)) (some [])))
        (seq (forEach cl.credits (fun credit => seq (line (Kind.credit, some credit)) (some [])))
          (seq (writeBundle cl)
            (seq (forEach cl.rns (fun rns => seq (line (Kind.rns, rns)) (some [])))
              (seq (line (Kind.cashLetterControl, cl.control)) (some [])))))) =
      if clCountsOK cl = true then some cl.flatten else none := by
  simp only [seq_nil_right, forEach_line', writeBundle_eq, clCountsOK]
  simp only [line]
  by_cases h : cl.bundles.all bundleCountsOK = true <;> simp [h, seq, CashLetter.flatten, List.append_assoc]

theorem writeCashLetter_eq (f : File Vals) :
    writeCashLetter f = if f.cashLetters.all clCountsOK = true then some (f.cashLetters.flatMap CashLetter.flatten) else none := by
  unfold writeCashLetter
  rw [seq_nil_right]
  exact forEach_ite _ _ _ _ (fun cl _ => cashLetter_eq cl)

theorem countsOK_eq (f : File Vals) : f.cashLetters.all clCountsOK = f.imageCountsOK := rfl

/-- every statement of `Writer.Write` and of the `write*` methods had a recognised shape -/
theorem walk_recognised : Gen.W.recognised = true := by decide

/-- **the walk of writer.go is the model's record sequence**: `Writer.Write`, as translated from the source,
hands to `writeLine` exactly `File.flatten` in order - file header, per cash letter its header, credit items,
credits, bundles (header, items with addenda and image views per index, control), routing number summaries,
control, then the file control - and fails exactly when the file does not validate or image view counts disagree -/
theorem walk_eq_flatten (f : File Vals) :
    Gen.W.Write f = if fileValidate f = true then (if f.imageCountsOK = true then some f.flatten else none) else none := by
  unfold Gen.W.Write
  simp only [writeCashLetter_eq, countsOK_eq, line, seq_nil_right]
  by_cases h1 : fileValidate f = true <;> by_cases h2 : f.imageCountsOK = true <;>
    simp [h1, h2, seq, File.flatten, List.append_assoc]

/-- the model writer frames the records of the translated walk: same acceptance, same order -/
theorem writeFile_of_walk (m : Model) (e : Enc) (f : File Vals) :
    writeFile m e f =
      match Gen.W.Write f with
      | none => none
      | some recs => recs.foldl (fun acc kr =>
          match acc, writeLine m e kr.1 kr.2 with
          | some a, some l => some (a ++ l)
          | _, _ => none) (some []) := by
  rw [walk_eq_flatten]
  unfold writeFile
  by_cases h1 : fileValidate f = true <;> by_cases h2 : f.imageCountsOK = true <;> simp [h1, h2] <;> rfl

end Icl.Walk
