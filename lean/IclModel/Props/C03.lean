/-
C03 — reading conformant bytes decodes the layout exactly and does not drift.

Table obligations: the `Parse()` of every record type the reader dispatches on (regenerated on every
run) reads exactly the columns the hand-transcribed layout prescribes, into the field the layout
names, with the prescribed conversion.  A parser that takes a field from columns shifted by one, from
its neighbour, or with the wrong conversion breaks the corresponding `parse_*` theorem.
-/
import IclModel.Spec.Layouts
import IclModel.Gen.Layouts
namespace Icl.C03
open Icl Icl.Spec

theorem parse_fileHeader : ParseMatches Spec.fileHeader Gen.fileHeader.parse = true := by decide
theorem parse_cashLetterHeader : ParseMatches Spec.cashLetterHeader Gen.cashLetterHeader.parse = true := by decide
theorem parse_bundleHeader : ParseMatches Spec.bundleHeader Gen.bundleHeader.parse = true := by decide
theorem parse_checkDetail : ParseMatches Spec.checkDetail Gen.checkDetail.parse = true := by decide
theorem parse_checkDetailAddendumA : ParseMatches Spec.checkDetailAddendumA Gen.checkDetailAddendumA.parse = true := by decide
theorem parse_checkDetailAddendumB : ParseMatches Spec.checkDetailAddendumB Gen.checkDetailAddendumB.parse = true := by decide
theorem parse_checkDetailAddendumC : ParseMatches Spec.checkDetailAddendumC Gen.checkDetailAddendumC.parse = true := by decide
theorem parse_returnDetail : ParseMatches Spec.returnDetail Gen.returnDetail.parse = true := by decide
theorem parse_returnDetailAddendumA : ParseMatches Spec.returnDetailAddendumA Gen.returnDetailAddendumA.parse = true := by decide
theorem parse_returnDetailAddendumB : ParseMatches Spec.returnDetailAddendumB Gen.returnDetailAddendumB.parse = true := by decide
theorem parse_returnDetailAddendumC : ParseMatches Spec.returnDetailAddendumC Gen.returnDetailAddendumC.parse = true := by decide
theorem parse_returnDetailAddendumD : ParseMatches Spec.returnDetailAddendumD Gen.returnDetailAddendumD.parse = true := by decide
theorem parse_imageViewDetail : ParseMatches Spec.imageViewDetail Gen.imageViewDetail.parse = true := by decide
theorem parse_imageViewData : ParseMatches Spec.imageViewData Gen.imageViewData.parse = true := by decide
theorem parse_imageViewAnalysis : ParseMatches Spec.imageViewAnalysis Gen.imageViewAnalysis.parse = true := by decide
theorem parse_credit : ParseMatches Spec.credit Gen.credit.parse = true := by decide
theorem parse_creditItem : ParseMatches Spec.creditItem Gen.creditItem.parse = true := by decide
theorem parse_userPayeeEndorsement : ParseMatches Spec.userPayeeEndorsement Gen.userPayeeEndorsement.parse = true := by decide
theorem parse_bundleControl : ParseMatches Spec.bundleControl Gen.bundleControl.parse = true := by decide
theorem parse_routingNumberSummary : ParseMatches Spec.routingNumberSummary Gen.routingNumberSummary.parse = true := by decide
theorem parse_cashLetterControl : ParseMatches Spec.cashLetterControl Gen.cashLetterControl.parse = true := by decide
theorem parse_fileControl : ParseMatches Spec.fileControl Gen.fileControl.parse = true := by decide

/-- the writer's columns and the reader's columns are the same columns: for every decoded field of
every record, `Parse()` slices exactly `[start, start+width)` (plus the sizes of the variable sections
before it), which by C02 (`cols_*`) is where `String()` put that field -/
theorem parse_reads_written_columns :
    (Spec.all.all fun p => (expectedAssigns p.2).all fun a =>
      p.2.any fun f => f.name == a.1 && f.start == a.2.1 && f.start + f.width == a.2.2.2.1) = true := by decide

end Icl.C03
