/-
C16 — the read result is independent of stream fragmentation and buffer size.

`Gen.splitLP` is the statement-by-statement translation of reader.go's scanVariableLengthLines
(regenerated on every run).  `splitLP_ok` proves it satisfies `SplitOK`; `scan_eq_ref` /
`chunk_independent` (Lemmas/Scanner.lean) then give: over ANY schedule of reads (one byte at a time,
arbitrary chunks, zero-length reads) and any buffer bound, the scanner model yields exactly the
tokens and error of the whole-input reference, unless the buffer bound is hit.  `cut_is_error`:
a stream cut inside a length-prefixed record ends in io.ErrUnexpectedEOF.
The scanner model itself (bufio.Scanner) is tied to the real library by the chunked-reader
correspondence stream (every truncation offset × chunk schedules × buffer sizes).
-/
import IclModel.Lemmas.Scanner
import IclModel.Lemmas.Framing
import IclModel.Gen.Split
import IclModel.Tree
namespace Icl.C16
open Icl

theorem recognised : Gen.splitLPRecognised = true := by decide

/-- the translated function, with atEOF = false, in closed form -/
theorem splitLP_false (d : Bytes) :
    Gen.splitLP d false =
      if d.length < 4 then (0, none, none)
      else if 4 + be32Val (d.take 4) ≤ d.length then
        (4 + be32Val (d.take 4), some ((d.drop 4).take (be32Val (d.take 4))), none)
      else (0, none, none) := by
  unfold Gen.splitLP
  by_cases h : d.length < 4
  · simp [h]
  · by_cases h2 : 4 + be32Val (d.take 4) ≤ d.length <;> simp [h, h2]

theorem splitLP_ok : SplitOK Gen.splitLP where
  stable_tok := by
    intro d e adv t h
    rw [splitLP_false] at h
    rw [splitLP_false]
    by_cases h4 : d.length < 4
    · simp [h4] at h
    · simp only [h4, if_false] at h
      by_cases hn : 4 + be32Val (d.take 4) ≤ d.length
      · simp only [hn, if_true, Prod.mk.injEq, Option.some.injEq, and_true] at h
        have h4' : ¬ (d ++ e).length < 4 := by simp; omega
        have htake : (d ++ e).take 4 = d.take 4 := by
          rw [List.take_append_of_le_length (by omega)]
        have hn' : 4 + be32Val (d.take 4) ≤ (d ++ e).length := by simp; omega
        simp only [h4', if_false, htake, hn', if_true]
        have hdrop : ((d ++ e).drop 4).take (be32Val (d.take 4)) = (d.drop 4).take (be32Val (d.take 4)) := by
          rw [List.drop_append_of_le_length (by omega), List.take_append_of_le_length (by simp; omega)]
        rw [hdrop, ← h.1, ← h.2]
      · simp [hn] at h
  stable_err := by
    intro d e adv tok er h
    rw [splitLP_false] at h
    split at h
    · simp at h
    · split at h <;> simp at h
  stable_skip := by
    intro d e adv h0 h
    rw [splitLP_false] at h
    split at h
    · simp at h; omega
    · split at h
      · simp at h
      · simp at h; omega
  adv_le := by
    intro d b adv tok h
    unfold Gen.splitLP at h
    simp only [] at h
    split at h
    · simp at h; omega
    · split at h
      · simp at h
      · split at h
        · simp at h; omega
        · split at h
          · simp only [Prod.mk.injEq] at h
            rename_i hle
            have : 4 + be32Val (List.take (4 - 0) (List.drop 0 d)) ≤ d.length := by simpa using hle
            omega
          · split at h
            · simp at h
            · simp at h; omega
  tok_progress := by
    intro d adv t h
    rw [splitLP_false] at h
    split at h
    · simp at h
    · split at h
      · simp at h; omega
      · simp at h

/-- **C16 for the length-prefix split function of reader.go**: any delivery schedule, any buffer -/
theorem C16_lp_chunk_independent (x : Bytes) (m1 m2 : Nat) (s1 s2 : List Nat)
    (h1 : (scan Gen.splitLP m1 s1 [] x).2 ≠ some .tooLong) (h2 : (scan Gen.splitLP m2 s2 [] x).2 ≠ some .tooLong) :
    scan Gen.splitLP m1 s1 [] x = scan Gen.splitLP m2 s2 [] x :=
  chunk_independent Gen.splitLP splitLP_ok x m1 m2 s1 s2 h1 h2

/-- at end of input the translated function reports a partial record as io.ErrUnexpectedEOF -/
theorem cut_is_error (d : Bytes) (hne : d ≠ [])
    (hcut : d.length < 4 ∨ d.length < 4 + be32Val (d.take 4)) :
    (Gen.splitLP d true).2.2 = some .unexpectedEOF := by
  unfold Gen.splitLP
  have h0 : ¬ d.length = 0 := by cases d <;> simp_all
  by_cases h4 : d.length < 4
  · simp [h0, h4]
  · have : ¬ (4 + be32Val (d.take 4) ≤ d.length) := by omega
    have hgt : 4 + be32Val (d.take 4) > d.length := by omega
    simp [h0, h4, this, hgt]

/-! ### newline framing: `bufio.ScanLines` -/

theorem idxOf?_lt (d : Bytes) (a : UInt8) (i : Nat) (h : d.idxOf? a = some i) : i < d.length := by
  unfold List.idxOf? at h
  exact (List.findIdx?_eq_some_iff_getElem.1 h).1

theorem idxOf?_append (d e : Bytes) (a : UInt8) (i : Nat) (h : d.idxOf? a = some i) :
    (d ++ e).idxOf? a = some i := by
  unfold List.idxOf? at h ⊢
  rw [List.findIdx?_append, h]
  rfl

/-- the model of `bufio.ScanLines` (Scanner.lean) satisfies the contract the chunk-independence theorem
needs: a line found in the bytes seen so far is found identically when more bytes have arrived -/
theorem scanLines_ok : SplitOK scanLinesSplit where
  stable_tok := by
    intro d e adv t h
    simp only [scanLinesSplit, Bool.false_and, Bool.false_eq_true, if_false] at h ⊢
    cases hi : d.idxOf? 0x0A with
    | none => simp [hi] at h
    | some i =>
      simp only [hi, Prod.mk.injEq, Option.some.injEq, and_true] at h
      have hlt := idxOf?_lt d 0x0A i hi
      rw [idxOf?_append d e 0x0A i hi]
      simp only [Prod.mk.injEq, Option.some.injEq, and_true]
      refine ⟨h.1, ?_⟩
      rw [List.take_append_of_le_length (by omega)]
      exact h.2
  stable_err := by
    intro d e adv tok er h
    simp only [scanLinesSplit, Bool.false_and, Bool.false_eq_true, if_false] at h
    split at h <;> simp at h
  stable_skip := by
    intro d e adv h0 h
    simp only [scanLinesSplit, Bool.false_and, Bool.false_eq_true, if_false] at h
    split at h
    · simp at h
    · simp at h; omega
  adv_le := by
    intro d b adv tok h
    simp only [scanLinesSplit] at h
    split at h
    · simp at h; omega
    · split at h
      · rename_i i hi
        simp only [Prod.mk.injEq] at h
        have := idxOf?_lt d 0x0A i hi
        omega
      · split at h
        · simp at h; omega
        · simp at h; omega
  tok_progress := by
    intro d adv t h
    simp only [scanLinesSplit, Bool.false_and, Bool.false_eq_true, if_false] at h
    split at h
    · simp at h; omega
    · simp at h

/-- **C16 for newline framing**: any delivery schedule, any buffer bound -/
theorem C16_nl_chunk_independent (x : Bytes) (m1 m2 : Nat) (s1 s2 : List Nat)
    (h1 : (scan scanLinesSplit m1 s1 [] x).2 ≠ some .tooLong) (h2 : (scan scanLinesSplit m2 s2 [] x).2 ≠ some .tooLong) :
    scan scanLinesSplit m1 s1 [] x = scan scanLinesSplit m2 s2 [] x :=
  chunk_independent scanLinesSplit scanLines_ok x m1 m2 s1 s2 h1 h2

/-- **C16 at the level of the whole read**: `Reader.Read` over a stream delivered by any schedule
with any buffer bound returns the same file and the same error, in both framings, unless the buffer
bound is hit (`readFileScan`, IclModel/Tree.lean, feeds the scanner's tokens to the record loop) -/
theorem C16_read_independent (m : Model) (e : Enc) (x : Bytes) (m1 m2 : Nat) (s1 s2 : List Nat)
    (h1 : (scan (if e.lp then Gen.splitLP else scanLinesSplit) m1 s1 [] x).2 ≠ some .tooLong)
    (h2 : (scan (if e.lp then Gen.splitLP else scanLinesSplit) m2 s2 [] x).2 ≠ some .tooLong) :
    readFileScan m e Gen.splitLP m1 s1 x = readFileScan m e Gen.splitLP m2 s2 x := by
  unfold readFileScan
  cases hlp : e.lp with
  | true =>
    simp only [hlp, if_true] at h1 h2 ⊢
    rw [C16_lp_chunk_independent x m1 m2 s1 s2 h1 h2]
  | false =>
    simp only [hlp, Bool.false_eq_true, if_false] at h1 h2 ⊢
    rw [C16_nl_chunk_independent x m1 m2 s1 s2 h1 h2]

end Icl.C16
