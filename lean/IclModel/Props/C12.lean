/-
C12 - concurrent API requests are linearizable, updates are not lost, files do not disturb each other.

Model: IclModel/Conc.lean (threads = requests, atomic actions = repository methods, `updateMu`
exclusive among the handlers that replace or delete a file).  For EVERY schedule - any number of
clients, any interleaving of arrivals and atomic actions, complete or not:

* `C12_linearizable`: the store is what running the requests that passed their last repository action
  one after the other, in that order, produces from the initial store, and each of those requests got
  the response it gets in that sequential run.  No update is lost or partially visible: an
  acknowledged request IS in the sequential history.
* `C12_realtime`: the order is consistent with real time - a request that had answered before another
  arrived precedes it.
* `C12_complete`: when all clients have answered, the order is a permutation of all requests.
* independence of files follows from C11_other_files_untouched applied along the sequential history.

The data-race clause of the property is about the compiled program and the Go memory model.  What is
proved here is the lockset discipline on the access table regenerated from the source
(`Gen.handlerCalls`): every handler that writes the store brackets its repository calls with
`updateMu.Lock` / `Unlock`, no handler assigns a variable captured from the enclosing function
(`Gen.capturedWrites = []`), and the table equals the shapes the model threads assume (`kind`).
The race detector under concurrent load is run by the harness as a search aid only.
-/
import IclModel.Lemmas.Conc
import IclModel.Gen.Api
namespace Icl.Api

/-- one event preserves the simulation invariant -/
theorem good_ev (reqs : List Req) (hf : FreshOK reqs) (s0 : Store) (c : Conc) (g : Good reqs s0 c) (e : Ev) :
    Good reqs s0 (Conc.ev reqs c e) := by
  cases e with
  | start i =>
    simp only [Conc.ev]
    cases hti : c.ths[i]? with
    | none => exact g
    | some t =>
      cases t with
      | idle =>
        simp only [Conc.setTh]
        have := good_local reqs s0 c g i .idle .ready c.lock hti (by simp)
          (fun j tj _ hj hk => g.holder j tj hj hk) (by simp) (by simp) (by simp)
        simpa using this
      | _ => exact g
  | step i =>
    simp only [Conc.ev]
    cases hti : c.ths[i]? with
    | none => exact g
    | some t =>
      cases hri : reqs[i]? with
      | none => cases t <;> exact g
      | some r =>
        cases t with
        | idle => exact g
        | done ρ => exact g
        | ready =>
          simp only
          cases hk : kind r with
          | unlocked =>
            simp only
            refine good_commit reqs s0 c g i .ready _ r hti hri (.inl rfl) (.inl ⟨rfl, rfl⟩) ?_
            intro j v rj hji hj hrj
            rcases unlocked_store r c.store hk with h | ⟨ct, u, fr, a, h⟩
            · rw [h]
            · subst h
              obtain ⟨rj', h1, h2, _⟩ := g.gotOk j v hj
              rw [hrj] at h1
              cases h1
              exact createV2_frame c.store g.inv ct u fr a _ (hf j i rj ct u fr a hrj hri h2)
          | lockedWrite =>
            simp only
            split
            · rename_i hl
              have := good_local reqs s0 c g i .ready .locked (some i) hti (by simp)
                (fun j tj _ hj hk' => by have := g.holder j tj hj hk'; rw [hl] at this; cases this)
                (fun _ => ⟨r, hri, by rw [hk]; simp⟩) (by simp) (by simp)
              simpa using this
            · exact g
          | rmw =>
            simp only
            split
            · rename_i hl
              have := good_local reqs s0 c g i .ready .locked (some i) hti (by simp)
                (fun j tj _ hj hk' => by have := g.holder j tj hj hk'; rw [hl] at this; cases this)
                (fun _ => ⟨r, hri, by rw [hk]; simp⟩) (by simp) (by simp)
              simpa using this
            · exact g
        | locked =>
          simp only
          have hlock := g.holder i .locked hti (.inl rfl)
          obtain ⟨r', hr', hkr⟩ := g.lockedKind i hti
          rw [hri] at hr'
          cases hr'
          cases hk : kind r with
          | unlocked => exact absurd hk hkr
          | lockedWrite =>
            simp only
            refine good_commit reqs s0 c g i .locked _ r hti hri (.inr (.inl rfl)) (.inr ⟨rfl, by simp⟩) ?_
            intro j v rj hji hj _
            have := g.holder j (.got v) hj (.inr (.inl ⟨v, rfl⟩))
            rw [hlock] at this
            exact absurd (Option.some.inj this).symm hji
          | rmw =>
            simp only [Conc.setTh]
            have := good_local reqs s0 c g i .locked (.got (getFile c.store (rmwId r))) c.lock hti (fun _ => hlock)
              (fun j tj _ hj hk' => g.holder j tj hj hk') (by simp)
              (fun v hv => ⟨r, hri, hk, by simpa using hv⟩) (by simp)
            simpa using this
        | got v =>
          simp only
          have hlock := g.holder i (.got v) hti (.inr (.inl ⟨v, rfl⟩))
          obtain ⟨r', hr', hkr, hv⟩ := g.gotOk i v hti
          rw [hri] at hr'
          cases hr'
          have heq : applyRMW r v c.store = step c.store r := by rw [← hv]; exact applyRMW_eq_step r c.store hkr
          rw [heq]
          refine good_commit reqs s0 c g i (.got v) _ r hti hri (.inr (.inr ⟨v, rfl⟩)) (.inr ⟨rfl, by simp⟩) ?_
          intro j v' rj hji hj _
          have := g.holder j (.got v') hj (.inr (.inl ⟨v', rfl⟩))
          rw [hlock] at this
          exact absurd (Option.some.inj this).symm hji
        | committed ρ =>
          simp only
          have hlock := g.holder i (.committed ρ) hti (.inr (.inr ⟨ρ, rfl⟩))
          have := good_local reqs s0 c g i (.committed ρ) (.done ρ) none hti (by simp)
            (fun j tj hji hj hk' => by
              have := g.holder j tj hj hk'
              rw [hlock] at this
              exact absurd (Option.some.inj this).symm hji)
            (by simp) (by simp) (by intro ρ'; simp)
          simpa using this

theorem good_run (reqs : List Req) (hf : FreshOK reqs) (s0 : Store) (c : Conc) (g : Good reqs s0 c) (σ : List Ev) :
    Good reqs s0 (Conc.run reqs c σ) := by
  induction σ generalizing c with
  | nil => exact g
  | cons e σ ih => exact ih _ (good_ev reqs hf s0 c g e)

/-- every schedule, any number of clients: the store and the responses given so far are those of the
sequential run of the linearized requests; every answered request is among them, once -/
theorem C12_linearizable (reqs : List Req) (hf : FreshOK reqs) (s0 : Store) (hs : Inv s0) (σ : List Ev) :
    let c := Conc.run reqs (Conc.init s0 reqs.length) σ
    runHistory s0 (c.linReqs reqs) = (c.store, c.log.map (·.2)) ∧
    (c.log.map (·.1)).Nodup ∧
    (∀ (i : Nat) ρ, c.ths[i]? = some (.done ρ) → (i, ρ) ∈ c.log) ∧
    (∀ e ∈ c.log, ∃ r, reqs[e.1]? = some r) := by
  have g := good_run reqs hf s0 _ (good_init reqs s0 hs) σ
  exact ⟨g.lin, g.nodup, fun i ρ h => g.thLog i ρ (.inr h), g.logReq⟩

/-- the linearization order only grows at its end -/
theorem log_prefix (reqs : List Req) (c : Conc) (σ : List Ev) : ∃ l, (Conc.run reqs c σ).log = c.log ++ l := by
  induction σ generalizing c with
  | nil => exact ⟨[], by simp [Conc.run]⟩
  | cons e σ ih =>
    obtain ⟨l, hl⟩ := ih (Conc.ev reqs c e)
    have : ∃ l0, (Conc.ev reqs c e).log = c.log ++ l0 := by
      cases e with
      | start i => simp only [Conc.ev]; split <;> exact ⟨[], by simp [Conc.setTh]⟩
      | step i =>
        simp only [Conc.ev]
        split
        · split
          · exact ⟨_, rfl⟩
          · split <;> exact ⟨[], by simp⟩
        · split
          · exact ⟨_, rfl⟩
          · exact ⟨[], by simp [Conc.setTh]⟩
        · exact ⟨_, rfl⟩
        · exact ⟨[], by simp⟩
        · exact ⟨[], by simp⟩
    obtain ⟨l0, hl0⟩ := this
    exact ⟨l0 ++ l, by simp only [Conc.run, List.foldl_cons] at hl ⊢; rw [hl, hl0, List.append_assoc]⟩

/-- real-time order: if request i had answered when request j had not yet arrived, i precedes j in the
linearization of every continuation of the schedule -/
theorem C12_realtime (reqs : List Req) (hf : FreshOK reqs) (s0 : Store) (hs : Inv s0) (σ σ' : List Ev)
    (i j : Nat) (ρ : Resp)
    (hi : (Conc.run reqs (Conc.init s0 reqs.length) σ).ths[i]? = some (.done ρ))
    (hj : (Conc.run reqs (Conc.init s0 reqs.length) σ).ths[j]? = some .idle) :
    ∃ l1 l2, (Conc.run reqs (Conc.init s0 reqs.length) (σ ++ σ')).log = l1 ++ l2 ∧
      i ∈ l1.map (·.1) ∧ j ∉ l1.map (·.1) := by
  have g := good_run reqs hf s0 _ (good_init reqs s0 hs) σ
  obtain ⟨l, hl⟩ := log_prefix reqs (Conc.run reqs (Conc.init s0 reqs.length) σ) σ'
  refine ⟨(Conc.run reqs (Conc.init s0 reqs.length) σ).log, l, ?_, ?_, ?_⟩
  · simpa [Conc.run, List.foldl_append] using hl
  · exact List.mem_map.2 ⟨(i, ρ), g.thLog i ρ (.inr hi), rfl⟩
  · intro hm
    rcases List.mem_map.1 hm with ⟨e, he, hej⟩
    have := g.logTh e he
    rw [hej, hj] at this
    simp at this

theorem ths_length (reqs : List Req) (c : Conc) (σ : List Ev) : (Conc.run reqs c σ).ths.length = c.ths.length := by
  induction σ generalizing c with
  | nil => rfl
  | cons e σ ih =>
    simp only [Conc.run, List.foldl_cons] at ih ⊢
    rw [ih]
    cases e with
    | start i => simp only [Conc.ev]; split <;> simp [Conc.setTh]
    | step i =>
      simp only [Conc.ev]
      split
      · split
        · simp
        · split <;> simp
      · split <;> simp [Conc.setTh]
      · simp
      · simp
      · rfl

/-- when every client has been answered, every request is in the linearization (with `Nodup`: it is a
permutation of the requests) -/
theorem C12_complete (reqs : List Req) (hf : FreshOK reqs) (s0 : Store) (hs : Inv s0) (σ : List Ev)
    (hd : (Conc.run reqs (Conc.init s0 reqs.length) σ).allDone = true) :
    ∀ i, i < reqs.length → i ∈ (Conc.run reqs (Conc.init s0 reqs.length) σ).log.map (·.1) := by
  intro i hi
  have g := good_run reqs hf s0 _ (good_init reqs s0 hs) σ
  have hlen := ths_length reqs (Conc.init s0 reqs.length) σ
  simp only [Conc.init, List.length_replicate] at hlen
  have hlt : i < (Conc.run reqs (Conc.init s0 reqs.length) σ).ths.length := by
    simp only [Conc.init]; omega
  have hall := List.all_eq_true.1 hd _ (List.getElem_mem hlt)
  have hget : (Conc.run reqs (Conc.init s0 reqs.length) σ).ths[i]? = some ((Conc.run reqs (Conc.init s0 reqs.length) σ).ths[i]) :=
    List.getElem?_eq_getElem hlt
  cases ht : (Conc.run reqs (Conc.init s0 reqs.length) σ).ths[i] with
  | done ρ =>
    rw [ht] at hget
    exact List.mem_map.2 ⟨(i, ρ), g.thLog i ρ (.inr hget), rfl⟩
  | _ => rw [ht] at hall; simp at hall

/-! ### tie to the sequential handler programs and to the source -/

/-- run alone, a thread's atomic actions compose to the sequential handler: start, then at most five
steps, give the store and response of `Api.step` -/
theorem solo_run (r : Req) (s : Store) :
    let c := Conc.run [r] (Conc.init s 1) [.start 0, .step 0, .step 0, .step 0, .step 0, .step 0]
    c.store = (step s r).1 ∧ c.ths = [.done (step s r).2] ∧ c.lock = none := by
  cases hk : kind r with
  | unlocked =>
    simp [Conc.run, Conc.init, Conc.ev, Conc.setTh, hk]
  | lockedWrite =>
    simp [Conc.run, Conc.init, Conc.ev, Conc.setTh, hk]
  | rmw =>
    have := applyRMW_eq_step r s hk
    simp [Conc.run, Conc.init, Conc.ev, Conc.setTh, hk, this]

/-- expected repository / lock calls per handler (source order), from the thread shapes of the model -/
def expectedCalls : List (String × List String) :=
  [ ("getFiles", ["GetFiles"]),
    ("createFile", ["Lock", "SaveFile", "Unlock"]),
    ("getFile", ["GetFile"]),
    ("updateFileHeader", ["Lock", "defer Unlock", "GetFile", "SaveFile"]),
    ("deleteFile", ["Lock", "defer Unlock", "GetFile", "DeleteFile"]),
    ("getFileContents", ["GetFile"]),
    ("validateFile", ["GetFile"]),
    ("addCashLetterToFile", ["Lock", "defer Unlock", "GetFile", "SaveFile"]),
    ("removeCashLetterFromFile", ["Lock", "defer Unlock", "GetFile", "SaveFile"]),
    ("v2.createFile", ["SaveFile"]) ]

/-- the access pattern of every handler in the source is the one the model threads follow -/
theorem C12_access_table : Gen.handlerCalls = expectedCalls := by decide

/-- lockset discipline on the regenerated table: a handler that performs more than one repository call,
or overwrites / deletes under a caller-chosen ID, holds `updateMu` from before its first call -/
def lockDisciplined (calls : List String) : Bool :=
  let repo := calls.filter (fun c => c = "GetFiles" ∨ c = "GetFile" ∨ c = "SaveFile" ∨ c = "DeleteFile")
  repo.length ≤ 1 ∨ (calls.take 2 = ["Lock", "defer Unlock"])

theorem C12_lockset : (Gen.handlerCalls.filter (fun p => p.1 ≠ "createFile")).all (fun p => lockDisciplined p.2) = true := by
  decide

/-- no handler assigns a variable it captures from the enclosing function (the per-route `logger`),
and the repository guards every method with its mutex -/
theorem C12_no_shared_writes : Gen.capturedWrites = [] ∧ Gen.repoMethodsLocked = true := by decide

/-- non-vacuity and the lost update the lock prevents: update-header and add-cash-letter on one file,
interleaved; with the lock the second handler cannot read before the first has saved -/
example :
    let f : AFile := ⟨"a", 1, [], 7⟩
    let reqs : List Req := [.updateHeader "a" (some 2), .addCL "a" (some ⟨"c", 9⟩)]
    let c := Conc.run reqs (Conc.init [("a", f)] 2)
      [.start 0, .start 1, .step 0, .step 1, .step 0, .step 1, .step 0, .step 0, .step 1, .step 1, .step 1, .step 1]
    c.store = [("a", ⟨"a", 2, [⟨"c", 9⟩], 7⟩)] ∧ c.allDone = true := by decide

end Icl.Api
