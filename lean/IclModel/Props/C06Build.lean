/-
`Bundle.build`, `Bundle.ValidateForwardItems` and `Bundle.ValidateReturnItems` of bundle.go are TRANSLATED
statement by statement into Lean (Gen/BuildT.lean, regenerated on every run).  Theorem `build_eq_model`: for every
bundle the translation and the build model (`bundleBuild`, Build.lean - the function the C06 / C07 / C09 / C17
theorems speak about) return the same result: the same error, or the same bundle with the same control record.
So the recount theorem `bundle_control_recount` is a theorem about the source's accumulators.
-/
import IclModel.Gen.BuildT
import IclModel.Build
namespace Icl.BuildEq
open Icl Icl.BuildRT Icl.Gen.B

@[simp] theorem get_set (σ : Env) (k k' : String) (x : Int) : (σ.set k x).get k' = if k = k' then x else σ.get k' := rfl

theorem validateForward_eq (m : Model) (cd : Item Vals) : ValidateForwardItems m cd = validateForwardItems m cd := by
  unfold ValidateForwardItems validateForwardItems
  simp only [Option.or_none]

theorem validateReturn_eq (m : Model) (rd : Item Vals) : ValidateReturnItems m rd = validateReturnItems m rd := by
  unfold ValidateReturnItems validateReturnItems
  simp only [Option.or_none]

/-- a loop whose body validates the item and then updates the locals -/
theorem forEachE_split {α : Type} (l : List α) (val : α → Option BErr) (upd : Env → α → Env) (body : α → Env → Except BErr Env)
    (hb : ∀ x σ, body x σ = match val x with | some e => .error e | none => .ok (upd σ x)) :
    ∀ σ, forEachE l σ body = match firstErr val l with | some e => .error e | none => .ok (l.foldl upd σ) := by
  induction l with
  | nil => intro σ; rfl
  | cons x r ih =>
    intro σ
    simp only [forEachE, hb, firstErr, List.foldl_cons]
    cases val x with
    | some e => rfl
    | none => simp only [ih]

theorem sumInt_cons (x : Int) (l : List Int) : sumInt (x :: l) = x + sumInt l := by
  unfold sumInt
  simp only [List.foldl_cons]
  have : ∀ (l : List Int) (a b : Int), l.foldl (· + ·) (a + b) = a + l.foldl (· + ·) b := by
    intro l
    induction l with
    | nil => intro a b; rfl
    | cons y r ih => intro a b; simp only [List.foldl_cons]; rw [Int.add_assoc, ih]
  have h := this l x 0
  simpa using h

theorem sumInt_nil : sumInt [] = 0 := rfl

theorem sumInt_append (a b : List Int) : sumInt (a ++ b) = sumInt a + sumInt b := by
  induction a with
  | nil => simp [sumInt_nil]
  | cons x r ih => simp only [List.cons_append, sumInt_cons, ih]; omega


/-- what one forward item does to the locals of `Bundle.build` -/
def updC (σ : Env) (cd : Item Vals) : Env :=
  let σ := σ.set "itemCount" ((σ.get "itemCount") + (1 : Int))
  let σ := σ.set "bundleTotalAmount" ((σ.get "bundleTotalAmount") + cd.detail.i "ItemAmount")
  let σ := if decide (cd.detail.i "MICRValidIndicator" = (1 : Int)) then (
      let σ := σ.set "micrValidTotalAmount" ((σ.get "micrValidTotalAmount") + cd.detail.i "ItemAmount")
      σ) else σ
  let σ := σ.set "bundleImagesCount" ((σ.get "bundleImagesCount") + (cd.ivDetail.length : Int))
  σ

/-- what one return item does -/
def updR (σ : Env) (rd : Item Vals) : Env :=
  let σ := σ.set "itemCount" ((σ.get "itemCount") + (1 : Int))
  let σ := σ.set "bundleTotalAmount" ((σ.get "bundleTotalAmount") + rd.detail.i "ItemAmount")
  let σ := σ.set "bundleImagesCount" ((σ.get "bundleImagesCount") + (rd.ivDetail.length : Int))
  σ

def micrOf (i : Item Vals) : Int := if i.detail.i "MICRValidIndicator" == 1 then i.detail.i "ItemAmount" else 0

theorem foldl_updC (l : List (Item Vals)) : ∀ σ : Env,
    (l.foldl updC σ).get "itemCount" = σ.get "itemCount" + (l.length : Int) ∧
    (l.foldl updC σ).get "bundleTotalAmount" = σ.get "bundleTotalAmount" + sumInt (l.map (fun i => i.detail.i "ItemAmount")) ∧
    (l.foldl updC σ).get "micrValidTotalAmount" = σ.get "micrValidTotalAmount" + sumInt (l.map micrOf) ∧
    (l.foldl updC σ).get "bundleImagesCount" = σ.get "bundleImagesCount" + sumInt (l.map (fun i => (i.ivDetail.length : Int))) ∧
    (l.foldl updC σ).get "creditIndicator" = σ.get "creditIndicator" := by
  induction l with
  | nil => intro σ; simp [sumInt_nil]
  | cons x r ih =>
    intro σ
    obtain ⟨h1, h2, h3, h4, h5⟩ := ih (updC σ x)
    simp only [List.foldl_cons, h1, h2, h3, h4, h5, List.map_cons, sumInt_cons, List.length_cons]
    unfold updC micrOf
    by_cases hm : x.detail.i "MICRValidIndicator" = 1
    · simp [hm]; omega
    · simp [hm]; omega

theorem foldl_updR (l : List (Item Vals)) : ∀ σ : Env,
    (l.foldl updR σ).get "itemCount" = σ.get "itemCount" + (l.length : Int) ∧
    (l.foldl updR σ).get "bundleTotalAmount" = σ.get "bundleTotalAmount" + sumInt (l.map (fun i => i.detail.i "ItemAmount")) ∧
    (l.foldl updR σ).get "micrValidTotalAmount" = σ.get "micrValidTotalAmount" ∧
    (l.foldl updR σ).get "bundleImagesCount" = σ.get "bundleImagesCount" + sumInt (l.map (fun i => (i.ivDetail.length : Int))) ∧
    (l.foldl updR σ).get "creditIndicator" = σ.get "creditIndicator" := by
  induction l with
  | nil => intro σ; simp [sumInt_nil]
  | cons x r ih =>
    intro σ
    obtain ⟨h1, h2, h3, h4, h5⟩ := ih (updR σ x)
    simp only [List.foldl_cons, h1, h2, h3, h4, h5, List.map_cons, sumInt_cons, List.length_cons]
    unfold updR
    simp; omega

theorem isEmpty_len {α : Type} (l : List α) : decide ((l.length : Int) ≤ (0 : Int)) = l.isEmpty := by
  cases l with
  | nil => simp
  | cons x r => simp only [List.length_cons, List.isEmpty_cons, decide_eq_false_iff_not]; omega

/-- the locals of `Bundle.build` before the loops -/
def σ0 : Env := Env.set (Env.set (Env.set (Env.set (Env.set [] "itemCount" 0) "bundleTotalAmount" 0) "micrValidTotalAmount" 0) "bundleImagesCount" 0) "creditIndicator" 0

theorem σ0_itemCount : σ0.get "itemCount" = 0 := by decide
theorem σ0_amount : σ0.get "bundleTotalAmount" = 0 := by decide
theorem σ0_micr : σ0.get "micrValidTotalAmount" = 0 := by decide
theorem σ0_images : σ0.get "bundleImagesCount" = 0 := by decide
theorem σ0_credit : σ0.get "creditIndicator" = 0 := by decide

/-- the control record assembled from the final values of the locals -/
def ctlOf (m : Model) (b : Bundle Vals) : Vals :=
  let bc := newRec m Kind.bundleControl
  let bc := bc.setI "BundleItemsCount" (((b.checks ++ b.returns).length : Nat) : Int)
  let bc := bc.setI "BundleTotalAmount" (sumInt ((b.checks ++ b.returns).map (fun i => i.detail.i "ItemAmount")))
  let bc := bc.setI "MICRValidTotalAmount" (sumInt (b.checks.map micrOf))
  let bc := bc.setI "BundleImagesCount" (sumInt ((b.checks ++ b.returns).map (fun i => (i.ivDetail.length : Int))))
  let bc := bc.setI "CreditTotalIndicator" 0
  if b.control.isSome = true then
    (bc.setS "ID" ((b.control.map (·.s "ID")).getD [])).setS "UserField" ((b.control.map (·.s "UserField")).getD [])
  else bc

theorem ctlOf_eq (m : Model) (b : Bundle Vals) : ctlOf m b = bundleControlOf m b := by
  unfold ctlOf bundleControlOf newRec micrOf
  cases b.control <;> rfl

/-- every statement of the translated methods had a recognised shape -/
theorem build_recognised : Gen.B.recognised = true := by decide

/-- **`Bundle.build` as translated from bundle.go is the build model**, for every bundle -/
theorem build_eq_model (m : Model) (b : Bundle Vals) : Gen.B.build m b = bundleBuild m b := by
  unfold Gen.B.build bundleBuild
  -- the header check: both sides look at `b.header` the same way
  have hhdr : ∀ (X Y : Except BErr (Bundle Vals)), X = Y →
      (match vOpt m Kind.bundleHeader b.header with
        | some e => (Except.error e : Except BErr (Bundle Vals))
        | none => X) =
      (match (match b.header with | some h => vErr m .bundleHeader h | none => none) with
        | some e => (Except.error e : Except BErr (Bundle Vals))
        | none => Y) := by
    intro X Y hXY
    subst hXY
    cases b.header with
    | none => rfl
    | some h => simp only [vOpt]
  apply hhdr
  simp only [isEmpty_len]
  by_cases he : (b.checks.isEmpty && b.returns.isEmpty) = true
  · simp only [he, if_true]
  · simp only [he, Bool.false_eq_true, if_false]
    rw [forEachE_split b.checks (validateCheck m) updC]
    · cases hfc : firstErr (validateCheck m) b.checks with
      | some e => simp [Option.or]
      | none =>
        simp only [Option.none_or]
        rw [forEachE_split b.returns (validateReturn m) updR]
        · cases hfr : firstErr (validateReturn m) b.returns with
          | some e => simp
          | none =>
            obtain ⟨c1, c2, c3, c4, c5⟩ := foldl_updC b.checks
              σ0
            obtain ⟨r1, r2, r3, r4, r5⟩ := foldl_updR b.returns (b.checks.foldl updC
              σ0)
            have e1 : (b.returns.foldl updR (b.checks.foldl updC
                σ0)).get "itemCount" =
                (((b.checks ++ b.returns).length : Nat) : Int) := by
              rw [r1, c1, σ0_itemCount]; simp only [List.length_append]; omega
            have e2 : (b.returns.foldl updR (b.checks.foldl updC
                σ0)).get "bundleTotalAmount" =
                sumInt ((b.checks ++ b.returns).map (fun i => i.detail.i "ItemAmount")) := by
              rw [r2, c2, σ0_amount, List.map_append, sumInt_append]; omega
            have e3 : (b.returns.foldl updR (b.checks.foldl updC
                σ0)).get "micrValidTotalAmount" =
                sumInt (b.checks.map micrOf) := by
              rw [r3, c3, σ0_micr]; omega
            have e4 : (b.returns.foldl updR (b.checks.foldl updC
                σ0)).get "bundleImagesCount" =
                sumInt ((b.checks ++ b.returns).map (fun i => (i.ivDetail.length : Int))) := by
              rw [r4, c4, σ0_images, List.map_append, sumInt_append]; omega
            have e5 : (b.returns.foldl updR (b.checks.foldl updC
                σ0)).get "creditIndicator" = 0 := by
              rw [r5, c5, σ0_credit]
            have hσ : (((((Env.set [] "itemCount" 0).set "bundleTotalAmount" 0).set "micrValidTotalAmount" 0).set "bundleImagesCount" 0).set "creditIndicator" 0) = σ0 := rfl
            simp only [hσ, e1, e2, e3, e4, e5]
            have hco := ctlOf_eq m b
            unfold ctlOf at hco
            dsimp only at hco
            cases hbc : b.control with
            | none =>
              simp only [hbc, Option.isSome_none, Bool.false_eq_true, if_false] at hco ⊢
              rw [hco]
              rfl
            | some old =>
              simp only [hbc, Option.isSome_some, if_true, Option.map_some, Option.getD_some] at hco ⊢
              rw [hco]
              rfl
        · intro rd σ
          simp only [validateReturn, validateReturn_eq, updR]
          cases vErr m Kind.returnDetail rd.detail <;> first | rfl | (simp; done) | (simp; rfl)
    · intro cd σ
      simp only [validateCheck, validateForward_eq, updC]
      cases vErr m Kind.checkDetail cd.detail <;> first | rfl | (simp; done) | (simp; rfl)

end Icl.BuildEq
