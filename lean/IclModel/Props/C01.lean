/-
C01 — write-then-read returns the same file, in all four encodings.

Layered statement (DESIGN.md §7.1).  This file holds the property-level theorems; the layers are
  * C02 (`write_*`, `cols_*`): every record is rendered in the transcribed columns;
  * C03 (`parse_*`): every record is parsed from the same columns;
  * framing (below): the length-prefixed stream splits back into exactly the records written,
    for arbitrary record bytes (binary images and signatures included).
The tree-level reassembly and the field-level inverses are stated in Lemmas/ (see DESIGN.md for what
is proved and what is covered by the write/read correspondence stream only).
-/
import IclModel.Props.C02
import IclModel.Props.C03
import IclModel.Lemmas.Framing
namespace Icl.C01
open Icl

/-- length-prefix framing never changes content: splitting the writer's concatenation of
`prefix ++ record` returns exactly the records, with no trailing garbage, whatever bytes they hold -/
theorem framing_lp (ls : List Bytes) (h : ∀ l ∈ ls, l.length < 4294967296) :
    splitLP (joinLP ls) = (ls, true) := splitLP_joinLP ls h

/-- every record the writer can emit is shorter than 2^32 (the prefix never wraps): the writer refuses
lengths outside (0, 10^8) -/
theorem writer_length_guard (n : Nat) (h : validSizeInt (n : Int) = true) : n < 4294967296 := by
  simp only [validSizeInt, Bool.and_eq_true, decide_eq_true_eq] at h
  have h2 : (n : Int) < ((100000000 : Nat) : Int) := h.2
  have : n < 100000000 := by exact_mod_cast h2
  omega

end Icl.C01
