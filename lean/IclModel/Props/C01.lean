/-
C01 — write-then-read returns the same file, in all four encodings.

Layered statement (DESIGN.md §7.1).  This file holds the property-level theorems; the layers are
  * C02 (`write_*`, `cols_*`): every record is rendered in the transcribed columns;
  * C03 (`parse_*`): every record is parsed from the same columns;
  * framing (below): the length-prefixed stream splits back into exactly the records written,
    for arbitrary record bytes (binary images and signatures included).
The tree-level reassembly and the field-level inverses are stated in Lemmas/ (see DESIGN.md for what
is proved and what is covered by the write/read correspondence stream only).
-/
import IclModel.Props.C02
import IclModel.Props.C03
import IclModel.Lemmas.Framing
import IclModel.Lemmas.Builder
import IclModel.Lemmas.WriterLink
namespace Icl.C01
open Icl Icl.C04

/-- length-prefix framing never changes content: splitting the writer's concatenation of
`prefix ++ record` returns exactly the records, with no trailing garbage, whatever bytes they hold -/
theorem framing_lp (ls : List Bytes) (h : ∀ l ∈ ls, l.length < 4294967296) :
    splitLP (joinLP ls) = (ls, true) := splitLP_joinLP ls h

/-- every record the writer can emit is shorter than 2^32 (the prefix never wraps): the writer refuses
lengths outside (0, 10^8) -/
theorem writer_length_guard (n : Nat) (h : validSizeInt (n : Int) = true) : n < 4294967296 := by
  simp only [validSizeInt, Bool.and_eq_true, decide_eq_true_eq] at h
  have h2 : (n : Int) < ((100000000 : Nat) : Int) := h.2
  have : n < 100000000 := by exact_mod_cast h2
  omega

/-! ### tree level: the reader rebuilds the tree the writer walked -/

theorem readLines_append (m : Model) (e : Enc) (l1 l2 : List Bytes) (s : RState) :
    readLines m e (l1 ++ l2) s =
      match readLines m e l1 s with
      | (s1, none) => readLines m e l2 s1
      | (s1, some er) => (s1, some er) := by
  induction l1 generalizing s with
  | nil => simp [readLines]
  | cons l r ih =>
    simp only [List.cons_append, readLines]
    split
    · rfl
    · split
      · rw [ih]
      · rfl

/-- the lines of a file in writer order: file header, the records of every cash letter, file control -/
def fileLines (ln : Kind → Vals → Bytes) (f : File Vals) : List Bytes :=
  [ln .fileHeader f.header] ++ (f.cashLetters.flatMap (clRecs ln)).map (·.2.2) ++ [ln .fileControl f.control]

/-- every record of the file, rendered by `ln`, is a line of its kind that the reader decodes back to
the record; every container is well formed and passes the container-level validation of the reader -/
structure FileOK (m : Model) (e : Enc) (ln : Kind → Vals → Bytes) (f : File Vals) : Prop where
  hdrKind : kindOfLine (ln .fileHeader f.header) = some .fileHeader
  hdrLen : 80 ≤ (ln .fileHeader f.header).length
  hdrRunes : runeCount ((if e.ebcdic then m.cm.decode else id) (ln .fileHeader f.header)) = 80
  hdrParse : parseValidate m .fileHeader id ((if e.ebcdic then m.cm.decode else id) (ln .fileHeader f.header))
      ((m.layout .fileHeader).new m.now) = .ok f.header
  ctlKind : kindOfLine (ln .fileControl f.control) = some .fileControl
  ctlLen : 80 ≤ (ln .fileControl f.control).length
  ctlParse : parseValidate m .fileControl id ((if e.ebcdic then m.cm.decode else id) (ln .fileControl f.control)) {} = .ok f.control
  ctlType : (f.control.s "recordType").isEmpty = false
  cashLetters : ∀ cl ∈ f.cashLetters, CashLetterOK m e ln cl

theorem minLen_of_kind (m : Model) (e : Enc) (l : Bytes) (k : Kind) (h : kindOfLine l = some k) (hk : k ≠ .cdAddB ∧ k ≠ .rdAddC ∧ k ≠ .ivData) : minLen m e l = 80 := by
  unfold minLen
  rw [h]
  cases k <;> simp_all

/-- **C01, tree level** (model reader): reading the lines of a well-formed file, each of which decodes to
its record, returns exactly that file - every record under its parent, in order, nothing else - and
passes the reader's end-of-input checks -/
theorem C01_reassemble (m : Model) (e : Enc) (ln : Kind → Vals → Bytes) (f : File Vals) (h : FileOK m e ln f) :
    ∃ s, readLines m e (fileLines ln f) (initState m) = (s, none) ∧ s.file = f ∧
      s.headerUntouched = false ∧ (s.control.s "recordType").isEmpty = false ∧ s.cur.header.isSome = false := by
  unfold fileLines
  -- file header
  have hmin1 := minLen_of_kind m e _ _ h.hdrKind (by simp)
  have hp1 := h.hdrParse
  unfold parseValidate at hp1
  let s0 := initState m
  let s1 : RState := { s0 with lineNum := s0.lineNum + 1 }
  have step1 : ∃ s2, rstep m e s1 (ln .fileHeader f.header) = .ok s2 ∧ s2.core = s0.core ∧ s2.header = f.header ∧
      s2.control = s0.control ∧ s2.headerUntouched = false := by
    cases hpr : (m.layout .fileHeader).parseRec id m.now ((if e.ebcdic then m.cm.decode else id) (ln .fileHeader f.header))
        ((m.layout .fileHeader).new m.now) with
    | panic => simp [hpr] at hp1
    | done v =>
      simp only [hpr] at hp1
      cases hv : m.validateK .fileHeader v with
      | mk o v' =>
        cases o with
        | some fld => simp [hv] at hp1
        | none =>
          simp only [hv, Except.ok.injEq] at hp1
          refine ⟨{ ({ s1 with recordName := "FileHeader" } : RState) with
              header := v',
              headerUntouched := s1.headerUntouched &&
                !(runeCount ((if e.ebcdic then m.cm.decode else id) (ln .fileHeader f.header)) == 80) }, ?_, ?_⟩
          · simp only [rstep, h.hdrKind]
            have : s1.header = (m.layout .fileHeader).new m.now := rfl
            simp only [this, hpr, hv]
          · simp [RState.core, s1, s0, initState, hp1, h.hdrRunes]
  obtain ⟨s2, hs2, hc2, hh2, hctl2, hu2⟩ := step1
  -- cash letters
  have hruns := runs_cashLetters m e ln f.cashLetters [] h.cashLetters
  have hcore0 : s2.core = ⟨[], { header := none, control := none }, none⟩ := by
    rw [hc2]; rfl
  obtain ⟨s3, hr3, hc3, hh3, hctl3, hu3⟩ := readLines_of_runs m e _ _ s2 (by rw [hcore0]; exact hruns)
  simp only [List.nil_append] at hc3
  -- file control
  have hmin2 := minLen_of_kind m e _ _ h.ctlKind (by simp)
  have hp2 := h.ctlParse
  unfold parseValidate at hp2
  let s4 : RState := { s3 with lineNum := s3.lineNum + 1 }
  have hctl4 : s4.control = {} := by
    show s3.control = {}
    rw [hctl3, hctl2]; rfl
  have hcur4 : s4.cur.header = none := by
    have : s3.core.cur = { header := none, control := none } := by rw [hc3]
    show s3.cur.header = none
    have h' : s3.cur = { header := none, control := none } := this
    rw [h']
  have step2 : ∃ s5, rstep m e s4 (ln .fileControl f.control) = .ok s5 ∧ s5.core = s3.core ∧ s5.header = s3.header ∧
      s5.control = f.control ∧ s5.headerUntouched = s3.headerUntouched := by
    cases hpr : (m.layout .fileControl).parseRec id m.now ((if e.ebcdic then m.cm.decode else id) (ln .fileControl f.control)) {} with
    | panic => simp [hpr] at hp2
    | done v =>
      simp only [hpr] at hp2
      cases hv : m.validateK .fileControl v with
      | mk o v' =>
        cases o with
        | some fld => simp [hv] at hp2
        | none =>
          simp only [hv, Except.ok.injEq] at hp2
          refine ⟨{ ({ s4 with recordName := "FileControl" } : RState) with control := v' }, ?_, ?_⟩
          · simp only [rstep, h.ctlKind]
            have e1 : (({ s4 with recordName := "FileControl" } : RState).control.s "recordType").isEmpty = true := by
              show (s4.control.s "recordType").isEmpty = true
              rw [hctl4]; rfl
            have e2 : ({ s4 with recordName := "FileControl" } : RState).cur.header.isSome = false := by
              show s4.cur.header.isSome = false
              rw [hcur4]; rfl
            simp only [e1, e2, Bool.not_true, Bool.false_eq_true, if_false]
            simp only [hctl4, hpr, hv]
          · exact ⟨rfl, rfl, hp2, rfl⟩
  obtain ⟨s5, hs5, hc5, hh5, hctl5, hu5⟩ := step2
  refine ⟨s5, ?_, ?_, ?_, ?_, ?_⟩
  · rw [readLines_append, readLines_append]
    have l1 : readLines m e [ln .fileHeader f.header] (initState m) = (s2, none) := by
      simp only [readLines]
      have : ¬ (ln .fileHeader f.header).length < minLen m e (ln .fileHeader f.header) := by
        rw [hmin1]; have := h.hdrLen; omega
      simp only [this, if_false]
      show (match rstep m e s1 (ln .fileHeader f.header) with
        | .ok s' => readLines m e [] s'
        | .error (s', er) => (s', some { er with line := s1.lineNum })) = (s2, none)
      rw [hs2]; rfl
    rw [l1]
    simp only
    rw [hr3]
    simp only [readLines]
    have : ¬ (ln .fileControl f.control).length < minLen m e (ln .fileControl f.control) := by
      rw [hmin2]; have := h.ctlLen; omega
    simp only [this, if_false]
    show (match rstep m e s4 (ln .fileControl f.control) with
      | .ok s' => (s', none)
      | .error (s', er) => (s', some { er with line := s4.lineNum })) = (s5, none)
    rw [hs5]
  · have hcl : s5.cashLetters = f.cashLetters := by
      have : s5.core.cashLetters = f.cashLetters := by rw [hc5, hc3]
      exact this
    simp only [RState.file, hcl, hh5, hh3, hh2, hctl5]
  · rw [hu5, hu3, hu2]
  · rw [hctl5]; exact h.ctlType
  · have : s5.core.cur = { header := none, control := none } := by rw [hc5, hc3]
    have h' : s5.cur = { header := none, control := none } := this
    rw [h']
    rfl

/-- **C01, length-prefixed framing, end to end on the model reader**: the length-prefixed stream of the
lines of a well-formed file reads back as exactly that file (arbitrary record bytes: binary images and
signatures included) -/
theorem C01_roundtrip_lp (m : Model) (e : Enc) (ln : Kind → Vals → Bytes) (f : File Vals) (hlp : e.lp = true)
    (h : FileOK m e ln f) (hlen : ∀ l ∈ fileLines ln f, l.length < 4294967296) :
    readFile m e (joinLP (fileLines ln f)) = (f, none) := by
  obtain ⟨s, hr, hf, hu, hc, hcur⟩ := C01_reassemble m e ln f h
  unfold readFile
  simp only [hlp, if_true, framing_lp _ hlen, hr, Bool.not_true, Bool.false_eq_true, if_false, hu, hc, hcur, hf]

/-- **C01, newline framing**: the same when no line contains a line feed or ends in a carriage return -/
theorem C01_roundtrip_nl (m : Model) (e : Enc) (ln : Kind → Vals → Bytes) (f : File Vals) (hlp : e.lp = false)
    (h : FileOK m e ln f) (hno : ∀ l ∈ fileLines ln f, (0x0A : UInt8) ∉ l) (hcr : ∀ l ∈ fileLines ln f, dropCR l = l) :
    readFile m e (joinNL (fileLines ln f)) = (f, none) := by
  obtain ⟨s, hr, hf, hu, hc, hcur⟩ := C01_reassemble m e ln f h
  have hmap : ∀ (ls : List Bytes), (∀ l ∈ ls, dropCR l = l) → ls.map dropCR = ls := by
    intro ls hl
    induction ls with
    | nil => rfl
    | cons l ls ih => simp [hl l (by simp), ih (fun x hx => hl x (by simp [hx]))]
  have hsplit : splitNL (joinNL (fileLines ln f)) = fileLines ln f := by
    rw [splitNL_joinNL _ hno, hmap _ hcr]
  unfold readFile
  simp only [hlp, Bool.false_eq_true, if_false, hsplit, hr, Bool.not_true, hu, hc, hcur, hf]

/-! ### the model writer produces exactly those lines -/

/-- structural well-formedness the writer walk needs to emit every record of the tree: container header
and control records present, every routing number summary present -/
def TreeWF (f : File Vals) : Prop :=
  ∀ cl ∈ f.cashLetters, (∃ h c, cl.header = some h ∧ cl.control = some c) ∧ (∀ r ∈ cl.rns, r.isSome = true) ∧
    (∀ b ∈ cl.bundles, ∃ bh bc, b.header = some bh ∧ b.control = some bc)

theorem flatten_eq_fileRecs (m : Model) (e : Enc) (f : File Vals) (hwf : TreeWF f) :
    f.flatten = [(Kind.fileHeader, some f.header)] ++ (f.cashLetters.flatMap (clRecs (bodyLn m e))).map unrec ++
      [(Kind.fileControl, some f.control)] := by
  simp only [File.flatten, cashLetters_flatten (bodyLn m e) f.cashLetters hwf]

/-- the framed bytes of a list of writable records whose bodies have the announced length -/
theorem framed_eq_joinLP (m : Model) (e : Enc) (hlp : e.lp = true) :
    ∀ (krs : List (Kind × Vals)),
      (∀ kv ∈ krs, (writeLine m e kv.1 (some kv.2)).isSome = true) →
      (∀ kv ∈ krs, (bodyLn m e kv.1 kv.2).length = (lineOf m kv.1 (some kv.2)).length) →
      krs.flatMap (fun kv => (writeLine m e kv.1 (some kv.2)).getD []) = joinLP (krs.map (fun kv => bodyLn m e kv.1 kv.2)) ∧
      ∀ kv ∈ krs, (bodyLn m e kv.1 kv.2).length < 4294967296
  | [], _, _ => by simp [joinLP]
  | kv :: r, hw, hl => by
    obtain ⟨ih1, ih2⟩ := framed_eq_joinLP m e hlp r (fun x hx => hw x (by simp [hx])) (fun x hx => hl x (by simp [hx]))
    have hsome := hw kv (by simp)
    cases hx : writeLine m e kv.1 (some kv.2) with
    | none => simp [hx] at hsome
    | some x =>
      obtain ⟨h1, h2⟩ := writeLine_lp m e hlp kv.1 kv.2 x hx (hl kv (by simp))
      refine ⟨?_, ?_⟩
      · simp only [List.flatMap_cons, hx, Option.getD_some, ih1, List.map_cons, joinLP, h1]
      · intro y hy
        simp only [List.mem_cons] at hy
        rcases hy with hy | hy
        · subst hy; exact h2
        · exact ih2 y hy

/-- **C01 on the model, length-prefixed framing, writer to reader**: if the model writer accepts a
well-formed file, every record body has the length its prefix announces (true of every record under
ASCII; `ebcdic_translit` / `ebcdic_ivData` of C08 for EBCDIC), and every record's body decodes back to
the record, then reading what was written returns the file -/
theorem C01_write_read_lp (m : Model) (e : Enc) (f : File Vals) (bytes : Bytes) (hlp : e.lp = true)
    (hw : writeFile m e f = some bytes) (hwf : TreeWF f)
    (hbody : ∀ kr ∈ f.flatten, ∀ v, kr.2 = some v → (bodyLn m e kr.1 v).length = (lineOf m kr.1 (some v)).length)
    (hok : FileOK m e (bodyLn m e) f) :
    readFile m e bytes = (f, none) := by
  unfold writeFile at hw
  split at hw
  · cases hw
  · split at hw
    · cases hw
    · obtain ⟨hout, hall⟩ := foldl_wstep_some m e f.flatten [] bytes hw
      have hfl := flatten_eq_fileRecs m e f hwf
      -- the records as (kind, value) pairs
      let krs : List (Kind × Vals) :=
        [(Kind.fileHeader, f.header)] ++ (f.cashLetters.flatMap (clRecs (bodyLn m e))).map (fun r => (r.1, r.2.1)) ++
          [(Kind.fileControl, f.control)]
      have hkrs : f.flatten = krs.map (fun kv => (kv.1, some kv.2)) := by
        rw [hfl]
        simp [krs, unrec, Function.comp_def]
      have hw' : ∀ kv ∈ krs, (writeLine m e kv.1 (some kv.2)).isSome = true := by
        intro kv hkv
        exact hall (kv.1, some kv.2) (by rw [hkrs]; exact List.mem_map.2 ⟨kv, hkv, rfl⟩)
      have hl' : ∀ kv ∈ krs, (bodyLn m e kv.1 kv.2).length = (lineOf m kv.1 (some kv.2)).length := by
        intro kv hkv
        exact hbody (kv.1, some kv.2) (by rw [hkrs]; exact List.mem_map.2 ⟨kv, hkv, rfl⟩) kv.2 rfl
      obtain ⟨hj, hlt⟩ := framed_eq_joinLP m e hlp krs hw' hl'
      have hlines : krs.map (fun kv => bodyLn m e kv.1 kv.2) = fileLines (bodyLn m e) f := by
        have hmid : ((f.cashLetters.flatMap (clRecs (bodyLn m e))).map (fun r => (r.1, r.2.1))).map (fun kv => bodyLn m e kv.1 kv.2)
            = (f.cashLetters.flatMap (clRecs (bodyLn m e))).map (·.2.2) := by
          rw [List.map_map]
          apply List.map_congr_left
          intro r hr
          have := lineOK_flatMap (bodyLn m e) f.cashLetters (clRecs (bodyLn m e)) (fun cl _ => lineOK_cashLetter (bodyLn m e) cl) r hr
          exact this.symm
        simp only [krs, fileLines, List.map_append, List.map_cons, List.map_nil, hmid]
      have hbytes : bytes = joinLP (fileLines (bodyLn m e) f) := by
        rw [hout, hkrs, List.flatMap_map, List.nil_append, ← hlines]
        exact hj
      rw [hbytes]
      refine C01_roundtrip_lp m e (bodyLn m e) f hlp hok ?_
      intro l hl
      rw [← hlines] at hl
      obtain ⟨kv, hkv, rfl⟩ := List.mem_map.1 hl
      exact hlt kv hkv

/-- newline framing of the writable records -/
theorem framed_eq_joinNL (m : Model) (e : Enc) (hlp : e.lp = false) :
    ∀ (krs : List (Kind × Vals)), (∀ kv ∈ krs, (writeLine m e kv.1 (some kv.2)).isSome = true) →
      krs.flatMap (fun kv => (writeLine m e kv.1 (some kv.2)).getD []) = joinNL (krs.map (fun kv => bodyLn m e kv.1 kv.2))
  | [], _ => by simp [joinNL]
  | kv :: r, hw => by
    have ih := framed_eq_joinNL m e hlp r (fun x hx => hw x (by simp [hx]))
    have hsome := hw kv (by simp)
    unfold writeLine at hsome
    simp only [hlp, Bool.false_eq_true, if_false] at hsome
    cases hb : bodyOf m e.ebcdic kv.1 (some kv.2) with
    | none => simp [hb] at hsome
    | some b =>
      have hx : writeLine m e kv.1 (some kv.2) = some (b ++ [0x0A]) := by
        unfold writeLine
        simp [hlp, hb]
      simp only [List.flatMap_cons, hx, Option.getD_some, ih, List.map_cons, joinNL, bodyLn, hb]

/-- **C01 on the model, newline framing, writer to reader**: as `C01_write_read_lp`, for files none of whose
records holds a line feed or ends in a carriage return (which newline framing cannot carry) -/
theorem C01_write_read_nl (m : Model) (e : Enc) (f : File Vals) (bytes : Bytes) (hlp : e.lp = false)
    (hw : writeFile m e f = some bytes) (hwf : TreeWF f) (hok : FileOK m e (bodyLn m e) f)
    (hno : ∀ l ∈ fileLines (bodyLn m e) f, (0x0A : UInt8) ∉ l) (hcr : ∀ l ∈ fileLines (bodyLn m e) f, dropCR l = l) :
    readFile m e bytes = (f, none) := by
  unfold writeFile at hw
  split at hw
  · cases hw
  · split at hw
    · cases hw
    · obtain ⟨hout, hall⟩ := foldl_wstep_some m e f.flatten [] bytes hw
      have hfl := flatten_eq_fileRecs m e f hwf
      let krs : List (Kind × Vals) :=
        [(Kind.fileHeader, f.header)] ++ (f.cashLetters.flatMap (clRecs (bodyLn m e))).map (fun r => (r.1, r.2.1)) ++
          [(Kind.fileControl, f.control)]
      have hkrs : f.flatten = krs.map (fun kv => (kv.1, some kv.2)) := by
        rw [hfl]
        simp [krs, unrec, Function.comp_def]
      have hw' : ∀ kv ∈ krs, (writeLine m e kv.1 (some kv.2)).isSome = true := by
        intro kv hkv
        exact hall (kv.1, some kv.2) (by rw [hkrs]; exact List.mem_map.2 ⟨kv, hkv, rfl⟩)
      have hj := framed_eq_joinNL m e hlp krs hw'
      have hlines : krs.map (fun kv => bodyLn m e kv.1 kv.2) = fileLines (bodyLn m e) f := by
        have hmid : ((f.cashLetters.flatMap (clRecs (bodyLn m e))).map (fun r => (r.1, r.2.1))).map (fun kv => bodyLn m e kv.1 kv.2)
            = (f.cashLetters.flatMap (clRecs (bodyLn m e))).map (·.2.2) := by
          rw [List.map_map]
          apply List.map_congr_left
          intro r hr
          have := lineOK_flatMap (bodyLn m e) f.cashLetters (clRecs (bodyLn m e)) (fun cl _ => lineOK_cashLetter (bodyLn m e) cl) r hr
          exact this.symm
        simp only [krs, fileLines, List.map_append, List.map_cons, List.map_nil, hmid]
      have hbytes : bytes = joinNL (fileLines (bodyLn m e) f) := by
        rw [hout, hkrs, List.flatMap_map, List.nil_append, ← hlines]
        exact hj
      rw [hbytes]
      exact C01_roundtrip_nl m e (bodyLn m e) f hlp hok hno hcr

/-- under ASCII the body of a record is the record: the length premise is void -/
theorem C01_write_read_lp_ascii (m : Model) (e : Enc) (f : File Vals) (bytes : Bytes) (hlp : e.lp = true) (ha : e.ebcdic = false)
    (hw : writeFile m e f = some bytes) (hwf : TreeWF f) (hok : FileOK m e (bodyLn m e) f) :
    readFile m e bytes = (f, none) := by
  refine C01_write_read_lp m e f bytes hlp hw hwf ?_ hok
  intro kr _ v _
  simp [bodyLn, bodyOf, ha]

end Icl.C01
