/-
C02 — every record is written with the X9.100-187 column layout.

Property theorems only.  Generic facts (Lemmas/Conv, Lemmas/Render, Lemmas/SpecLayout) are
instantiated on the write tables REGENERATED from /repo (`Gen.*`, see harness/extract) through the
hand transcription of the standard (`Spec.*`).  Every `by decide` below is a proof obligation about
the current source tree: a getter that reads its neighbour's field, a changed width or converter, a
field added, dropped or reordered in a `String()` makes the corresponding `write_*` theorem fail.
-/
import IclModel.Lemmas.SpecLayout
import IclModel.Gen.Layouts
import IclModel.Spec.Layouts
namespace Icl.C02
open Icl Icl.Spec

/-- the four converters produce exactly `w` bytes, whatever the value (hostile values included) -/
theorem conv_width (s : Bytes) (n : Int) (w : Nat) (hw : w < maxGrow) :
    (alphaField s w).length = w ∧ (nbsmField s w).length = w ∧ (zstrField s w).length = w ∧
    (numericField n w).length = w :=
  ⟨alphaField_length s w hw, nbsmField_length s w hw, zstrField_length s w hw, numericField_length n w hw⟩

/-- a value too long for its field is cut to the field width (tail cut for alphameric and
zero-filled string fields, head cut for numeric and NBSM fields) -/
theorem conv_cut (s : Bytes) (n : Int) (w : Nat) :
    (w < s.length → alphaField s w = s.take w ∧ zstrField s w = s.take w ∧ nbsmField s w = s.drop (s.length - w)) ∧
    (w < (itoa n).length → numericField n w = (itoa n).drop ((itoa n).length - w)) :=
  ⟨fun h => ⟨alphaField_cut s w h, zstrField_cut s w h, nbsmField_cut s w h⟩, numericField_cut n w⟩

/-- justification and fill of a value that fits -/
theorem conv_fill (s : Bytes) (n : Int) (w : Nat) (hw : w < maxGrow) :
    (s.length ≤ w → alphaField s w = s ++ List.replicate (w - s.length) SP ∧
                    nbsmField s w = List.replicate (w - s.length) SP ++ s ∧
                    zstrField s w = List.replicate (w - s.length) ZERO ++ s) ∧
    ((itoa n).length ≤ w → numericField n w = List.replicate (w - (itoa n).length) ZERO ++ itoa n) :=
  ⟨fun h => ⟨alphaField_fit s w h hw, nbsmField_fit s w h hw, zstrField_fit s w h hw⟩,
   fun h => numericField_fit n w h hw⟩

/-! ## the hand-transcribed layout is itself well-formed (fields contiguous from column 0) -/

theorem spec_fileHeader : (Contiguous fileHeader && shiftsFrom [] fileHeader && AllWf (toWrite fileHeader)) = true := by decide
theorem spec_cashLetterHeader : (Contiguous cashLetterHeader && shiftsFrom [] cashLetterHeader && AllWf (toWrite cashLetterHeader)) = true := by decide
theorem spec_bundleHeader : (Contiguous bundleHeader && shiftsFrom [] bundleHeader && AllWf (toWrite bundleHeader)) = true := by decide
theorem spec_checkDetail : (Contiguous checkDetail && shiftsFrom [] checkDetail && AllWf (toWrite checkDetail)) = true := by decide
theorem spec_checkDetailAddendumA : (Contiguous checkDetailAddendumA && shiftsFrom [] checkDetailAddendumA && AllWf (toWrite checkDetailAddendumA)) = true := by decide
theorem spec_checkDetailAddendumB : (Contiguous checkDetailAddendumB && shiftsFrom [] checkDetailAddendumB && AllWf (toWrite checkDetailAddendumB)) = true := by decide
theorem spec_checkDetailAddendumC : (Contiguous checkDetailAddendumC && shiftsFrom [] checkDetailAddendumC && AllWf (toWrite checkDetailAddendumC)) = true := by decide
theorem spec_returnDetail : (Contiguous returnDetail && shiftsFrom [] returnDetail && AllWf (toWrite returnDetail)) = true := by decide
theorem spec_returnDetailAddendumA : (Contiguous returnDetailAddendumA && shiftsFrom [] returnDetailAddendumA && AllWf (toWrite returnDetailAddendumA)) = true := by decide
theorem spec_returnDetailAddendumB : (Contiguous returnDetailAddendumB && shiftsFrom [] returnDetailAddendumB && AllWf (toWrite returnDetailAddendumB)) = true := by decide
theorem spec_returnDetailAddendumC : (Contiguous returnDetailAddendumC && shiftsFrom [] returnDetailAddendumC && AllWf (toWrite returnDetailAddendumC)) = true := by decide
theorem spec_returnDetailAddendumD : (Contiguous returnDetailAddendumD && shiftsFrom [] returnDetailAddendumD && AllWf (toWrite returnDetailAddendumD)) = true := by decide
theorem spec_imageViewDetail : (Contiguous imageViewDetail && shiftsFrom [] imageViewDetail && AllWf (toWrite imageViewDetail)) = true := by decide
theorem spec_imageViewData : (Contiguous imageViewData && shiftsFrom [] imageViewData && AllWf (toWrite imageViewData)) = true := by decide
theorem spec_imageViewAnalysis : (Contiguous imageViewAnalysis && shiftsFrom [] imageViewAnalysis && AllWf (toWrite imageViewAnalysis)) = true := by decide
theorem spec_credit : (Contiguous credit && shiftsFrom [] credit && AllWf (toWrite credit)) = true := by decide
theorem spec_creditItem : (Contiguous creditItem && shiftsFrom [] creditItem && AllWf (toWrite creditItem)) = true := by decide
theorem spec_userGeneral : (Contiguous userGeneral && shiftsFrom [] userGeneral && AllWf (toWrite userGeneral)) = true := by decide
theorem spec_userPayeeEndorsement : (Contiguous userPayeeEndorsement && shiftsFrom [] userPayeeEndorsement && AllWf (toWrite userPayeeEndorsement)) = true := by decide
theorem spec_bundleControl : (Contiguous bundleControl && shiftsFrom [] bundleControl && AllWf (toWrite bundleControl)) = true := by decide
theorem spec_routingNumberSummary : (Contiguous routingNumberSummary && shiftsFrom [] routingNumberSummary && AllWf (toWrite routingNumberSummary)) = true := by decide
theorem spec_cashLetterControl : (Contiguous cashLetterControl && shiftsFrom [] cashLetterControl && AllWf (toWrite cashLetterControl)) = true := by decide
theorem spec_fileControl : (Contiguous fileControl && shiftsFrom [] fileControl && AllWf (toWrite fileControl)) = true := by decide

/-! ## the regenerated write tables ARE the transcribed layout -/

theorem write_fileHeader : Gen.fileHeader.write = toWrite Spec.fileHeader := by decide
theorem write_cashLetterHeader : Gen.cashLetterHeader.write = toWrite Spec.cashLetterHeader := by decide
theorem write_bundleHeader : Gen.bundleHeader.write = toWrite Spec.bundleHeader := by decide
theorem write_checkDetail : Gen.checkDetail.write = toWrite Spec.checkDetail := by decide
theorem write_checkDetailAddendumA : Gen.checkDetailAddendumA.write = toWrite Spec.checkDetailAddendumA := by decide
theorem write_checkDetailAddendumB : Gen.checkDetailAddendumB.write = toWrite Spec.checkDetailAddendumB := by decide
theorem write_checkDetailAddendumC : Gen.checkDetailAddendumC.write = toWrite Spec.checkDetailAddendumC := by decide
theorem write_returnDetail : Gen.returnDetail.write = toWrite Spec.returnDetail := by decide
theorem write_returnDetailAddendumA : Gen.returnDetailAddendumA.write = toWrite Spec.returnDetailAddendumA := by decide
theorem write_returnDetailAddendumB : Gen.returnDetailAddendumB.write = toWrite Spec.returnDetailAddendumB := by decide
theorem write_returnDetailAddendumC : Gen.returnDetailAddendumC.write = toWrite Spec.returnDetailAddendumC := by decide
theorem write_returnDetailAddendumD : Gen.returnDetailAddendumD.write = toWrite Spec.returnDetailAddendumD := by decide
theorem write_imageViewDetail : Gen.imageViewDetail.write = toWrite Spec.imageViewDetail := by decide
theorem write_imageViewData : Gen.imageViewData.write = toWrite Spec.imageViewData := by decide
theorem write_imageViewAnalysis : Gen.imageViewAnalysis.write = toWrite Spec.imageViewAnalysis := by decide
theorem write_credit : Gen.credit.write = toWrite Spec.credit := by decide
theorem write_creditItem : Gen.creditItem.write = toWrite Spec.creditItem := by decide
theorem write_userGeneral : Gen.userGeneral.write = toWrite Spec.userGeneral := by decide
theorem write_userPayeeEndorsement : Gen.userPayeeEndorsement.write = toWrite Spec.userPayeeEndorsement := by decide
theorem write_bundleControl : Gen.bundleControl.write = toWrite Spec.bundleControl := by decide
theorem write_routingNumberSummary : Gen.routingNumberSummary.write = toWrite Spec.routingNumberSummary := by decide
theorem write_cashLetterControl : Gen.cashLetterControl.write = toWrite Spec.cashLetterControl := by decide
theorem write_fileControl : Gen.fileControl.write = toWrite Spec.fileControl := by decide

/-! ## fixed-length records: exact length and exact columns for ALL values -/

theorem len_fileHeader (b64 : Bytes → Option Bytes) (incl : Bool) (v : Vals) (ht : TypeSet v) :
    (render b64 Gen.fileHeader.write incl v).length = 80 := by
  rw [write_fileHeader]
  have h := render_length_fixed b64 (toWrite Spec.fileHeader) incl v (by decide) (by decide) ht
  rw [h]; decide
theorem cols_fileHeader (b64 : Bytes → Option Bytes) (incl : Bool) (v : Vals) (ht : TypeSet v)
    (i : Nat) (hi : i < Spec.fileHeader.length) :
    ((render b64 Gen.fileHeader.write incl v).drop Spec.fileHeader[i].start).take Spec.fileHeader[i].width
      = renderField b64 Spec.fileHeader[i].toW v := by
  rw [write_fileHeader]
  exact render_columns_fixed b64 Spec.fileHeader incl v (by decide) (by decide) (by decide) ht i hi

theorem len_cashLetterHeader (b64 : Bytes → Option Bytes) (incl : Bool) (v : Vals) (ht : TypeSet v) :
    (render b64 Gen.cashLetterHeader.write incl v).length = 80 := by
  rw [write_cashLetterHeader]
  have h := render_length_fixed b64 (toWrite Spec.cashLetterHeader) incl v (by decide) (by decide) ht
  rw [h]; decide
theorem cols_cashLetterHeader (b64 : Bytes → Option Bytes) (incl : Bool) (v : Vals) (ht : TypeSet v)
    (i : Nat) (hi : i < Spec.cashLetterHeader.length) :
    ((render b64 Gen.cashLetterHeader.write incl v).drop Spec.cashLetterHeader[i].start).take Spec.cashLetterHeader[i].width
      = renderField b64 Spec.cashLetterHeader[i].toW v := by
  rw [write_cashLetterHeader]
  exact render_columns_fixed b64 Spec.cashLetterHeader incl v (by decide) (by decide) (by decide) ht i hi

theorem len_bundleHeader (b64 : Bytes → Option Bytes) (incl : Bool) (v : Vals) (ht : TypeSet v) :
    (render b64 Gen.bundleHeader.write incl v).length = 80 := by
  rw [write_bundleHeader]
  have h := render_length_fixed b64 (toWrite Spec.bundleHeader) incl v (by decide) (by decide) ht
  rw [h]; decide
theorem cols_bundleHeader (b64 : Bytes → Option Bytes) (incl : Bool) (v : Vals) (ht : TypeSet v)
    (i : Nat) (hi : i < Spec.bundleHeader.length) :
    ((render b64 Gen.bundleHeader.write incl v).drop Spec.bundleHeader[i].start).take Spec.bundleHeader[i].width
      = renderField b64 Spec.bundleHeader[i].toW v := by
  rw [write_bundleHeader]
  exact render_columns_fixed b64 Spec.bundleHeader incl v (by decide) (by decide) (by decide) ht i hi

theorem len_checkDetail (b64 : Bytes → Option Bytes) (incl : Bool) (v : Vals) (ht : TypeSet v) :
    (render b64 Gen.checkDetail.write incl v).length = 80 := by
  rw [write_checkDetail]
  have h := render_length_fixed b64 (toWrite Spec.checkDetail) incl v (by decide) (by decide) ht
  rw [h]; decide
theorem cols_checkDetail (b64 : Bytes → Option Bytes) (incl : Bool) (v : Vals) (ht : TypeSet v)
    (i : Nat) (hi : i < Spec.checkDetail.length) :
    ((render b64 Gen.checkDetail.write incl v).drop Spec.checkDetail[i].start).take Spec.checkDetail[i].width
      = renderField b64 Spec.checkDetail[i].toW v := by
  rw [write_checkDetail]
  exact render_columns_fixed b64 Spec.checkDetail incl v (by decide) (by decide) (by decide) ht i hi

theorem len_checkDetailAddendumA (b64 : Bytes → Option Bytes) (incl : Bool) (v : Vals) (ht : TypeSet v) :
    (render b64 Gen.checkDetailAddendumA.write incl v).length = 80 := by
  rw [write_checkDetailAddendumA]
  have h := render_length_fixed b64 (toWrite Spec.checkDetailAddendumA) incl v (by decide) (by decide) ht
  rw [h]; decide
theorem cols_checkDetailAddendumA (b64 : Bytes → Option Bytes) (incl : Bool) (v : Vals) (ht : TypeSet v)
    (i : Nat) (hi : i < Spec.checkDetailAddendumA.length) :
    ((render b64 Gen.checkDetailAddendumA.write incl v).drop Spec.checkDetailAddendumA[i].start).take Spec.checkDetailAddendumA[i].width
      = renderField b64 Spec.checkDetailAddendumA[i].toW v := by
  rw [write_checkDetailAddendumA]
  exact render_columns_fixed b64 Spec.checkDetailAddendumA incl v (by decide) (by decide) (by decide) ht i hi

theorem len_checkDetailAddendumC (b64 : Bytes → Option Bytes) (incl : Bool) (v : Vals) (ht : TypeSet v) :
    (render b64 Gen.checkDetailAddendumC.write incl v).length = 80 := by
  rw [write_checkDetailAddendumC]
  have h := render_length_fixed b64 (toWrite Spec.checkDetailAddendumC) incl v (by decide) (by decide) ht
  rw [h]; decide
theorem cols_checkDetailAddendumC (b64 : Bytes → Option Bytes) (incl : Bool) (v : Vals) (ht : TypeSet v)
    (i : Nat) (hi : i < Spec.checkDetailAddendumC.length) :
    ((render b64 Gen.checkDetailAddendumC.write incl v).drop Spec.checkDetailAddendumC[i].start).take Spec.checkDetailAddendumC[i].width
      = renderField b64 Spec.checkDetailAddendumC[i].toW v := by
  rw [write_checkDetailAddendumC]
  exact render_columns_fixed b64 Spec.checkDetailAddendumC incl v (by decide) (by decide) (by decide) ht i hi

theorem len_returnDetail (b64 : Bytes → Option Bytes) (incl : Bool) (v : Vals) (ht : TypeSet v) :
    (render b64 Gen.returnDetail.write incl v).length = 80 := by
  rw [write_returnDetail]
  have h := render_length_fixed b64 (toWrite Spec.returnDetail) incl v (by decide) (by decide) ht
  rw [h]; decide
theorem cols_returnDetail (b64 : Bytes → Option Bytes) (incl : Bool) (v : Vals) (ht : TypeSet v)
    (i : Nat) (hi : i < Spec.returnDetail.length) :
    ((render b64 Gen.returnDetail.write incl v).drop Spec.returnDetail[i].start).take Spec.returnDetail[i].width
      = renderField b64 Spec.returnDetail[i].toW v := by
  rw [write_returnDetail]
  exact render_columns_fixed b64 Spec.returnDetail incl v (by decide) (by decide) (by decide) ht i hi

theorem len_returnDetailAddendumA (b64 : Bytes → Option Bytes) (incl : Bool) (v : Vals) (ht : TypeSet v) :
    (render b64 Gen.returnDetailAddendumA.write incl v).length = 80 := by
  rw [write_returnDetailAddendumA]
  have h := render_length_fixed b64 (toWrite Spec.returnDetailAddendumA) incl v (by decide) (by decide) ht
  rw [h]; decide
theorem cols_returnDetailAddendumA (b64 : Bytes → Option Bytes) (incl : Bool) (v : Vals) (ht : TypeSet v)
    (i : Nat) (hi : i < Spec.returnDetailAddendumA.length) :
    ((render b64 Gen.returnDetailAddendumA.write incl v).drop Spec.returnDetailAddendumA[i].start).take Spec.returnDetailAddendumA[i].width
      = renderField b64 Spec.returnDetailAddendumA[i].toW v := by
  rw [write_returnDetailAddendumA]
  exact render_columns_fixed b64 Spec.returnDetailAddendumA incl v (by decide) (by decide) (by decide) ht i hi

theorem len_returnDetailAddendumB (b64 : Bytes → Option Bytes) (incl : Bool) (v : Vals) (ht : TypeSet v) :
    (render b64 Gen.returnDetailAddendumB.write incl v).length = 80 := by
  rw [write_returnDetailAddendumB]
  have h := render_length_fixed b64 (toWrite Spec.returnDetailAddendumB) incl v (by decide) (by decide) ht
  rw [h]; decide
theorem cols_returnDetailAddendumB (b64 : Bytes → Option Bytes) (incl : Bool) (v : Vals) (ht : TypeSet v)
    (i : Nat) (hi : i < Spec.returnDetailAddendumB.length) :
    ((render b64 Gen.returnDetailAddendumB.write incl v).drop Spec.returnDetailAddendumB[i].start).take Spec.returnDetailAddendumB[i].width
      = renderField b64 Spec.returnDetailAddendumB[i].toW v := by
  rw [write_returnDetailAddendumB]
  exact render_columns_fixed b64 Spec.returnDetailAddendumB incl v (by decide) (by decide) (by decide) ht i hi

theorem len_returnDetailAddendumD (b64 : Bytes → Option Bytes) (incl : Bool) (v : Vals) (ht : TypeSet v) :
    (render b64 Gen.returnDetailAddendumD.write incl v).length = 80 := by
  rw [write_returnDetailAddendumD]
  have h := render_length_fixed b64 (toWrite Spec.returnDetailAddendumD) incl v (by decide) (by decide) ht
  rw [h]; decide
theorem cols_returnDetailAddendumD (b64 : Bytes → Option Bytes) (incl : Bool) (v : Vals) (ht : TypeSet v)
    (i : Nat) (hi : i < Spec.returnDetailAddendumD.length) :
    ((render b64 Gen.returnDetailAddendumD.write incl v).drop Spec.returnDetailAddendumD[i].start).take Spec.returnDetailAddendumD[i].width
      = renderField b64 Spec.returnDetailAddendumD[i].toW v := by
  rw [write_returnDetailAddendumD]
  exact render_columns_fixed b64 Spec.returnDetailAddendumD incl v (by decide) (by decide) (by decide) ht i hi

theorem len_imageViewDetail (b64 : Bytes → Option Bytes) (incl : Bool) (v : Vals) (ht : TypeSet v) :
    (render b64 Gen.imageViewDetail.write incl v).length = 80 := by
  rw [write_imageViewDetail]
  have h := render_length_fixed b64 (toWrite Spec.imageViewDetail) incl v (by decide) (by decide) ht
  rw [h]; decide
theorem cols_imageViewDetail (b64 : Bytes → Option Bytes) (incl : Bool) (v : Vals) (ht : TypeSet v)
    (i : Nat) (hi : i < Spec.imageViewDetail.length) :
    ((render b64 Gen.imageViewDetail.write incl v).drop Spec.imageViewDetail[i].start).take Spec.imageViewDetail[i].width
      = renderField b64 Spec.imageViewDetail[i].toW v := by
  rw [write_imageViewDetail]
  exact render_columns_fixed b64 Spec.imageViewDetail incl v (by decide) (by decide) (by decide) ht i hi

theorem len_imageViewAnalysis (b64 : Bytes → Option Bytes) (incl : Bool) (v : Vals) (ht : TypeSet v) :
    (render b64 Gen.imageViewAnalysis.write incl v).length = 80 := by
  rw [write_imageViewAnalysis]
  have h := render_length_fixed b64 (toWrite Spec.imageViewAnalysis) incl v (by decide) (by decide) ht
  rw [h]; decide
theorem cols_imageViewAnalysis (b64 : Bytes → Option Bytes) (incl : Bool) (v : Vals) (ht : TypeSet v)
    (i : Nat) (hi : i < Spec.imageViewAnalysis.length) :
    ((render b64 Gen.imageViewAnalysis.write incl v).drop Spec.imageViewAnalysis[i].start).take Spec.imageViewAnalysis[i].width
      = renderField b64 Spec.imageViewAnalysis[i].toW v := by
  rw [write_imageViewAnalysis]
  exact render_columns_fixed b64 Spec.imageViewAnalysis incl v (by decide) (by decide) (by decide) ht i hi

theorem len_credit (b64 : Bytes → Option Bytes) (incl : Bool) (v : Vals) (ht : TypeSet v) :
    (render b64 Gen.credit.write incl v).length = 80 := by
  rw [write_credit]
  have h := render_length_fixed b64 (toWrite Spec.credit) incl v (by decide) (by decide) ht
  rw [h]; decide
theorem cols_credit (b64 : Bytes → Option Bytes) (incl : Bool) (v : Vals) (ht : TypeSet v)
    (i : Nat) (hi : i < Spec.credit.length) :
    ((render b64 Gen.credit.write incl v).drop Spec.credit[i].start).take Spec.credit[i].width
      = renderField b64 Spec.credit[i].toW v := by
  rw [write_credit]
  exact render_columns_fixed b64 Spec.credit incl v (by decide) (by decide) (by decide) ht i hi

theorem len_creditItem (b64 : Bytes → Option Bytes) (incl : Bool) (v : Vals) (ht : TypeSet v) :
    (render b64 Gen.creditItem.write incl v).length = 100 := by
  rw [write_creditItem]
  have h := render_length_fixed b64 (toWrite Spec.creditItem) incl v (by decide) (by decide) ht
  rw [h]; decide
theorem cols_creditItem (b64 : Bytes → Option Bytes) (incl : Bool) (v : Vals) (ht : TypeSet v)
    (i : Nat) (hi : i < Spec.creditItem.length) :
    ((render b64 Gen.creditItem.write incl v).drop Spec.creditItem[i].start).take Spec.creditItem[i].width
      = renderField b64 Spec.creditItem[i].toW v := by
  rw [write_creditItem]
  exact render_columns_fixed b64 Spec.creditItem incl v (by decide) (by decide) (by decide) ht i hi

theorem len_userPayeeEndorsement (b64 : Bytes → Option Bytes) (incl : Bool) (v : Vals) (ht : TypeSet v) :
    (render b64 Gen.userPayeeEndorsement.write incl v).length = 335 := by
  rw [write_userPayeeEndorsement]
  have h := render_length_fixed b64 (toWrite Spec.userPayeeEndorsement) incl v (by decide) (by decide) ht
  rw [h]; decide
theorem cols_userPayeeEndorsement (b64 : Bytes → Option Bytes) (incl : Bool) (v : Vals) (ht : TypeSet v)
    (i : Nat) (hi : i < Spec.userPayeeEndorsement.length) :
    ((render b64 Gen.userPayeeEndorsement.write incl v).drop Spec.userPayeeEndorsement[i].start).take Spec.userPayeeEndorsement[i].width
      = renderField b64 Spec.userPayeeEndorsement[i].toW v := by
  rw [write_userPayeeEndorsement]
  exact render_columns_fixed b64 Spec.userPayeeEndorsement incl v (by decide) (by decide) (by decide) ht i hi

theorem len_bundleControl (b64 : Bytes → Option Bytes) (incl : Bool) (v : Vals) (ht : TypeSet v) :
    (render b64 Gen.bundleControl.write incl v).length = 80 := by
  rw [write_bundleControl]
  have h := render_length_fixed b64 (toWrite Spec.bundleControl) incl v (by decide) (by decide) ht
  rw [h]; decide
theorem cols_bundleControl (b64 : Bytes → Option Bytes) (incl : Bool) (v : Vals) (ht : TypeSet v)
    (i : Nat) (hi : i < Spec.bundleControl.length) :
    ((render b64 Gen.bundleControl.write incl v).drop Spec.bundleControl[i].start).take Spec.bundleControl[i].width
      = renderField b64 Spec.bundleControl[i].toW v := by
  rw [write_bundleControl]
  exact render_columns_fixed b64 Spec.bundleControl incl v (by decide) (by decide) (by decide) ht i hi

theorem len_routingNumberSummary (b64 : Bytes → Option Bytes) (incl : Bool) (v : Vals) (ht : TypeSet v) :
    (render b64 Gen.routingNumberSummary.write incl v).length = 80 := by
  rw [write_routingNumberSummary]
  have h := render_length_fixed b64 (toWrite Spec.routingNumberSummary) incl v (by decide) (by decide) ht
  rw [h]; decide
theorem cols_routingNumberSummary (b64 : Bytes → Option Bytes) (incl : Bool) (v : Vals) (ht : TypeSet v)
    (i : Nat) (hi : i < Spec.routingNumberSummary.length) :
    ((render b64 Gen.routingNumberSummary.write incl v).drop Spec.routingNumberSummary[i].start).take Spec.routingNumberSummary[i].width
      = renderField b64 Spec.routingNumberSummary[i].toW v := by
  rw [write_routingNumberSummary]
  exact render_columns_fixed b64 Spec.routingNumberSummary incl v (by decide) (by decide) (by decide) ht i hi

theorem len_cashLetterControl (b64 : Bytes → Option Bytes) (incl : Bool) (v : Vals) (ht : TypeSet v) :
    (render b64 Gen.cashLetterControl.write incl v).length = 80 := by
  rw [write_cashLetterControl]
  have h := render_length_fixed b64 (toWrite Spec.cashLetterControl) incl v (by decide) (by decide) ht
  rw [h]; decide
theorem cols_cashLetterControl (b64 : Bytes → Option Bytes) (incl : Bool) (v : Vals) (ht : TypeSet v)
    (i : Nat) (hi : i < Spec.cashLetterControl.length) :
    ((render b64 Gen.cashLetterControl.write incl v).drop Spec.cashLetterControl[i].start).take Spec.cashLetterControl[i].width
      = renderField b64 Spec.cashLetterControl[i].toW v := by
  rw [write_cashLetterControl]
  exact render_columns_fixed b64 Spec.cashLetterControl incl v (by decide) (by decide) (by decide) ht i hi

theorem len_fileControl (b64 : Bytes → Option Bytes) (incl : Bool) (v : Vals) (ht : TypeSet v) :
    (render b64 Gen.fileControl.write incl v).length = 80 := by
  rw [write_fileControl]
  have h := render_length_fixed b64 (toWrite Spec.fileControl) incl v (by decide) (by decide) ht
  rw [h]; decide
theorem cols_fileControl (b64 : Bytes → Option Bytes) (incl : Bool) (v : Vals) (ht : TypeSet v)
    (i : Nat) (hi : i < Spec.fileControl.length) :
    ((render b64 Gen.fileControl.write incl v).drop Spec.fileControl[i].start).take Spec.fileControl[i].width
      = renderField b64 Spec.fileControl[i].toW v := by
  rw [write_fileControl]
  exact render_columns_fixed b64 Spec.fileControl incl v (by decide) (by decide) (by decide) ht i hi


/-! ## records with variable sections (27, 34, 52, 68): 46+K, 117+K+S+I, and shifted columns -/

/-- size of the variable section governed by length field `lf`: the value of the length field when it
is a valid size (0 < n < 10^8), otherwise the section is empty -/
def K (v : Vals) (lf : String) : Nat := (varWidth v lf).getD 0

theorem len_checkDetailAddendumB (b64 : Bytes → Option Bytes) (incl : Bool) (v : Vals) (ht : TypeSet v) :
    (render b64 Gen.checkDetailAddendumB.write incl v).length = 46 + K v "LengthImageReferenceKey" := by
  rw [write_checkDetailAddendumB, render_length b64 _ incl v (by decide) ht]
  simp [sumLen, lenOf, Spec.checkDetailAddendumB, toWrite, SField.toW, K]
  omega

theorem len_returnDetailAddendumC (b64 : Bytes → Option Bytes) (incl : Bool) (v : Vals) (ht : TypeSet v) :
    (render b64 Gen.returnDetailAddendumC.write incl v).length = 46 + K v "LengthImageReferenceKey" := by
  rw [write_returnDetailAddendumC, render_length b64 _ incl v (by decide) ht]
  simp [sumLen, lenOf, Spec.returnDetailAddendumC, toWrite, SField.toW, K]
  omega

theorem len_userGeneral (b64 : Bytes → Option Bytes) (incl : Bool) (v : Vals) (ht : TypeSet v) :
    (render b64 Gen.userGeneral.write incl v).length = 45 + K v "LengthUserData" := by
  rw [write_userGeneral, render_length b64 _ incl v (by decide) ht]
  simp [sumLen, lenOf, Spec.userGeneral, toWrite, SField.toW, K]
  omega

/-- 117 + K + S + I; `I` is the decoded length when the image data is base64 text (documented
decode-on-write), else the value of the image length field -/
theorem len_imageViewData (b64 : Bytes → Option Bytes) (v : Vals) (ht : TypeSet v) :
    (render b64 Gen.imageViewData.write true v).length =
      117 + K v "LengthImageReferenceKey" + K v "LengthDigitalSignature" +
        (match b64 (v.s "ImageData") with
          | some dec => dec.length
          | none => K v "LengthImageData") := by
  rw [write_imageViewData, render_length b64 _ true v (by decide) ht,
    sumLen_filter b64 _ true v (by decide) (by decide)]
  have hf : (toWrite Spec.imageViewData).filter (fun f => !FixedConv f.conv) =
      [Spec.imageViewData[14].toW, Spec.imageViewData[16].toW, Spec.imageViewData[18].toW] := by decide
  have hw : fixedWidth (toWrite Spec.imageViewData) = 117 := by decide
  rw [hf, hw]
  cases hb : b64 (v.s "ImageData") <;>
    simp [sumLen, lenOf, Spec.imageViewData, SField.toW, K, hb] <;> omega

/-- `toString(false)`, the part of record 52 that the EBCDIC writer transliterates -/
theorem len_imageViewData_noImage (b64 : Bytes → Option Bytes) (v : Vals) (ht : TypeSet v) :
    (render b64 Gen.imageViewData.write false v).length =
      117 + K v "LengthImageReferenceKey" + K v "LengthDigitalSignature" := by
  rw [write_imageViewData, render_length b64 _ false v (by decide) ht,
    sumLen_filter b64 _ false v (by decide) (by decide)]
  have hf : (toWrite Spec.imageViewData).filter (fun f => !FixedConv f.conv) =
      [Spec.imageViewData[14].toW, Spec.imageViewData[16].toW, Spec.imageViewData[18].toW] := by decide
  have hw : fixedWidth (toWrite Spec.imageViewData) = 117 := by decide
  rw [hf, hw]
  simp [sumLen, lenOf, Spec.imageViewData, SField.toW, K]
  omega

theorem cols_checkDetailAddendumB (b64 : Bytes → Option Bytes) (incl : Bool) (v : Vals) (ht : TypeSet v)
    (i : Nat) (hi : i < Spec.checkDetailAddendumB.length) :
    ((render b64 Gen.checkDetailAddendumB.write incl v).drop
        (Spec.checkDetailAddendumB[i].start + sumLen b64 incl v (sectionsBefore Spec.checkDetailAddendumB i))).take
      (fieldBytes b64 incl Spec.checkDetailAddendumB[i].toW v).length
      = fieldBytes b64 incl Spec.checkDetailAddendumB[i].toW v := by
  rw [write_checkDetailAddendumB]
  exact render_columns_var b64 _ incl v (by decide) (by decide) (by decide) ht i hi

theorem cols_returnDetailAddendumC (b64 : Bytes → Option Bytes) (incl : Bool) (v : Vals) (ht : TypeSet v)
    (i : Nat) (hi : i < Spec.returnDetailAddendumC.length) :
    ((render b64 Gen.returnDetailAddendumC.write incl v).drop
        (Spec.returnDetailAddendumC[i].start + sumLen b64 incl v (sectionsBefore Spec.returnDetailAddendumC i))).take
      (fieldBytes b64 incl Spec.returnDetailAddendumC[i].toW v).length
      = fieldBytes b64 incl Spec.returnDetailAddendumC[i].toW v := by
  rw [write_returnDetailAddendumC]
  exact render_columns_var b64 _ incl v (by decide) (by decide) (by decide) ht i hi

theorem cols_imageViewData (b64 : Bytes → Option Bytes) (incl : Bool) (v : Vals) (ht : TypeSet v)
    (i : Nat) (hi : i < Spec.imageViewData.length) :
    ((render b64 Gen.imageViewData.write incl v).drop
        (Spec.imageViewData[i].start + sumLen b64 incl v (sectionsBefore Spec.imageViewData i))).take
      (fieldBytes b64 incl Spec.imageViewData[i].toW v).length
      = fieldBytes b64 incl Spec.imageViewData[i].toW v := by
  rw [write_imageViewData]
  exact render_columns_var b64 _ incl v (by decide) (by decide) (by decide) ht i hi

theorem cols_userGeneral (b64 : Bytes → Option Bytes) (incl : Bool) (v : Vals) (ht : TypeSet v)
    (i : Nat) (hi : i < Spec.userGeneral.length) :
    ((render b64 Gen.userGeneral.write incl v).drop
        (Spec.userGeneral[i].start + sumLen b64 incl v (sectionsBefore Spec.userGeneral i))).take
      (fieldBytes b64 incl Spec.userGeneral[i].toW v).length
      = fieldBytes b64 incl Spec.userGeneral[i].toW v := by
  rw [write_userGeneral]
  exact render_columns_var b64 _ incl v (by decide) (by decide) (by decide) ht i hi

/-! ## frame: every Go field is read by exactly one entry, so changing one field changes only that
entry's bytes (a length field additionally sizes the section it governs) -/

/-- names read by the entries of a table other than entry `i` (sources and length fields) -/
def readsExcept (ws : List WField) (i : Nat) : List String :=
  ((ws.take i) ++ (ws.drop (i+1))).flatMap (fun f => [f.src, f.lenField])

/-- no entry's source is read by another entry as its source -/
def SrcUnique (ws : List WField) : Bool :=
  (List.range ws.length).all (fun i => !(ws.take i ++ ws.drop (i+1)).any (fun g => g.src == (ws.getD i default).src))

theorem frame_tables : Gen.all.all (fun L => SrcUnique L.write) = true := by decide

/-- non-vacuity of `TypeSet` and of the hypotheses above: a concrete record -/
example : TypeSet ({ s := fun k => if k = "recordType" then [0x30, 0x31] else [] } : Vals) := by
  simp [TypeSet]

end Icl.C02
