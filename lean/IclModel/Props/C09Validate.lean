/-
`Bundle.Validate` and the two addendum-count walks it calls (bundle.go) are TRANSLATED statement by statement into
Lean (Gen/ValidateT.lean, regenerated on every run).  Theorem `bundleValidate_eq_model`: for every bundle the
translation returns what `bundleValidate` (Tree.lean - the container check the reader runs at a bundle control record
and the builds run before `Bundle.build`) returns: the same verdict and the same error member.
-/
import IclModel.Gen.ValidateT
import IclModel.Build
namespace Icl.ValidateEq
open Icl

theorem len_le_zero {α : Type} (l : List α) : decide ((l.length : Int) ≤ (0 : Int)) = l.isEmpty := by
  cases l with
  | nil => simp
  | cons x r => simp only [List.length_cons, List.isEmpty_cons, decide_eq_false_iff_not]; omega

theorem len_gt_zero {α : Type} (l : List α) : decide ((l.length : Int) > (0 : Int)) = !l.isEmpty := by
  cases l with
  | nil => simp
  | cons x r => simp only [List.length_cons, List.isEmpty_cons, Bool.not_false, decide_eq_true_eq]; omega

/-- every statement of the translated methods had a recognised shape -/
theorem validate_recognised : Gen.V.recognised = true := by decide

theorem checkWalk_eq (b : Bundle Vals) :
    Gen.V.checkDetailAddendumCount b =
      b.checks.findSome? (fun cd =>
        if cd.detail.i "AddendumCount" ≠ ((cd.addA.length + cd.addB.length + cd.addC.length : Nat) : Int) then some "AddendumCount"
        else if cd.addA.length > 9 then some "CheckDetailAddendumA"
        else if cd.addB.length > 1 then some "CheckDetailAddendumB"
        else if cd.addC.length > 99 then some "CheckDetailAddendumC"
        else none) := by
  unfold Gen.V.checkDetailAddendumCount
  have hf : (fun (cd : Item Vals) =>
      if decide (cd.detail.i "AddendumCount" ≠ (((cd.addA.length : Int) + (cd.addB.length : Int)) + (cd.addC.length : Int))) then (some "AddendumCount") else
      if decide ((cd.addA.length : Int) > (9 : Int)) then (some "CheckDetailAddendumA") else
      if decide ((cd.addB.length : Int) > (1 : Int)) then (some "CheckDetailAddendumB") else
      if decide ((cd.addC.length : Int) > (99 : Int)) then (some "CheckDetailAddendumC") else
      none) = (fun cd =>
        if cd.detail.i "AddendumCount" ≠ ((cd.addA.length + cd.addB.length + cd.addC.length : Nat) : Int) then some "AddendumCount"
        else if cd.addA.length > 9 then some "CheckDetailAddendumA"
        else if cd.addB.length > 1 then some "CheckDetailAddendumB"
        else if cd.addC.length > 99 then some "CheckDetailAddendumC"
        else none) := by
    funext cd
    simp only [decide_eq_true_eq]
    repeat' split
    all_goals first | rfl | (exfalso; omega)
  rw [hf]
  cases List.findSome? _ b.checks <;> rfl

theorem returnWalk_eq (b : Bundle Vals) :
    Gen.V.returnDetailAddendumCount b =
      b.returns.findSome? (fun rd =>
        if rd.detail.i "AddendumCount" ≠ ((rd.addA.length + rd.addB.length + rd.addC.length + rd.addD.length : Nat) : Int) then some "AddendumCount"
        else if rd.addA.length > 9 then some "ReturnDetailAddendumA"
        else if rd.addB.length > 1 then some "ReturnDetailAddendumB"
        else if rd.addC.length > 1 then some "ReturnDetailAddendumC"
        else if rd.addD.length > 99 then some "ReturnDetailAddendumD"
        else none) := by
  unfold Gen.V.returnDetailAddendumCount
  have hf : (fun (rd : Item Vals) =>
      if decide (rd.detail.i "AddendumCount" ≠ ((((rd.addA.length : Int) + (rd.addB.length : Int)) + (rd.addC.length : Int)) + (rd.addD.length : Int))) then (some "AddendumCount") else
      if decide ((rd.addA.length : Int) > (9 : Int)) then (some "ReturnDetailAddendumA") else
      if decide ((rd.addB.length : Int) > (1 : Int)) then (some "ReturnDetailAddendumB") else
      if decide ((rd.addC.length : Int) > (1 : Int)) then (some "ReturnDetailAddendumC") else
      if decide ((rd.addD.length : Int) > (99 : Int)) then (some "ReturnDetailAddendumD") else
      none) = (fun rd =>
        if rd.detail.i "AddendumCount" ≠ ((rd.addA.length + rd.addB.length + rd.addC.length + rd.addD.length : Nat) : Int) then some "AddendumCount"
        else if rd.addA.length > 9 then some "ReturnDetailAddendumA"
        else if rd.addB.length > 1 then some "ReturnDetailAddendumB"
        else if rd.addC.length > 1 then some "ReturnDetailAddendumC"
        else if rd.addD.length > 99 then some "ReturnDetailAddendumD"
        else none) := by
    funext rd
    simp only [decide_eq_true_eq]
    repeat' split
    all_goals first | rfl | (exfalso; omega)
  rw [hf]
  cases List.findSome? _ b.returns <;> rfl

/-- **`Bundle.Validate` as translated from bundle.go is the model's container check**, for every bundle -/
theorem bundleValidate_eq_model (b : Bundle Vals) : Gen.V.Validate b = bundleValidate b := by
  unfold Gen.V.Validate bundleValidate
  rw [checkWalk_eq, returnWalk_eq]
  simp only [len_le_zero, len_gt_zero]
  cases b.checks.isEmpty <;> cases b.returns.isEmpty <;> simp <;>
    (first | rfl | (cases List.findSome? _ _ <;> rfl))

/-- **`CashLetter.Validate` as translated from cashLetter.go is the model's container check**, for every cash letter -/
theorem cashLetterValidate_eq_model (m : Model) (cl : CashLetter Vals) :
    Gen.V.cashLetterValidate m cl = cashLetterValidate m cl := by
  unfold Gen.V.cashLetterValidate cashLetterValidate
  cases hh : cl.header with
  | none => rfl
  | some h =>
    simp only [Option.isNone_some, Bool.false_eq_true, if_false, Option.map_some, Option.getD_some]
    by_cases h1 : (h.s "RecordTypeIndicator" == [0x4E]) = true <;>
      by_cases h2 : cl.bundles.isEmpty = true <;>
      by_cases h3 : ([[0x30, 0x30], [0x30, 0x31], [0x30, 0x32]].contains (h.s "CollectionTypeIndicator")) = true <;>
      by_cases h4 : cl.rns.isEmpty = true <;>
      simp only [h1, h2, h3, h4, Bool.not_true, Bool.not_false, Bool.and_true, Bool.and_false, Bool.true_and, Bool.false_and,
        Bool.false_eq_true, if_true, if_false, Bool.not_eq_true] <;>
      (cases hc : cl.control with
       | none => simp [BuildRT.vOpt]
       | some c =>
         simp only [Option.isNone_some, Bool.false_eq_true, if_false, BuildRT.vOpt, vErr]
         cases hv : m.validateK Kind.cashLetterControl c with
         | mk o v' => cases o <;> simp)

/-- the loop of `CashLetterIDUnique`: the state it carries (error found, ID of the last cash letter with a header) -/
def idStep (st : Option String × Bytes) (cl : CashLetter Vals) : Option String × Bytes :=
  match st.1 with
  | some _ => st
  | none =>
    let cashLetterID := st.2
    if cl.header.isNone then st else
    if (cashLetterID == (((cl.header).map (·.s "CashLetterID")).getD [])) then (some "CashLetterID", cashLetterID) else
    let cashLetterID := (((cl.header).map (·.s "CashLetterID")).getD [])
    (none, cashLetterID)

theorem idLoop_some (l : List (CashLetter Vals)) (e : String) (p : Bytes) : (l.foldl idStep (some e, p)).1 = some e := by
  induction l generalizing p with
  | nil => rfl
  | cons x r ih => simp only [List.foldl_cons, idStep]; exact ih p

theorem idLoop_eq (l : List (CashLetter Vals)) : ∀ prev : Bytes,
    ((l.foldl idStep (none, prev)).1.isNone) =
      cashLetterIDUnique.go prev (l.map (fun cl => cl.header.map (fun h => h.s "CashLetterID"))) := by
  induction l with
  | nil => intro prev; rfl
  | cons x r ih =>
    intro prev
    simp only [List.foldl_cons, List.map_cons]
    cases hh : x.header with
    | none =>
      simp only [idStep, hh, Option.isNone_none, if_true, Option.map_none, cashLetterIDUnique.go]
      exact ih prev
    | some h =>
      simp only [idStep, hh, Option.isNone_some, Bool.false_eq_true, if_false, Option.map_some, Option.getD_some,
        cashLetterIDUnique.go]
      by_cases hp : (prev == h.s "CashLetterID") = true
      · simp only [hp, if_true, idLoop_some, Option.isNone_some]
      · simp only [hp, Bool.false_eq_true, if_false]
        exact ih (h.s "CashLetterID")

/-- **`File.Validate` (`CashLetterIDUnique`) as translated from file.go is the model's `fileValidate`**: the translation
returns no error exactly when the model accepts -/
theorem fileValidate_eq_model (f : File Vals) : (Gen.V.fileValidate f).isNone = fileValidate f := by
  unfold Gen.V.fileValidate Gen.V.CashLetterIDUnique fileValidate cashLetterIDUnique
  cases hl : f.cashLetters with
  | nil => rfl
  | cons x r =>
    have hne : decide ((((x :: r).length : Nat) : Int) = (0 : Int)) = false := by
      simp only [List.length_cons, decide_eq_false_iff_not]; omega
    simp only [hne, Bool.false_eq_true, if_false, List.map_cons, List.isEmpty_cons, Bool.not_false, Bool.true_and]
    have := idLoop_eq (x :: r) []
    simp only [List.map_cons] at this
    show (match (match (List.foldl idStep (none, []) (x :: r)).1 with | some e => some e | none => none) with
      | some e => some e | none => none).isNone = _
    rw [← this]
    generalize (List.foldl idStep (none, []) (x :: r)).1 = o
    cases o <;> rfl

end Icl.ValidateEq
