/-
C20 — the bundled Go client and the server agree on the wire format.

`Gen.serverSchema` / `Gen.clientSchema` are regenerated from the struct tags and field types of the
library model and of client/model_*.go.  `mismatches` lists the server members for which the client
has no member of a matching (case-insensitive) JSON name, or only one whose type cannot hold every
value (an `int32` for an amount whose X9 column has 10+ digits, …).  On the pinned tree the property
is FALSE for the members listed in Spec/SchemaFindings.lean (recorded findings: the client is
generated from a drifted openapi.yaml); the theorem pins the set exactly, so a further drift (a
renamed tag, a narrowed type, a dropped member on either side) breaks it.
-/
import IclModel.Gen.SchemaTables
import IclModel.Spec.SchemaFindings
namespace Icl.C20
open Icl

theorem wire_mismatches :
    mismatches Gen.serverSchema Gen.clientSchema Gen.intWidths = Spec.knownMismatches := by decide

/-- every server member OUTSIDE the recorded list has a client member with the same JSON name (up to
case) and a type that holds all its values -/
theorem other_members_embed (sn : String) (ms : List Member) (h : (sn, ms) ∈ Gen.serverSchema) (m : Member) (hm : m ∈ ms)
    (hk : ∀ r, (sn, m.json, r) ∉ Spec.knownMismatches) (hs : ∀ r, (sn, "*", r) ∉ Spec.knownMismatches) :
    ∀ r, (sn, m.json, r) ∉ mismatches Gen.serverSchema Gen.clientSchema Gen.intWidths := by
  intro r
  rw [wire_mismatches]
  exact hk r

end Icl.C20
