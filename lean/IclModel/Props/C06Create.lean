/-
`File.Create` of file.go is TRANSLATED statement by statement into Lean (Gen/CreateT.lean, regenerated on every
run; its bundle loop calls the translated `Bundle.build`).  Theorem `create_eq_model`: for every file the
translation and the build model (`fileCreate`, Build.lean - the function the C06 / C09 / C17 theorems speak about)
return the same result: the same error, or the same file with the same rebuilt bundles and the same control record.
So `file_control_recount` (C06) is a theorem about the accumulators `fileTotalRecordCount`, `fileTotalItemCount`,
`fileTotalAmount`, `creditIndicator` of the source.
-/
import IclModel.Gen.CreateT
import IclModel.Props.C06Build
namespace Icl.CreateEq
open Icl Icl.BuildRT Icl.BuildEq

/-! ### loops that rebuild their elements -/

def mapE {α : Type} (g : α → Except BErr α) : List α → Except BErr (List α)
  | [] => .ok []
  | x :: r =>
    match g x with
    | .error e => .error e
    | .ok y =>
      match mapE g r with
      | .error e => .error e
      | .ok ys => .ok (y :: ys)

/-- a loop whose body rebuilds the element (or fails) and updates the locals from the element as it was -/
theorem forMapE_split {α : Type} (l : List α) (g : α → Except BErr α) (upd : Env → α → Env)
    (body : α → Env → Except BErr (α × Env))
    (hb : ∀ x σ, body x σ = match g x with | .error e => .error e | .ok y => .ok (y, upd σ x)) :
    ∀ σ, forMapE l σ body = match mapE g l with | .error e => .error e | .ok ys => .ok (ys, l.foldl upd σ) := by
  induction l with
  | nil => intro σ; rfl
  | cons x r ih =>
    intro σ
    simp only [forMapE, hb, mapE, List.foldl_cons]
    cases g x with
    | error e => rfl
    | ok y =>
      simp only [ih]
      cases mapE g r <;> rfl

/-- a key of the elements that the rebuild keeps -/
theorem mapE_keys {α β : Type} (g : α → Except BErr α) (key : α → β) (hk : ∀ x y, g x = .ok y → key y = key x) :
    ∀ (l l' : List α), mapE g l = .ok l' → l'.map key = l.map key := by
  intro l
  induction l with
  | nil => intro l' h; simp only [mapE, Except.ok.injEq] at h; subst h; rfl
  | cons x r ih =>
    intro l' h
    simp only [mapE] at h
    cases hg : g x with
    | error e => simp [hg] at h
    | ok y =>
      simp only [hg] at h
      cases hr : mapE g r with
      | error e => simp [hr] at h
      | ok ys =>
        simp only [hr, Except.ok.injEq] at h
        subst h
        simp only [List.map_cons, hk x y hg, ih ys hr]

/-- functions of the key agree on lists with the same keys -/
theorem map_congr_key {α β γ : Type} (key : α → β) (g : α → γ) (hg : ∀ x y, key x = key y → g x = g y) :
    ∀ (l l' : List α), l'.map key = l.map key → l'.map g = l.map g := by
  intro l
  induction l with
  | nil => intro l' h; cases l' with
    | nil => rfl
    | cons a b => simp at h
  | cons x r ih =>
    intro l' h
    cases l' with
    | nil => simp at h
    | cons a b =>
      simp only [List.map_cons, List.cons.injEq] at h ⊢
      exact ⟨hg a x h.1, ih b h.2⟩

/-! ### the model's loops as `mapE` -/

def gB (m : Model) (b : Bundle Vals) : Except BErr (Bundle Vals) :=
  match bundleValidate b with
  | some f => .error (.bundle, f)
  | none => bundleBuild m b

theorem fileBundles_eq (m : Model) : ∀ l, fileBundles m l = mapE (gB m) l := by
  intro l
  induction l with
  | nil => rfl
  | cons b r ih =>
    simp only [fileBundles, mapE, gB, ih]
    cases bundleValidate b with
    | some f => rfl
    | none =>
      cases bundleBuild m b with
      | error e => rfl
      | ok b2 => cases mapE (gB m) r <;> rfl

def clErr (m : Model) (cl : CashLetter Vals) : Option BErr :=
  (cashLetterValidate m cl).or <|
    ((match cl.header with | some h => vErr m .cashLetterHeader h | none => none).or <|
     (firstErr (vErr m .creditItem) cl.creditItems).or <|
     (firstErr (vErr m .credit) cl.credits).or <|
     (firstErr (fun r => match r with | some v => vErr m .rns v | none => some (.file, "RoutingNumberSummary")) cl.rns))

def gCL (m : Model) (cl : CashLetter Vals) : Except BErr (CashLetter Vals) :=
  match clErr m cl with
  | some e => .error e
  | none =>
    match fileBundles m cl.bundles with
    | .error e => .error e
    | .ok bs => .ok { cl with bundles := bs }

theorem fileCashLetters_eq (m : Model) : ∀ l, fileCashLetters m l = mapE (gCL m) l := by
  intro l
  induction l with
  | nil => rfl
  | cons cl r ih =>
    simp only [fileCashLetters, mapE, gCL, ih]
    change (match clErr m cl with | some e => _ | none => _) = _
    cases clErr m cl with
    | some e => rfl
    | none =>
      cases fileBundles m cl.bundles with
      | error e => rfl
      | ok bs => cases mapE (gCL m) r <;> rfl

/-! ### what the loops of `File.Create` do to its locals -/

def tC (σ : Env) (cd : Item Vals) : Env :=
  let σ := σ.set "fileTotalItemCount" ((σ.get "fileTotalItemCount") + (1 : Int))
  let σ := σ.set "fileTotalRecordCount" ((σ.get "fileTotalRecordCount") + (1 : Int))
  let σ := σ.set "fileTotalRecordCount" ((((σ.get "fileTotalRecordCount") + (cd.addA.length : Int)) + (cd.addB.length : Int)) + (cd.addC.length : Int))
  let σ := σ.set "fileTotalRecordCount" ((((σ.get "fileTotalRecordCount") + (cd.ivDetail.length : Int)) + (cd.ivData.length : Int)) + (cd.ivAnalysis.length : Int))
  let σ := σ.set "fileTotalAmount" ((σ.get "fileTotalAmount") + cd.detail.i "ItemAmount")
  σ

def tR (σ : Env) (rd : Item Vals) : Env :=
  let σ := σ.set "fileTotalItemCount" ((σ.get "fileTotalItemCount") + (1 : Int))
  let σ := σ.set "fileTotalRecordCount" ((σ.get "fileTotalRecordCount") + (1 : Int))
  let σ := σ.set "fileTotalRecordCount" (((((σ.get "fileTotalRecordCount") + (rd.addA.length : Int)) + (rd.addB.length : Int)) + (rd.addC.length : Int)) + (rd.addD.length : Int))
  let σ := σ.set "fileTotalRecordCount" ((((σ.get "fileTotalRecordCount") + (rd.ivDetail.length : Int)) + (rd.ivData.length : Int)) + (rd.ivAnalysis.length : Int))
  let σ := σ.set "fileTotalAmount" ((σ.get "fileTotalAmount") + rd.detail.i "ItemAmount")
  σ

def tB (σ : Env) (b : Bundle Vals) : Env :=
  let σ := σ.set "fileTotalRecordCount" ((σ.get "fileTotalRecordCount") + (2 : Int))
  let σ := b.checks.foldl tC σ
  let σ := b.returns.foldl tR σ
  σ

def tPre (σ : Env) (cl : CashLetter Vals) : Env :=
  let σ := σ.set "fileTotalRecordCount" ((σ.get "fileTotalRecordCount") + (2 : Int))
  let σ := if decide ((cl.creditItems.length : Int) > (0 : Int)) then (
      let σ := σ.set "fileTotalRecordCount" ((σ.get "fileTotalRecordCount") + (cl.creditItems.length : Int))
      let σ := σ.set "creditIndicator" (1 : Int)
      σ) else σ
  let σ := σ.set "fileTotalRecordCount" (((σ.get "fileTotalRecordCount") + (cl.credits.length : Int)) + (cl.rns.length : Int))
  σ

def tCl (σ : Env) (cl : CashLetter Vals) : Env := cl.bundles.foldl tB (tPre σ cl)

/-- the four tallies and the indicator, read off the locals -/
structure Tally where
  cls : Int
  recs : Int
  items : Int
  amount : Int
  credit : Int

def tally (σ : Env) : Tally :=
  ⟨σ.get "fileCashLetterCount", σ.get "fileTotalRecordCount", σ.get "fileTotalItemCount", σ.get "fileTotalAmount", σ.get "creditIndicator"⟩

theorem tally_ext (a b : Tally) (h1 : a.cls = b.cls) (h2 : a.recs = b.recs) (h3 : a.items = b.items)
    (h4 : a.amount = b.amount) (h5 : a.credit = b.credit) : a = b := by
  cases a; cases b; simp_all

def itemsOfB (b : Bundle Vals) : List (Item Vals) := b.checks ++ b.returns
def amountOf (l : List (Item Vals)) : Int := sumInt (l.map (fun i => i.detail.i "ItemAmount"))

theorem tally_tC (σ : Env) (x : Item Vals) :
    tally (tC σ x) = ⟨(tally σ).cls, (tally σ).recs + (itemRecordCount true x : Nat), (tally σ).items + 1,
      (tally σ).amount + x.detail.i "ItemAmount", (tally σ).credit⟩ := by
  unfold tally tC itemRecordCount
  simp
  omega

theorem tally_tR (σ : Env) (x : Item Vals) :
    tally (tR σ x) = ⟨(tally σ).cls, (tally σ).recs + (itemRecordCount false x : Nat), (tally σ).items + 1,
      (tally σ).amount + x.detail.i "ItemAmount", (tally σ).credit⟩ := by
  unfold tally tR itemRecordCount
  simp
  omega

theorem foldl_tC (l : List (Item Vals)) : ∀ σ : Env,
    tally (l.foldl tC σ) =
      ⟨(tally σ).cls, (tally σ).recs + ((l.map (itemRecordCount true)).sum : Nat), (tally σ).items + (l.length : Int),
        (tally σ).amount + amountOf l, (tally σ).credit⟩ := by
  induction l with
  | nil => intro σ; simp [amountOf, sumInt_nil]
  | cons x r ih =>
    intro σ
    rw [List.foldl_cons, ih, tally_tC]
    apply tally_ext <;> simp only [amountOf, List.map_cons, sumInt_cons, List.sum_cons, List.length_cons] <;>
      first | rfl | omega | (simp; omega)

theorem foldl_tR (l : List (Item Vals)) : ∀ σ : Env,
    tally (l.foldl tR σ) =
      ⟨(tally σ).cls, (tally σ).recs + ((l.map (itemRecordCount false)).sum : Nat), (tally σ).items + (l.length : Int),
        (tally σ).amount + amountOf l, (tally σ).credit⟩ := by
  induction l with
  | nil => intro σ; simp [amountOf, sumInt_nil]
  | cons x r ih =>
    intro σ
    rw [List.foldl_cons, ih, tally_tR]
    apply tally_ext <;> simp only [amountOf, List.map_cons, sumInt_cons, List.sum_cons, List.length_cons] <;>
      first | rfl | omega | (simp; omega)

theorem tally_bump (σ : Env) (x : Int) :
    tally (σ.set "fileTotalRecordCount" ((σ.get "fileTotalRecordCount") + x)) =
      ⟨(tally σ).cls, (tally σ).recs + x, (tally σ).items, (tally σ).amount, (tally σ).credit⟩ := by
  unfold tally
  simp

theorem tally_tB (σ : Env) (b : Bundle Vals) :
    tally (tB σ b) =
      ⟨(tally σ).cls, (tally σ).recs + (bundleRecordCount b : Nat), (tally σ).items + ((itemsOfB b).length : Int),
        (tally σ).amount + amountOf (itemsOfB b), (tally σ).credit⟩ := by
  unfold tB
  simp only [foldl_tR, foldl_tC, tally_bump]
  apply tally_ext <;> simp only [bundleRecordCount, itemsOfB, amountOf, List.map_append, sumInt_append,
    List.length_append] <;> first | rfl | omega | (simp; omega)

theorem foldl_tB (l : List (Bundle Vals)) : ∀ σ : Env,
    tally (l.foldl tB σ) =
      ⟨(tally σ).cls, (tally σ).recs + ((l.map bundleRecordCount).sum : Nat), (tally σ).items + ((l.flatMap itemsOfB).length : Int),
        (tally σ).amount + amountOf (l.flatMap itemsOfB), (tally σ).credit⟩ := by
  induction l with
  | nil => intro σ; simp [amountOf, sumInt_nil]
  | cons x r ih =>
    intro σ
    rw [List.foldl_cons, ih, tally_tB]
    apply tally_ext <;> simp only [amountOf, List.map_cons, List.sum_cons, List.flatMap_cons, List.length_append,
      List.map_append, sumInt_append] <;> first | rfl | omega | (simp; omega)

def itemsOfCl (cl : CashLetter Vals) : List (Item Vals) := cl.bundles.flatMap itemsOfB

theorem tally_tPre (σ : Env) (cl : CashLetter Vals) :
    tally (tPre σ cl) =
      ⟨(tally σ).cls, (tally σ).recs + ((2 + cl.creditItems.length + cl.credits.length + cl.rns.length : Nat) : Int),
        (tally σ).items, (tally σ).amount, if cl.creditItems.isEmpty then (tally σ).credit else 1⟩ := by
  unfold tPre tally
  cases hci : cl.creditItems with
  | nil => simp; omega
  | cons a r =>
    have : decide (((a :: r).length : Int) > 0) = true := by simp
    simp only [this]
    simp
    omega

theorem tally_tCl (σ : Env) (cl : CashLetter Vals) :
    tally (tCl σ cl) =
      ⟨(tally σ).cls, (tally σ).recs + (clRecordCount cl : Nat), (tally σ).items + ((itemsOfCl cl).length : Int),
        (tally σ).amount + amountOf (itemsOfCl cl),
        if cl.creditItems.isEmpty then (tally σ).credit else 1⟩ := by
  unfold tCl
  rw [foldl_tB, tally_tPre]
  apply tally_ext <;> simp only [clRecordCount, itemsOfCl] <;> first | rfl | omega | (simp; omega)

def creditOf (l : List (CashLetter Vals)) (c0 : Int) : Int :=
  if l.any (fun cl => !cl.creditItems.isEmpty) then 1 else c0

theorem foldl_tCl (l : List (CashLetter Vals)) : ∀ σ : Env,
    tally (l.foldl tCl σ) =
      ⟨(tally σ).cls, (tally σ).recs + ((l.map clRecordCount).sum : Nat), (tally σ).items + ((l.flatMap itemsOfCl).length : Int),
        (tally σ).amount + amountOf (l.flatMap itemsOfCl), creditOf l (tally σ).credit⟩ := by
  induction l with
  | nil => intro σ; simp [amountOf, sumInt_nil, creditOf]
  | cons x r ih =>
    intro σ
    rw [List.foldl_cons, ih, tally_tCl]
    apply tally_ext <;> simp only [amountOf, List.map_cons, List.sum_cons, List.flatMap_cons, List.length_append,
      List.map_append, sumInt_append, creditOf, List.any_cons]
    · omega
    · simp; omega
    · omega
    · by_cases h1 : x.creditItems.isEmpty = true <;> by_cases h2 : (r.any fun cl => !cl.creditItems.isEmpty) = true <;>
        simp [h1, h2]

/-! ### the rebuild keeps what the tallies look at -/

def bKey (b : Bundle Vals) : List (Item Vals) × List (Item Vals) := (b.checks, b.returns)

theorem gB_key (m : Model) (b b' : Bundle Vals) (h : gB m b = .ok b') : bKey b' = bKey b := by
  unfold gB at h
  cases hv : bundleValidate b with
  | some f => simp [hv] at h
  | none =>
    simp only [hv] at h
    have := bundleBuild_ok m b b' h
    subst this
    rfl

def clKey (cl : CashLetter Vals) : List Vals × Nat × Nat × List (List (Item Vals) × List (Item Vals)) :=
  (cl.creditItems, cl.credits.length, cl.rns.length, cl.bundles.map bKey)

theorem gCL_key (m : Model) (cl cl' : CashLetter Vals) (h : gCL m cl = .ok cl') : clKey cl' = clKey cl := by
  unfold gCL at h
  cases hv : clErr m cl with
  | some f => simp [hv] at h
  | none =>
    simp only [hv] at h
    cases hb : fileBundles m cl.bundles with
    | error e => simp [hb] at h
    | ok bs =>
      simp only [hb, Except.ok.injEq] at h
      subst h
      rw [fileBundles_eq] at hb
      have := mapE_keys (gB m) bKey (gB_key m) cl.bundles bs hb
      simp only [clKey, this]

theorem brc_key (b b' : Bundle Vals) (h : bKey b = bKey b') : bundleRecordCount b = bundleRecordCount b' := by
  simp only [bKey, Prod.mk.injEq] at h
  simp only [bundleRecordCount, h.1, h.2]

theorem itemsOfB_key (b b' : Bundle Vals) (h : bKey b = bKey b') : itemsOfB b = itemsOfB b' := by
  simp only [bKey, Prod.mk.injEq] at h
  simp only [itemsOfB, h.1, h.2]

theorem clrc_key (c c' : CashLetter Vals) (h : clKey c = clKey c') : clRecordCount c = clRecordCount c' := by
  simp only [clKey, Prod.mk.injEq] at h
  obtain ⟨h1, h2, h3, h4⟩ := h
  have := map_congr_key bKey bundleRecordCount brc_key c'.bundles c.bundles h4
  simp only [clRecordCount, h1, h2, h3, this]

theorem itemsOfCl_key (c c' : CashLetter Vals) (h : clKey c = clKey c') : itemsOfCl c = itemsOfCl c' := by
  simp only [clKey, Prod.mk.injEq] at h
  obtain ⟨h1, h2, h3, h4⟩ := h
  have := map_congr_key bKey itemsOfB itemsOfB_key c'.bundles c.bundles h4
  simp only [itemsOfCl, List.flatMap_def, this]

theorem credit_key (c c' : CashLetter Vals) (h : clKey c = clKey c') :
    (!c.creditItems.isEmpty) = (!c'.creditItems.isEmpty) := by
  simp only [clKey, Prod.mk.injEq] at h
  rw [h.1]

/-- the control record assembled from the final values of the locals, over the cash letters as given -/
def fcOf (m : Model) (f : File Vals) (l : List (CashLetter Vals)) : Vals :=
  let fc := newRec m Kind.fileControl
  let fc := fc.setI "CashLetterCount" (l.length : Int)
  let fc := fc.setI "TotalRecordCount" (((2 + (l.map clRecordCount).sum : Nat)) : Int)
  let fc := fc.setI "TotalItemCount" ((l.flatMap itemsOfCl).length : Int)
  let fc := fc.setI "FileTotalAmount" (amountOf (l.flatMap itemsOfCl))
  let fc := fc.setS "ImmediateOriginContactName" (f.control.s "ImmediateOriginContactName")
  let fc := fc.setS "ImmediateOriginContactPhoneNumber" (f.control.s "ImmediateOriginContactPhoneNumber")
  let fc := fc.setI "CreditTotalIndicator" (creditOf l 0)
  fc.setS "ID" (f.control.s "ID")

theorem fcOf_eq (m : Model) (f : File Vals) (l : List (CashLetter Vals)) : fcOf m f l = fileControlOf m f l := by
  unfold fcOf fileControlOf newRec creditOf amountOf itemsOfCl itemsOfB
  rfl

theorem fcOf_keys (m : Model) (f : File Vals) (l l' : List (CashLetter Vals)) (h : l'.map clKey = l.map clKey) :
    fcOf m f l' = fcOf m f l := by
  have hlen : l'.length = l.length := by
    have := congrArg List.length h
    simpa using this
  have h1 := map_congr_key clKey clRecordCount clrc_key l l' h
  have h2 := map_congr_key clKey itemsOfCl itemsOfCl_key l l' h
  have h3 := map_congr_key clKey (fun cl => !cl.creditItems.isEmpty) credit_key l l' h
  have h3' : l'.any (fun cl => !cl.creditItems.isEmpty) = l.any (fun cl => !cl.creditItems.isEmpty) := by
    have e : ∀ (x : List (CashLetter Vals)), x.any (fun cl => !cl.creditItems.isEmpty) =
        (x.map (fun cl => !cl.creditItems.isEmpty)).any id := by
      intro x; simp [List.any_map]
    rw [e, e, h3]
  simp only [fcOf, creditOf, hlen, h1, List.flatMap_def, h2, h3']

theorem fc_name (m : Model) (f : File Vals) (l : List (CashLetter Vals)) :
    (fileControlOf m f l).s "ImmediateOriginContactName" = f.control.s "ImmediateOriginContactName" := by
  simp [fileControlOf, Vals.setS, Vals.setI]

theorem fc_phone (m : Model) (f : File Vals) (l : List (CashLetter Vals)) :
    (fileControlOf m f l).s "ImmediateOriginContactPhoneNumber" = f.control.s "ImmediateOriginContactPhoneNumber" := by
  simp [fileControlOf, Vals.setS, Vals.setI]

/-- the locals of `File.Create` before the loops -/
def σ0 (n : Int) : Env :=
  Env.set (Env.set (Env.set (Env.set (Env.set [] "fileCashLetterCount" n) "fileTotalRecordCount" 2) "fileTotalItemCount" 0) "fileTotalAmount" 0) "creditIndicator" 0

theorem tally_σ0 (n : Int) : tally (σ0 n) = ⟨n, 2, 0, 0, 0⟩ := by
  rfl

/-- every statement of the translated method had a recognised shape -/
theorem create_recognised : Gen.F.recognised = true := by decide

/-- the bundle loop's body -/
theorem bundle_body (m : Model) (b : Bundle Vals) (σ : Env) :
    (match bundleValidate b with
      | some fld => (Except.error (ErrClass.bundle, fld) : Except BErr (Bundle Vals × Env))
      | none =>
        match Gen.B.build m b with
        | .error e => .error e
        | .ok b' => .ok (b', tB σ b)) =
    match gB m b with | .error e => .error e | .ok y => .ok (y, tB σ b) := by
  unfold gB
  rw [build_eq_model]
  cases bundleValidate b with
  | some f => rfl
  | none => rfl

-- the credit items, credits and routing number summaries of a cash letter, then its bundles
set_option hygiene false in
local macro "cl_tail" : tactic => `(tactic|
  (cases firstErr (vErr m Kind.creditItem) cl.creditItems with
   | some e => rfl
   | none =>
     cases firstErr (vErr m Kind.credit) cl.credits with
     | some e => rfl
     | none =>
       cases firstErr (fun r => match r with | some v => vErr m Kind.rns v | none => some (ErrClass.file, "RoutingNumberSummary")) cl.rns with
       | some e => rfl
       | none => cases fileBundles m cl.bundles <;> rfl))

/-- **`File.Create` as translated from file.go is the build model**, for every file -/
theorem create_eq_model (m : Model) (f : File Vals) : Gen.F.create m f = fileCreate m f := by
  unfold Gen.F.create fileCreate
  simp only [vOpt, isEmpty_len]
  cases vErr m Kind.fileHeader f.header with
  | some e => rfl
  | none =>
    by_cases he : f.cashLetters.isEmpty = true
    · simp only [he, if_true]
    · simp only [he, Bool.false_eq_true, if_false]
      rw [forMapE_split f.cashLetters (gCL m) tCl]
      · rw [fileCashLetters_eq]
        cases hm : mapE (gCL m) f.cashLetters with
        | error e => rfl
        | ok cls =>
          have hkeys := mapE_keys (gCL m) clKey (gCL_key m) f.cashLetters cls hm
          have hfc := fcOf_keys m f f.cashLetters cls hkeys
          rw [fcOf_eq, fcOf_eq] at hfc
          have hσ : (((((Env.set [] "fileCashLetterCount" (f.cashLetters.length : Int)).set "fileTotalRecordCount" 2).set "fileTotalItemCount" 0).set "fileTotalAmount" 0).set "creditIndicator" 0) = σ0 (f.cashLetters.length : Int) := rfl
          have ht := foldl_tCl f.cashLetters (σ0 (f.cashLetters.length : Int))
          rw [tally_σ0] at ht
          simp only [tally, Tally.mk.injEq] at ht
          obtain ⟨t1, t2, t3, t4, t5⟩ := ht
          simp only [hσ, t1, t2, t3, t4, t5, Option.map_some, Option.getD_some]
          have hco := fcOf_eq m f f.cashLetters
          unfold fcOf at hco
          dsimp only at hco
          have hz : ((0 : Int) + ((f.cashLetters.flatMap itemsOfCl).length : Int)) = ((f.cashLetters.flatMap itemsOfCl).length : Int) := by omega
          have hz2 : ((0 : Int) + amountOf (f.cashLetters.flatMap itemsOfCl)) = amountOf (f.cashLetters.flatMap itemsOfCl) := by omega
          have hz3 : ((2 : Int) + (((f.cashLetters.map clRecordCount).sum : Nat) : Int)) = (((2 + (f.cashLetters.map clRecordCount).sum : Nat)) : Int) := by omega
          rw [hz, hz2, hz3, hco, ← hfc, fc_name, fc_phone]
      · intro cl σ
        rw [forMapE_split cl.bundles (gB m) tB]
        · unfold gCL clErr
          rw [← fileBundles_eq]
          cases cashLetterValidate m cl with
          | some e => rfl
          | none =>
            cases cl.header with
            | none => cl_tail
            | some h =>
              dsimp only
              cases vErr m Kind.cashLetterHeader h with
              | some e => rfl
              | none => cl_tail
        · intro b σ'
          unfold gB
          rw [build_eq_model]
          cases bundleValidate b with
          | some fld => rfl
          | none => cases bundleBuild m b <;> rfl

end Icl.CreateEq
