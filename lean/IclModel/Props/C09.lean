/-
C09 — what the library accepts for writing, its own reader accepts back.

Walk completeness, proved on the build model (tied to the code by the build-verdict correspondence
on the full record × field × invalid-class matrix): a successful Bundle.build / File.Create has run
the record validator — the SAME rule tree the reader runs after parsing — on the bundle header, on
every check and return item, on each of their addenda and image views, on the rebuilt control, on
the cash letter header, credits, credit items and routing number summaries.  A record kind that the
walk forgets makes the corresponding theorem unprovable (before the recorded fixes the check / return
/ credit / cash-letter-header cases were false).  The second half of the property (valid records, once
written, parse back to valid records) is the C01 round trip; end to end the matrix is run against
the real Create / FileFromJSON / Writer / Reader.
-/
import IclModel.Build
namespace Icl.C09
open Icl

theorem firstErr_none {α} (f : α → Option BErr) (l : List α) : firstErr f l = none ↔ ∀ x ∈ l, f x = none := by
  induction l with
  | nil => simp [firstErr]
  | cons a r ih =>
    simp only [firstErr]
    cases h : f a with
    | some e => simp [h]
    | none => simp [h, ih]

theorem or_none {a b : Option BErr} : a.or b = none ↔ a = none ∧ b = none := by
  cases a <;> cases b <;> simp

/-- every record of a check item is valid -/
def CheckValid (m : Model) (cd : Item Vals) : Prop :=
  vErr m .checkDetail cd.detail = none ∧
  (∀ a ∈ cd.addA, vErr m .cdAddA a = none) ∧ (∀ a ∈ cd.addB, vErr m .cdAddB a = none) ∧
  (∀ a ∈ cd.addC, vErr m .cdAddC a = none) ∧ (∀ a ∈ cd.ivDetail, vErr m .ivDetail a = none) ∧
  (∀ a ∈ cd.ivData, vErr m .ivData a = none) ∧ (∀ a ∈ cd.ivAnalysis, vErr m .ivAnalysis a = none)

def ReturnValid (m : Model) (rd : Item Vals) : Prop :=
  vErr m .returnDetail rd.detail = none ∧
  (∀ a ∈ rd.addA, vErr m .rdAddA a = none) ∧ (∀ a ∈ rd.addB, vErr m .rdAddB a = none) ∧
  (∀ a ∈ rd.addC, vErr m .rdAddC a = none) ∧ (∀ a ∈ rd.addD, vErr m .rdAddD a = none) ∧
  (∀ a ∈ rd.ivDetail, vErr m .ivDetail a = none) ∧
  (∀ a ∈ rd.ivData, vErr m .ivData a = none) ∧ (∀ a ∈ rd.ivAnalysis, vErr m .ivAnalysis a = none)

theorem validateCheck_none (m : Model) (cd : Item Vals) (h : validateCheck m cd = none) : CheckValid m cd := by
  simp only [validateCheck, validateForwardItems, or_none, firstErr_none] at h
  exact ⟨h.1, h.2.1, h.2.2.1, h.2.2.2.1, h.2.2.2.2.1, h.2.2.2.2.2.1, h.2.2.2.2.2.2⟩

theorem validateReturn_none (m : Model) (rd : Item Vals) (h : validateReturn m rd = none) : ReturnValid m rd := by
  simp only [validateReturn, validateReturnItems, or_none, firstErr_none] at h
  exact ⟨h.1, h.2.1, h.2.2.1, h.2.2.2.1, h.2.2.2.2.1, h.2.2.2.2.2.1, h.2.2.2.2.2.2.1, h.2.2.2.2.2.2.2⟩

/-- **a built bundle holds only valid records**: header, every item with all its addenda and image
views, and the control record that will be written -/
theorem bundle_walk_complete (m : Model) (b b' : Bundle Vals) (h : bundleBuild m b = .ok b') :
    (∀ hd, b.header = some hd → vErr m .bundleHeader hd = none) ∧
    (∀ cd ∈ b'.checks, CheckValid m cd) ∧ (∀ rd ∈ b'.returns, ReturnValid m rd) ∧
    (∀ c, b'.control = some c → vErr m .bundleControl c = none) := by
  have hb := bundleBuild_ok m b b' h
  unfold bundleBuild at h
  split at h
  · cases h
  · rename_i hhdr
    split at h
    · cases h
    · split at h
      · cases h
      · rename_i hitems
        split at h
        · cases h
        · rename_i hctl
          subst hb
          simp only [or_none, firstErr_none] at hitems
          refine ⟨?_, ?_, ?_, ?_⟩
          · intro hd hh; simpa [hh] using hhdr
          · intro cd hcd; exact validateCheck_none m cd (hitems.1 cd hcd)
          · intro rd hrd; exact validateReturn_none m rd (hitems.2 rd hrd)
          · intro c hc
            simp only [Option.some.injEq] at hc
            subst hc; exact hctl

/-- every record of a bundle is valid -/
def BundleValid (m : Model) (b : Bundle Vals) : Prop :=
  (∀ hd, b.header = some hd → vErr m .bundleHeader hd = none) ∧
  (∀ cd ∈ b.checks, CheckValid m cd) ∧ (∀ rd ∈ b.returns, ReturnValid m rd) ∧
  (∀ c, b.control = some c → vErr m .bundleControl c = none)

theorem fileBundles_valid (m : Model) : ∀ (bs bs' : List (Bundle Vals)), fileBundles m bs = .ok bs' →
    ∀ b' ∈ bs', BundleValid m b'
  | [], bs', h, b', hb' => by
    simp only [fileBundles, Except.ok.injEq] at h
    subst h; simp at hb'
  | b :: r, bs', h, b', hb' => by
    simp only [fileBundles] at h
    split at h
    · cases h
    · split at h
      · cases h
      · rename_i b2 hb2
        split at h
        · cases h
        · rename_i rs hrs
          simp only [Except.ok.injEq] at h
          subst h
          simp only [List.mem_cons] at hb'
          rcases hb' with hb' | hb'
          · subst hb'
            have hw := bundle_walk_complete m b b' hb2
            have hok := bundleBuild_ok m b b' hb2
            refine ⟨?_, hw.2.1, hw.2.2.1, hw.2.2.2⟩
            intro hd hh
            apply hw.1 hd
            rw [hok] at hh
            exact hh
          · exact fileBundles_valid m r rs hrs b' hb'

/-- every record a cash letter holds below its control record is valid, and the cash letter passes the
container validation the reader runs at its control record (which validates the control record) -/
def CashLetterValid (m : Model) (cl : CashLetter Vals) : Prop :=
  (∀ hd, cl.header = some hd → vErr m .cashLetterHeader hd = none) ∧
  (∀ v ∈ cl.creditItems, vErr m .creditItem v = none) ∧ (∀ v ∈ cl.credits, vErr m .credit v = none) ∧
  (∀ r ∈ cl.rns, ∃ v, r = some v ∧ vErr m .rns v = none) ∧
  (∀ b ∈ cl.bundles, BundleValid m b)

theorem fileCashLetters_valid (m : Model) : ∀ (cls cls' : List (CashLetter Vals)), fileCashLetters m cls = .ok cls' →
    ∀ cl' ∈ cls', CashLetterValid m cl'
  | [], cls', h, cl', hcl' => by
    simp only [fileCashLetters, Except.ok.injEq] at h
    subst h; simp at hcl'
  | cl :: r, cls', h, cl', hcl' => by
    simp only [fileCashLetters] at h
    split at h
    · cases h
    · rename_i hv
      split at h
      · cases h
      · rename_i bs hbs
        split at h
        · cases h
        · rename_i rs hrs
          simp only [Except.ok.injEq] at h
          subst h
          simp only [List.mem_cons] at hcl'
          rcases hcl' with hcl' | hcl'
          · subst hcl'
            simp only [or_none, firstErr_none] at hv
            refine ⟨?_, hv.2.2.1, hv.2.2.2.1, ?_, fileBundles_valid m cl.bundles bs hbs⟩
            · intro hd hh
              have hh' : cl.header = some hd := hh
              have := hv.2.1
              simpa [hh'] using this
            · intro r hr
              have := hv.2.2.2.2 r hr
              cases r with
              | none => simp at this
              | some v => exact ⟨v, rfl, this⟩
          · exact fileCashLetters_valid m r rs hrs cl' hcl'

/-- **a created file holds only valid records** (file control excepted: its members are computed, and
the two caller-supplied ones are checked by File.Create itself): the file header, and in every cash
letter the header, credit items, credits, routing number summaries and every bundle with all its items,
addenda, image views and its rebuilt control -/
theorem file_walk_complete (m : Model) (f f' : File Vals) (h : fileCreate m f = .ok f') :
    vErr m .fileHeader f'.header = none ∧ ∀ cl ∈ f'.cashLetters, CashLetterValid m cl := by
  obtain ⟨cls, hcls, hf⟩ := fileCreate_ok m f f' h
  subst hf
  refine ⟨?_, fileCashLetters_valid m f.cashLetters cls hcls⟩
  unfold fileCreate at h
  split at h
  · cases h
  · rename_i hh; exact hh

end Icl.C09
