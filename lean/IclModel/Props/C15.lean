/-
C15 — JSON is a lossless, interchangeable carrier of a file.

Table obligations on the regenerated server schema: within every struct the JSON member names are
distinct even case-insensitively (encoding/json's matching rule), so no member can capture another's
value on decode; every exported member of a record that the X9 layout writes has a JSON member (no
field is reachable through X9 but not through JSON).  The rebuild that FileFromJSON performs
(File.Create) keeps the caller-settable members of the control records: model theorems
`bundle_keeps_user_members`.  The end-to-end round trip (Marshal → FileFromJSON → compare members and
X9 bytes in four encodings) is checked on generated fully-populated files.
-/
import IclModel.Gen.SchemaTables
import IclModel.Gen.Layouts
import IclModel.Build
namespace Icl.C15
open Icl

/-- no duplicate in a list of names -/
def noDup : List String → Bool
  | [] => true
  | x :: r => !r.contains x && noDup r

/-- no two members of a struct can be confused by encoding/json's case-insensitive matching -/
theorem member_names_distinct : (Gen.serverSchema.all fun p => noDup (p.2.map (·.jsonLower))) = true := by
  decide

/-- every exported field that a record's X9 layout writes is also a JSON member of that record -/
theorem layout_fields_have_json :
    (Gen.all.all fun L =>
      match Gen.serverSchema.get L.name with
      | none => false
      | some ms => L.write.all fun w =>
          w.conv == .lit || ["reserved", "reservedTwo", "reservedThree"].contains w.src || ms.any fun m => m.go == w.src) = true := by decide

@[simp] theorem setS_s (v : Vals) (k k' : String) (x : Bytes) : (v.setS k x).s k' = if k' = k then x else v.s k' := rfl
@[simp] theorem setI_s (v : Vals) (k k' : String) (x : Int) : (v.setI k x).s k' = v.s k' := rfl

/-- the rebuild keeps the bundle control's caller-settable members (ID, UserField) -/
theorem bundle_keeps_user_members (m : Model) (b b' : Bundle Vals) (old : Vals) (ho : b.control = some old)
    (h : bundleBuild m b = .ok b') :
    ∃ bc, b'.control = some bc ∧ bc.s "UserField" = old.s "UserField" ∧ bc.s "ID" = old.s "ID" := by
  have hb := bundleBuild_ok m b b' h
  subst hb
  exact ⟨_, rfl, by simp [bundleControlOf, ho], by simp [bundleControlOf, ho]⟩

end Icl.C15
