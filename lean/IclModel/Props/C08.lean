/-
C08 — character set and framing never change content.

Theorems about the model writer (`writeLine` / `writeFile` in Tree.lean, tied to writer.go by the
four-rendering correspondence stream):
  * both framings wrap the SAME body; the length prefix is `len(record.String())`;
  * for a record whose ASCII rendering is ASCII text the EBCDIC body is its byte-for-byte CP037
    transliteration, of the same length — so the prefix equals the number of bytes that follow;
  * record 52: the transliterated part is `toString(false)`, the image bytes are those of `String()`.
Length-prefix framing itself is lossless for arbitrary bytes (C01.framing_lp).
-/
import IclModel.Props.C01
import IclModel.Tree
import IclModel.Lemmas.Ebcdic
import IclModel.Lemmas.Framing
import IclModel.Lemmas.Render
namespace Icl.C08
open Icl

/-- **framing only wraps**: newline framing appends a line feed to the body, length-prefix framing
prepends the 4-byte big-endian length of `record.String()` to the same body -/
theorem framing_wraps_same_body (m : Model) (ebc : Bool) (k : Kind) (r : Option Vals) (body : Bytes)
    (hb : bodyOf m ebc k r = some body) :
    writeLine m ⟨false, ebc⟩ k r = some (body ++ [0x0A]) ∧
    (validSizeInt (lineOf m k r).length = true →
      writeLine m ⟨true, ebc⟩ k r = some (be32 (lineOf m k r).length ++ body)) := by
  constructor
  · simp [writeLine, hb]
  · intro hv
    simp [writeLine, hb, hv]

/-- **the prefix is exact under ASCII**: the body is the rendered record itself -/
theorem ascii_body_is_line (m : Model) (k : Kind) (r : Option Vals) :
    bodyOf m false k r = some (lineOf m k r) := by
  simp [bodyOf]

/-- **EBCDIC is the byte-for-byte transliteration** of an ASCII-text record (every record type other
than 52), hence of the same length: the prefix computed from the ASCII rendering is exact -/
theorem ebcdic_translit (m : Model) (k : Kind) (r : Option Vals) (hk : k ≠ .ivData)
    (ha : isAscii (lineOf m k r) = true) :
    bodyOf m true k r = some ((lineOf m k r).map (fun b => m.cm.encRune b.toNat)) ∧
    ∀ body, bodyOf m true k r = some body → body.length = (lineOf m k r).length := by
  have hbody : bodyOf m true k r = m.cm.encode (lineOf m k r) := by
    unfold bodyOf
    cases k <;> cases r <;> simp_all
  rw [hbody]
  exact ⟨encode_ascii _ _ ha, fun body hb => encode_ascii_length _ _ _ ha hb⟩

/-- record 52 under EBCDIC: text part transliterated byte for byte, image bytes exactly those of the
ASCII rendering -/
theorem ebcdic_ivData (m : Model) (v : Vals)
    (ha : isAscii (render m.b64 (m.layout .ivData).write false v) = true) :
    bodyOf m true .ivData (some v) =
      some ((render m.b64 (m.layout .ivData).write false v).map (fun b => m.cm.encRune b.toNat) ++
        ((m.layout .ivData).write.filter (·.imageOnly)).flatMap (fun f => renderField m.b64 f v)) := by
  simp [bodyOf, encode_ascii _ _ ha]

/-- **same file from all four renderings** (on the model): whenever the writer accepts a file under two
option sets and each rendering reads back (C01_write_read_lp / C01_write_read_nl give this from the
per-record premise), the two readings are the same file - character set and framing carry no content -/
theorem C08_same_file (m : Model) (f : File Vals) (e1 e2 : Enc) (b1 b2 : Bytes)
    (h1 : readFile m e1 b1 = (f, none)) (h2 : readFile m e2 b2 = (f, none)) :
    readFile m e1 b1 = readFile m e2 b2 := by rw [h1, h2]

/-- instantiated: length-prefixed ASCII against length-prefixed EBCDIC -/
theorem C08_same_file_lp (m : Model) (f : File Vals) (b1 b2 : Bytes)
    (hw1 : writeFile m ⟨true, false⟩ f = some b1) (hw2 : writeFile m ⟨true, true⟩ f = some b2) (hwf : Icl.C01.TreeWF f)
    (hok1 : Icl.C01.FileOK m ⟨true, false⟩ (Icl.C01.bodyLn m ⟨true, false⟩) f)
    (hok2 : Icl.C01.FileOK m ⟨true, true⟩ (Icl.C01.bodyLn m ⟨true, true⟩) f)
    (hbody : ∀ kr ∈ f.flatten, ∀ v, kr.2 = some v →
      (Icl.C01.bodyLn m ⟨true, true⟩ kr.1 v).length = (lineOf m kr.1 (some v)).length) :
    readFile m ⟨true, false⟩ b1 = readFile m ⟨true, true⟩ b2 :=
  C08_same_file m f _ _ b1 b2
    (Icl.C01.C01_write_read_lp_ascii m ⟨true, false⟩ f b1 rfl rfl hw1 hwf hok1)
    (Icl.C01.C01_write_read_lp m ⟨true, true⟩ f b2 rfl hw2 hwf hbody hok2)

end Icl.C08
