/-
The record handlers of reader.go (every case of `Reader.parseLine` with the `parse*` method it calls inlined) are
TRANSLATED statement by statement into Lean (Gen/ReaderT.lean, regenerated on every run).  For every record kind,
every reader state and every line of that kind the translated case and the reader model `rstep` (Tree.lean - the
function the C04 / C18 theorems speak about) agree: on success they leave the same reader state; on failure they
report the same error and leave the same partial file.
-/
import IclModel.Gen.ReaderT
namespace Icl.ReaderEq
open Icl

/-- what `Read` lets a caller see of one step: the next state, or the error with the partial file -/
def obs (r : Except (RState × RErr) RState) : Except (File Vals × RErr) RState :=
  match r with
  | .ok s => .ok s
  | .error (s, e) => .error (s.file, e)

theorem cdAddB_eq (m : Model) (e : Enc) (s : RState) (line : Bytes) (hk : kindOfLine line = some .cdAddB) :
    obs (Gen.R.parseCheckDetailAddendumB m e s line) = obs (rstep m e s line) := by
  unfold rstep Gen.R.parseCheckDetailAddendumB
  simp only [hk]
  by_cases hc : hasChecks { s with recordName := "CheckDetailAddendumB" } = true
  · simp only [hc]
    cases parseValidate m Kind.cdAddB id ((if e.ebcdic = true then m.cm.decode else id) line) ((m.layout Kind.cdAddB).new m.now) <;> rfl
  · simp only [hc]
    rfl

theorem cdAddC_eq (m : Model) (e : Enc) (s : RState) (line : Bytes) (hk : kindOfLine line = some .cdAddC) :
    obs (Gen.R.parseCheckDetailAddendumC m e s line) = obs (rstep m e s line) := by
  unfold rstep Gen.R.parseCheckDetailAddendumC
  simp only [hk]
  by_cases hc : hasChecks { s with recordName := "CheckDetailAddendumC" } = true
  · simp only [hc]
    cases parseValidate m Kind.cdAddC id ((if e.ebcdic = true then m.cm.decode else id) line) ((m.layout Kind.cdAddC).new m.now) <;> rfl
  · simp only [hc]
    rfl

theorem rdAddA_eq (m : Model) (e : Enc) (s : RState) (line : Bytes) (hk : kindOfLine line = some .rdAddA) :
    obs (Gen.R.parseReturnDetailAddendumA m e s line) = obs (rstep m e s line) := by
  unfold rstep Gen.R.parseReturnDetailAddendumA
  simp only [hk]
  by_cases hc : hasReturns { s with recordName := "ReturnDetailAddendumA" } = true
  · simp only [hc]
    cases parseValidate m Kind.rdAddA id ((if e.ebcdic = true then m.cm.decode else id) line) ((m.layout Kind.rdAddA).new m.now) <;> rfl
  · simp only [hc]
    rfl

theorem rdAddB_eq (m : Model) (e : Enc) (s : RState) (line : Bytes) (hk : kindOfLine line = some .rdAddB) :
    obs (Gen.R.parseReturnDetailAddendumB m e s line) = obs (rstep m e s line) := by
  unfold rstep Gen.R.parseReturnDetailAddendumB
  simp only [hk]
  by_cases hc : hasReturns { s with recordName := "ReturnDetailAddendumB" } = true
  · simp only [hc]
    cases parseValidate m Kind.rdAddB id ((if e.ebcdic = true then m.cm.decode else id) line) ((m.layout Kind.rdAddB).new m.now) <;> rfl
  · simp only [hc]
    rfl

theorem rdAddC_eq (m : Model) (e : Enc) (s : RState) (line : Bytes) (hk : kindOfLine line = some .rdAddC) :
    obs (Gen.R.parseReturnDetailAddendumC m e s line) = obs (rstep m e s line) := by
  unfold rstep Gen.R.parseReturnDetailAddendumC
  simp only [hk]
  by_cases hc : hasReturns { s with recordName := "ReturnDetailAddendumC" } = true
  · simp only [hc]
    cases parseValidate m Kind.rdAddC id ((if e.ebcdic = true then m.cm.decode else id) line) ((m.layout Kind.rdAddC).new m.now) <;> rfl
  · simp only [hc]
    rfl

theorem rdAddD_eq (m : Model) (e : Enc) (s : RState) (line : Bytes) (hk : kindOfLine line = some .rdAddD) :
    obs (Gen.R.parseReturnDetailAddendumD m e s line) = obs (rstep m e s line) := by
  unfold rstep Gen.R.parseReturnDetailAddendumD
  simp only [hk]
  by_cases hc : hasReturns { s with recordName := "ReturnDetailAddendumD" } = true
  · simp only [hc]
    cases parseValidate m Kind.rdAddD id ((if e.ebcdic = true then m.cm.decode else id) line) ((m.layout Kind.rdAddD).new m.now) <;> rfl
  · simp only [hc]
    rfl

theorem ibm_eq (frb ebc : Bool) (line : Bytes) :
    (if ebc = true then ibm1047 frb line else line) = ibm1047 (frb && ebc) line := by
  cases frb <;> cases ebc <;> simp [ibm1047]

theorem cdAddA_eq (m : Model) (e : Enc) (s : RState) (line : Bytes) (hk : kindOfLine line = some .cdAddA) :
    obs (Gen.R.parseCheckDetailAddendumA m e s line) = obs (rstep m e s line) := by
  unfold rstep Gen.R.parseCheckDetailAddendumA
  simp only [hk, ibm_eq]
  by_cases hc : hasChecks { s with recordName := "CheckDetailAddendumA" } = true
  · simp only [hc]
    cases parseValidate m Kind.cdAddA id ((if e.ebcdic = true then m.cm.decode else id) (ibm1047 (m.frb && e.ebcdic) line)) ((m.layout Kind.cdAddA).new m.now) <;> rfl
  · simp only [hc]
    rfl

theorem credit_eq (m : Model) (e : Enc) (s : RState) (line : Bytes) (hk : kindOfLine line = some .credit) :
    obs (Gen.R.parseCredit m e s line) = obs (rstep m e s line) := by
  unfold rstep Gen.R.parseCredit
  simp only [hk]
  by_cases hc : s.cur.header.isNone = true
  · simp only [hc]
    rfl
  · simp only [hc]
    cases parseValidate m Kind.credit id ((if e.ebcdic = true then m.cm.decode else id) line) {} <;> rfl

theorem creditItem_eq (m : Model) (e : Enc) (s : RState) (line : Bytes) (hk : kindOfLine line = some .creditItem) :
    obs (Gen.R.parseCreditItem m e s line) = obs (rstep m e s line) := by
  unfold rstep Gen.R.parseCreditItem
  simp only [hk]
  by_cases hc : s.cur.header.isNone = true
  · simp only [hc]
    rfl
  · simp only [hc]
    cases parseValidate m Kind.creditItem id ((if e.ebcdic = true then m.cm.decode else id) line) {} <;> rfl

theorem rns_eq (m : Model) (e : Enc) (s : RState) (line : Bytes) (hk : kindOfLine line = some .rns) :
    obs (Gen.R.parseRoutingNumberSummary m e s line) = obs (rstep m e s line) := by
  unfold rstep Gen.R.parseRoutingNumberSummary
  simp only [hk]
  by_cases hc : s.cur.header.isNone = true
  · simp only [hc]
    rfl
  · simp only [hc]
    cases parseValidate m Kind.rns id ((if e.ebcdic = true then m.cm.decode else id) line) ((m.layout Kind.rns).new m.now) <;> rfl

theorem cashLetterHeader_eq (m : Model) (e : Enc) (s : RState) (line : Bytes) (hk : kindOfLine line = some .cashLetterHeader) :
    obs (Gen.R.parseCashLetterHeader m e s line) = obs (rstep m e s line) := by
  unfold rstep Gen.R.parseCashLetterHeader
  simp only [hk]
  by_cases hc : s.cur.header.isSome = true
  · simp only [hc]
    rfl
  · simp only [hc]
    cases parseValidate m Kind.cashLetterHeader id ((if e.ebcdic = true then m.cm.decode else id) line) ((m.layout Kind.cashLetterHeader).new m.now) <;> rfl

theorem bundleHeader_eq (m : Model) (e : Enc) (s : RState) (line : Bytes) (hk : kindOfLine line = some .bundleHeader) :
    obs (Gen.R.parseBundleHeader m e s line) = obs (rstep m e s line) := by
  unfold rstep Gen.R.parseBundleHeader
  simp only [hk]
  cases hb : s.curBundle with
  | none =>
    simp only [ReaderRT.bundleHeader, hb]
    cases parseValidate m Kind.bundleHeader id ((if e.ebcdic = true then m.cm.decode else id) line) ((m.layout Kind.bundleHeader).new m.now) with
    | error f => rfl
    | ok v => by_cases hc : s.cur.header.isNone = true <;> simp [hc, obs, ReaderRT.newBundle, bind, Except.bind, pure, Except.pure, hb]
  | some b =>
    simp only [ReaderRT.bundleHeader, hb]
    by_cases hbh : b.header.isSome = true
    · simp [hbh, obs]
    · cases parseValidate m Kind.bundleHeader id ((if e.ebcdic = true then m.cm.decode else id) line) ((m.layout Kind.bundleHeader).new m.now) with
      | error f => simp [hbh, obs, bind, Except.bind]
      | ok v => by_cases hc : s.cur.header.isNone = true <;> simp [hbh, hc, obs, ReaderRT.newBundle, bind, Except.bind, pure, Except.pure, hb]

theorem checkDetail_eq (m : Model) (e : Enc) (s : RState) (line : Bytes) (hk : kindOfLine line = some .checkDetail) :
    obs (Gen.R.parseCheckDetail m e s line) = obs (rstep m e s line) := by
  unfold rstep Gen.R.parseCheckDetail
  simp only [hk]
  cases hb : s.curBundle with
  | none => simp [obs]
  | some b =>
    simp only [ReaderRT.bundleHeader, hasReturns, hb]
    cases parseValidate m Kind.checkDetail id ((if e.ebcdic = true then m.cm.decode else id) line) {} with
    | error f => simp [obs, bind, Except.bind]
    | ok v =>
      by_cases h1 : b.header.isNone = true
      · simp [h1, obs, bind, Except.bind]
      · by_cases h2 : b.returns.isEmpty = true <;>
          simp [h1, h2, obs, bind, Except.bind, pure, Except.pure, ReaderRT.appendItem_checks, ReaderRT.appendItem_returns, hb]

theorem returnDetail_eq (m : Model) (e : Enc) (s : RState) (line : Bytes) (hk : kindOfLine line = some .returnDetail) :
    obs (Gen.R.parseReturnDetail m e s line) = obs (rstep m e s line) := by
  unfold rstep Gen.R.parseReturnDetail
  simp only [hk]
  cases hb : s.curBundle with
  | none => simp [obs]
  | some b =>
    simp only [ReaderRT.bundleHeader, hasChecks, hb]
    cases parseValidate m Kind.returnDetail id ((if e.ebcdic = true then m.cm.decode else id) line) {} with
    | error f => simp [obs, bind, Except.bind]
    | ok v =>
      by_cases h1 : b.header.isNone = true
      · simp [h1, obs, bind, Except.bind]
      · by_cases h2 : b.checks.isEmpty = true <;>
          simp [h1, h2, obs, bind, Except.bind, pure, Except.pure, ReaderRT.appendItem_checks, ReaderRT.appendItem_returns, hb]

theorem ivDetail_eq (m : Model) (e : Enc) (s : RState) (line : Bytes) (hk : kindOfLine line = some .ivDetail) :
    obs (Gen.R.parseImageViewDetail m e s line) = obs (rstep m e s line) := by
  unfold rstep Gen.R.parseImageViewDetail
  simp only [hk]
  by_cases hc : hasChecks { s with recordName := "ImageViewDetail" } = true
  · simp only [hc]
    cases parseValidate m Kind.ivDetail id ((if e.ebcdic = true then m.cm.decode else id) line) ((m.layout Kind.ivDetail).new m.now) <;> rfl
  · simp only [hc]
    by_cases hr : hasReturns { s with recordName := "ImageViewDetail" } = true
    · simp only [hr]
      cases parseValidate m Kind.ivDetail id ((if e.ebcdic = true then m.cm.decode else id) line) ((m.layout Kind.ivDetail).new m.now) <;> rfl
    · simp only [hr]
      rfl

theorem ivData_eq (m : Model) (e : Enc) (s : RState) (line : Bytes) (hk : kindOfLine line = some .ivData) :
    obs (Gen.R.parseImageViewData m e s line) = obs (rstep m e s line) := by
  unfold rstep Gen.R.parseImageViewData
  simp only [hk]
  by_cases hc : hasChecks { s with recordName := "ImageViewData" } = true
  · simp only [hc]
    cases parseValidate m Kind.ivData (if e.ebcdic = true then m.cm.decode else id) line ((m.layout Kind.ivData).new m.now) <;> rfl
  · simp only [hc]
    by_cases hr : hasReturns { s with recordName := "ImageViewData" } = true
    · simp only [hr]
      cases parseValidate m Kind.ivData (if e.ebcdic = true then m.cm.decode else id) line ((m.layout Kind.ivData).new m.now) <;> rfl
    · simp only [hr]
      rfl

theorem ivAnalysis_eq (m : Model) (e : Enc) (s : RState) (line : Bytes) (hk : kindOfLine line = some .ivAnalysis) :
    obs (Gen.R.parseImageViewAnalysis m e s line) = obs (rstep m e s line) := by
  unfold rstep Gen.R.parseImageViewAnalysis
  simp only [hk]
  by_cases hc : hasChecks { s with recordName := "ImageViewAnalysis" } = true
  · simp only [hc]
    cases parseValidate m Kind.ivAnalysis id ((if e.ebcdic = true then m.cm.decode else id) line) ((m.layout Kind.ivAnalysis).new m.now) <;> rfl
  · simp only [hc]
    by_cases hr : hasReturns { s with recordName := "ImageViewAnalysis" } = true
    · simp only [hr]
      cases parseValidate m Kind.ivAnalysis id ((if e.ebcdic = true then m.cm.decode else id) line) ((m.layout Kind.ivAnalysis).new m.now) <;> rfl
    · simp only [hr]
      rfl

theorem bundleControl_eq (m : Model) (e : Enc) (s : RState) (line : Bytes) (hk : kindOfLine line = some .bundleControl) :
    obs (Gen.R.parseBundleControl m e s line) = obs (rstep m e s line) := by
  unfold rstep Gen.R.parseBundleControl
  simp only [hk]
  cases hb : s.curBundle with
  | none => simp [obs]
  | some b =>
    cases hc : b.control with
    | none => simp [obs, ReaderRT.bundleControl, hb, hc]
    | some c0 =>
      cases hp : parseValidate m Kind.bundleControl id ((if e.ebcdic = true then m.cm.decode else id) line) c0 with
      | error f => simp [obs, bind, Except.bind, ReaderRT.bundleControl, hb, hc, hp]
      | ok c =>
        cases hv : bundleValidate { b with control := some c } with
        | some f => simp [obs, bind, Except.bind, ReaderRT.bundleControl, ReaderRT.set_bundleControl, ReaderRT.validateCurBundle, hb, hc, hp, hv, RState.file, RState.err]
        | none => simp [obs, bind, Except.bind, pure, Except.pure, ReaderRT.bundleControl, ReaderRT.set_bundleControl, ReaderRT.validateCurBundle, hb, hc, hp, hv]

set_option hygiene false in
local macro "clc_tail" : tactic => `(tactic|
  (cases cct with
   | none => simp [obs, ReaderRT.bundleHeader, *]
   | some c0 =>
     cases hp : parseValidate m Kind.cashLetterControl id ((if e.ebcdic = true then m.cm.decode else id) line) c0 with
     | error f => simp [obs, bind, Except.bind, ReaderRT.bundleHeader, hp, *]
     | ok c =>
       cases hv : cashLetterValidate m { header := some h, bundles := cbs, credits := ccr, creditItems := cci, rns := crn, control := some c } with
       | some ef => simp [obs, bind, Except.bind, ReaderRT.bundleHeader, hp, ReaderRT.set_cashLetterControl, hv, RState.file, RState.err, *]
       | none => simp [obs, bind, Except.bind, pure, Except.pure, ReaderRT.bundleHeader, hp, ReaderRT.set_cashLetterControl, hv, *]))

theorem cashLetterControl_eq (m : Model) (e : Enc) (s : RState) (line : Bytes) (hk : kindOfLine line = some .cashLetterControl) :
    obs (Gen.R.parseCashLetterControl m e s line) = obs (rstep m e s line) := by
  rcases s with ⟨sh, sc, scl, ⟨ch, cbs, ccr, cci, crn, cct⟩, sb, srns, sl, srn, shu⟩
  unfold rstep Gen.R.parseCashLetterControl
  simp only [hk]
  cases ch with
  | none => simp [obs, ReaderRT.plainErr]
  | some h =>
    cases sb with
    | none => clc_tail
    | some b =>
      by_cases hbh : b.header.isSome = true
      · simp [obs, ReaderRT.bundleHeader, hbh]
      · clc_tail

theorem fileHeader_eq (m : Model) (e : Enc) (s : RState) (line : Bytes) (hk : kindOfLine line = some .fileHeader) :
    obs (Gen.R.parseFileHeader m e s line) = obs (rstep m e s line) := by
  unfold rstep Gen.R.parseFileHeader parseValidate
  simp only [hk]
  cases (m.layout Kind.fileHeader).parseRec id m.now ((if e.ebcdic = true then m.cm.decode else id) line) s.header with
  | panic => rfl
  | done v =>
    simp only []
    cases hv : m.validateK Kind.fileHeader v with
    | mk o v' => cases o <;> simp [obs, ReaderRT.setHeader, hv]

theorem fileControl_eq (m : Model) (e : Enc) (s : RState) (line : Bytes) (hk : kindOfLine line = some .fileControl) :
    obs (Gen.R.parseFileControl m e s line) = obs (rstep m e s line) := by
  unfold rstep Gen.R.parseFileControl parseValidate
  simp only [hk, ReaderRT.controlSet]
  by_cases h1 : (!(s.control.s "recordType").isEmpty) = true
  · simp [h1, obs]
  · by_cases h2 : s.cur.header.isSome = true
    · simp [h1, h2, obs]
    · simp only [h1, h2]
      cases (m.layout Kind.fileControl).parseRec id m.now ((if e.ebcdic = true then m.cm.decode else id) line) s.control with
      | panic => simp [obs]
      | done v =>
        cases hv : m.validateK Kind.fileControl v with
        | mk o v' => cases o <;> simp [obs, hv]

/-- the handler the switch is expected to call for each record kind -/
def handlerName : Kind → String
  | .fileHeader => "parseFileHeader"
  | .cashLetterHeader => "parseCashLetterHeader"
  | .bundleHeader => "parseBundleHeader"
  | .checkDetail => "parseCheckDetail"
  | .cdAddA => "parseCheckDetailAddendumA"
  | .cdAddB => "parseCheckDetailAddendumB"
  | .cdAddC => "parseCheckDetailAddendumC"
  | .returnDetail => "parseReturnDetail"
  | .rdAddA => "parseReturnDetailAddendumA"
  | .rdAddB => "parseReturnDetailAddendumB"
  | .rdAddC => "parseReturnDetailAddendumC"
  | .rdAddD => "parseReturnDetailAddendumD"
  | .ivDetail => "parseImageViewDetail"
  | .ivData => "parseImageViewData"
  | .ivAnalysis => "parseImageViewAnalysis"
  | .credit => "parseCredit"
  | .creditItem => "parseCreditItem"
  | .bundleControl => "parseBundleControl"
  | .rns => "parseRoutingNumberSummary"
  | .cashLetterControl => "parseCashLetterControl"
  | .fileControl => "parseFileControl"

/-- **the switch of `parseLine` selects by the same two bytes as the model**: for every two-byte prefix the case the
translated switch takes calls the handler of the kind the model assigns to the line (and no case when the model assigns none) -/
theorem dispatch_kind (T : Bytes) :
    (Gen.R.dispatch.find? (fun c => c.1.any (fun t => T == t))).map (·.2) =
    (Kind.all.find? (fun k => T == k.tag || T == ebcTag k.tag)).map handlerName := by
  by_cases h1 : T = [0x30, 0x31]
  · subst h1; decide
  by_cases h2 : T = [0xF0, 0xF1]
  · subst h2; decide
  by_cases h3 : T = [0x31, 0x30]
  · subst h3; decide
  by_cases h4 : T = [0xF1, 0xF0]
  · subst h4; decide
  by_cases h5 : T = [0x32, 0x30]
  · subst h5; decide
  by_cases h6 : T = [0xF2, 0xF0]
  · subst h6; decide
  by_cases h7 : T = [0x32, 0x35]
  · subst h7; decide
  by_cases h8 : T = [0xF2, 0xF5]
  · subst h8; decide
  by_cases h9 : T = [0x32, 0x36]
  · subst h9; decide
  by_cases h10 : T = [0xF2, 0xF6]
  · subst h10; decide
  by_cases h11 : T = [0x32, 0x37]
  · subst h11; decide
  by_cases h12 : T = [0xF2, 0xF7]
  · subst h12; decide
  by_cases h13 : T = [0x32, 0x38]
  · subst h13; decide
  by_cases h14 : T = [0xF2, 0xF8]
  · subst h14; decide
  by_cases h15 : T = [0x33, 0x31]
  · subst h15; decide
  by_cases h16 : T = [0xF3, 0xF1]
  · subst h16; decide
  by_cases h17 : T = [0x33, 0x32]
  · subst h17; decide
  by_cases h18 : T = [0xF3, 0xF2]
  · subst h18; decide
  by_cases h19 : T = [0x33, 0x33]
  · subst h19; decide
  by_cases h20 : T = [0xF3, 0xF3]
  · subst h20; decide
  by_cases h21 : T = [0x33, 0x34]
  · subst h21; decide
  by_cases h22 : T = [0xF3, 0xF4]
  · subst h22; decide
  by_cases h23 : T = [0x33, 0x35]
  · subst h23; decide
  by_cases h24 : T = [0xF3, 0xF5]
  · subst h24; decide
  by_cases h25 : T = [0x35, 0x30]
  · subst h25; decide
  by_cases h26 : T = [0xF5, 0xF0]
  · subst h26; decide
  by_cases h27 : T = [0x35, 0x32]
  · subst h27; decide
  by_cases h28 : T = [0xF5, 0xF2]
  · subst h28; decide
  by_cases h29 : T = [0x35, 0x34]
  · subst h29; decide
  by_cases h30 : T = [0xF5, 0xF4]
  · subst h30; decide
  by_cases h31 : T = [0x36, 0x31]
  · subst h31; decide
  by_cases h32 : T = [0xF6, 0xF1]
  · subst h32; decide
  by_cases h33 : T = [0x36, 0x32]
  · subst h33; decide
  by_cases h34 : T = [0xF6, 0xF2]
  · subst h34; decide
  by_cases h35 : T = [0x37, 0x30]
  · subst h35; decide
  by_cases h36 : T = [0xF7, 0xF0]
  · subst h36; decide
  by_cases h37 : T = [0x38, 0x35]
  · subst h37; decide
  by_cases h38 : T = [0xF8, 0xF5]
  · subst h38; decide
  by_cases h39 : T = [0x39, 0x30]
  · subst h39; decide
  by_cases h40 : T = [0xF9, 0xF0]
  · subst h40; decide
  by_cases h41 : T = [0x39, 0x39]
  · subst h41; decide
  by_cases h42 : T = [0xF9, 0xF9]
  · subst h42; decide
  simp [Gen.R.dispatch, Kind.all, Kind.tag, ebcTag, handlerName, h1, h2, h3, h4, h5, h6, h7, h8, h9, h10, h11, h12, h13, h14, h15, h16, h17, h18, h19, h20, h21, h22, h23, h24, h25, h26, h27, h28, h29, h30, h31, h32, h33, h34, h35, h36, h37, h38, h39, h40, h41, h42]

/-- every statement of `parseLine` and of the handlers had a recognised shape -/
theorem reader_recognised : Gen.R.recognised = true := by decide

/-- **`Reader.parseLine` as translated from reader.go is the reader model's step**: for every reader state and every
line, the same next state, or the same error with the same partial file -/
theorem step_eq (m : Model) (e : Enc) (s : RState) (line : Bytes) :
    obs (Gen.R.step m e s line) = obs (rstep m e s line) := by
  have hd := dispatch_kind (line.take 2)
  unfold Gen.R.step
  cases hk : kindOfLine line with
  | none =>
    have hk' : Kind.all.find? (fun k => line.take 2 == k.tag || line.take 2 == ebcTag k.tag) = none := hk
    rw [hk'] at hd
    cases hf : Gen.R.dispatch.find? (fun c => c.1.any (fun t => line.take 2 == t)) with
    | some c => rw [hf] at hd; simp at hd
    | none =>
      unfold rstep
      simp only [hk]
  | some k =>
    have hk' : Kind.all.find? (fun k => line.take 2 == k.tag || line.take 2 == ebcTag k.tag) = some k := hk
    rw [hk'] at hd
    cases hf : Gen.R.dispatch.find? (fun c => c.1.any (fun t => line.take 2 == t)) with
    | none => rw [hf] at hd; simp at hd
    | some c =>
      rw [hf] at hd
      simp only [Option.map_some, Option.some.injEq] at hd
      simp only [hd]
      cases k <;> simp only [handlerName, Gen.R.handlerOf] <;> simp <;>
        first | exact fileHeader_eq m e s line hk | exact cashLetterHeader_eq m e s line hk | exact bundleHeader_eq m e s line hk | exact checkDetail_eq m e s line hk | exact cdAddA_eq m e s line hk | exact cdAddB_eq m e s line hk | exact cdAddC_eq m e s line hk | exact returnDetail_eq m e s line hk | exact rdAddA_eq m e s line hk | exact rdAddB_eq m e s line hk | exact rdAddC_eq m e s line hk | exact rdAddD_eq m e s line hk | exact ivDetail_eq m e s line hk | exact ivData_eq m e s line hk | exact ivAnalysis_eq m e s line hk | exact credit_eq m e s line hk | exact creditItem_eq m e s line hk | exact bundleControl_eq m e s line hk | exact rns_eq m e s line hk | exact cashLetterControl_eq m e s line hk | exact fileControl_eq m e s line hk

/-- the loop of `Reader.Read` over already split lines, with the translated `parseLine` as its step -/
def readLinesT (m : Model) (e : Enc) : List Bytes → RState → RState × Option RErr
  | [], s => (s, none)
  | l :: r, s =>
    let s := { s with lineNum := s.lineNum + 1 }
    if l.length < minLen m e l then (s, some (s.err .file "RecordLength"))
    else match Gen.R.step m e s l with
      | .ok s' => readLinesT m e r s'
      | .error (s', er) => (s', some { er with line := s.lineNum })

/-- what `Read` returns of a run of the loop: the state when every line was accepted, else the partial file and the error -/
def obsL (r : RState × Option RErr) : Except (File Vals × RErr) RState :=
  match r.2 with
  | none => .ok r.1
  | some x => .error (r.1.file, x)

/-- **the record loop over the translated handlers returns what the model's loop returns**, for every sequence of
lines and every starting state -/
theorem readLinesT_eq (m : Model) (e : Enc) : ∀ (ls : List Bytes) (s : RState),
    obsL (readLinesT m e ls s) = obsL (readLines m e ls s) := by
  intro ls
  induction ls with
  | nil => intro s; rfl
  | cons l r ih =>
    intro s
    unfold readLinesT readLines
    simp only []
    by_cases hlen : l.length < minLen m e l
    · simp only [hlen, if_true]
    · simp only [hlen, if_false]
      have hs := step_eq m e { s with lineNum := s.lineNum + 1 } l
      cases hg : Gen.R.step m e { s with lineNum := s.lineNum + 1 } l with
      | ok s1 =>
        cases hr : rstep m e { s with lineNum := s.lineNum + 1 } l with
        | ok s2 =>
          rw [hg, hr] at hs
          simp only [obs, Except.ok.injEq] at hs
          subst hs
          exact ih s1
        | error p => rw [hg, hr] at hs; cases p; simp [obs] at hs
      | error p =>
        cases hr : rstep m e { s with lineNum := s.lineNum + 1 } l with
        | ok s2 => rw [hg, hr] at hs; cases p; simp [obs] at hs
        | error q =>
          rw [hg, hr] at hs
          obtain ⟨s1, e1⟩ := p
          obtain ⟨s2, e2⟩ := q
          simp only [obs, Except.error.injEq, Prod.mk.injEq] at hs
          simp only [obsL, hs.1, hs.2]

/-! ### the minimum record length -/

theorem utf8Encode_pos (r : Nat) : 1 ≤ (utf8Encode r).length := by
  unfold utf8Encode
  repeat' split
  all_goals simp

theorem decode_length_ge (cm : Charmap) : ∀ (x : Bytes), x.length ≤ (cm.decode x).length := by
  intro x
  unfold Charmap.decode
  induction x with
  | nil => simp
  | cons b r ih =>
    simp only [List.flatMap_cons, List.length_append, List.length_cons]
    have := utf8Encode_pos (cm.dec.getD b.toNat 0xFFFD)
    omega

theorem forWidths_eq (dec : Bytes → Bytes) (l : Bytes) : ∀ (ws : List Nat) (stop : Nat),
    (match ReaderRT.forWidths ws stop (fun width end_ =>
        if l.length < (end_ + width) then Sum.inl (end_ + width) else
        let field := dec ((l.drop end_).take ((end_ + width) - end_))
        let n : Int := parseNum field
        if n < 0 then Sum.inl (l.length + 1) else
        let end_ : Nat := end_ + (width + n.toNat)
        Sum.inr end_) with
      | Sum.inl r => r
      | Sum.inr end_ => end_) = ivMinLen dec l stop ws := by
  intro ws
  induction ws with
  | nil => intro stop; rfl
  | cons w r ih =>
    intro stop
    unfold ReaderRT.forWidths ivMinLen
    simp only [Nat.add_sub_cancel_left]
    by_cases h1 : l.length < stop + w
    · simp only [h1, if_true]
    · simp only [h1, if_false]
      by_cases h2 : parseNum (dec ((l.drop stop).take w)) < 0
      · simp only [h2, if_true]
      · simp only [h2, if_false]
        have := ih (stop + (w + (parseNum (dec ((l.drop stop).take w))).toNat))
        simp only [Nat.add_sub_cancel_left] at this
        rw [Nat.add_assoc]
        exact this

theorem kindOfLine_short (l : Bytes) (h : l.length < 2) : kindOfLine l = none := by
  unfold kindOfLine
  rw [List.find?_eq_none]
  intro k _
  have hl : (l.take 2).length < 2 := by simp only [List.length_take]; omega
  have h1 : (l.take 2 == k.tag) = false := by
    rw [beq_eq_false_iff_ne]; intro he; rw [he] at hl; cases k <;> simp [Kind.tag] at hl
  have h2 : (l.take 2 == ebcTag k.tag) = false := by
    rw [beq_eq_false_iff_ne]; intro he; rw [he] at hl; cases k <;> simp [Kind.tag, ebcTag] at hl
  simp [h1, h2]

theorem keyed_head (m : Model) (e : Enc) (l : Bytes) (h : ¬ l.length < 22) :
    ¬ ((if e.ebcdic = true then m.cm.decode else id) (l.take 22)).length < 22 := by
  have h22 : (l.take 22).length = 22 := by simp only [List.length_take]; omega
  cases e.ebcdic
  · simp only [Bool.false_eq_true, if_false, id, h22]; omega
  · simp only [if_true]
    have := decode_length_ge m.cm (l.take 22)
    omega

/-- **`Reader.minRecordLength` (with `minImageViewDataLength`) as translated from reader.go is the model's `minLen`** -/
theorem minRecordLength_eq (m : Model) (e : Enc) (l : Bytes) : Gen.R.minRecordLength m e l = minLen m e l := by
  unfold Gen.R.minRecordLength minLen Gen.R.minImageViewDataLength
  by_cases hs : l.length < 2
  · simp only [hs, if_true, kindOfLine_short l hs]
  · simp only [hs, if_false]
    have hkey : ∀ (X : Nat), (if l.length < 22 then 46 else
        if ((if e.ebcdic = true then m.cm.decode else id) (l.take 22)).length < 22 then 46 else X) =
        (if l.length < 22 then 46 else X) := by
      intro X
      by_cases h22 : l.length < 22
      · simp only [h22, if_true]
      · simp only [h22, if_false, keyed_head m e l h22]
    unfold kindOfLine
    generalize hT : l.take 2 = T
    by_cases h1 : T = [0x32, 0x37]
    · subst h1; simp only [hkey, forWidths_eq]; rfl
    by_cases h2 : T = [0xF2, 0xF7]
    · subst h2; simp only [hkey, forWidths_eq]; rfl
    by_cases h3 : T = [0x33, 0x34]
    · subst h3; simp only [hkey, forWidths_eq]; rfl
    by_cases h4 : T = [0xF3, 0xF4]
    · subst h4; simp only [hkey, forWidths_eq]; rfl
    by_cases h5 : T = [0x35, 0x32]
    · subst h5
      have e1 : ([[0x32, 0x37], [0xF2, 0xF7], [0x33, 0x34], [0xF3, 0xF4]] : List Bytes).contains [0x35, 0x32] = false := by decide
      have e2 : ([[0x35, 0x32], [0xF5, 0xF2]] : List Bytes).contains [0x35, 0x32] = true := by decide
      have e3 : Kind.all.find? (fun k => ([0x35, 0x32] : Bytes) == k.tag || ([0x35, 0x32] : Bytes) == ebcTag k.tag) = some Kind.ivData := by decide
      simp only [e1, e2, e3, Bool.false_eq_true, if_false, if_true]
      by_cases h80 : l.length < 80
      · simp only [h80, if_true]
      · simp only [h80, if_false]
        exact forWidths_eq _ l [4, 5, 7] 101
    by_cases h6 : T = [0xF5, 0xF2]
    · subst h6
      have e1 : ([[0x32, 0x37], [0xF2, 0xF7], [0x33, 0x34], [0xF3, 0xF4]] : List Bytes).contains [0xF5, 0xF2] = false := by decide
      have e2 : ([[0x35, 0x32], [0xF5, 0xF2]] : List Bytes).contains [0xF5, 0xF2] = true := by decide
      have e3 : Kind.all.find? (fun k => ([0xF5, 0xF2] : Bytes) == k.tag || ([0xF5, 0xF2] : Bytes) == ebcTag k.tag) = some Kind.ivData := by decide
      simp only [e1, e2, e3, Bool.false_eq_true, if_false, if_true]
      by_cases h80 : l.length < 80
      · simp only [h80, if_true]
      · simp only [h80, if_false]
        exact forWidths_eq _ l [4, 5, 7] 101
    have c1 : ([[0x32, 0x37], [0xF2, 0xF7], [0x33, 0x34], [0xF3, 0xF4]] : List Bytes).contains T = false := by
      have b1 : (T == [0x32, 0x37]) = false := beq_eq_false_iff_ne.mpr h1
      have b2 : (T == [0xF2, 0xF7]) = false := beq_eq_false_iff_ne.mpr h2
      have b3 : (T == [0x33, 0x34]) = false := beq_eq_false_iff_ne.mpr h3
      have b4 : (T == [0xF3, 0xF4]) = false := beq_eq_false_iff_ne.mpr h4
      simp only [List.contains, List.elem, b1, b2, b3, b4]
    have c2 : ([[0x35, 0x32], [0xF5, 0xF2]] : List Bytes).contains T = false := by
      have b5 : (T == [0x35, 0x32]) = false := beq_eq_false_iff_ne.mpr h5
      have b6 : (T == [0xF5, 0xF2]) = false := beq_eq_false_iff_ne.mpr h6
      simp only [List.contains, List.elem, b5, b6]
    simp only [c1, c2, Bool.false_eq_true, if_false]
    cases hk : Kind.all.find? (fun k => T == k.tag || T == ebcTag k.tag) with
    | none => rfl
    | some k =>
      have hp := List.find?_some hk
      cases k <;> first | rfl | (exfalso; simp [Kind.tag, ebcTag] at hp; simp_all)

/-- an error reported by a step of the model carries the number of the current line -/
theorem rstep_err_line (m : Model) (e : Enc) (s : RState) (l : Bytes) (s' : RState) (er : RErr)
    (h : rstep m e s l = .error (s', er)) : er.line = s.lineNum := by
  unfold rstep at h
  simp only [] at h
  repeat' split at h
  all_goals (try (cases h <;> rfl))
  all_goals (simp only [bind, Except.bind] at h; repeat' split at h)
  all_goals (try (cases h <;> rfl))

/-- the scan loop of `Reader.Read` as translated: `readBody` for every line until one is refused -/
def readLinesB (m : Model) (e : Enc) : List Bytes → RState → RState × Option RErr
  | [], s => (s, none)
  | l :: r, s =>
    match Gen.R.readBody m e s l with
    | .ok s' => readLinesB m e r s'
    | .error (s', er) => (s', some er)

/-- **the scan loop of `Reader.Read` as translated from reader.go returns what the model's loop returns** (with `minRecordLength_eq` for the length check) -/
theorem readLinesB_eq (m : Model) (e : Enc) : ∀ (ls : List Bytes) (s : RState),
    obsL (readLinesB m e ls s) = obsL (readLines m e ls s) := by
  intro ls
  induction ls with
  | nil => intro s; rfl
  | cons l r ih =>
    intro s
    unfold readLinesB readLines Gen.R.readBody
    simp only [minRecordLength_eq]
    by_cases hlen : l.length < minLen m e l
    · simp only [hlen, if_true]
    · simp only [hlen, if_false]
      have hs := step_eq m e { s with lineNum := s.lineNum + 1 } l
      cases hg : Gen.R.step m e { s with lineNum := s.lineNum + 1 } l with
      | ok s1 =>
        cases hr : rstep m e { s with lineNum := s.lineNum + 1 } l with
        | ok s2 =>
          rw [hg, hr] at hs
          simp only [obs, Except.ok.injEq] at hs
          subst hs
          exact ih s1
        | error p => rw [hg, hr] at hs; cases p; simp [obs] at hs
      | error p =>
        cases hr : rstep m e { s with lineNum := s.lineNum + 1 } l with
        | ok s2 => rw [hg, hr] at hs; cases p; simp [obs] at hs
        | error q =>
          rw [hg, hr] at hs
          obtain ⟨s1, e1⟩ := p
          obtain ⟨s2, e2⟩ := q
          simp only [obs, Except.error.injEq, Prod.mk.injEq] at hs
          have hline := rstep_err_line m e _ l s2 e2 hr
          have he2 : ({ e2 with line := s.lineNum + 1 } : RErr) = e2 := by
            cases e2; simp only [RErr.mk.injEq, and_true, true_and] at hline ⊢; exact hline.symm
          simp only [obsL, hs.1, hs.2, he2]

/-- **the checks `Reader.Read` makes behind the scan loop, as translated, are the model's** -/
theorem readFinish_eq (s : RState) (scanErr : Bool) :
    Gen.R.readFinish s scanErr =
      (if scanErr then some { wrapped := true, line := s.lineNum, record := s.recordName, cls := .file, field := "LineNumber" }
       else if s.headerUntouched then some { wrapped := true, line := s.lineNum, record := "FileHeader", cls := .file, field := "" }
       else if (s.control.s "recordType").isEmpty then some { wrapped := true, line := s.lineNum, record := "FileControl", cls := .file, field := "" }
       else if s.cur.header.isSome then some { wrapped := true, line := s.lineNum, record := "CashLetterControl", cls := .file, field := "" }
       else none) := by
  unfold Gen.R.readFinish ReaderRT.controlSet RState.err
  cases scanErr <;> cases s.headerUntouched <;> cases (s.control.s "recordType").isEmpty <;> cases s.cur.header.isSome <;> rfl

end Icl.ReaderEq
